"""C02 — JSSP Hamiltonian energies (shared harness: encoder_corr.py)."""
import encoder_corr

META = {
    "lean_modules": ["QVerif.Props.C02", "QVerif.Props.C15"],
    "drivers": ["Encoder"],
    "theorems": ['QVerif.Encoder.makespan_orders_energy', 'QVerif.Encoder.ground_state_optimal', 'QVerif.Encoder.energy_feasible_makespan', 'QVerif.Encoder.endSum_lt_of_makespan_lt', 'QVerif.Encoder.pow_sum_lt', 'QVerif.Encoder.feasible_below_infeasible', 'QVerif.Encoder.decode_complete_vars', 'QVerif.Encoder.feasible_in_window'],
    "level": "proof",
    "level_text": "Proof (exact rationals): with the pure makespan objective a feasible state's energy is W x sum_j (n+1)^(end_j) / (n (n+1)^limit) (energy_feasible_makespan); a strictly smaller makespan gives strictly smaller energy (makespan_orders_energy, from n (n+1)^m < (n+1)^(m+1)); every minimum-energy bitstring decodes to a feasible schedule whose makespan is <= that of every feasible state (ground_state_optimal, using C01's separation), and by C15 (decode_complete_vars, feasible_in_window) every feasible schedule within the limit is such a state - so the ground state attains the optimum. Strictness in IEEE doubles for limit - makespan >~ 30-50 is outside the exact model.",
    "level_note": "Trusted: Lean kernel + standard axioms; hand-written exact-rational model tied to the float implementation by comparing ALL 2^n eigenvalues of "
    "get_problem_hamiltonian() with the model (tolerance 1e-9 x sum |coefficients|) on generated instances; Qiskit SparsePauliOp arithmetic on I/Z strings. "
    "Float effects (loss of strictness for large limit - makespan, overflow of (n+1)^limit) are outside the model.",
    "rule": "cases = instances (1-4 jobs, 1-4 machines, durations 1-3, degenerate shapes) x limits x penalty configurations of the documented regime (defaults, "
    "boundary W = P_c = P_enc, dyadic random, shares 0, 1/4, 1/2, 1); for n <= 11 (13 thorough) qubits ALL 2^n energies and decodings are compared with the model; "
    "fixed instances with three/four operations on one machine and large slack (14-15 qubits, oracle only); oracle on the implementation: every clause of the "
    "property evaluated on the real diagonal with decodings from translate_result_bitstring and an independent exhaustive job-shop solver. "
    "non-trivial = >= 2 jobs and >= 2 qubits; distinct = (instance, limit, penalties)",
    "trusted_base": ["Lean 4 kernel; axioms per theorem under coverage.theorems", "harness/corr_C02.py, encoder_corr.py, Driver/Encoder.lean",
                     "Qiskit SparsePauliOp arithmetic on I/Z strings is pointwise on the computational-basis diagonal"],
    "assumptions": ["exact rational arithmetic in the model; float comparison tolerance 1e-9 x sum|coeff|"],
}


def run(ctx):
    encoder_corr.run_cluster(ctx, "C02")


def replay(ctx, case):
    encoder_corr.replay_case(ctx, "C02", case)
