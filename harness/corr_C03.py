"""C03 — circuit evaluators return the true objective through every primitive wrapper.

Oracle: every evaluator kind x wrapper stack x batch position against an independently computed objective (Statevector).
Correspondence with Model/Pipeline.lean: the observable the transpiling estimator submits vs `opApplyLayout` with the final index
layout of the transpiled circuit, evaluator values on classical (X/CX) circuits vs `opVal`, the physical basis state vs `place`,
which pubs reach the primitive vs `evaluate`, and the slice a batching caller receives vs `Stack.wrap (.batching …)`."""
from __future__ import annotations

import threading
from fractions import Fraction as F

import numpy as np

META = {
    "lean_modules": ["QVerif.Props.C03", "QVerif.Props.C14", "QVerif.Props.C06"],
    "drivers": ["Pipeline"],
    "theorems": [
        "QVerif.Pipeline.stack_pointwise",
        "QVerif.Pipeline.sampler_evaluate_spec",
        "QVerif.Pipeline.sampler_evaluate_at",
        "QVerif.Pipeline.estimator_evaluate_spec",
        "QVerif.Pipeline.estimator_evaluate_at",
        "QVerif.Pipeline.transpileSampler_sound",
        "QVerif.Pipeline.sampler_evaluateS_spec",
        "QVerif.Pipeline.sampler_value_is_cvar",
        "QVerif.Pipeline.quasi_mass_one",
        "QVerif.Pipeline.transpileSPub_sound",
        "QVerif.Pipeline.override_shots_is_wrong",
        "QVerif.Pipeline.transpileEstimator_sound",
        "QVerif.Pipeline.layout_invariance",
        "QVerif.Pipeline.op_layout_invariance",
        "QVerif.Pipeline.mix_layout_invariance",
        "QVerif.Pipeline.expval_layout_invariance",
        "QVerif.Pipeline.opExpval_layout_invariance",
        "QVerif.Pipeline.amp_place",
        "QVerif.Pipeline.place_injective",
        "QVerif.Pipeline.initial_layout_is_wrong",
        "QVerif.Pipeline.no_layout_is_wrong",
        "QVerif.Cvar.cvar_is_min",
        "QVerif.Cvar.operator_eq_bitstring",
        "Runner.C06_slice_is_own_results",
    ],
    "level": "proof",
    "level_text": "Partial proof. Proved (Model/Pipeline.lean): (0) shot counts travel with the pubs — through every sound stack, whatever other callers with whatever shot counts "
    "share a batch, value i is the aggregation of a probability distribution (non-negative, mass one: the hypotheses of the C14 theorems) when the sampler honours each pub's shots "
    "(sampler_evaluateS_spec, quasi_mass_one; witness override_shots_is_wrong), and composed with C14: the returned value is within (1e-8 + 1e-5 alpha) max|f| / alpha of the exact "
    "CVaR of that distribution, at every batch position (sampler_value_is_cvar); (1) any stack of transpiling / mutex / batching wrappers around an ideal primitive (result i a function of pub i) "
    "is again ideal with the same answers whenever each rewriting preserves a pub's answer, whatever other callers put into a batch (stack_pointwise; the batching "
    "wrapper's internals are C06's theorems); (2) for all three evaluator kinds, value i is the objective of (initial state o circuit i) with parameter vector i — every "
    "batch position (…_evaluate_spec/_at; the objective from counts is C14's model); (3) the estimator wrapper's re-layout: a Pauli operator laid out with the FINAL index "
    "layout of the transpiled circuit has the same value on the physically placed state, for every injective layout with ancillas, every Pauli operator and every "
    "computational-basis state and mixture (layout_invariance, op_/mix_) AND for every pure state given by finitely many Gaussian-rational amplitudes — "
    "<psi'|P'|psi'> = <psi|P|psi> for every Pauli string incl. X and Y (expval_layout_invariance, opExpval_…; phases i^k and bit flips commute with the placement, "
    "place is injective); kernel-checked witnesses that the initial layout or no re-layout is wrong. NOT proved: that Qiskit pass managers are semantics preserving (the "
    "transpiled circuit prepares the placed state), irrational amplitudes (density), and the primitives' own physics — these are parameters/assumptions of the model; on "
    "them the check relies on the oracle (exact fake primitives vs Statevector).",
    "level_note": "Trusted: Lean kernel + standard axioms; Qiskit (transpiler, Statevector, apply_layout), the fake exact primitives (harness/fakes.py); the tie between model "
    "and code is the correspondence: submitted observable, value on classical circuits, physical placement, pubs reaching the primitive, batch slices.",
    "rule": "cases = evaluator kind (operator+estimator with arbitrary Pauli operators, operator+sampler with diagonal operators and alpha in {1, 1/2, 1/4}, bitstring "
    "function) x 1-3 parameterised circuits (EVQE individuals' circuits or RY/CX chains with a long-range CX) on 2-4 qubits x optional initial state (X / X+H) x wrapper "
    "stack (plain, mutex, batching with 2-3 concurrent callers, transpiling with level-0 / layout-changing (line device of n+2 qubits, random initial layout) / routing "
    "pass managers, transpiling over batching/mutex as the solver stacks them); oracle = Statevector objective, tolerance 1e-9 (estimator) or the sampler's resolution "
    "2*outcomes*max|f|/(alpha*shots) with shots = 2^16; classical cases (X/CX circuits) additionally compared with the model. non-trivial = stack contains a wrapper; "
    "distinct = (kind, stack, circuits, parameters, operator)",
    "trusted_base": ["Lean 4 kernel; axioms per theorem under coverage.theorems", "harness/corr_C03.py, fakes.py, Driver/Pipeline.lean", "Qiskit transpiler/Statevector"],
    "assumptions": ["pass managers are semantics preserving and report their layout in circuit.layout", "a pass manager is run by one thread at a time (the wrappers' lock, finding F15)", "primitives answer each pub independently of the rest of the batch"],
}

SHOTS = 2**16
_ID = [0]


# ------------------------------------------------------------------------------------------------ recording fakes
def make_fakes():
    import fakes
    from qiskit.primitives import PrimitiveResult, PubResult, SamplerPubResult
    from qiskit.primitives.containers import BitArray, DataBin
    from qiskit.quantum_info import SparsePauliOp, Statevector

    class RecEstimator(fakes.ExactEstimator):
        """exact estimator; records every batch; result metadata carries the parameter values of the pub"""

        def __init__(self):
            super().__init__()
            self.batches = []
            self.fail_on = set()  # numbers of the invocations that raise

        def _run(self, pubs):
            with self.lock:
                self.batches.append(list(pubs))
                no = len(self.batches) - 1
            if no in self.fail_on:
                raise RuntimeError(f"injected fault in invocation {no}")
            res = super()._run(pubs)
            out = []
            for pub, r in zip(pubs, res):
                out.append(PubResult(r.data, metadata={"params": tuple(float(x) for x in np.asarray(pub.parameter_values.as_array()).ravel())}))
            return PrimitiveResult(out, metadata={})

    class RecSampler(fakes.ExactSampler):
        def __init__(self):
            super().__init__(SHOTS)
            self.batches = []
            self.fail_on = set()

        def _run(self, pubs):
            with self.lock:
                self.batches.append(list(pubs))
                no = len(self.batches) - 1
            if no in self.fail_on:
                raise RuntimeError(f"injected fault in invocation {no}")
            res = super()._run(pubs)
            out = []
            for pub, r in zip(pubs, res):
                out.append(SamplerPubResult(r.data, metadata={"shots": pub.shots, "params": tuple(float(x) for x in np.asarray(pub.parameter_values.as_array()).ravel())}))
            return PrimitiveResult(out, metadata={})

    return RecEstimator, RecSampler


# ------------------------------------------------------------------------------------------------ generators
def gen_circuit(rng, nq, classical):
    """(parameterised circuit, parameter values)"""
    from qiskit.circuit import Parameter, QuantumCircuit

    from queasars.minimum_eigensolvers.evqe.evolutionary_algorithm.individual import EVQEIndividual

    if classical:
        qc = QuantumCircuit(nq)
        ps = []
        for q in range(nq):
            p = Parameter(f"t{q}")
            qc.rx(p, q)  # rx(0) = identity, rx(pi) = X up to phase: the circuit stays classical for values in {0, pi}
            ps.append(rng.choice([0.0, float(np.pi)]))
        for _ in range(rng.randint(1, 3)):
            a, b = rng.sample(range(nq), 2)
            qc.cx(a, b)
        if nq >= 3:
            qc.cx(0, nq - 1)
        # a phase that identifies the pub (the state stays a basis state): parameter names sort it last
        _ID[0] += 1
        qc.rz(Parameter("zz_id"), 0)
        ps.append((_ID[0] % 5000) * 1e-4 + 1e-5)
        return qc, ps
    r = rng.random()
    if r < 0.4:
        x = EVQEIndividual.random_individual(nq, rng.randint(1, 2), True, rng.randrange(2**31))
        return x.get_parameterized_quantum_circuit(), [float(v) for v in x.get_parameter_values()]
    if r < 0.6:
        # a ParameterVector with more than ten elements: Qiskit orders its elements by index (t[2] before t[10]), not by name
        from qiskit.circuit import ParameterVector

        k = rng.randint(11, 14)
        tv = ParameterVector("t", k)
        qc = QuantumCircuit(nq)
        for j in range(k):
            (qc.ry if j % 2 == 0 else qc.rz)(tv[j], j % nq)
            if j % nq == nq - 1 and nq > 1:
                qc.cx(0, nq - 1)
        return qc, [rng.uniform(0, 2 * np.pi) for _ in range(k)]
    qc = QuantumCircuit(nq)
    ps = []
    for q in range(nq):
        p = Parameter(f"a{q}")
        qc.ry(p, q)
        ps.append(rng.uniform(0, 2 * np.pi))
    for q in range(nq - 1):
        qc.cx(q, q + 1)
    if nq >= 3:
        qc.cx(0, nq - 1)  # long range: needs routing on a line
        p = Parameter("b")
        qc.rz(p, nq - 1)
        qc.ry(p, 0)
        ps.append(rng.uniform(0, 2 * np.pi))
    return qc, ps


def gen_init(rng, nq, classical):
    from qiskit.circuit import QuantumCircuit

    m = rng.randrange(3)
    if m == 0:
        return None
    # the initial-state circuit may own (idle) classical registers: they do not change the prepared state
    c = rng.randrange(4)
    if c == 0:
        qc = QuantumCircuit(nq, nq)
    elif c == 1:
        from qiskit.circuit import ClassicalRegister, QuantumRegister

        qc = QuantumCircuit(QuantumRegister(nq, "q"), ClassicalRegister(1, "flag"))
    else:
        qc = QuantumCircuit(nq)
    qc.x(rng.randrange(nq))
    if m == 2 and not classical:
        qc.h(nq - 1)
    return qc


def gen_pm(rng, nq, kind):
    from qiskit.transpiler import CouplingMap, generate_preset_pass_manager

    if kind == "level0":
        return generate_preset_pass_manager(optimization_level=0)
    m = nq + rng.choice([0, 1, 2])
    layout = rng.sample(range(m), nq)
    lvl = rng.choice([0, 1]) if kind == "layout" else rng.choice([0, 1, 2])
    return generate_preset_pass_manager(optimization_level=lvl, coupling_map=CouplingMap.from_line(m), initial_layout=layout, seed_transpiler=rng.randrange(1000))


# "outer>inner": the wrappers of `inner` are applied first, those of `outer` around them — the batching / mutex wrapper in FRONT of the transpiling
# wrapper, and the stack a second solver builds when a configuration object is used again (finding F16)
STACKS = ["plain", "mutex", "batching", "T:level0", "T:layout", "T:routing", "T:routing+batching", "T:layout+mutex", "T:level0+batching",
          "batching>T:level0", "mutex>T:layout", "T:level0+batching>T:level0+batching"]


def build_stack(rng, nq, stack, prim, is_sampler):
    from queasars.circuit_evaluation.mutex_primitives import BatchingMutexEstimator, BatchingMutexSampler, MutexEstimator, MutexSampler
    from queasars.circuit_evaluation.transpiling_primitives import TranspilingEstimatorV2, TranspilingSamplerV2

    p = prim
    if ">" in stack:
        outer, inner = stack.split(">", 1)
        return build_stack(rng, nq, outer, build_stack(rng, nq, inner, prim, is_sampler), is_sampler)
    if "batching" in stack:
        p = (BatchingMutexSampler if is_sampler else BatchingMutexEstimator)(p, waiting_duration=0.02)
    if "mutex" in stack:
        p = (MutexSampler if is_sampler else MutexEstimator)(p)
    if stack.startswith("T:"):
        kind = stack[2:].split("+")[0]
        pm = gen_pm(rng, nq, kind)
        p = (TranspilingSamplerV2 if is_sampler else TranspilingEstimatorV2)(p, pm)
    return p


def gen_pauli_op(rng, nq, diagonal):
    from qiskit.quantum_info import SparsePauliOp

    alphabet = "IZ" if diagonal else "IXYZ"
    labels = set()
    while len(labels) < rng.randint(1, 4):
        labels.add("".join(rng.choice(alphabet) for _ in range(nq)))
    labels = sorted(labels)
    if rng.random() < 0.3:
        # an un-simplified sum (op1 + op2): the same Pauli string twice, each with its own coefficient
        labels.append(rng.choice(labels))
        coeffs = [rng.randint(-6, 6) / 2 or 1.0 for _ in labels]
        first = labels.index(labels[-1])
        if coeffs[first] + coeffs[-1] == 0:
            coeffs[-1] = coeffs[first] / 2  # the zero operator is rejected by qiskit itself ("Empty observable")
        return SparsePauliOp(labels, coeffs)
    coeffs = [rng.randint(-6, 6) / 2 or 1.0 for _ in labels]
    return SparsePauliOp(labels, coeffs)


# ------------------------------------------------------------------------------------------------ independent objective
def compose(init, qc, params):
    from qiskit.circuit import QuantumCircuit

    full = QuantumCircuit(qc.num_qubits)
    if init is not None:
        for inst in init.data:  # quantum instructions only (the initial state may own idle classical registers)
            full.append(inst.operation, [init.find_bit(q).index for q in inst.qubits])
    full.compose(qc.assign_parameters(params), inplace=True)
    return full


def ideal_probs(init, qc, params):
    from qiskit.quantum_info import Statevector

    return {k: float(v) for k, v in Statevector(compose(init, qc, params)).probabilities_dict().items() if v > 1e-15}


def cvar(pairs, alpha):
    rem, tot = alpha, 0.0
    for p, v in sorted(pairs, key=lambda x: x[1]):
        q = min(rem, p)
        tot += q * v
        rem -= q
        if rem <= 1e-15:
            break
    return tot / alpha


def diag_of(op, bits):
    """value of a diagonal SparsePauliOp on a bitstring (qubit q = bits[-(q+1)])"""
    tot = 0.0
    n = len(bits)
    for label, c in zip(op.paulis.to_labels(), op.coeffs):
        sign = 1
        for q in range(n):
            if label[n - 1 - q] == "Z" and bits[n - 1 - q] == "1":
                sign = -sign
        tot += sign * float(np.real(c))
    return tot


def expected(kind, op, table, alpha, init, qc, p, nq):
    """(objective of initial state + bound circuit, tolerance = resolution of the fake primitive)"""
    from qiskit.quantum_info import Statevector

    if kind == "estimator":
        return float(np.real(Statevector(compose(init, qc, p)).expectation_value(op))), 1e-9
    probs = ideal_probs(init, qc, p)
    f = (lambda b: diag_of(op, b)) if kind == "operator_sampler" else (lambda b: table[b])
    pairs = [(pr, f(b)) for b, pr in probs.items()]
    maxf = max(abs(f(format(j, f"0{nq}b"))) for j in range(2**nq))
    return cvar(pairs, alpha), 2 * (2**nq) * maxf / (alpha * SHOTS) + 4 * (1e-8 + 1e-5 * alpha) * maxf / alpha + 1e-9


def fault_case(ctx, rng, kind, stack):
    """a fault of the wrapped primitive during one evaluation must not disturb later evaluations through the same wrapper stack"""
    from queasars.circuit_evaluation.bitstring_evaluation import BitstringEvaluator
    from queasars.circuit_evaluation.circuit_evaluation import BitstringCircuitEvaluator, OperatorCircuitEvaluator, OperatorSamplerCircuitEvaluator

    RecEstimator, RecSampler = make_fakes()
    nq = rng.randint(2, 3)
    init = gen_init(rng, nq, False)
    is_sampler = kind != "estimator"
    prim = RecSampler() if is_sampler else RecEstimator()
    fail_round = rng.choice([0, 1, 1])
    wrapped = build_stack(rng, nq, stack, prim, is_sampler)
    alpha, table, op = 1.0, None, None
    if kind == "estimator":
        op = gen_pauli_op(rng, nq, diagonal=False)
        ev = OperatorCircuitEvaluator(wrapped, None, op, init)
    elif kind == "operator_sampler":
        op = gen_pauli_op(rng, nq, diagonal=True)
        alpha = rng.choice([1.0, 0.5])
        ev = OperatorSamplerCircuitEvaluator(wrapped, SHOTS, op, alpha, init)
    else:
        table = {format(i, f"0{nq}b"): rng.randint(-8, 8) / 2 for i in range(2**nq)}
        ev = BitstringCircuitEvaluator(wrapped, SHOTS, BitstringEvaluator(nq, lambda b: table[b]), alpha, init)
    rounds = []
    for _ in range(3):
        cs = [gen_circuit(rng, nq, False) for _ in range(rng.randint(1, 3))]
        rounds.append(([c for c, _ in cs], [p for _, p in cs]))
    inp = {"kind": kind, "stack": stack, "fault_in_round": fail_round, "n_qubits": nq, "rounds": [len(r[0]) for r in rounds], "init": init is not None,
           "op": None if op is None else op_terms(op, nq), "alpha": alpha}
    ctx.case(inp, nontrivial=True, tags=["fault-then-evaluate", "kind:" + kind, "stack:" + stack])
    for r, (cs, ps) in enumerate(rounds):
        if r == fail_round:
            prim.fail_on = {len(prim.batches)}
        box = {}

        def call():
            try:
                box["v"] = ev.evaluate_circuits(cs, ps)
            except Exception as e:  # noqa: BLE001
                box["e"] = repr(e)[:120]

        t = threading.Thread(target=call, daemon=True)
        t.start()
        t.join(30)
        prim.fail_on = set()
        if t.is_alive():
            ctx.violate("an evaluation through the wrapper stack did not return (after a fault of the wrapped primitive)", inp, {"round": r}, key=f"fault:hang:{kind}")
            return
        if r == fail_round:
            if "v" in box:
                ctx.violate("an evaluation whose primitive call failed returned values instead of raising", inp, {"round": r}, key=f"fault:swallowed:{kind}")
            continue
        if "e" in box:
            ctx.violate("an evaluation raised although the wrapped primitive did not fail in it", inp, {"round": r, "error": box["e"]}, key=f"fault:later-raise:{kind}")
            continue
        got = [float(np.real(v)) for v in box["v"]]
        if len(got) != len(cs):
            ctx.violate("an evaluator returned a different number of values than circuits", inp, {"round": r}, key=f"fault:len:{kind}")
            continue
        for i, (qc, p) in enumerate(zip(cs, ps)):
            want, tol = expected(kind, op, table, alpha, init, qc, p, nq)
            if abs(got[i] - want) > tol:
                ctx.violate("after a fault of the wrapped primitive an evaluator's value differs from the objective of its own circuit", inp,
                            {"round": r, "position": i, "got": got[i], "expected": want}, key=f"fault:value:{kind}")


# ------------------------------------------------------------------------------------------------ one case
def op_terms(op, n):
    """SparsePauliOp -> [[coeff 'p/q', [paulis in qubit-index order]]] sorted"""
    from common import rat_str

    out = []
    for label, c in zip(op.paulis.to_labels(), op.coeffs):
        out.append([rat_str(F(float(np.real(c)))), [label[n - 1 - q] for q in range(n)]])
    return sorted(out)


def merge_terms(terms):
    """terms with the same Pauli string summed (an observables array is a mapping label -> coefficient, so the implementation
    side always arrives merged; the model relabels term by term)"""
    from common import rat_str

    acc = {}
    for c, ps in terms:
        acc[tuple(ps)] = acc.get(tuple(ps), F(0)) + F(c)
    return sorted([rat_str(c), list(ps)] for ps, c in acc.items())


def obs_terms(obs_array, n):
    from common import rat_str

    d = obs_array.ravel()[0] if hasattr(obs_array, "ravel") else obs_array
    items = d.items() if hasattr(d, "items") else obs_array[()].items()
    return sorted([[rat_str(F(float(np.real(c)))), [label[n - 1 - q] for q in range(n)]] for label, c in items])


def classical_output(init, qc, params):
    from qiskit.quantum_info import Statevector

    pr = Statevector(compose(init, qc, params)).probabilities_dict()
    (bits, p), = [(k, v) for k, v in pr.items() if v > 0.5]
    assert p > 1 - 1e-9
    n = qc.num_qubits
    return [bits[n - 1 - q] == "1" for q in range(n)]


def one_case(ctx, rng, kind, stack, classical, tag, second_round=None):
    from qiskit.quantum_info import Statevector

    from queasars.circuit_evaluation.bitstring_evaluation import BitstringEvaluator
    from queasars.circuit_evaluation.circuit_evaluation import BitstringCircuitEvaluator, OperatorCircuitEvaluator, OperatorSamplerCircuitEvaluator

    RecEstimator, RecSampler = make_fakes()
    drv = ctx.lean("Pipeline")
    if second_round is None:
        second_round = rng.random() < 0.4
    nq = rng.randint(2, 4)
    n_callers = rng.randint(2, 3) if "batching" in stack else 1
    init = gen_init(rng, nq, classical)
    is_sampler = kind != "estimator"
    prim = RecSampler() if is_sampler else RecEstimator()
    wrapped = build_stack(rng, nq, stack, prim, is_sampler)
    alpha = 1.0
    table = None
    if kind == "estimator":
        op = gen_pauli_op(rng, nq, diagonal=False)
        ev = OperatorCircuitEvaluator(wrapped, None, op, init)
        desc = {"op": op_terms(op, nq)}
    elif kind == "operator_sampler":
        op = gen_pauli_op(rng, nq, diagonal=True)
        alpha = rng.choice([1.0, 0.5, 0.25])
        ev = OperatorSamplerCircuitEvaluator(wrapped, SHOTS, op, alpha, init)
        desc = {"op": op_terms(op, nq), "alpha": alpha}
    else:
        table = {format(i, f"0{nq}b"): rng.randint(-8, 8) / 2 for i in range(2**nq)}
        alpha = rng.choice([1.0, 0.5, 0.25])
        ev = BitstringCircuitEvaluator(wrapped, SHOTS, BitstringEvaluator(nq, lambda b: table[b]), alpha, init)
        desc = {"table": table, "alpha": alpha}
    # concurrent callers may be DIFFERENT evaluators on the one wrapped primitive (the solver builds the main and the auxiliary evaluators on the
    # same configured sampler), each with its own shot count: a batch then mixes pubs with different shots
    shots_of = [SHOTS] * n_callers
    evs = [ev] * n_callers
    if is_sampler and n_callers > 1 and rng.random() < 0.6:
        shots_of = [SHOTS >> (i % 3) for i in range(n_callers)]
        rng.shuffle(shots_of)
        evs = [ev if sh == SHOTS else (OperatorSamplerCircuitEvaluator(wrapped, sh, op, alpha, init) if kind == "operator_sampler"
                                       else BitstringCircuitEvaluator(wrapped, sh, BitstringEvaluator(nq, lambda b: table[b]), alpha, init)) for sh in shots_of]
        desc["shots_per_caller"] = shots_of
    callers = []
    for _ in range(n_callers):
        k = rng.randint(1, 3)
        cs = [gen_circuit(rng, nq, classical) for _ in range(k)]
        callers.append(([c for c, _ in cs], [p for _, p in cs]))
    inp = {"kind": kind, "stack": stack, "classical": classical, "n_qubits": nq, "init": None if init is None else [i.operation.name for i in init.data],
           "callers": [{"circuits": [[(i.operation.name, [c.find_bit(q).index for q in i.qubits]) for i in c.data] for c in cs], "params": ps} for cs, ps in callers], **desc}
    ctx.case(inp, nontrivial=stack != "plain", tags=[tag, "kind:" + kind, "stack:" + stack, "classical" if classical else "quantum", f"callers:{n_callers}",
                                                      "init:none" if init is None else ("init:with-cregs" if init.num_clbits else "init:plain"),
                                                      "evaluator-reused" if second_round else "evaluator-used-once",
                                                      "shots:mixed-per-caller" if len(set(shots_of)) > 1 else "shots:uniform"])

    results = [None] * n_callers
    errors = []

    def call(i):
        try:
            results[i] = evs[i].evaluate_circuits(callers[i][0], callers[i][1])
        except Exception as e:  # noqa: BLE001
            import traceback

            errors.append(repr(e)[:200] + " @ " + " <- ".join(f"{f.name}:{f.lineno}" for f in traceback.extract_tb(e.__traceback__)[-6:]))

    def evaluate_all():
        for i in range(n_callers):
            results[i] = None
        del errors[:]
        if n_callers == 1:
            call(0)
        else:
            ths = [threading.Thread(target=call, args=(i,), daemon=True) for i in range(n_callers)]
            for t in ths:
                t.start()
            for t in ths:
                t.join(60)
        if errors or any(r is None for r in results):
            ctx.violate("an evaluator raised or did not return through the wrapper stack", inp, errors[:2], key=f"raise:{kind}:{stack}")
            return False
        return True

    def check_values(round_no):
        """oracle: every returned value vs the objective of (initial state + the circuit AS IT IS NOW, bound)"""
        for ci, (cs, ps) in enumerate(callers):
            got = [float(np.real(v)) for v in results[ci]]
            if len(got) != len(cs):
                ctx.violate("an evaluator returned a different number of values than circuits", inp, [len(got), len(cs)], key=f"len:{kind}:{stack}")
                continue
            for i, (qc, p) in enumerate(zip(cs, ps)):
                if kind == "estimator":
                    want = float(np.real(Statevector(compose(init, qc, p)).expectation_value(op)))
                    tol = 1e-9
                else:
                    probs = ideal_probs(init, qc, p)
                    f = (lambda b: diag_of(op, b)) if kind == "operator_sampler" else (lambda b: table[b])
                    pairs = [(pr, f(b)) for b, pr in probs.items()]
                    want = cvar(pairs, alpha)
                    maxf = max(abs(f(format(j, f"0{nq}b"))) for j in range(2**nq))
                    tol = 2 * (2**nq) * maxf / (alpha * shots_of[ci]) + 4 * (1e-8 + 1e-5 * alpha) * maxf / alpha + 1e-9
                if abs(got[i] - want) > tol:
                    what = "an evaluator's value differs from the objective of initial-state + bound circuit (beyond the primitive's resolution)"
                    if round_no:
                        what += " [second evaluation by the same evaluator; circuit objects grown in place / new circuits since the first]"
                    ctx.violate(what, inp, {"caller": ci, "position": i, "got": got[i], "expected": want, "tolerance": tol, "round": round_no},
                                key=f"value:{kind}:{stack.split('+')[0]}")

    if not evaluate_all():
        return
    check_values(0)
    n_first = len(prim.batches)
    callers0 = [([c.copy() for c in cs], [list(p) for p in ps]) for cs, ps in callers]  # as evaluated in the first round (for the model part)

    # ------------------------------------------------------------------ the same evaluator used again (state that outlives one call)
    if second_round:
        from qiskit.circuit import QuantumCircuit as _QC

        for cs, ps in callers:
            for j in range(len(cs)):
                m = rng.randrange(3)
                if m == 0:
                    # the caller grows its circuit object in place (no new parameters) and evaluates it again
                    q = rng.randrange(nq)
                    if classical or rng.random() < 0.5:
                        cs[j].x(q)
                    else:
                        cs[j].h(q)
                        cs[j].cx(q, (q + 1) % nq)
                elif m == 1:
                    # a brand-new circuit object (the old one is dropped: its id() may be reused)
                    cs[j], ps[j] = gen_circuit(rng, nq, classical)
        import gc

        gc.collect()
        inp["second_round"] = [[[(i.operation.name, [c.find_bit(q).index for q in i.qubits]) for i in c.data] for c in cs] for cs, ps in callers]
        saved = [list(r) for r in results]
        if evaluate_all():
            check_values(1)
        for i in range(n_callers):
            results[i] = saved[i]
    grown = callers  # the caller's own circuit objects (possibly grown in place since the first round)
    callers = callers0
    first_batches = prim.batches[:n_first]

    # ------------------------------------------------------------------ model
    if drv is None:
        return
    # (a) batching: the slice each caller received (results carry the parameter vector of the pub they answer)
    # (b) pubs reaching the primitive (plain stack, single caller)
    if stack == "plain":
        cs, ps = callers[0]
        r = drv.ask({"op": "pipeline.evaluate", "n_circuits": len(cs), "n_params": len(ps), "init": init is not None, "kind": "sampler" if is_sampler else "estimator"})
        seen = []
        for pub in first_batches[0]:
            circ = pub.circuit
            vals = [float(x) for x in np.asarray(pub.parameter_values.as_array()).ravel()]
            k = None
            for j, c in enumerate(cs):
                exp = c if init is None else init.compose(c, inplace=False)
                if is_sampler:
                    exp = exp.measure_all(inplace=False)
                if exp == circ or circ is grown[0][0][j]:  # (a pub may hold the caller's circuit object itself, which the second round grew in place)
                    k = j
                    break
            sym = None if k is None else (f"c{k}" if init is None else f"compose(init,c{k})")
            if is_sampler and sym is not None:
                sym = f"measure_all({sym})"
            # parameters are bound by name order; identify the vector by its multiset
            pj = next((j for j, p in enumerate(ps) if sorted(p) == sorted(vals)), None)
            seen.append([sym, pj])
        ctx.compare("pipeline.evaluate (pubs reaching the primitive)", inp, seen, r.get("pubs"))
    if is_sampler:
        # (a') the shot count with which every pub reaches the primitive (the evaluator divides the counts by its own shots)
        seen_shots = [[None] * len(cs) for cs, _ in callers]
        for batch in first_batches:
            for pub in batch:
                vals = sorted(float(x) for x in np.asarray(pub.parameter_values.as_array()).ravel())
                for ci, (cs, ps) in enumerate(callers):
                    for j, pv in enumerate(ps):
                        if sorted(pv) == vals and seen_shots[ci][j] is None:
                            seen_shots[ci][j] = pub.shots
        r = drv.ask({"op": "pipeline.batch_shots", "callers": [{"n": len(cs), "shots": shots_of[ci]} for ci, (cs, _) in enumerate(callers)]})
        ctx.compare("pipeline.batch_shots (shot count of every pub reaching the primitive)", inp, seen_shots, r.get("shots"))
    if kind == "estimator" and classical and stack.startswith("T:") and ">" not in stack:
        # (c) the observable submitted with each transpiled circuit, the value, the physical placement
        flat = [(qc, p) for cs, ps in callers for qc, p in zip(cs, ps)]
        for batch in first_batches:
            for pub in batch:
                t = pub.circuit
                lay = t.layout
                final = list(range(nq)) if lay is None else [int(x) for x in lay.final_index_layout()]
                m = t.num_qubits
                if lay is not None:
                    ini = [int(x) for x in lay.initial_index_layout(filter_ancillas=True)]
                    ctx.dist["layout:" + ("identity" if final == list(range(nq)) and m == nq else "final=initial" if final == ini else "routed(final!=initial)")] += 1
                r = drv.ask({"op": "pipeline.relayout", "terms": op_terms(op, nq), "layout": final, "m": m})
                ctx.compare("pipeline.relayout (observable submitted with the transpiled circuit)", inp, merge_terms(obs_terms(pub.observables, m)), merge_terms(r.get("terms", [])))
                pid = float(np.asarray(pub.parameter_values.as_array()).ravel()[-1])
                src = next(((qc, p) for qc, p in flat if abs(p[-1] - pid) < 1e-9), None)
                if src is None:
                    continue
                b = classical_output(init, src[0], src[1])
                rp = drv.ask({"op": "pipeline.place", "bits": b, "final": final, "m": m})
                bound = pub.parameter_values.bind_all(t)
                bound = bound.item() if hasattr(bound, "item") else bound
                pr = Statevector(bound).probabilities_dict()
                (pb, pp), = [(k, v) for k, v in pr.items() if v > 0.5]
                phys = [pb[m - 1 - q] == "1" for q in range(m)]
                ctx.compare("pipeline.place (basis state on the physical qubits after transpilation)", inp, phys, rp.get("bits"))
        for ci, (cs, ps) in enumerate(callers):
            for i, (qc, p) in enumerate(zip(cs, ps)):
                b = classical_output(init, qc, p)
                rv = drv.ask({"op": "pipeline.value", "terms": op_terms(op, nq), "bits": b})
                mv = float(F(rv["value"]))
                got = float(np.real(results[ci][i]))
                if abs(got - mv) > 1e-9:
                    ctx.disagree("pipeline.value (evaluator value on a classical circuit)", inp, got, mv)


def concurrent_transpile_case(ctx, rng, threads, iters):
    """many threads evaluate through transpiling(batching(exact primitive)) with ONE device pass manager, released together by a barrier in every
    iteration (the solver's own stack under a ThreadPoolExecutor): nothing may raise and every value must be the objective (finding F15)"""
    from qiskit.quantum_info import SparsePauliOp, Statevector
    from qiskit.transpiler import CouplingMap, generate_preset_pass_manager

    from queasars.circuit_evaluation.circuit_evaluation import OperatorCircuitEvaluator
    from queasars.circuit_evaluation.mutex_primitives import BatchingMutexEstimator
    from queasars.circuit_evaluation.transpiling_primitives import TranspilingEstimatorV2
    from queasars.minimum_eigensolvers.evqe.evolutionary_algorithm.individual import EVQEIndividual

    RecEstimator, _ = make_fakes()
    nq = 3
    lvl = rng.choice([0, 1])
    layout = rng.sample(range(4), 3)
    pm = generate_preset_pass_manager(optimization_level=lvl, coupling_map=CouplingMap.from_line(4), initial_layout=layout, seed_transpiler=rng.randrange(100))
    op = SparsePauliOp(["ZZI", "IXZ", "YIY"], [1.0, 0.5, -0.75])
    ev = OperatorCircuitEvaluator(TranspilingEstimatorV2(BatchingMutexEstimator(RecEstimator(), waiting_duration=0.003), pm), None, op, None)
    seeds = [[rng.randrange(2**31) for _ in range(iters)] for _ in range(threads)]
    inp = {"kind": "concurrent_transpile", "threads": threads, "iterations": iters, "level": lvl, "initial_layout": layout}
    ctx.case(inp, nontrivial=True, tags=["concurrent-transpile", f"threads:{threads}"])
    barrier = threading.Barrier(threads)
    problems = []

    def work(t):
        for i in range(iters):
            try:
                barrier.wait(30)
            except threading.BrokenBarrierError:
                return
            r = __import__("random").Random(seeds[t][i])
            xs = [EVQEIndividual.random_individual(nq, r.randint(1, 3), True, r.randrange(2**31)) for _ in range(3)]
            try:
                got = ev.evaluate_circuits([x.get_parameterized_quantum_circuit() for x in xs], [list(x.get_parameter_values()) for x in xs])
                for x, g in zip(xs, got):
                    want = float(np.real(Statevector(x.get_quantum_circuit()).expectation_value(op)))
                    if abs(float(np.real(g)) - want) > 1e-9:
                        problems.append(("value", {"thread": t, "iteration": i, "got": float(np.real(g)), "expected": want}))
            except Exception as e:  # noqa: BLE001
                problems.append(("raise", {"thread": t, "iteration": i, "error": repr(e)[:160]}))

    ths = [threading.Thread(target=work, args=(t,), daemon=True) for t in range(threads)]
    for t in ths:
        t.start()
    for t in ths:
        t.join(180)
    if any(t.is_alive() for t in ths):
        barrier.abort()
        problems.append(("hang", {}))
    for kind, obs in problems[:1]:
        what = {"raise": "an evaluator raised when several threads evaluated through the transpiling wrapper at the same time",
                "value": "an evaluator's value differs from the objective when several threads evaluated through the transpiling wrapper at the same time",
                "hang": "concurrent evaluations through the transpiling wrapper did not return"}[kind]
        ctx.violate(what, inp, {"first": obs, "count": len(problems)}, key="concurrent-transpile:" + kind)


def batching_slices(ctx, rng):
    """a batching wrapper under concurrent callers: every caller's slice vs the model's `Stack.wrap (.batching before after)`"""
    from qiskit.circuit import Parameter, QuantumCircuit

    from queasars.circuit_evaluation.mutex_primitives import BatchingMutexEstimator
    from qiskit.quantum_info import SparsePauliOp

    RecEstimator, _ = make_fakes()
    drv = ctx.lean("Pipeline")
    prim = RecEstimator()
    wrapped = BatchingMutexEstimator(prim, waiting_duration=0.03)
    n_callers = rng.randint(2, 4)
    qc = QuantumCircuit(1)
    th = Parameter("x")
    qc.ry(th, 0)
    op = SparsePauliOp(["Z"], [1.0])
    ids = iter(range(1, 100))
    jobs = [[next(ids) for _ in range(rng.randint(1, 3))] for _ in range(n_callers)]
    got = [None] * n_callers

    def call(i):
        res = wrapped.run([(qc, op, [j / 100.0]) for j in jobs[i]]).result()
        got[i] = [round(r.metadata["params"][0] * 100) for r in res]

    ths = [threading.Thread(target=call, args=(i,), daemon=True) for i in range(n_callers)]
    for t in ths:
        t.start()
    for t in ths:
        t.join(30)
    inp = {"kind": "batching_slices", "jobs": jobs}
    ctx.case(inp, nontrivial=True, tags=["batching_slices", f"batches:{len(prim.batches)}"])
    if any(g is None for g in got):
        ctx.violate("a caller of the batching wrapper did not return", inp, None, key="slice:hang")
        return
    for i in range(n_callers):
        if got[i] != jobs[i]:
            ctx.violate("a caller of the batching wrapper received results that answer other pubs", inp, {"caller": i, "got": got[i]}, key="slice:foreign")
    if drv is None:
        return
    for batch in prim.batches:
        bids = [round(float(np.asarray(p.parameter_values.as_array()).ravel()[0]) * 100) for p in batch]
        for i in range(n_callers):
            if jobs[i][0] in bids:
                s = bids.index(jobs[i][0])
                r = drv.ask({"op": "pipeline.slice", "before": bids[:s], "mine": jobs[i], "after": bids[s + len(jobs[i]):]})
                ctx.compare("pipeline.slice (a caller's slice of the batch)", inp, got[i], r.get("slice"))


def run(ctx):
    import warnings

    warnings.filterwarnings("ignore")
    rng = ctx.rng
    kinds = ["estimator", "operator_sampler", "bitstring"]
    # every stack with the estimator on classical circuits first (model comparison), then the random sweep
    for stack in STACKS:
        if ctx.out_of_time():
            break
        one_case(ctx, rng, "estimator", stack, True, "sweep")
    for _ in range(ctx.n(90, 2500)):
        if ctx.out_of_time():
            break
        kind = rng.choice(kinds)
        stack = rng.choice(STACKS)
        classical = kind == "estimator" and rng.random() < 0.4
        one_case(ctx, rng, kind, stack, classical, "random")
    for _ in range(ctx.n(4, 40)):
        if ctx.out_of_time():
            break
        batching_slices(ctx, rng)
    for i in range(ctx.n(9, 120)):
        if ctx.out_of_time():
            break
        fault_case(ctx, rng, kinds[i % 3], ["batching", "T:level0+batching", "mutex", "T:routing+batching"][i % 4])
    for _ in range(ctx.n(1, 6)):
        if ctx.out_of_time():
            break
        concurrent_transpile_case(ctx, rng, 6, ctx.n(40, 120))
    import wrapper_corr

    wrapper_corr.run_wrapper_level(ctx, "C03", 10, 150)


def replay(ctx, case):
    import random

    ctx.seed = case.get("seed", ctx.seed)
    ctx.tier = case.get("tier", ctx.tier)
    ctx.rng = random.Random(ctx.seed)
    run(ctx)
    want = (case.get("case") or {}).get("key")
    if want:
        hit = [v for v in ctx.violations if v["key"] == want]
        if hit:
            ctx.violations[:] = hit[:1]
