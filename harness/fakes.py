"""Deterministic exact fake primitives used by the solver / evaluator harnesses.

* `ExactSampler`  — BaseSamplerV2: for every pub binds the parameters, computes the exact outcome probabilities of the
  measured qubits with `Statevector`, and returns deterministic counts (largest-remainder rounding to `shots`), one
  BitArray per classical register.  Records every pub it receives.
* `ExactEstimator` — BaseEstimatorV2: exact expectation values with `Statevector`.  Records every pub.
Both are independent of the library under test (only Qiskit).
"""
from __future__ import annotations

import threading
from fractions import Fraction

import numpy as np
from qiskit.circuit import QuantumCircuit
from qiskit.primitives import BaseEstimatorV2, BaseSamplerV2, PrimitiveJob, PrimitiveResult, PubResult, SamplerPubResult
from qiskit.primitives.containers import BitArray, DataBin
from qiskit.primitives.containers.estimator_pub import EstimatorPub
from qiskit.primitives.containers.sampler_pub import SamplerPub
from qiskit.quantum_info import Statevector


def exact_counts(circuit: QuantumCircuit, shots: int):
    """deterministic counts per classical register of a bound circuit whose measurements are all at the end"""
    meas = []  # (clbit index, qubit index)
    qc = QuantumCircuit(circuit.num_qubits)
    for inst in circuit.data:
        if inst.operation.name == "measure":
            meas.append((circuit.find_bit(inst.clbits[0]).index, circuit.find_bit(inst.qubits[0]).index))
        elif inst.operation.name == "barrier":
            continue
        else:
            qc.append(inst.operation, [circuit.find_bit(q).index for q in inst.qubits])
    probs = Statevector(qc).probabilities_dict()
    out = {}
    for creg in circuit.cregs:
        idxs = [circuit.find_bit(c).index for c in creg]  # clbit i of the register
        q_of = {c: q for c, q in meas}
        dist = {}
        for bits, p in probs.items():
            # bits: string over qubits, qubit q at position -(q+1)
            key = "".join(bits[len(bits) - 1 - q_of[c]] if c in q_of else "0" for c in reversed(idxs))
            dist[key] = dist.get(key, 0.0) + p
        # largest remainder rounding (ties broken by key) — deterministic
        items = sorted(dist.items())
        fl = [(k, int(np.floor(p * shots + 1e-9))) for k, p in items]
        rem = shots - sum(c for _, c in fl)
        order = sorted(range(len(items)), key=lambda i: (-(items[i][1] * shots - fl[i][1]), items[i][0]))
        counts = dict(fl)
        for i in order[:rem]:
            counts[items[i][0]] += 1
        out[creg.name] = {k: c for k, c in counts.items() if c > 0}
    return out


class ExactSampler(BaseSamplerV2):
    def __init__(self, default_shots=1024):
        self.default_shots = default_shots
        self.pubs = []
        self.lock = threading.Lock()
        self.in_run = 0
        self.max_in_run = 0

    def run(self, pubs, *, shots=None):
        coerced = [SamplerPub.coerce(p, shots if shots is not None else self.default_shots) for p in pubs]
        job = PrimitiveJob(self._run, coerced)
        job._submit()
        return job

    def _run(self, pubs):
        with self.lock:
            self.in_run += 1
            self.max_in_run = max(self.max_in_run, self.in_run)
        try:
            results = []
            for pub in pubs:
                with self.lock:
                    self.pubs.append(pub)
                bound = pub.parameter_values.bind_all(pub.circuit)
                circ = bound.item() if hasattr(bound, "item") else bound
                counts = exact_counts(circ, pub.shots)
                data = {name: BitArray.from_counts(c, num_bits=len([r for r in circ.cregs if r.name == name][0])) for name, c in counts.items()}
                results.append(SamplerPubResult(DataBin(**data), metadata={"shots": pub.shots}))
            return PrimitiveResult(results, metadata={})
        finally:
            with self.lock:
                self.in_run -= 1


class ExactEstimator(BaseEstimatorV2):
    def __init__(self):
        self.pubs = []
        self.lock = threading.Lock()

    def run(self, pubs, *, precision=None):
        coerced = [EstimatorPub.coerce(p, precision) for p in pubs]
        job = PrimitiveJob(self._run, coerced)
        job._submit()
        return job

    def _run(self, pubs):
        results = []
        for pub in pubs:
            with self.lock:
                self.pubs.append(pub)
            bound = pub.parameter_values.bind_all(pub.circuit)
            circ = bound.item() if hasattr(bound, "item") else bound
            sv = Statevector(circ)
            obs = pub.observables
            evs = np.zeros(obs.shape, dtype=float)
            for idx in np.ndindex(*obs.shape) if obs.shape else [()]:
                from qiskit.quantum_info import SparsePauliOp

                o = obs[idx] if obs.shape else obs.ravel()[0] if hasattr(obs, "ravel") else obs[()]
                op = SparsePauliOp.from_list(list(o.items()))
                evs[idx] = float(np.real(sv.expectation_value(op)))
            results.append(PubResult(DataBin(evs=evs, stds=np.zeros_like(evs), shape=evs.shape), metadata={}))
        return PrimitiveResult(results, metadata={})
