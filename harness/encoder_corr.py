"""Shared harness for the JSSP encoder cluster (C01, C02, C15): generators, diagonal extraction, decoding,
independent exhaustive job-shop solver, model requests."""
from __future__ import annotations

import itertools
from fractions import Fraction as F

import numpy as np

from common import rat_str
from queasars.job_shop_scheduling.domain_wall_hamiltonian_encoder import JSSPDomainWallHamiltonianEncoder
from queasars.job_shop_scheduling.problem_instances import (
    Job,
    JobShopSchedulingProblemInstance,
    Machine,
    Operation,
    ScheduledOperation,
)

DEFAULT_PEN = {"enc": F(300), "ovl": F(100), "prec": F(100), "opt": F(100), "share": F(0)}


def gen_instance(rng, max_qubits):
    """raw instance = list of jobs, job = list of (machine index, duration); plus a limit with slack 0..3"""
    for _ in range(200):
        shape = rng.randrange(9)
        nm = rng.randint(1, 4)
        if shape == 8:
            # long operations, little slack: few qubits but large makespan weights (n_jobs+1)^end (beyond 2^63 from limit 40 for two jobs)
            nj = rng.randint(1, 3)
            target = rng.choice([24, 33, 41, 52, 64])
            jobs = []
            for _ in range(nj):
                k = rng.randint(1, 2)
                ms = rng.sample(range(max(nm, 2)), k)
                total = target - rng.randint(0, 2)
                first = rng.randint(1, total - 1) if k == 2 else total
                jobs.append([(ms[0], first)] + ([(ms[1], total - first)] if k == 2 else []))
        elif shape == 0:
            jobs = [[(rng.randrange(nm), rng.randint(1, 3))] for _ in range(rng.randint(1, 4))]  # only single-operation jobs
        elif shape == 1:
            k = rng.randint(1, nm)
            jobs = [[(m, rng.randint(1, 3)) for m in rng.sample(range(nm), k)]]  # a single job
        elif shape == 2:
            jobs = [[(0, rng.randint(1, 2))] for _ in range(rng.randint(2, 4))]  # everything on one machine
        elif shape == 3:
            jobs = [[(j, rng.randint(1, 3))] for j in range(rng.randint(2, 3))]  # no shared machine
        else:
            nj = rng.randint(2, 3)
            jobs = []
            for _ in range(nj):
                k = rng.randint(1, min(nm, 3))
                jobs.append([(m, rng.randint(1, 3)) for m in rng.sample(range(nm), k)])
        longest = max(sum(d for _, d in j) for j in jobs)
        limit = longest + rng.choice([0, 0, 1, 1, 2, 3])
        nq = sum(len(j) * (limit - sum(d for _, d in j)) for j in jobs)
        if nq <= max_qubits:
            return jobs, limit
    return [[(0, 1)]], 2


def gen_penalties(rng):
    m = rng.randrange(6)
    if m == 0:
        return dict(DEFAULT_PEN)
    if m == 1:
        return {"enc": F(100), "ovl": F(100), "prec": F(100), "opt": F(100), "share": rng.choice([F(0), F(1, 4), F(1, 2)])}
    if m == 2:
        return {"enc": F(150), "ovl": F(100), "prec": F(120), "opt": F(50), "share": rng.choice([F(0), F(1, 4), F(1)])}
    w = F(rng.randint(1, 64), 8)
    po = w + F(rng.randint(0, 32), 8)
    pp = w + F(rng.randint(0, 32), 8)
    pe = max(po, pp) + F(rng.randint(0, 64), 8)
    # a common scale (a power of two, so every double stays exact): the documented regime only orders the weights, it does not fix their magnitude
    sc = F(2) ** rng.choice([0, 0, 0, -20, -27, -30, -34, -40, 12, 30]) if m == 5 else F(1)
    return {"enc": pe * sc, "ovl": po * sc, "prec": pp * sc, "opt": w * sc, "share": rng.choice([F(0), F(0), F(1, 4), F(1, 2), F(1)])}


def name_style(jobs, limit):
    """how jobs/operations are named — a function of the instance, so a replay builds the same objects.  'collide': operation oi of EVERY job has
    the same Operation.identifier (job_name + "_" + name) although job names are distinct and operation names are unique within each job
    (job "j" / op "x_o0", job "j_x" / op "o0": both "j_x_o0") — legal, and the encoder must still tell the operations apart."""
    return "collide" if len(jobs) >= 2 and (sum(d for j in jobs for _, d in j) + limit + len(jobs)) % 3 == 0 else "plain"


def names_of(jobs, limit):
    nj = len(jobs)
    if name_style(jobs, limit) == "collide":
        return [("j" + "_x" * ji, ["x_" * (nj - 1 - ji) + f"o{oi}" for oi in range(len(j))]) for ji, j in enumerate(jobs)]
    return [(f"j{ji}", [f"o{oi}" for oi in range(len(j))]) for ji, j in enumerate(jobs)]


def build(jobs, limit, pen=None):
    machines = sorted({m for j in jobs for m, _ in j})
    ms = {m: Machine(f"m{m}") for m in machines}
    pj = []
    for (jn, ons), j in zip(names_of(jobs, limit), jobs):
        ops = tuple(Operation(on, jn, ms[m], d) for on, (m, d) in zip(ons, j))
        pj.append(Job(jn, ops))
    inst = JobShopSchedulingProblemInstance("inst", tuple(ms[m] for m in machines), tuple(pj))
    if pen is None:
        enc = JSSPDomainWallHamiltonianEncoder(inst, limit)
    else:
        enc = JSSPDomainWallHamiltonianEncoder(inst, limit, encoding_penalty=float(pen["enc"]), overlap_constraint_penalty=float(pen["ovl"]),
                                               precedence_constraint_penalty=float(pen["prec"]), max_opt_value=float(pen["opt"]),
                                               opt_all_operations_share=float(pen["share"]))
    return inst, enc


class Var:
    """layout of one start-time variable, computed from the instance alone (the documented scheme): values head .. limit - tail - duration,
    one qubit less than values, qubits allotted in job/operation order"""

    def __init__(self, start, values):
        self._qubit_start_index = start
        self.values = tuple(values)
        self.n_qubits = max(len(self.values) - 1, 0)


def layout(jobs, limit):
    out, q = [], 0
    for j in jobs:
        row, head, total = [], 0, sum(d for _, d in j)
        for _, d in j:
            vals = range(head, limit - (total - head - d) - d + 1)
            row.append(Var(q, vals))
            q += max(len(vals) - 1, 0)
            head += d
        out.append(row)
    return out


def diagonal(H, n):
    """all 2^n eigenvalues of a SparsePauliOp made of I/Z strings; index = integer value of the bitstring
    (qubit q = bit q of the index).  Returns (array, sum of |coefficients|) or raises ValueError if not diagonal."""
    Hs = H.simplify(atol=0.0, rtol=0.0)  # merge equal strings only: the default tolerances are ABSOLUTE (1e-8) and would hide small penalties
    idx = np.arange(2**n, dtype=np.uint64)
    out = np.zeros(2**n, dtype=float)
    scale = 0.0
    for label, coeff in zip(Hs.paulis.to_labels(), Hs.coeffs):
        if any(ch not in "IZ" for ch in label):
            raise ValueError("Hamiltonian is not diagonal: " + label)
        if abs(coeff.imag) > 1e-12 * abs(coeff):
            raise ValueError("complex coefficient")
        mask = 0
        for pos, ch in enumerate(label):
            if ch == "Z":
                mask |= 1 << (n - 1 - pos)
        par = np.zeros(2**n, dtype=np.uint64)
        m = np.uint64(mask)
        x = idx & m
        # parity of x
        for s in (32, 16, 8, 4, 2, 1):
            x = x ^ (x >> np.uint64(s))
        par = x & np.uint64(1)
        out += coeff.real * (1.0 - 2.0 * par.astype(float))
        scale += abs(coeff.real)
    return out, scale


def bitstring(i, n):
    return format(i, f"0{n}b")


def decode_impl(enc, inst, bs):
    """returns (starts per job (None = unscheduled), is_valid, makespan)"""
    res = enc.translate_result_bitstring(bs)
    rows = []
    for job in inst.jobs:
        rows.append([so.start_time if isinstance(so, ScheduledOperation) else None for so in res.schedule[job]])
    return rows, res.is_valid, res.makespan


def count_violations(jobs, rows):
    """(#precedence violations between consecutive operations, #overlapping pairs on a machine) of a fully decoded schedule"""
    prec = 0
    flat = []
    for j, row in zip(jobs, rows):
        for k, ((m, d), s) in enumerate(zip(j, row)):
            flat.append((m, s, s + d))
            if k > 0 and s < row[k - 1] + j[k - 1][1]:
                prec += 1
    ovl = sum(1 for a, b in itertools.combinations(flat, 2) if a[0] == b[0] and a[1] < b[2] and b[1] < a[2])
    return prec, ovl


def feasible_schedules(jobs, limit, cap=200000):
    """all feasible schedules with makespan <= limit, enumerated independently of the encoder"""
    ops = [(ji, oi, m, d) for ji, j in enumerate(jobs) for oi, (m, d) in enumerate(j)]
    out = []
    starts = {}

    def rec(k):
        if len(out) >= cap:
            return
        if k == len(ops):
            out.append([[starts[(ji, oi)] for oi in range(len(j))] for ji, j in enumerate(jobs)])
            return
        ji, oi, m, d = ops[k]
        lo = 0 if oi == 0 else starts[(ji, oi - 1)] + jobs[ji][oi - 1][1]
        for s in range(lo, limit - d + 1):
            ok = True
            for (j2, o2), s2 in starts.items():
                m2, d2 = jobs[j2][o2]
                if m2 == m and s < s2 + d2 and s2 < s + d:
                    ok = False
                    break
            if ok:
                starts[(ji, oi)] = s
                rec(k + 1)
                del starts[(ji, oi)]

    rec(0)
    return out


def makespan_of(jobs, rows):
    return max(s + j[k][1] for j, row in zip(jobs, rows) for k, s in enumerate(row))


def pen_json(pen):
    return {k: rat_str(v) for k, v in pen.items()}


def model_energies(drv, jobs, limit, pen, n):
    """model energies and decodings for all 2^n bitstrings (bitstrings sent reversed: character q = qubit q)"""
    bss = [bitstring(i, n)[::-1] for i in range(2**n)]
    r = drv.ask({"op": "enc.energy", "inst": [[list(o) for o in j] for j in jobs], "limit": limit, "pen": pen_json(pen), "bits": bss})
    return r


# -------------------------------------------------------------------------------------------------------
# one instance: correspondence with the model + the oracles of C01 / C02 / C15 on the implementation


def analyse(ctx, prop, jobs, limit, pen, tag, max_diag_qubits):
    drv = ctx.lean("Encoder")
    inst_json = [[list(o) for o in j] for j in jobs]
    inp = {"inst": inst_json, "limit": limit, "pen": pen_json(pen)}
    longest = max(sum(d for _, d in j) for j in jobs)
    nq_expected = sum(len(j) * (limit - sum(d for _, d in j)) for j in jobs)
    other = ctx.extra.setdefault("_other", {})

    def violate(p, what, observed=None, extra=None):
        if p == prop:
            ctx.violate(what, dict(inp, **(extra or {})), observed, key=f"{p}:{what[:70]}")
        else:
            other[p] = other.get(p, 0) + 1

    inst, enc = build(jobs, limit, pen)
    # ---- preparation / qubit count / rejection of short limits (C15)
    try:
        n = enc.n_qubits
        impl_prep = {"n_qubits": n}
    except ValueError:
        n, impl_prep = None, {"err": "limitTooShort"}
    except Exception as e:  # noqa: BLE001
        n, impl_prep = None, {"exc": repr(e)[:100]}
    if n is not None:
        try:  # the encoder's internal tables (private): compared with the model when readable; everything else below uses the public interface
            impl_prep["vars"] = [[[enc._operation_start_variables[op]._qubit_start_index, enc._operation_start_variables[op].values[0],
                                   len(enc._operation_start_variables[op].values)] for op in job.operations] for job in inst.jobs]
        except Exception as e:  # noqa: BLE001
            impl_prep["vars"] = "internal variable table not readable per operation: " + type(e).__name__
    nontrivial = n is not None and n >= 2 and len(jobs) >= 2
    ctx.case(inp, nontrivial, tags=[tag, f"jobs:{len(jobs)}", "short" if limit < longest else f"qubits:{n if n is not None and n < 12 else '12+'}",
                                    "share0" if pen["share"] == 0 else "share>0", "names:" + name_style(jobs, limit),
                                    "pen-scale:" + ("tiny" if pen["enc"] < F(1, 1000) else "huge" if pen["enc"] > 10**6 else "unit")])
    if (limit < longest) != (impl_prep.get("err") == "limitTooShort"):
        violate("C15", "a makespan limit shorter than some job is not rejected / a sufficient limit is rejected", impl_prep)
    if n is not None and n != nq_expected:
        violate("C15", "reported qubit count differs from the number of start-time qubits", {"n_qubits": n, "expected": nq_expected})
    if drv is not None:
        ctx.compare("enc.prepare", inp, impl_prep, drv.ask({"op": "enc.prepare", "inst": inst_json, "limit": limit}))
    if n is None:
        return
    # ---- Hamiltonian (C15: exists on exactly n qubits whenever n >= 1)
    try:
        H = enc.get_problem_hamiltonian()
        ham = {"num_qubits": H.num_qubits}
    except Exception as e:  # noqa: BLE001
        H, ham = None, {"exc": type(e).__name__}
    if n >= 1 and (H is None or H.num_qubits != n):
        violate("C15", "no Hamiltonian on exactly n_qubits qubits although at least one qubit is needed", ham)
    if n >= 1 and H is not None and n <= 70:
        compare_table(ctx, jobs, limit, pen, H, inp)
    if n == 0:
        if drv is not None:
            r = drv.ask({"op": "enc.energy", "inst": inst_json, "limit": limit, "pen": pen_json(pen), "bits": []})
            ctx.compare("enc.energy (no qubits)", inp, "err" if H is None else "ok", "err" if "err" in r else "ok")
        return
    if H is None or n > max_diag_qubits:
        if n > max_diag_qubits:
            ctx.skip("more qubits than the diagonal budget")
        return
    try:
        diag, scale = diagonal(H, n)
    except ValueError as e:
        violate("C01", "the Hamiltonian is not diagonal in the computational basis", str(e))
        return
    tol = 1e-9 * scale  # relative to the coefficient scale: the property is invariant under a common rescaling of all weights
    W, Pp, Po, Pe, share = (float(pen[k]) for k in ("opt", "prec", "ovl", "enc", "share"))
    # ---- decode every bitstring (C15: total, within bounds, injective)
    decoded = []
    seen = {}
    for i in range(2**n):
        bs = bitstring(i, n)
        try:
            rows, valid, mk = decode_impl(enc, inst, bs)
        except Exception as e:  # noqa: BLE001
            violate("C15", "decoding a bitstring of the right length raised", repr(e)[:100], {"bits": bs})
            return
        decoded.append((rows, valid, mk))
        full = all(s is not None for r in rows for s in r)
        for j, r in zip(jobs, rows):
            tail = sum(d for _, d in j)
            head = 0
            for (m, d), s in zip(j, r):
                tail -= d
                if s is not None and not (head <= s and s + d + tail <= limit):
                    violate("C15", "a decoded start time lets an operation start before 0 or end after the limit", rows, {"bits": bs})
                head += d
        if full:
            key = str(rows)
            if key in seen:
                violate("C15", "two different bitstrings decode to the same fully scheduled result", [seen[key], bs])
            seen[key] = bs
    # ---- copies of the used encoder (deepcopy / pickle round trip, as when an encoder travels to a worker process) are encoders of the same instance (C15)
    if n <= 8 and (len(jobs) + limit) % 2 == 0:
        import copy
        import pickle

        for how, mk in (("deepcopy", copy.deepcopy), ("pickle", lambda e: pickle.loads(pickle.dumps(e)))):
            try:
                enc2 = mk(enc)
                n2 = enc2.n_qubits
                w2 = enc2.get_problem_hamiltonian().num_qubits
                same = all(decode_impl(enc2, inst, bitstring(i, n)) == decoded[i] for i in range(2**n)) if n2 == n else None
            except Exception as e:  # noqa: BLE001
                violate("C15", f"a {how} copy of a used encoder does not report / build / decode", repr(e)[:100])
                continue
            ctx.dist["encoder-copy:" + how] += 1
            if n2 != nq_expected or w2 != n2 or same is not True:
                violate("C15", f"a {how} copy of a used encoder reports another qubit count, builds a Hamiltonian of another width or decodes differently",
                        {"n_qubits": n2, "expected": nq_expected, "hamiltonian_width": w2, "decodes_like_original": same})
    # ---- completeness (C15) and the optimum (C02): independent enumeration
    feas = feasible_schedules(jobs, limit) if sum(len(j) for j in jobs) <= 6 and limit <= 8 else None
    if feas is not None:
        for sch in feas:
            if str([list(r) for r in sch]) not in seen:
                violate("C15", "a feasible schedule with makespan within the limit is not the decoding of any bitstring", sch)
                break
    # ---- energies: model correspondence
    if drv is not None and n <= ctx.n(11, 13):
        r = model_energies(drv, jobs, limit, pen, n)
        if "energies" not in r:
            ctx.disagree("enc.energy", inp, "ok", r)
        else:
            me = np.array([float(F(e)) for e in r["energies"]])
            bad = np.nonzero(np.abs(me - diag) > tol)[0]
            if len(bad):
                i = int(bad[0])
                ctx.disagree("enc.energy value", dict(inp, bits=bitstring(i, n)), float(diag[i]), float(me[i]))
            md = r["decoded"]
            for i in (0, 2**n - 1, (2**n) // 3, 5 % (2**n)):
                if md[i] != decoded[i][0]:
                    ctx.disagree("enc.decode", dict(inp, bits=bitstring(i, n)), decoded[i][0], md[i])
                    break
    # ---- C01: energy classes
    feas_E, infeas_E = [], []
    for i in range(2**n):
        rows, valid, mk = decoded[i]
        e = float(diag[i])
        full = all(s is not None for r in rows for s in r)
        if not full:
            infeas_E.append((e, i))
            if e < Pe - tol:
                violate("C01", "a bitstring with an undecodable start-time variable has energy below the encoding penalty", {"energy": e, "enc": Pe}, {"bits": bitstring(i, n)})
            continue
        prec, ovl = count_violations(jobs, rows)
        base = Pp * prec + Po * ovl
        if not (base - tol <= e <= base + W + tol):
            violate("C01", "energy of a decoded schedule is not (violated precedence pairs x penalty + overlapping pairs x penalty) plus an optimisation part in [0, weight]",
                    {"energy": e, "prec": prec, "ovl": ovl}, {"bits": bitstring(i, n)})
        if (prec == 0 and ovl == 0) != bool(valid):
            violate("C01", "decoded schedule's validity verdict differs from its constraint violations", rows, {"bits": bitstring(i, n)})
        (feas_E if prec == 0 and ovl == 0 else infeas_E).append((e, i, mk))
    strict = W < min(Pp, Po) or (W <= min(Pp, Po) and share < 1)
    if strict and feas_E and infeas_E:
        hi = max(feas_E)
        lo = min(infeas_E)
        if not hi[0] < lo[0]:
            violate("C01", "a feasible state is not strictly below every infeasible state", {"feasible": hi, "infeasible": lo},
                    {"bits": bitstring(hi[1], n), "bits2": bitstring(lo[1], n)})
    # ---- C02: makespan order and ground state (pure makespan objective)
    if share == 0 and feas_E:
        by_mk = {}
        for e, i, mk in feas_E:
            by_mk.setdefault(mk, []).append(e)
        mks = sorted(by_mk)
        gap = None
        for a, b in zip(mks, mks[1:]):
            g = min(by_mk[b]) - max(by_mk[a])
            gap = g if gap is None else min(gap, g)
            if limit - a <= 20 and not max(by_mk[a]) < min(by_mk[b]):
                violate("C02", "a feasible schedule with a smaller makespan does not have strictly smaller energy", {"makespans": [a, b], "energies": [max(by_mk[a]), min(by_mk[b])]})
        if gap is not None:
            ctx.extra["min_energy_gap_between_makespan_classes"] = min(gap, ctx.extra.get("min_energy_gap_between_makespan_classes", gap))
        if strict:
            g = int(np.argmin(diag))
            rows, valid, mk = decoded[g]
            if not valid:
                violate("C02", "the minimum-energy basis state does not decode to a feasible schedule", rows, {"bits": bitstring(g, n)})
            elif feas is not None and feas:
                opt = min(makespan_of(jobs, s) for s in feas)
                if mk != opt:
                    violate("C02", "the ground state's makespan is not the optimum of the instance", {"ground": mk, "optimum": opt}, {"bits": bitstring(g, n)})
    if feas is not None and feas and not feas_E:
        violate("C15", "feasible schedules exist within the limit but no bitstring decodes to one", feas[0])


def z_terms(H):
    """[(mask over qubits (bit q = qubit q), coefficient)] of a diagonal SparsePauliOp; raises ValueError otherwise"""
    n = H.num_qubits
    out = []
    for label, coeff in zip(H.paulis.to_labels(), H.coeffs):
        mask = 0
        for pos, ch in enumerate(label):
            if ch == "Z":
                mask |= 1 << (n - 1 - pos)
            elif ch != "I":
                raise ValueError("not diagonal: " + label)
        out.append((mask, float(coeff.real)))
    return out


def compare_table(ctx, jobs, limit, pen, H, inp):
    """the Hamiltonian as an OPERATOR: the implementation's coefficient table (equal strings merged, nothing dropped) against the canonical table of
    Model/EncoderPoly.lean (`normalize (energyPolyOf …)`, proved to evaluate to the model's eigenvalue on every basis state).  Equal tables mean
    equal eigenvalues on all 2^n basis states — at any qubit count.  Per entry: |impl − model| <= 1e-9·|model| + 1e-12·Σ|coefficients|."""
    drv = ctx.lean("Encoder")
    if drv is None or H is None:
        return
    try:
        terms = z_terms(H.simplify(atol=0.0, rtol=0.0))
    except ValueError:
        return  # not diagonal: reported by the oracle
    r = drv.ask({"op": "enc.table", "inst": [[list(o) for o in j] for j in jobs], "limit": limit, "pen": pen_json(pen)})
    if "table" not in r:
        ctx.disagree("enc.table", inp, "ok", r)
        return
    impl = {}
    for m, c in terms:
        impl[m] = impl.get(m, 0.0) + c
    model = {}
    for c, qs in r["table"]:
        m = 0
        for q in qs:
            m |= 1 << q
        model[m] = float(F(c))
    scale = sum(abs(v) for v in model.values())
    ctx.dist["operator-table compared"] += 1
    ctx.extra["max_table_entries"] = max(ctx.extra.get("max_table_entries", 0), len(model))
    ctx.extra["max_table_qubits"] = max(ctx.extra.get("max_table_qubits", 0), H.num_qubits)
    for m in set(impl) | set(model):
        a, b = impl.get(m, 0.0), model.get(m, 0.0)
        if abs(a - b) > 1e-9 * abs(b) + 1e-12 * scale:
            qs = [q for q in range(H.num_qubits) if m >> q & 1]
            ctx.disagree("enc.table: coefficient of a Pauli-Z string", dict(inp, z_qubits=qs), a, b)
            return


def sparse_energy(terms, state):
    import math

    return math.fsum(-c if bin(m & state).count("1") & 1 else c for m, c in terms)


def analyse_sparse(ctx, prop, jobs, limit, pen, tag):
    """large makespan limits (tens to hundreds of qubits): energies of the basis states of feasible schedules, summed exactly (math.fsum) from the Pauli
    terms; oracle: strictly increasing with the makespan (C02) and inside [0, W] (C01); correspondence with the model on the same basis states"""
    drv = ctx.lean("Encoder")
    inst_json = [[list(o) for o in j] for j in jobs]
    inp = {"inst": inst_json, "limit": limit, "pen": pen_json(pen), "sparse": True}
    other = ctx.extra.setdefault("_other", {})

    def violate(p, what, observed=None, extra=None):
        if p == prop:
            ctx.violate(what, dict(inp, **(extra or {})), observed, key=f"{p}:{what[:70]}")
        else:
            other[p] = other.get(p, 0) + 1

    inst, enc = build(jobs, limit, pen)
    n = enc.n_qubits
    ctx.case(inp, True, tags=[tag, f"jobs:{len(jobs)}", "qubits:12+", "share0" if pen["share"] == 0 else "share>0"])
    try:
        H_ = enc.get_problem_hamiltonian()
        terms = z_terms(H_)
        if H_.num_qubits <= 70:
            compare_table(ctx, jobs, limit, pen, H_, inp)
    except Exception as e:  # noqa: BLE001
        violate("C15", "no diagonal Hamiltonian for a valid instance and limit", repr(e)[:100])
        return
    scale = sum(abs(c) for _, c in terms)
    longest = max(sum(d for _, d in j) for j in jobs)
    # feasible schedules with a small makespan, enumerated independently of the encoder
    feas = []
    for horizon in range(longest, min(limit, longest + 4) + 1):
        feas = feasible_schedules(jobs, horizon, cap=400)
        if len(feas) >= 40:
            break
    if not feas:
        return
    W = float(pen["opt"])
    rows_E = []
    bitstrings = []
    for sch in feas:
        state = 0
        for vrow, row in zip(layout(jobs, limit), sch):
            for v, s in zip(vrow, row):
                k = list(v.values).index(s)
                state |= ((1 << k) - 1) << v._qubit_start_index
        bs = format(state, f"0{n}b")
        try:
            rows, valid, mk = decode_impl(enc, inst, bs)
        except Exception as e:  # noqa: BLE001
            violate("C15", "decoding a bitstring of the reported length raised", repr(e)[:100], {"bits": bs})
            return
        if rows != [list(r) for r in sch] or not valid:
            violate("C15", "the basis state of a feasible schedule does not decode to that schedule", {"schedule": sch, "decoded": rows})
            continue
        e = sparse_energy(terms, state)
        rows_E.append((mk, e, bs))
        bitstrings.append(bs)
        if not (-1e-12 * scale <= e <= W + 1e-12 * scale):
            violate("C01", "the energy of a feasible schedule is outside [0, optimisation weight]", {"energy": e, "makespan": mk}, {"bits": bs})
    if pen["share"] == 0:
        by_mk = {}
        for mk, e, bs in rows_E:
            by_mk.setdefault(mk, []).append((e, bs))
        mks = sorted(by_mk)
        for a, b in zip(mks, mks[1:]):
            hi, lo = max(by_mk[a]), min(by_mk[b])
            # doubles resolve the weights (n+1)^(end-limit) only down to about 1e-13 of the coefficient scale
            if lo[0] > 1e-11 * scale and not hi[0] < lo[0]:
                violate("C02", "a feasible schedule with a smaller makespan does not have strictly smaller energy", {"makespans": [a, b], "energies": [hi[0], lo[0]]},
                        {"bits": hi[1], "bits2": lo[1]})
    if drv is not None and bitstrings:
        r = drv.ask({"op": "enc.energy", "inst": inst_json, "limit": limit, "pen": pen_json(pen), "bits": [b[::-1] for b in bitstrings]})
        if "energies" not in r:
            ctx.disagree("enc.energy (sparse)", inp, "ok", r)
        else:
            for (mk, e, bs), me in zip(rows_E, r["energies"]):
                m = float(F(me))
                if abs(e - m) > 1e-12 * scale + 1e-6 * abs(m):
                    ctx.disagree("enc.energy value (sparse)", dict(inp, bits=bs), e, m)
                    break


def energies_of(terms, states):
    """vectorised diagonal energies of basis states given as uint64 (n <= 62)"""
    M = np.array([m for m, _ in terms], dtype=np.uint64)
    C = np.array([c for _, c in terms], dtype=float)
    out = np.empty(len(states), dtype=float)
    for a in range(0, len(states), 2048):
        x = states[a:a + 2048, None] & M[None, :]
        for sh in (32, 16, 8, 4, 2, 1):
            x = x ^ (x >> np.uint64(sh))
        par = (x & np.uint64(1)).astype(float)
        out[a:a + 2048] = ((1.0 - 2.0 * par) * C[None, :]).sum(axis=1)
    return out


def analyse_structured(ctx, prop, jobs, limit, pen, tag):
    """instances beyond the full-diagonal budget (up to 62 qubits): ALL states in which at most one start-time variable holds an arbitrary bit
    pattern and every other variable a valid domain-wall value.  These contain every decodable state, so the minimum over the feasible ones is
    exact; an undecodable state below it, or below the encoding penalty, is a counterexample (the ground state lies at or below it)."""
    inst_json = [[list(o) for o in j] for j in jobs]
    inp = {"inst": inst_json, "limit": limit, "pen": pen_json(pen), "structured": True}
    other = ctx.extra.setdefault("_other", {})

    def violate(p, what, observed=None, extra=None):
        if p == prop:
            ctx.violate(what, dict(inp, **(extra or {})), observed, key=f"{p}:{what[:70]}")
        else:
            other[p] = other.get(p, 0) + 1

    inst, enc = build(jobs, limit, pen)
    n = enc.n_qubits
    if n > 62 or n < 1:
        return
    ctx.case(inp, True, tags=[tag, f"jobs:{len(jobs)}", "qubits:12+" if n >= 12 else f"qubits:{n}", "share0" if pen["share"] == 0 else "share>0"])
    try:
        H_ = enc.get_problem_hamiltonian()
        terms = z_terms(H_)
        if H_.num_qubits <= 70:
            compare_table(ctx, jobs, limit, pen, H_, inp)
    except Exception as e:  # noqa: BLE001
        violate("C15", "no diagonal Hamiltonian for a valid instance and limit", repr(e)[:100])
        return
    scale = sum(abs(c) for _, c in terms)
    tol = 1e-9 * scale  # relative to the coefficient scale: the property is invariant under a common rescaling of all weights
    ops = [(ji, oi, v) for ji, vrow in enumerate(layout(jobs, limit)) for oi, v in enumerate(vrow)]
    sizes = [len(v.values) for _, _, v in ops]
    total_valid = int(np.prod(sizes))
    if total_valid > 60000:
        return
    # all valid assignments (index of the value of every variable)
    grids = np.indices(sizes).reshape(len(sizes), -1).T  # (total_valid, n_ops)
    base = np.zeros(len(grids), dtype=np.uint64)
    for col, (_, _, v) in enumerate(ops):
        k = grids[:, col].astype(np.uint64)
        base |= ((np.uint64(1) << k) - np.uint64(1)) << np.uint64(v._qubit_start_index)
    E_valid = energies_of(terms, base)
    # feasibility of the decoded assignments, computed independently
    feas = np.zeros(len(grids), dtype=bool)
    mks = np.zeros(len(grids), dtype=int)
    for r, row in enumerate(grids):
        rows, pos = [], 0
        for j in jobs:
            rows.append([ops[pos + i][2].values[row[pos + i]] for i in range(len(j))])
            pos += len(j)
        pv, ov = count_violations(jobs, rows)
        feas[r] = pv == 0 and ov == 0
        mks[r] = makespan_of(jobs, rows)
    if not feas.any():
        return
    W, Pp, Po, Pe, share = (float(pen[k]) for k in ("opt", "prec", "ovl", "enc", "share"))
    strict = W < min(Pp, Po) or (W <= min(Pp, Po) and share < 1)
    best_feas = float(E_valid[feas].min())
    worst_feas = float(E_valid[feas].max())
    if worst_feas > W + tol or best_feas < -tol:
        violate("C01", "the energy of a feasible schedule is outside [0, optimisation weight]", {"min": best_feas, "max": worst_feas})
    if strict and (~feas).any() and not worst_feas < float(E_valid[~feas].min()):
        i = int(np.argmin(np.where(~feas, E_valid, np.inf)))
        violate("C01", "a feasible state is not strictly below every infeasible state", {"feasible_max": worst_feas, "infeasible": float(E_valid[i])},
                {"bits": format(int(base[i]), f"0{n}b")})
    # one variable with an arbitrary pattern
    for col, (_, _, v) in enumerate(ops):
        w = v.n_qubits
        if w < 2 or (2**w) * (total_valid // sizes[col]) > 150000:
            continue
        pats = np.array([p for p in range(2**w) if bin(p + 1).count("1") != 1], dtype=np.uint64)  # not of the form 1^k 0^*
        if len(pats) == 0:
            continue
        others = np.unique(base & ~(((np.uint64(1) << np.uint64(w)) - np.uint64(1)) << np.uint64(v._qubit_start_index)))
        states = (others[:, None] | (pats[None, :] << np.uint64(v._qubit_start_index))).ravel()
        E = energies_of(terms, states)
        i = int(np.argmin(E))
        emin = float(E[i])
        bits = format(int(states[i]), f"0{n}b")
        if emin < Pe - tol:
            violate("C01", "a bitstring with an undecodable start-time variable has energy below the encoding penalty", {"energy": emin, "enc": Pe}, {"bits": bits})
        if strict and not worst_feas < emin:
            violate("C01", "a feasible state is not strictly below every infeasible state", {"feasible_max": worst_feas, "infeasible": emin}, {"bits": bits})
        if strict and share == 0 and emin < best_feas - tol:
            violate("C02", "the minimum-energy basis state does not decode to a feasible schedule (an undecodable state lies below every feasible one)",
                    {"undecodable": emin, "best_feasible": best_feas}, {"bits": bits})
    if strict and share == 0:
        opt = int(mks[feas].min())
        g = int(np.argmin(np.where(feas, E_valid, np.inf)))
        if int(mks[g]) != opt:
            violate("C02", "the ground state's makespan is not the optimum of the instance", {"ground": int(mks[g]), "optimum": opt}, {"bits": format(int(base[g]), f"0{n}b")})


def gen_structured_instance(rng):
    """one machine: a longer operation and several unit operations (each its own job) — the shape in which a variable's encoding penalty has to outweigh
    many overlap terms; occasionally two-operation jobs"""
    k = rng.randint(2, 4)
    long_d = rng.randint(2, 4)
    jobs = [[(0, long_d)]] + [[(0, 1)] for _ in range(k)]
    if rng.random() < 0.3:
        jobs.append([(1, 1), (0, 1)])
    total = long_d + k + (1 if len(jobs) > k + 1 else 0)
    base = max(total, max(sum(d for _, d in j) for j in jobs))
    # slack: the wider the window of the long operation, the further apart the walls of an invalid pattern can be
    for slack in sorted({rng.choice([0, 1, 2, 3, 4]), 0}, reverse=True):
        limit = base + slack
        sizes = [limit - sum(d for _, d in j) + 1 for j in jobs for _ in j]
        prod = 1
        for x in sizes:
            prod *= x
        if prod <= 40000 and sum(x - 1 for x in sizes) <= 62:
            return jobs, limit
    return jobs, base


def gen_sparse_instance(rng):
    shape = rng.randrange(3)
    if shape == 0:
        jobs = [[(0, rng.randint(1, 2)), (1, rng.randint(1, 2))], [(1, rng.randint(1, 2)), (0, rng.randint(1, 2))]]
        limit = rng.randint(16, 30)
    elif shape == 1:
        jobs = [[(rng.randrange(2), rng.randint(1, 2))] for _ in range(3)]
        limit = rng.randint(12, 20)
    else:
        jobs = [[(0, 1), (1, 2)], [(1, 1)], [(0, 2)]]
        limit = rng.randint(10, 18)
    return jobs, limit


def run_cluster(ctx, prop):
    rng = ctx.rng
    maxq = ctx.n(9, 12)
    for it in range(ctx.n(140, 2500)):
        if ctx.out_of_time() or len(ctx.violations) >= 8:
            break  # (enough failing inputs: a defective encoder may also make later, larger cases explode)
        jobs, limit = gen_instance(rng, maxq)
        pen = gen_penalties(rng)
        if prop == "C02":
            pen = dict(pen, share=F(0))
        analyse(ctx, prop, jobs, limit, pen, "random", maxq)
        if it % 7 == 0:
            longest = max(sum(d for _, d in j) for j in jobs)
            if longest >= 2:
                analyse(ctx, prop, jobs, longest - 1, pen, "short-limit", maxq)
    # fixed: the suite's instance, single job (F11), three operations on one machine with slack (weights matter)
    fixed = [
        ([[(0, 1), (1, 1)], [(1, 1), (0, 2)]], 4, DEFAULT_PEN),
        ([[(0, 1), (1, 1)]], 3, DEFAULT_PEN),
        ([[(0, 1)], [(1, 1)]], 2, DEFAULT_PEN),
        ([[(0, 1)], [(0, 1)], [(0, 1)]], 4, {"enc": F(100), "ovl": F(100), "prec": F(100), "opt": F(100), "share": F(0)}),
        ([[(0, 1)], [(0, 1)], [(0, 1)]], 4, {"enc": F(150), "ovl": F(100), "prec": F(100), "opt": F(50), "share": F(0)}),
        ([[(0, 1)], [(0, 1)], [(0, 1)], [(0, 1)]], 3, {"enc": F(100), "ovl": F(100), "prec": F(100), "opt": F(25), "share": F(0)}),
        ([[(0, 2)], [(0, 1)], [(0, 1)]], 5, {"enc": F(100), "ovl": F(100), "prec": F(100), "opt": F(100), "share": F(0)}),
    ]
    if True:
        # large slack on one machine: the viability weights (max constraint count + 1) are what keeps undecodable
        # states above the encoding penalty here (14-15 qubits: oracle on the implementation; the model is compared up to the diagonal budget)
        fixed += [
            ([[(0, 1)], [(0, 1)], [(0, 1)]], 6, {"enc": F(150), "ovl": F(100), "prec": F(100), "opt": F(100), "share": F(0)}),
            ([[(0, 1)], [(0, 1)], [(0, 1)]], 6, {"enc": F(100), "ovl": F(100), "prec": F(100), "opt": F(100), "share": F(0)}),
            ([[(0, 2)], [(0, 1)], [(0, 1)], [(0, 1)]], 5, {"enc": F(100), "ovl": F(100), "prec": F(100), "opt": F(50), "share": F(0)}),
            ([[(0, 2)], [(0, 1)], [(0, 1)]], 6, {"enc": F(150), "ovl": F(100), "prec": F(100), "opt": F(100), "share": F(0)}),
            ([[(0, 2)], [(0, 1)], [(0, 1)]], 6, {"enc": F(100), "ovl": F(100), "prec": F(100), "opt": F(100), "share": F(0)}),
        ]
    for jobs, limit, pen in fixed:
        if len(ctx.violations) >= 8:
            break
        analyse(ctx, prop, jobs, limit, dict(pen), "fixed", 15)
    # long operations: the makespan weights exceed 2^63 (two jobs of length 39 at limit 40: 4 qubits)
    for jobs, limit in [([[(0, 39)], [(1, 20), (0, 19)]], 40), ([[(0, 31)], [(1, 31)], [(0, 15), (1, 16)]], 32), ([[(0, 30), (1, 33)]], 64)]:
        if len(ctx.violations) >= 8:
            break
        analyse(ctx, prop, jobs, limit, dict(DEFAULT_PEN), "long-operations", 15)
    # beyond the full-diagonal budget: one variable arbitrary, the others valid (tight penalties make the encoding penalty compete with overlap terms)
    sub2 = ctx.sub_rng("structured")
    tight = [{"enc": F(100), "ovl": F(100), "prec": F(100), "opt": F(50), "share": F(0)}, {"enc": F(100), "ovl": F(100), "prec": F(100), "opt": F(100), "share": F(0)},
             {"enc": F(150), "ovl": F(100), "prec": F(120), "opt": F(50), "share": F(0)}, dict(DEFAULT_PEN)]
    if len(ctx.violations) < 8:
        analyse_structured(ctx, prop, [[(0, 3)], [(0, 1)], [(0, 1)], [(0, 1)]], 10, dict(tight[0]), "structured")
    for it in range(ctx.n(4, 40)):
        if ctx.out_of_time() or len(ctx.violations) >= 8:
            break  # (enough failing inputs: a defective encoder may also make later, larger cases explode)
        jobs, limit = gen_structured_instance(sub2)
        analyse_structured(ctx, prop, jobs, limit, dict(tight[it % len(tight)]), "structured")
    # large limits (sparse: only the basis states of feasible schedules)
    sub = ctx.sub_rng("sparse")
    for _ in range(ctx.n(3, 40)):
        if ctx.out_of_time() or len(ctx.violations) >= 8:
            break  # (enough failing inputs: a defective encoder may also make later, larger cases explode)
        jobs, limit = gen_sparse_instance(sub)
        analyse_sparse(ctx, prop, jobs, limit, dict(DEFAULT_PEN) if sub.random() < 0.6 else dict(gen_penalties(sub), share=F(0)), "large-limit")
    other = ctx.extra.pop("_other", {})
    if other:
        ctx.notes.append(f"oracle violations of sibling properties seen in this run (reported by their own checks): {other}")


def replay_case(ctx, prop, case):
    inp = case.get("case", case).get("input", case.get("input"))
    jobs = [[tuple(o) for o in j] for j in inp["inst"]]
    pen = {k: F(v) for k, v in inp["pen"].items()}
    analyse(ctx, prop, jobs, inp["limit"], pen, "replay", 14)
    ctx.extra.pop("_other", None)
