"""Solver level of C07: the wrappers the solver installs in front of the configured primitives (evolving_ansatz_minimum_eigensolver.py, constructor).

Real EVQE solvers with a ThreadPoolExecutor and `mutually_exclusive_primitives=True` evaluate through an exact estimator that counts its
invocations in progress (from the start of run() until result() has returned).  Cases: one solver; a second solver constructed from
configurations that SHARE the configured estimator while the first one is computing (both then compute concurrently); the same solver object
solving twice.  Oracle: never more than one invocation in progress; nothing raises."""
from __future__ import annotations

import threading
import time
import warnings
from concurrent.futures import ThreadPoolExecutor

import fakes


def make_probe():
    from qiskit.primitives import BasePrimitiveJob

    class ProbeJob:
        def __init__(self, probe, job):
            self.probe, self.job, self.done_ = probe, job, False

        def result(self):
            try:
                time.sleep(self.probe.delay)
                return self.job.result()
            finally:
                if not self.done_:
                    self.done_ = True
                    with self.probe.guard:
                        self.probe.in_use -= 1

        def __getattr__(self, name):
            return getattr(self.job, name)

    class ProbeEstimator(fakes.ExactEstimator):
        """exact estimator; an invocation is in progress from the entry of run() until its job's result() has returned"""

        def __init__(self, delay):
            super().__init__()
            self.guard = threading.Lock()
            self.in_use = 0
            self.max_in_use = 0
            self.invocations = 0
            self.delay = delay

        def run(self, pubs, *, precision=None):
            with self.guard:
                self.in_use += 1
                self.invocations += 1
                self.max_in_use = max(self.max_in_use, self.in_use)
            time.sleep(self.delay)
            return ProbeJob(self, super().run(pubs, precision=precision))

    return ProbeEstimator


def build_solver(shared_estimator, seed, ex, nq, psize, maxiter, max_gen):
    from qiskit_algorithms.optimizers import COBYLA

    from queasars.circuit_evaluation.configured_primitives import ConfiguredSamplerV2
    from queasars.minimum_eigensolvers.evqe.evqe import EVQEMinimumEigensolver, EVQEMinimumEigensolverConfiguration

    conf = EVQEMinimumEigensolverConfiguration(
        configured_estimator=shared_estimator, configured_sampler=ConfiguredSamplerV2(sampler=fakes.ExactSampler(), shots=64), pass_manager=None,
        optimizer=COBYLA(maxiter=maxiter), optimizer_n_circuit_evaluations=None, max_generations=max_gen, max_circuit_evaluations=None, termination_criterion=None,
        random_seed=seed, population_size=psize, speciation_genetic_distance_threshold=2, selection_alpha_penalty=0.0, selection_beta_penalty=0.0,
        parameter_search_probability=0.5, topological_search_probability=0.5, layer_removal_probability=0.1, parallel_executor=ex, mutually_exclusive_primitives=True)
    return EVQEMinimumEigensolver(conf)


def shared_primitive_case(ctx, prop, rng, mode):
    """mode: 'single' | 'second-solver-on-shared-estimator' | 'same-solver-twice'"""
    from qiskit.quantum_info import SparsePauliOp

    from queasars.circuit_evaluation.configured_primitives import ConfiguredEstimatorV2

    warnings.filterwarnings("ignore")
    nq = 2
    op = SparsePauliOp(["ZZ", "XI", "IZ"], [1.0, 0.5, rng.choice([-1.0, 0.5])])
    seed = rng.randrange(2**31)
    psize, maxiter, max_gen = rng.randint(3, 4), 2, 1
    probe = make_probe()(delay=0.01)
    shared = ConfiguredEstimatorV2(estimator=probe, precision=None)
    inp = {"solver_level": mode, "seed": seed, "population": psize}
    ctx.case(inp, nontrivial=mode != "single", tags=["solver-level", "mode:" + mode])
    errors = []

    def solve(solver):
        try:
            solver.compute_minimum_eigenvalue(op)
        except Exception as e:  # noqa: BLE001
            errors.append(repr(e)[:200])

    with ThreadPoolExecutor(max_workers=3) as ex_a, ThreadPoolExecutor(max_workers=3) as ex_b:
        a = build_solver(shared, seed, ex_a, nq, psize, maxiter, max_gen)
        ta = threading.Thread(target=solve, args=(a,), daemon=True)
        ta.start()
        tb = None
        if mode == "second-solver-on-shared-estimator":
            # while A is computing: a second solver is constructed on the same configured estimator and computes concurrently
            t0 = time.time()
            while probe.invocations < 2 and time.time() - t0 < 20:
                time.sleep(0.01)
            b = build_solver(shared, seed + 1, ex_b, nq, psize, maxiter, max_gen)
            tb = threading.Thread(target=solve, args=(b,), daemon=True)
            tb.start()
        ta.join(240)
        if tb is not None:
            tb.join(240)
        if mode == "same-solver-twice" and not ta.is_alive():
            solve(a)
        hung = ta.is_alive() or (tb is not None and tb.is_alive())
    if prop != "C07":
        return
    if probe.max_in_use > 1:
        ctx.violate("the wrapped primitive had two run() invocations in progress at the same time (solvers with mutually exclusive primitives on a thread pool)",
                    inp, {"max_in_progress": probe.max_in_use, "invocations": probe.invocations}, key="solver-level:overlap:" + mode)
    if errors or hung:
        ctx.violate("a solve through the solver's own wrapper stack raised or did not return", inp, {"errors": errors[:2], "hung": hung}, key="solver-level:raise:" + mode)


def wrapper_table_case(ctx, prop):
    """which wrapper the constructor puts directly in front of the configured primitives, per executor kind and flag"""
    from queasars.circuit_evaluation.configured_primitives import ConfiguredEstimatorV2
    from queasars.circuit_evaluation.mutex_primitives import BatchingMutexEstimator, BatchingMutexSampler
    from queasars.circuit_evaluation.transpiling_primitives import TranspilingEstimatorV2, TranspilingSamplerV2

    warnings.filterwarnings("ignore")
    with ThreadPoolExecutor(max_workers=1) as ex:
        raw = fakes.ExactEstimator()
        s = build_solver(ConfiguredEstimatorV2(estimator=raw, precision=None), 1, ex, 2, 2, 2, 1)
        est = s.configuration.configured_estimator.estimator
        smp = s.configuration.configured_sampler.sampler
        chain_e = [type(est).__name__, type(getattr(est, "_estimator", None)).__name__, type(getattr(getattr(est, "_estimator", None), "_estimator", None)).__name__]
        chain_s = [type(smp).__name__, type(getattr(smp, "_sampler", None)).__name__]
    inp = {"solver_level": "wrapper-table"}
    ctx.case(inp, nontrivial=True, tags=["solver-level", "mode:wrapper-table"])
    if prop != "C07":
        return
    want_e = [TranspilingEstimatorV2.__name__, BatchingMutexEstimator.__name__, "ExactEstimator"]
    want_s = [TranspilingSamplerV2.__name__, BatchingMutexSampler.__name__]
    if chain_e != want_e or chain_s != want_s:
        ctx.violate("with a thread pool and mutually exclusive primitives the solver does not put transpiling(batching(primitive)) in front of the configured primitives",
                    inp, {"estimator_chain": chain_e, "sampler_chain": chain_s}, key="solver-level:wrapper-table")


def install_views_case(ctx, prop, rng):
    """the chain of wrappers each of 1-3 solvers constructed on ONE configured estimator evaluates through (wrapper kinds, identity of the
    runner objects in order of creation) against Install.views"""
    from queasars.circuit_evaluation.configured_primitives import ConfiguredEstimatorV2
    from queasars.circuit_evaluation.mutex_primitives import BatchingMutexEstimator, MutexEstimator
    from queasars.circuit_evaluation.transpiling_primitives import TranspilingEstimatorV2

    warnings.filterwarnings("ignore")
    drv = ctx.lean("Install")
    n = rng.randint(1, 3)
    flags = [rng.random() < 0.75 for _ in range(n)]
    shared = ConfiguredEstimatorV2(estimator=fakes.ExactEstimator(), precision=None)
    views = []
    order = {}
    with ThreadPoolExecutor(max_workers=1) as ex:
        from qiskit_algorithms.optimizers import COBYLA

        from queasars.circuit_evaluation.configured_primitives import ConfiguredSamplerV2
        from queasars.minimum_eigensolvers.evqe.evqe import EVQEMinimumEigensolver, EVQEMinimumEigensolverConfiguration

        for k in range(n):
            conf = EVQEMinimumEigensolverConfiguration(
                configured_estimator=shared, configured_sampler=ConfiguredSamplerV2(sampler=fakes.ExactSampler(), shots=64), pass_manager=None, optimizer=COBYLA(maxiter=2),
                optimizer_n_circuit_evaluations=None, max_generations=1, max_circuit_evaluations=None, termination_criterion=None, random_seed=k + 1, population_size=2,
                speciation_genetic_distance_threshold=2, selection_alpha_penalty=0.0, selection_beta_penalty=0.0, parameter_search_probability=0.5,
                topological_search_probability=0.5, layer_removal_probability=0.1, parallel_executor=ex, mutually_exclusive_primitives=flags[k])
            solver = EVQEMinimumEigensolver(conf)
            chain, p = [], solver.configuration.configured_estimator.estimator
            while True:
                if isinstance(p, TranspilingEstimatorV2):
                    chain.append("T")
                    p = p._estimator
                elif isinstance(p, BatchingMutexEstimator):
                    runner = getattr(p, "_runner", None) or getattr(p, "_job_runner", None) or next(v for v in vars(p).values() if type(v).__name__ == "BatchingMutexPrimitiveJobRunner")
                    chain.append(["B", order.setdefault(id(runner), k)])
                    p = p._estimator
                elif isinstance(p, MutexEstimator):
                    chain.append(["M", order.setdefault(id(getattr(p, "_lock", p)), k)])
                    p = p._estimator
                else:
                    break
            views.append(chain)
    inp = {"solver_level": "install-views", "mutually_exclusive": flags}
    ctx.case(inp, nontrivial=n >= 2, tags=["solver-level", "mode:install-views", f"solvers:{n}"])
    if drv is not None:
        m = drv.ask({"op": "install.views", "cfgs": [{"mutually_exclusive": f, "executor": "threadPool"} for f in flags]})
        ctx.compare("install.views: wrapper chain of every solver constructed on one configured estimator", inp, views, m.get("views"))


def run_solver_level(ctx, prop):
    rng = ctx.rng
    wrapper_table_case(ctx, prop)
    for _ in range(ctx.n(4, 30)):
        install_views_case(ctx, prop, rng)
    modes = ["second-solver-on-shared-estimator", "single", "same-solver-twice"]
    for i in range(ctx.n(2, 12)):
        if ctx.out_of_time():
            break
        shared_primitive_case(ctx, prop, rng, modes[i % 3] if i else modes[0])
