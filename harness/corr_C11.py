"""C11 — operators never modify their input population or recorded history (shared harness: evqe_corr.py)."""
import evqe_corr

META = {
    "lean_modules": ["QVerif.Props.C11"],
    "drivers": ["Evqe"],
    "theorems": [
        "QVerif.Evqe.operators_write_only_fresh",
        "QVerif.Evqe.history_stable",
        "QVerif.Evqe.deref_extends",
        "QVerif.Evqe.lifted_refines",
    ],
    "level": "proof",
    "level_text": "Proof on a heap model (mutable containers = cells, populations hold references): every write of an operator targets a cell allocated during that "
    "application and the output only references cells of the new heap (operators_write_only_fresh); hence, for every operator sequence, every population ever passed to an "
    "operator dereferences in the final heap to the value it had when recorded (history_stable); the lifted operators compute what the functional model of C10 computes "
    "(lifted_refines). Legacy.hSpeciate documents the pre-repair aliasing (F7) with a kernel-checked witness. Tied to the code by deep structural snapshots of every "
    "apply_operator argument and callback payload, re-compared after every later operator, and by the object-identity pattern (which containers are shared / fresh).",
    "level_note": "Trusted: Lean kernel + standard axioms; WHERE the Python code allocates and writes is asserted by the hand-written heap model and validated only by the "
    "snapshot/identity correspondence (the functional content is C10's model); individuals, layers and tuples are immutable values (frozen dataclasses).",
    "rule": "cases = as C10 (operator sequences of length 1-10 on populations of 2-9 individuals, 1 or 3 workers); after EVERY operator every earlier input population and "
    "every reported evaluation result is compared with its deep structural snapshot taken at call time, again at the end of the run; identity of the containers of each "
    "output versus all earlier ones is compared with the heap model's prediction. non-trivial = population of >= 3; distinct = (operator, input population)",
    "trusted_base": ["Lean 4 kernel; axioms per theorem under coverage.theorems", "harness/corr_C11.py, evqe_corr.py, Driver/Evqe.lean"],
    "assumptions": ["individuals/layers/gates are immutable (frozen dataclasses, tuples)"],
}


def run(ctx):
    import warnings
    warnings.filterwarnings("ignore")
    evqe_corr.run_cluster(ctx, "C11")


def replay(ctx, case):
    evqe_corr.replay_case(ctx, "C11", case)
