"""C11 — operators never modify their input population or recorded history (shared harness: evqe_corr.py)."""
import evqe_corr

META = {
    "lean_modules": ["QVerif.Props.C11"],
    "drivers": ["Evqe"],
    "theorems": [
        "QVerif.Evqe.operators_write_only_fresh",
        "QVerif.Evqe.history_stable",
        "QVerif.Evqe.deref_extends",
        "QVerif.Evqe.lifted_refines",
    ],
    "level": "proof",
    "level_text": "Proof on a heap model (mutable containers = cells, populations hold references): every write of an operator targets a cell allocated during that "
    "application and the output only references cells of the new heap (operators_write_only_fresh); hence, for every operator sequence, every population ever passed to an "
    "operator dereferences in the final heap to the value it had when recorded (history_stable); the lifted operators compute what the functional model of C10 computes "
    "(lifted_refines). Legacy.hSpeciate documents the pre-repair aliasing (F7) with a kernel-checked witness. Tied to the code by deep structural snapshots of every "
    "apply_operator argument and callback payload, re-compared after every later operator, and by the object-identity pattern (which containers are shared / fresh).",
    "level_note": "Trusted: Lean kernel + standard axioms; WHERE the Python code allocates and writes is asserted by the hand-written heap model and validated only by the "
    "snapshot/identity correspondence (the functional content is C10's model); individuals, layers and tuples are immutable values (frozen dataclasses).",
    "rule": "cases = as C10 (operator sequences of length 1-10 on populations of 2-9 individuals, 1 or 3 workers); after EVERY operator every earlier input population and "
    "every reported evaluation result is compared with its deep structural snapshot taken at call time, again at the end of the run; identity of the containers of each "
    "output versus all earlier ones is compared with the heap model's prediction. non-trivial = population of >= 3; distinct = (operator, input population)",
    "trusted_base": ["Lean 4 kernel; axioms per theorem under coverage.theorems", "harness/corr_C11.py, evqe_corr.py, Driver/Evqe.lean"],
    "assumptions": ["individuals/layers/gates are immutable (frozen dataclasses, tuples)"],
}


def run(ctx):
    import warnings
    warnings.filterwarnings("ignore")
    evqe_corr.run_cluster(ctx, "C11")
    for _ in range(ctx.n(2, 20)):
        if ctx.out_of_time():
            break
        solver_history_case(ctx, ctx.rng)


def solver_history_case(ctx, rng):
    """the per-generation history stored in a solver result: snapshots taken at every result callback (by a recording termination criterion) and when
    the solve returns must still describe the stored history at the end of the run AND after the same solver object has been used for a second solve"""
    from concurrent.futures import ThreadPoolExecutor

    from qiskit.quantum_info import SparsePauliOp
    from qiskit_algorithms.optimizers import COBYLA

    import fakes
    from queasars.circuit_evaluation.configured_primitives import ConfiguredEstimatorV2, ConfiguredSamplerV2
    from queasars.minimum_eigensolvers.base.termination_criteria import EvolvingAnsatzMinimumEigensolverBaseTerminationCriterion
    from queasars.minimum_eigensolvers.evqe.evqe import EVQEMinimumEigensolver, EVQEMinimumEigensolverConfiguration

    class Recording(EvolvingAnsatzMinimumEigensolverBaseTerminationCriterion):
        def __init__(self):
            self.snaps = []

        def reset_state(self):
            self.snaps = []

        def check_termination(self, population_evaluation, best_individual, best_expectation_value):
            self.snaps.append((population_evaluation, evqe_corr.result_struct(population_evaluation)))
            return False

    nq = rng.choice([2, 2, 3])
    seed = rng.randrange(2**31)
    crit = Recording()
    gens = rng.randint(2, 3)
    inp = {"kind": "solver_history", "n_qubits": nq, "seed": seed, "generations": gens}
    ctx.case(inp, nontrivial=True, tags=["solver-history"])
    with ThreadPoolExecutor(max_workers=rng.choice([1, 3])) as ex:
        conf = EVQEMinimumEigensolverConfiguration(
            configured_estimator=ConfiguredEstimatorV2(estimator=fakes.ExactEstimator(), precision=None), configured_sampler=ConfiguredSamplerV2(sampler=fakes.ExactSampler(), shots=64),
            pass_manager=None, optimizer=COBYLA(maxiter=2), optimizer_n_circuit_evaluations=None, max_generations=gens, max_circuit_evaluations=None,
            termination_criterion=crit, random_seed=seed, population_size=rng.randint(3, 4), speciation_genetic_distance_threshold=2, selection_alpha_penalty=0.1,
            selection_beta_penalty=0.05, parameter_search_probability=0.5, topological_search_probability=0.6, layer_removal_probability=0.2, parallel_executor=ex,
            mutually_exclusive_primitives=False)
        solver = EVQEMinimumEigensolver(conf)
        op1 = SparsePauliOp(["Z" * nq, "X" + "I" * (nq - 1)], [1.0, 0.5])
        op2 = SparsePauliOp(["I" * (nq - 1) + "Z", "Y" * nq], [-1.0, 0.25])
        res1 = solver.compute_minimum_eigenvalue(op1)
        snaps1 = list(crit.snaps)
        hist1 = [evqe_corr.result_struct(e) for e in res1.population_evaluation_results]
        if [s for _, s in snaps1] != hist1:
            ctx.violate("the history stored in a solver result differs from the evaluation results as they were when reported", inp, {"reported": len(snaps1), "stored": len(hist1)},
                        key="C11:history:differs-from-callbacks")
        for obj, s in snaps1:
            if evqe_corr.result_struct(obj) != s:
                ctx.violate("an evaluation result reported earlier in the run was modified later in the run", inp, None, key="C11:history:payload-modified")
                break
        gen1 = res1.generations
        solver.compute_minimum_eigenvalue(op2)  # the same solver object is used again
        hist1_after = [evqe_corr.result_struct(e) for e in res1.population_evaluation_results]
        if hist1_after != hist1 or res1.generations != gen1:
            ctx.violate("the history stored in a solver result changed when the same solver object was used for another solve", inp,
                        {"generations_before": len(hist1), "generations_after": len(hist1_after)}, key="C11:history:changed-by-later-solve")


def replay(ctx, case):
    inp = case.get("case", case).get("input", case.get("input")) or {}
    if inp.get("kind") == "solver_history":
        import random

        ctx.rng = random.Random(case.get("seed", ctx.seed))
        return run(ctx)
    evqe_corr.replay_case(ctx, "C11", case)
