"""C01 — JSSP Hamiltonian energies (shared harness: encoder_corr.py)."""
import encoder_corr

META = {
    "lean_modules": ["QVerif.Props.C01", "QVerif.Props.C01Cvar"],
    "drivers": ["Encoder"],
    "theorems": [
        "QVerif.Encoder.hamiltonian_operator_eigenvalue",
        "QVerif.Encoder.eval_normalize",
        "QVerif.Encoder.cvar_of_feasible_samples",
        'QVerif.Encoder.energy_decoded', 'QVerif.Encoder.energy_feasible', 'QVerif.Encoder.energy_decoded_infeasible', 'QVerif.Encoder.energy_lower', 'QVerif.Encoder.energy_undecodable', 'QVerif.Encoder.feasible_below_infeasible', 'QVerif.Encoder.feasible_below_infeasible_boundary', 'QVerif.Encoder.makespanTerm_pos', 'QVerif.Encoder.abel_bound', 'QVerif.Encoder.viability_eq', 'QVerif.Encoder.incidences_bound', 'QVerif.DoubleCount.incidences_eq'],
    "level": "proof",
    "level_text": 'Proof (exact rationals, model Model/Encoder.lean): for every instance, limit >= longest job, penalties in the documented regime and every basis state: if every start-time variable decodes, the energy is exactly (#out-of-order consecutive pairs) x P_prec + (#overlapping pairs on a machine) x P_ovl + an optimisation part in [0, W] (energy_decoded, energy_feasible, energy_decoded_infeasible, violations counted on the decoded start times); on EVERY state the energy is >= 2 P_enc x (number of reverse domain walls) (energy_lower: pair penalties never outweigh the viability terms weighted by max constraint count + 1 - double counting + Abel summation), hence >= P_enc when some variable is undecodable (energy_undecodable); feasible states are strictly below all infeasible ones when W < P_prec, P_ovl (feasible_below_infeasible) and also on the boundary W = P_c of the regime — the defaults — when the makespan share is positive and some job has an operation (feasible_below_infeasible_boundary: the optimisation part of every decoded state is then strictly positive, makespanTerm_pos, and an undecodable state costs >= 2 P_enc).',
    "level_note": "Trusted: Lean kernel + standard axioms; hand-written exact-rational model tied to the float implementation (i) as an OPERATOR: the implementation's coefficient "
    "table (Z positions -> coefficient) against the canonical table of Model/EncoderPoly.lean, which mirrors value_term / viability_term / the constraint and optimisation terms "
    "construction by construction and is PROVED to evaluate to the model's eigenvalue function on every basis state (hamiltonian_operator_eigenvalue, eval_normalize) — equal tables "
    "are equal eigenvalues on all 2^n states, at any qubit count (compared up to 70 qubits); and (ii) by comparing ALL 2^n eigenvalues of "
    "get_problem_hamiltonian() with the model (tolerance 1e-9 x sum |coefficients|) on generated instances; Qiskit SparsePauliOp arithmetic on I/Z strings. "
    "Float effects (loss of strictness for large limit - makespan, overflow of (n+1)^limit) are outside the model.",
    "rule": "cases = instances (1-4 jobs, 1-4 machines, durations 1-3, degenerate shapes) x limits x penalty configurations of the documented regime (defaults, "
    "boundary W = P_c = P_enc, dyadic random, shares 0, 1/4, 1/2, 1); for n <= 11 (13 thorough) qubits ALL 2^n energies and decodings are compared with the model; "
    "fixed instances with three/four operations on one machine and large slack (14-15 qubits, oracle only); oracle on the implementation: every clause of the "
    "property evaluated on the real diagonal with decodings from translate_result_bitstring and an independent exhaustive job-shop solver. "
    "non-trivial = >= 2 jobs and >= 2 qubits; distinct = (instance, limit, penalties)",
    "trusted_base": ["Lean 4 kernel; axioms per theorem under coverage.theorems", "harness/corr_C01.py, encoder_corr.py, Driver/Encoder.lean",
                     "Qiskit SparsePauliOp arithmetic on I/Z strings is pointwise on the computational-basis diagonal"],
    "assumptions": ["exact rational arithmetic in the model; float comparison tolerance 1e-9 x sum|coeff|"],
}


def run(ctx):
    encoder_corr.run_cluster(ctx, "C01")


def replay(ctx, case):
    encoder_corr.replay_case(ctx, "C01", case)
