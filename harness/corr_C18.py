"""C18 — JSON round trips preserve every serialisable object: correspondence (encoders and decoders vs Model/Codec.lean)
and oracle (decoded object compared field by field, with container and number types, with the original)."""
from __future__ import annotations

import json
import math

META = {
    "lean_modules": ["QVerif.Props.C18"],
    "drivers": ["Codec"],
    "theorems": [
        "QVerif.Codec.gate_roundtrip_layerCodec",
        "QVerif.Codec.layer_roundtrip_layerCodec",
        "QVerif.Codec.gate_roundtrip_popCodec",
        "QVerif.Codec.layer_roundtrip_popCodec",
        "QVerif.Codec.indiv_roundtrip_popCodec",
        "QVerif.Codec.pop_roundtrip_popCodec",
        "QVerif.Codec.gate_roundtrip",
        "QVerif.Codec.layer_roundtrip",
        "QVerif.Codec.indiv_roundtrip",
        "QVerif.Codec.pop_roundtrip",
        "QVerif.Codec.scalar_roundtrip",
        "QVerif.Codec.quasi_roundtrip",
        "QVerif.Codec.circuit_roundtrip",
        "QVerif.Codec.evalres_roundtrip",
        "QVerif.Codec.result_roundtrip",
        "QVerif.Codec.machine_roundtrip",
        "QVerif.Codec.op_roundtrip",
        "QVerif.Codec.job_roundtrip",
        "QVerif.Codec.instance_roundtrip",
        "QVerif.Codec.psched_roundtrip",
        "QVerif.Codec.jresult_roundtrip",
        "QVerif.Codec.pyDict_distinct",
    ],
    "level": "proof",
    "level_text": "Proof over a model of the four encoder/decoder pairs (Model/Codec.lean): encoders as functions from typed objects to JSON trees, decoders as "
    "json.loads' bottom-up application of the object_hook on a dynamically typed value universe (dispatch on identifying keys in source order, unrecognised dicts -> None "
    "resp. passed through, constructors re-run with their validity checks, dict(pairs) with overwrite semantics). Theorems: dec hook (enc x) = x for every gate, layer, "
    "individual, population (species fields None or present), complex/real scalar, quasi distribution, circuit payload, population evaluation result, complete solver "
    "result (every field None or present, aux list/dict) with each decoder that claims the class, and for every machine, operation, job, instance, (un)scheduled operation "
    "and scheduling result — for all objects that passed their constructors and whose dicts have pairwise different keys (what every existing object satisfies). Tied to "
    "the code per run: the tree the real encoder writes is decoded by the model and by the real decoder (results compared), re-encoded by the model (compared with the "
    "real encoder's tree), plus a malformed stream (deleted keys, unknown gate types, foreign dicts) comparing error kinds.",
    "level_note": "Trusted: Lean kernel + standard axioms; json text layer (loads(dumps(t)) = t on plain trees, floats by repr), qpy+base64 of QuantumCircuit (opaque payload; the "
    "oracle compares circuits with Qiskit's ==), CPython dict(pairs); the model is hand-written and tied by correspondence. Objects whose fields have other Python types "
    "than the annotated ones are outside the model (illTyped).",
    "rule": "cases = generated objects of every class: layers/individuals (1-4 qubits, 1-3 layers, float / integer-valued float / int / -0.0 / 1e-320 / 1e300 values), "
    "populations (0-5 individuals; species fields None, present, empty), evaluation results (None values), solver results (each field None/empty/present; eigenvalue "
    "float, int, complex; aux None/list/dict with unusual keys; initial-state circuit None / gate-free / with gates / zero qubits), JSSP instances and results (names such "
    "as 'tuple', 'dict', unicode, quotes; valid, overlapping and unscheduled schedules; empty instance) x every decoder that claims the class. non-trivial = nested object "
    "(not a single gate/machine); distinct = canonical rendering of the object",
    "trusted_base": ["Lean 4 kernel; axioms per theorem under coverage.theorems", "harness/corr_C18.py, Driver/Codec.lean", "json module text layer, qpy, base64"],
    "assumptions": ["dict keys of auxiliary values are strings", "QuasiDistribution keys are ints"],
}


# ----------------------------------------------------------------------------------------------------- rendering (Python objects)
def rnum(x):
    if isinstance(x, bool):
        return x
    if isinstance(x, int):
        return x
    if isinstance(x, float):
        return {"f": repr(x)}
    raise TypeError(f"not a number: {type(x).__name__}")


def ropt(f, x):
    return None if x is None else f(x)


def rseq(f, x, typ):
    """a sequence field that must have container type `typ`; other types are rendered with a marker so they compare unequal"""
    body = [f(e) for e in x]
    return body if type(x) is typ else {"wrong_container": type(x).__name__, "v": body}


def render(x):
    from qiskit.circuit import QuantumCircuit
    from qiskit.result import QuasiDistribution

    from queasars.job_shop_scheduling import problem_instances as pi
    from queasars.minimum_eigensolvers.base.evolutionary_algorithm import BasePopulationEvaluationResult
    from queasars.minimum_eigensolvers.base.evolving_ansatz_minimum_eigensolver_result import EvolvingAnsatzMinimumEigensolverResult
    from queasars.minimum_eigensolvers.evqe.evolutionary_algorithm.individual import EVQEIndividual
    from queasars.minimum_eigensolvers.evqe.evolutionary_algorithm.population import EVQEPopulation
    from queasars.minimum_eigensolvers.evqe.quantum_circuit import quantum_gate as qg
    from queasars.minimum_eigensolvers.evqe.quantum_circuit.circuit_layer import EVQECircuitLayer

    if x is None or isinstance(x, (bool, str)):
        return x
    if isinstance(x, complex):
        return {"t": "complex", "re": rnum(x.real), "im": rnum(x.imag)}
    if isinstance(x, (int, float)):
        return rnum(x)
    if isinstance(x, qg.IdentityGate):
        return {"t": "gate", "k": "identity", "q": x.qubit_index}
    if isinstance(x, qg.RotationGate):
        return {"t": "gate", "k": "rotation", "q": x.qubit_index}
    if isinstance(x, qg.ControlGate):
        return {"t": "gate", "k": "control", "q": x.qubit_index, "c": x.controlled_qubit_index}
    if isinstance(x, qg.ControlledRotationGate):
        return {"t": "gate", "k": "controlled_rotation", "q": x.qubit_index, "c": x.control_qubit_index}
    if isinstance(x, EVQECircuitLayer):
        return {"t": "layer", "n": x.n_qubits, "gates": rseq(render, x.gates, tuple)}
    if isinstance(x, EVQEIndividual):
        return {"t": "indiv", "n": x.n_qubits, "layers": rseq(render, x.layers, tuple), "params": rseq(rnum, x.parameter_values, tuple)}
    if isinstance(x, EVQEPopulation):
        return {"t": "pop", "individuals": rseq(render, x.individuals, tuple), "reps": ropt(lambda r: rseq(render, r, list), x.species_representatives),
                "members": ropt(lambda m: [[render(k), rseq(lambda i: i, v, list)] for k, v in m.items()] if type(m) is dict else {"wrong_container": type(m).__name__},
                                x.species_members),
                "membership": ropt(lambda m: [[k, render(v)] for k, v in m.items()] if type(m) is dict else {"wrong_container": type(m).__name__}, x.species_membership)}
    if isinstance(x, QuasiDistribution):
        return {"t": "quasi", "data": [[k, rnum(v)] for k, v in x.items()], "shots": ropt(rnum, x.shots), "stddev": ropt(rnum, x.stddev_upper_bound)}
    if isinstance(x, QuantumCircuit):
        return {"t": "circuit"}
    if isinstance(x, BasePopulationEvaluationResult):
        return {"t": "evalres", "pop": render(x.population), "values": rseq(lambda v: ropt(rnum, v), x.expectation_values, tuple), "best": render(x.best_individual),
                "best_value": rnum(x.best_expectation_value)}
    if isinstance(x, EvolvingAnsatzMinimumEigensolverResult):
        aux = x.aux_operators_evaluated
        if isinstance(aux, list):
            raux = {"t": "list", "v": [render(v) for v in aux]}
        elif isinstance(aux, dict):
            raux = {"t": "pydict", "v": [[k, render(v)] for k, v in aux.items()]}
        else:
            raux = render(aux)
        return {"t": "result", "eigenvalue": render(x.eigenvalue), "aux": raux, "eigenstate": render(x.eigenstate), "best": render(x.best_individual),
                "evals": ropt(lambda l: {"t": "list", "v": list(l)} if type(l) is list else {"wrong_container": type(l).__name__}, x.circuit_evaluations),
                "generations": render(x.generations),
                "history": ropt(lambda l: {"t": "list", "v": [render(e) for e in l]} if type(l) is list else {"wrong_container": type(l).__name__}, x.population_evaluation_results),
                "init": render(x.initial_state_circuit)}
    if isinstance(x, pi.Machine):
        return {"t": "machine", "name": x.name}
    if isinstance(x, pi.Operation):
        return {"t": "op", "name": x.name, "job_name": x.job_name, "machine": render(x.machine), "dur": x.processing_duration}
    if isinstance(x, pi.Job):
        return {"t": "job", "name": x.name, "ops": render(x.operations)}
    if isinstance(x, pi.JobShopSchedulingProblemInstance):
        return {"t": "inst", "name": x.name, "machines": render(x.machines), "jobs": render(x.jobs)}
    if isinstance(x, pi.UnscheduledOperation):
        return {"t": "unscheduled", "op": render(x.operation)}
    if isinstance(x, pi.ScheduledOperation):
        return {"t": "scheduled", "op": render(x.operation), "start": x.start_time}
    if isinstance(x, pi.JobShopSchedulingResult):
        return {"t": "jresult", "inst": render(x.problem_instance), "schedule": {"t": "pydict", "v": [[render(k), render(v)] for k, v in x.schedule.items()]} if type(x.schedule) is dict
                else {"wrong_container": type(x.schedule).__name__}}
    if type(x) is tuple:
        return {"t": "tuple", "v": [render(e) for e in x]}
    if type(x) is list:
        return {"t": "list", "v": [render(e) for e in x]}
    if type(x) is dict:
        if all(isinstance(k, str) for k in x) and not any(isinstance(v, (pi.Job, tuple)) for v in x.values()):
            return {"t": "dict", "v": [[k, render(v)] for k, v in x.items()]}
        return {"t": "pydict", "v": [[render(k), render(v)] for k, v in x.items()]}
    raise TypeError(f"cannot render {type(x).__name__}")


def tagged(t):
    """plain JSON tree (as json.loads returns it) -> tagged tree for the driver"""
    if isinstance(t, float):
        return {"f": repr(t)}
    if isinstance(t, list):
        return [tagged(e) for e in t]
    if isinstance(t, dict):
        return {"o": [[k, tagged(v)] for k, v in t.items()]}
    return t


# ----------------------------------------------------------------------------------------------------- codecs
def codecs():
    from queasars.job_shop_scheduling.serialization import JSSPJSONDecoder, JSSPJSONEncoder
    from queasars.minimum_eigensolvers.base.serialization import (
        EvolvingAnsatzMinimumEigensolverResultJSONDecoder as BD,
        EvolvingAnsatzMinimumEigensolverResultJSONEncoder as BE,
    )
    from queasars.minimum_eigensolvers.evqe.quantum_circuit.serialization import EVQECircuitLayerDecoder, EVQECircuitLayerEncoder
    from queasars.minimum_eigensolvers.evqe.serialization import EVQEPopulationJSONDecoder, EVQEPopulationJSONEncoder

    return {"layer": (EVQECircuitLayerEncoder, EVQECircuitLayerDecoder), "pop": (EVQEPopulationJSONEncoder, EVQEPopulationJSONDecoder), "base": (BE, BD),
            "jssp": (JSSPJSONEncoder, JSSPJSONDecoder)}


def exc_kind(e):
    from queasars.job_shop_scheduling.problem_instances import JobShopSchedulingProblemException
    from queasars.minimum_eigensolvers.evqe.evolutionary_algorithm.individual import EVQEIndividualException
    from queasars.minimum_eigensolvers.evqe.quantum_circuit.circuit_layer import EVQECircuitLayerException

    import corr_C19

    if isinstance(e, KeyError):
        return "keyError:" + str(e.args[0])
    if isinstance(e, ValueError) and "unknown, serialized, evqe gate" in str(e):
        return "unknownGate"
    if isinstance(e, EVQECircuitLayerException):
        return "layerInvalid"
    if isinstance(e, EVQEIndividualException):
        return "individualInvalid"
    if isinstance(e, JobShopSchedulingProblemException):
        return "jssp:" + corr_C19.kind_of(e)
    return "exc:" + type(e).__name__


# ----------------------------------------------------------------------------------------------------- generators
FLOATS = [0.0, -0.0, 1.0, -2.0, 0.5, 3.141592653589793, 1e-320, 1e300, -7.25, 2.0, 1e16, 0.1]
NAMES = ["tuple", "dict", "machine_name", "m 1", "µ", 'q"uote', "a_b", "list", "job_name", "type", "x" * 40, "\\n", "{}", "0"]


# the keys by which the decoders recognise serialized objects: legal as NAMES of auxiliary operators (dict keys chosen by the caller), where they must stay data
RESERVED_KEYS = ["qiskit_quantum_circuit", "evqe_qubit_index", "complex_number_real_value", "complex_number_imaginary_value", "evolving_ansatz_result_eigenvalue",
                 "evqe_population_individuals", "evqe_individual_n_qubits", "base_population_evaluation_population", "quasidistribution_data", "values",
                 "scheduled_operation", "machine_name", "evqe_layer_n_qubits", "evqe_gate_type"]


def gen_float(rng):
    return rng.choice(FLOATS) if rng.random() < 0.6 else rng.uniform(-7, 7)


def gen_individual(rng, nq=None):
    from queasars.minimum_eigensolvers.evqe.evolutionary_algorithm.individual import EVQEIndividual

    nq = nq or rng.randint(1, 4)
    x = EVQEIndividual.random_individual(nq, rng.randint(1, 3), rng.random() < 0.7, rng.randrange(2**31))
    mode = rng.randrange(4)
    if mode == 0:
        return x
    vals = tuple((gen_float(rng) if mode < 3 or rng.random() < 0.5 else rng.randint(-3, 3)) for _ in x.parameter_values)
    return EVQEIndividual(x.n_qubits, x.layers, vals)


def gen_population(rng):
    from queasars.minimum_eigensolvers.evqe.evolutionary_algorithm.population import EVQEPopulation

    nq = rng.randint(1, 3)
    n = rng.choice([0, 1, 2, 3, 3, 4, 5])
    inds = [gen_individual(rng, nq) for _ in range(n)]
    if n >= 2 and rng.random() < 0.4:
        inds[-1] = inds[0]
    mode = rng.randrange(4)
    if mode == 0 or n == 0 and mode == 1:
        if mode == 0:
            return EVQEPopulation(tuple(inds), None, None, None)
        return EVQEPopulation(tuple(inds), [], {}, {})
    reps = []
    for x in inds:
        if all(not (x == r) for r in reps) and (not reps or rng.random() < 0.5):
            reps.append(x)
    if not reps and inds:
        reps = [inds[0]]
    membership = {i: rng.choice(reps) for i in range(n)} if reps else {}
    members = {}
    for r in reps:
        members[r] = [i for i in range(n) if membership[i] is r]
    if mode == 2:
        return EVQEPopulation(tuple(inds), list(reps), members, membership)
    # partially present species information
    return EVQEPopulation(tuple(inds), list(reps) if rng.random() < 0.5 else None, members if rng.random() < 0.5 else None, membership if rng.random() < 0.5 else None)


def gen_evalres(rng):
    from queasars.minimum_eigensolvers.base.evolutionary_algorithm import BasePopulationEvaluationResult

    pop = gen_population(rng)
    while not pop.individuals:
        pop = gen_population(rng)
    # a quarter of the results carry non-finite expectation values (a bitstring objective returning inf for infeasible states, an estimator returning nan)
    nonfinite = rng.random() < 0.25
    vals = tuple((None if rng.random() < 0.15 else rng.choice([float("inf"), float("-inf"), float("nan")]) if nonfinite and rng.random() < 0.5 else gen_float(rng))
                 for _ in pop.individuals)
    b = rng.randrange(len(pop.individuals))
    return BasePopulationEvaluationResult(pop, vals, pop.individuals[b], float("inf") if nonfinite and rng.random() < 0.3 else gen_float(rng))


def gen_circuit(rng):
    from qiskit.circuit import Parameter, QuantumCircuit

    m = rng.randrange(5)
    if m == 0:
        return QuantumCircuit(rng.randint(1, 3))  # gate-free: the explicit |0..0> initial state
    if m == 1:
        return QuantumCircuit(0)
    qc = QuantumCircuit(rng.randint(1, 3))
    qc.x(0)
    if m >= 3:
        qc.h(qc.num_qubits - 1)
    if m == 4:
        qc.rz(Parameter("θ"), 0)
    return qc


def gen_scalar(rng):
    m = rng.randrange(4)
    if m == 0:
        return complex(gen_float(rng), gen_float(rng))
    if m == 1:
        return rng.randint(-3, 3)
    return gen_float(rng)


def gen_result(rng):
    from qiskit.result import QuasiDistribution

    from queasars.minimum_eigensolvers.base.evolving_ansatz_minimum_eigensolver_result import EvolvingAnsatzMinimumEigensolverResult

    r = EvolvingAnsatzMinimumEigensolverResult()
    full = rng.random() < 0.5  # half of the results have every field present

    def present():
        return full or rng.random() < 0.6

    if present():
        r.eigenvalue = gen_scalar(rng)
    am = rng.randrange(5)
    if am == 1:
        r.aux_operators_evaluated = [gen_scalar(rng) for _ in range(rng.randint(0, 3))]
    elif am >= 2:
        keys = rng.sample(NAMES + RESERVED_KEYS, rng.randint(0, 3))
        r.aux_operators_evaluated = {k: gen_scalar(rng) for k in keys}
    if present():
        n = rng.randint(1, 3)
        keys = rng.sample(range(2**n), rng.randint(0, 2**n))
        r.eigenstate = QuasiDistribution({k: gen_float(rng) for k in keys}, shots=rng.choice([None, 64, 1024]), stddev_upper_bound=rng.choice([None, 0.125, 1.0]))
    if present():
        r.best_individual = gen_individual(rng)
    if present():
        r.circuit_evaluations = [rng.randint(0, 50) for _ in range(rng.randint(0, 4))]
    if present():
        r.generations = rng.randint(0, 5)
    if present():
        r.population_evaluation_results = [gen_evalres(rng) for _ in range(rng.randint(0, 2))]
    if present():
        r.initial_state_circuit = gen_circuit(rng)
    return r


def gen_jssp(rng):
    """instance + result built from the C19 generators, with unusual names"""
    import corr_C19
    from queasars.job_shop_scheduling import problem_instances as pi

    raw = corr_C19.gen_valid_raw(rng)
    if rng.random() < 0.6:
        ren = {}
        pool = rng.sample(NAMES, len(NAMES))
        for m in raw["machines"]:
            ren[m] = pool.pop()
        raw["machines"] = [ren[m] for m in raw["machines"]]
        jn = {j["name"]: pool.pop() for j in raw["jobs"]}
        for j in raw["jobs"]:
            j["name"] = jn[j["name"]]
            for o in j["ops"]:
                o["job"] = j["name"]
                o["machine"] = ren[o["machine"]]
                if rng.random() < 0.3:
                    o["name"] = rng.choice(NAMES) + o["name"]
        raw["name"] = rng.choice(NAMES)
    st, inst = corr_C19.build_impl(raw)
    assert st == "ok", (st, inst, raw)
    starts = corr_C19.gen_starts(rng, raw)
    sched = {}
    for job, row in zip(inst.jobs, starts):
        sched[job] = tuple(pi.UnscheduledOperation(o) if s is None else pi.ScheduledOperation(o, s) for o, s in zip(job.operations, row))
    if rng.random() < 0.3:
        sched = dict(reversed(list(sched.items())))  # dict order different from the instance's job order
    return inst, pi.JobShopSchedulingResult(inst, sched)


def gen_object(rng):
    """(class label, object, codecs that claim the class)"""
    k = rng.randrange(12)
    if k == 0:
        x = gen_individual(rng)
        l = rng.choice(x.layers)
        return "gate", rng.choice(l.gates), ["layer", "pop"]
    if k == 1:
        return "layer", rng.choice(gen_individual(rng).layers), ["layer", "pop"]
    if k == 2:
        return "individual", gen_individual(rng), ["pop", "base"]
    if k in (3, 4):
        return "population", gen_population(rng), ["pop", "base"]
    if k == 5:
        return "evaluation_result", gen_evalres(rng), ["base"]
    if k in (6, 7, 8):
        return "solver_result", gen_result(rng), ["base"]
    inst, res = gen_jssp(rng)
    if k == 9:
        return "jssp_instance", inst, ["jssp"]
    if k == 10:
        return "jssp_result", res, ["jssp"]
    if inst.jobs:
        j = rng.choice(inst.jobs)
        return rng.choice([("jssp_job", j), ("jssp_operation", j.operations[0]), ("jssp_machine", j.operations[0].machine),
                           ("jssp_scheduled_operation", res.schedule[j][0])]) + (["jssp"],)
    return "jssp_instance", inst, ["jssp"]


# ----------------------------------------------------------------------------------------------------- checks
def circuits_of(x):
    from queasars.minimum_eigensolvers.base.evolving_ansatz_minimum_eigensolver_result import EvolvingAnsatzMinimumEigensolverResult

    return [x.initial_state_circuit] if isinstance(x, EvolvingAnsatzMinimumEigensolverResult) else []


_PERSISTENT = {}


def persistent(codec):
    """one long-lived encoder and decoder instance per codec, reused for every object of the run (JSONEncoder/JSONDecoder instances are reusable by design)"""
    if codec not in _PERSISTENT:
        enc, decd = codecs()[codec]
        _PERSISTENT[codec] = (enc(), decd())
    return _PERSISTENT[codec]


def check_object(ctx, label, x, codec, tag="generated"):
    enc, decd = codecs()[codec]
    drv = ctx.lean("Codec")
    rx = render(x)
    inp = {"class": label, "codec": codec, "object": rx}
    ctx.case(inp, nontrivial=label not in ("gate", "jssp_machine"), tags=[tag, "class:" + label, "codec:" + codec])
    try:
        text = json.dumps(x, cls=enc)
    except Exception as e:  # noqa: BLE001
        ctx.violate(f"encoding a {label} with the {codec} encoder raised {type(e).__name__}", inp, str(e)[:200], key=f"enc-raise:{label}:{codec}")
        return
    try:
        y = json.loads(text, cls=decd)
    except Exception as e:  # noqa: BLE001
        ctx.violate(f"decoding an encoded {label} with the {codec} decoder raised {type(e).__name__}", inp, str(e)[:200], key=f"dec-raise:{label}:{codec}")
        y = e
    ry = None
    if not isinstance(y, Exception):
        try:
            ry = render(y)
        except Exception as e:  # noqa: BLE001
            ry = {"unrenderable": str(e)[:100]}
        if ry != rx:
            ctx.violate(f"a {label} does not survive the {codec} JSON round trip (field-by-field comparison)", inp, {"decoded": ry}, key=f"roundtrip:{label}:{codec}:{diff_path(rx, ry)}")
        else:
            for a, b in zip(circuits_of(x), circuits_of(y)):
                if a is not None and not (a == b):
                    ctx.violate("the initial-state circuit of a solver result does not survive the round trip", inp, None, key="roundtrip:circuit")
    # the same through the long-lived encoder / decoder instances
    try:
        pe, pd = persistent(codec)
        y2 = pd.decode(pe.encode(x))
        r2 = render(y2)
    except Exception as e:  # noqa: BLE001
        r2 = {"raised": type(e).__name__ + ": " + str(e)[:100]}
    if r2 != rx and (ry is None or ry == rx):
        ctx.violate(f"a {label} does not survive the {codec} JSON round trip through an encoder/decoder instance that was used before", inp, {"decoded": r2},
                    key=f"roundtrip-reused:{label}:{codec}")
    # model
    if drv is not None:
        tree = json.loads(text)
        r = drv.ask({"op": "codec.roundtrip", "codec": codec, "tree": tagged(tree)})
        if "driver_error" in r:
            ctx.disagree("codec.roundtrip: driver error", inp, None, r)
            return
        impl = {"decoded": ry if ry is not None else "raised:" + exc_kind(y), "tree": tagged(tree)}
        mod = {"decoded": r.get("decoded") if "error" not in r else "raised:" + r["error"], "tree": r.get("reencoded")}
        ctx.compare("codec.roundtrip", inp, impl, mod)


def diff_path(a, b, path=""):
    if type(a) is not type(b):
        return path + ":type"
    if isinstance(a, dict):
        for k in sorted(set(a) | set(b)):
            if a.get(k) != b.get(k):
                return diff_path(a.get(k), b.get(k), path + "/" + k)
    if isinstance(a, list):
        if len(a) != len(b):
            return path + ":len"
        for i, (u, v) in enumerate(zip(a, b)):
            if u != v:
                return diff_path(u, v, path + "/*")
    return path


def mutate_tree(rng, t):
    """malformed stream: delete a key / change a gate type / insert a foreign dict somewhere in a plain JSON tree"""
    dicts = []

    def walk(n):
        if isinstance(n, dict):
            dicts.append(n)
            for v in n.values():
                walk(v)
        elif isinstance(n, list):
            for v in n:
                walk(v)

    walk(t)
    if not dicts:
        return None
    d = rng.choice(dicts)
    m = rng.randrange(6)
    if m >= 4:
        # make a constructor check fail
        cands = [x for x in dicts if any(k in x for k in ("evqe_circuit_layer_n_qubits", "evqe_individual_parameter_values", "operation_processing_duration",
                                                          "machine_name", "job_name", "evqe_individual_n_qubits"))]
        if not cands:
            return None
        x = rng.choice(cands)
        if "evqe_circuit_layer_n_qubits" in x:
            x["evqe_circuit_layer_n_qubits"] += 1
        elif "evqe_individual_parameter_values" in x and m == 4:
            x["evqe_individual_parameter_values"] = x["evqe_individual_parameter_values"] + [0.5]
        elif "evqe_individual_n_qubits" in x:
            x["evqe_individual_n_qubits"] += 1
        elif "operation_processing_duration" in x:
            x["operation_processing_duration"] = rng.choice([0, -1])
        elif "machine_name" in x:
            x["machine_name"] = ""
        else:
            x["job_name"] = rng.choice(["", "other"])
        return "constructor_check"
    if m == 0 and d:
        del d[rng.choice(list(d))]
        return "delete_key"
    if m == 1:
        gd = [x for x in dicts if "evqe_gate_type" in x]
        if gd:
            rng.choice(gd)["evqe_gate_type"] = rng.choice(["swap", "", "Identity"])
            return "unknown_gate"
    if m == 2:
        d["foreign_key"] = {"foreign": 1}
        return "foreign_dict"
    if d:
        k = rng.choice(list(d))
        d[k] = None
        return "null_field"
    return None


def check_malformed(ctx, rng, label, x, codec):
    enc, decd = codecs()[codec]
    drv = ctx.lean("Codec")
    if drv is None:
        return
    tree = json.loads(json.dumps(x, cls=enc))
    kind = mutate_tree(rng, tree)
    if kind is None:
        return
    inp = {"class": label, "codec": codec, "malformed": kind, "tree": tagged(tree)}
    ctx.case(inp, nontrivial=True, tags=["malformed", "malformed:" + kind, "codec:" + codec])
    r = drv.ask({"op": "codec.roundtrip", "codec": codec, "tree": tagged(tree)})
    if "driver_error" in r:
        ctx.disagree("codec.malformed: driver error", inp, None, r)
        return
    if "error" in r and r["error"].startswith("illTyped"):
        ctx.skip("malformed input outside the typed universe of the model (illTyped)")
        ctx.dist["malformed_outcome:illTyped"] += 1
        return
    try:
        y = json.loads(json.dumps(tree), cls=decd)
        try:
            impl = render(y)
        except Exception:  # noqa: BLE001
            ctx.skip("malformed input decoded to an object outside the typed universe")
            return
        ctx.dist["malformed_outcome:decoded"] += 1
    except Exception as e:  # noqa: BLE001
        impl = "raised:" + exc_kind(e)
        ctx.dist["malformed_outcome:" + impl.split(":")[1]] += 1
    mod = r.get("decoded") if "error" not in r else "raised:" + r["error"]
    ctx.compare("codec.malformed", inp, impl, mod)


def fixed_objects():
    """boundary objects that run first in every tier"""
    from qiskit.circuit import QuantumCircuit
    from qiskit.result import QuasiDistribution

    from queasars.minimum_eigensolvers.base.evolving_ansatz_minimum_eigensolver_result import EvolvingAnsatzMinimumEigensolverResult
    from queasars.minimum_eigensolvers.evqe.evolutionary_algorithm.individual import EVQEIndividual
    from queasars.minimum_eigensolvers.evqe.evolutionary_algorithm.population import EVQEPopulation

    out = []
    x = EVQEIndividual.random_individual(2, 2, False, 1)  # integer 0 parameter values
    out.append(("individual", x, ["pop", "base"]))
    out.append(("population", EVQEPopulation((), None, None, None), ["pop", "base"]))
    out.append(("population", EVQEPopulation((x,), [x], {x: [0]}, {0: x}), ["pop", "base"]))
    r = EvolvingAnsatzMinimumEigensolverResult()
    out.append(("solver_result", r, ["base"]))
    r = EvolvingAnsatzMinimumEigensolverResult()
    r.eigenvalue, r.generations, r.circuit_evaluations, r.aux_operators_evaluated = 0.0, 0, [], []
    r.initial_state_circuit = QuantumCircuit(2)
    r.eigenstate = QuasiDistribution({}, shots=None)
    r.population_evaluation_results = []
    out.append(("solver_result", r, ["base"]))
    r = EvolvingAnsatzMinimumEigensolverResult()
    r.eigenvalue, r.generations, r.aux_operators_evaluated, r.best_individual = complex(-1.0, 0.0), 3, {"": 1.0, "type": complex(0, 1)}, x
    out.append(("solver_result", r, ["base"]))
    return out


def run(ctx):
    import warnings

    warnings.filterwarnings("ignore")
    rng = ctx.rng
    for label, x, cs in fixed_objects():
        for c in cs:
            check_object(ctx, label, x, c, tag="fixed")
    for _ in range(ctx.n(400, 8000)):
        if ctx.out_of_time():
            break
        label, x, cs = gen_object(rng)
        for c in cs:
            check_object(ctx, label, x, c)
        if rng.random() < 0.35:
            check_malformed(ctx, rng, label, x, rng.choice(cs))


def replay(ctx, case):
    """the failing object is regenerated: the recorded seed and tier reproduce the whole generated stream (every random choice derives from one PRNG), and the
    run stops reporting at the recorded case"""
    import random

    ctx.seed = case.get("seed", ctx.seed)
    ctx.tier = case.get("tier", ctx.tier)
    ctx.rng = random.Random(ctx.seed)
    run(ctx)
    want = (case.get("case") or {}).get("key")
    if want:
        hit = [v for v in ctx.violations if v["key"] == want]
        if hit:
            ctx.violations[:] = hit[:1]
