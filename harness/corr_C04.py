"""C04 — circuit views of an individual: bindings vs Model/Genome.lean, unitary-equivalence oracle."""
from __future__ import annotations

import genome_corr as G
from queasars.minimum_eigensolvers.evqe.evolutionary_algorithm.individual import EVQEIndividual

META = {
    "lean_modules": ["QVerif.Props.C04"],
    "drivers": ["Genome"],
    "theorems": [
        "QVerif.Genome.views_agree",
        "QVerif.Genome.full_eq_layerwise",
        "QVerif.Genome.full_binds_each_slot_once",
        "QVerif.Genome.change_layer_exact",
        "QVerif.Genome.sort_concat",
        "QVerif.Genome.name_layer_major",
    ],
    "level": "proof",
    "level_text": "Proof: for every valid individual with at most 10^9 layers and pairwise different parameter names, every partially parameterised "
    "view (any set of symbolic layers) bound with the per-layer values assigns to every parameter slot the same value as the fully bound circuit "
    "(views_agree, full_eq_layerwise, full_binds_each_slot_once), and replacing one layer's values changes the binding exactly as binding them into "
    "that layer does, leaving all other layers untouched (change_layer_exact). Rests on name_layer_major (zero-padded layer ids make the name order "
    "layer-major) and sort_concat. Equal bindings = equal bound gate sequences = equal unitaries for every gate semantics. Tied to the code by "
    "comparing Qiskit's reported parameter order and the float bound into every gate with the model.",
    "level_note": "Trusted: Lean kernel + standard axioms; Qiskit sorts circuit.parameters by name and assign_parameters(list) follows that order (validated "
    "on every generated circuit); circuit_to_gate/decompose/compose preserve the unitary; NamesInjective is a hypothesis (Qiskit rejects duplicate "
    "parameter names). Hand-written model tied by sampled correspondence.",
    "rule": "cases = individuals (random constructors 1-6 qubits x 1-6 layers; 11-25 layers; 101-130 layers (thorough: also 1001-1030); 11-14 qubits; hand-made incl. 1 qubit, parameter-less and repeated "
    "layers; angles inside and outside [0,2pi) incl. negative) x symbolic layer sets {none, all, singletons, random, negative ids} x replacement "
    "vectors; compared: Qiskit's parameter order vs model order; the float bound to every gate of every view vs model binding; oracle: views give "
    "identical bound gate sequences, and (<= 6 qubits) Operator.equiv between views. non-trivial = >= 2 layers with parameters; distinct = "
    "(individual, symbolic set)",
    "trusted_base": ["Lean 4 kernel; axioms per theorem under coverage.theorems", "harness/corr_C04.py, genome_corr.py, Driver/Genome.lean",
                     "Qiskit parameter ordering and positional binding; unitary preservation of circuit_to_gate/decompose"],
    "assumptions": ["at most 10^9 layers", "parameter names pairwise different (Qiskit raises otherwise)"],
}


def tok_binding(b, tk):
    return sorted([list(k) + [tk.tok(v)] for k, v in b.items()])


def model_binding(lst):
    return sorted([list(e) for e in lst])


def check_views(ctx, x, S, rng, tag):
    drv = ctx.lean("Genome")
    tk = G.Tokens()
    nl = len(x.layers)
    Sn = sorted({s % nl for s in S})
    xj = G.indiv_json(x, tk)
    inp = {"indiv": xj, "symbolic": list(S)}
    nontrivial = sum(1 for l in x.layers if l.n_parameters > 0) >= 2
    ctx.case(inp, nontrivial, tags=[tag, f"layers:{min(nl, 11)}{'+' if nl > 10 else ''}", f"qubits:{min(x.n_qubits, 11)}{'+' if x.n_qubits > 10 else ''}",
                                    "S:empty" if not Sn else ("S:all" if len(Sn) == nl else "S:some")])
    try:
        full = x.get_quantum_circuit()
        pc = x.get_partially_parameterized_quantum_circuit(set(S))
        vals = [v for i in Sn for v in x.get_layer_parameter_values(i)]
        bound = pc.assign_parameters(vals) if vals or len(pc.parameters) else pc
        pq = x.get_parameterized_quantum_circuit()
        names = [p.name for p in pq.parameters]
    except Exception as e:  # noqa: BLE001
        ctx.violate("building a circuit view raised", inp, repr(e)[:200], key="C04:raises")
        return
    bf, bp = G.binding_of(full, x), G.binding_of(bound, x)
    same = bf is not None and bp is not None and bf == bp
    if not same:
        # identical bound gate sequences are sufficient, not necessary: decide with the unitaries when feasible
        if (x.n_qubits <= 6 and not G.unitary_equiv(full, bound)) or (6 < x.n_qubits <= 16 and G.differ_on_states(full, bound)):
            ctx.violate("a partially parameterised view bound with the per-layer values denotes a different unitary than the bound circuit",
                        inp, {"full": G.instructions(full)[:12], "partial": G.instructions(bound)[:12]}, key="C04:views")
        ctx.disagree("views differ as gate sequences", inp, str(bp)[:300], str(bf)[:300])
    if len(bound.parameters) != 0:
        ctx.violate("parameters remain after binding the symbolic layers", inp, [p.name for p in bound.parameters][:6], key="C04:unbound")
    if drv is not None and bf is not None and bp is not None:
        r = drv.ask({"op": "genome.views", "indiv": xj, "symbolic": Sn})
        order_model = [f"layer{l:09d}_q{q}_{k}" for l, q, k in r["order"]]
        ctx.compare("parameter order (Qiskit vs model)", inp, names, order_model)
        ctx.compare("full binding", inp, tok_binding(bf, tk), model_binding(r["full"]))
        ctx.compare("partial binding", inp, tok_binding(bp, tk), model_binding(r["partial"]))


def check_change(ctx, x, lid, rng):
    nl = len(x.layers)
    i = lid % nl
    newvals = tuple(G.wild_angle(rng) for _ in range(x.layers[i].n_parameters))
    inp = {"indiv": G.indiv_json(x, G.Tokens()), "layer_id": lid, "new": list(newvals)}
    try:
        y = EVQEIndividual.change_layer_parameter_values(x, lid, newvals)
        a = y.get_quantum_circuit()
        pc = x.get_partially_parameterized_quantum_circuit({lid})
        b = pc.assign_parameters(list(newvals)) if newvals else pc
    except Exception as e:  # noqa: BLE001
        ctx.violate("change_layer_parameter_values / view construction raised", inp, repr(e)[:200], key="C04:change:raises")
        return
    ctx.case({"change": inp}, nontrivial=nl >= 2, tags=["change_layer"])
    ba, bb = G.binding_of(a, x), G.binding_of(b, x)
    if ba is None or bb is None or ba != bb:
        if (x.n_qubits <= 6 and not G.unitary_equiv(a, b)) or (6 < x.n_qubits <= 16 and G.differ_on_states(a, b)):
            ctx.violate("replacing one layer's values does not act like binding them into that layer of the partially parameterised circuit",
                        inp, None, key="C04:change")
        ctx.disagree("change-layer views differ as gate sequences", inp, str(ba)[:300], str(bb)[:300])
    else:
        # all other layers untouched
        bx = G.binding_of(x.get_quantum_circuit(), x)
        if bx is not None and any(bx[k] != ba[k] for k in bx if k[0] != i):
            ctx.violate("replacing one layer's values changed another layer's bound values", inp, None, key="C04:change:other")


def run(ctx):
    rng = ctx.rng
    for it in range(ctx.n(90, 1500)):
        if ctx.out_of_time():
            break
        r = it % 9
        if r == 7:
            x = EVQEIndividual.random_individual(rng.randint(1, 3), rng.randint(11, 25), True, rng.randrange(2**31))
            x = EVQEIndividual(x.n_qubits, x.layers, tuple(G.wild_angle(rng) for _ in x.parameter_values))
        elif r == 8:
            x = EVQEIndividual.random_individual(rng.randint(11, 14), rng.randint(1, 3), True, rng.randrange(2**31))
        else:
            x = G.gen_individual(rng, max_qubits=5)
        nl = len(x.layers)
        sets = [[], list(range(nl)), [rng.randrange(nl)], [-1], sorted(rng.sample(range(nl), rng.randint(0, nl)))]
        if nl > 10:
            sets.append([1, 10] if nl > 10 else [])
            sets.append([i for i in range(nl) if i % 2 == 0])
        for S in sets[: ctx.n(4, 7)] + sets[5:]:
            check_views(ctx, x, S, rng, "views")
        if x.n_qubits <= 6:
            for lid in {rng.randrange(nl), -1, 0}:
                check_change(ctx, x, lid, rng)
    # hash-equal but different individuals viewed one after the other (EVQEIndividual.__eq__ is hash equality and hash(-1.0) == hash(-2.0)):
    # anything memoised per individual must not leak from one to the other
    for _ in range(ctx.n(6, 60)):
        if ctx.out_of_time():
            break
        base = G.gen_individual(rng, max_qubits=4, max_layers=4, wild=False)
        if not base.parameter_values:
            continue
        k = rng.randrange(len(base.parameter_values))
        va = tuple(-1.0 if (i == k or rng.random() < 0.3) else float(v) for i, v in enumerate(base.parameter_values))
        vb = tuple(-2.0 if v == -1.0 else v for v in va)
        a, b = EVQEIndividual(base.n_qubits, base.layers, va), EVQEIndividual(base.n_qubits, base.layers, vb)
        nl = len(base.layers)
        for S in ([], list(range(nl)), [rng.randrange(nl)], sorted(rng.sample(range(nl), rng.randint(0, nl)))):
            check_views(ctx, a, S, rng, "hash-collision")
            check_views(ctx, b, S, rng, "hash-collision")
    # deep individuals: layer ids cross the decimal boundaries 100 and (thorough) 1000 of the zero-padded names
    deep = [(rng.randint(101, 130), rng.randint(1, 2))] + ([(rng.randint(1001, 1030), 1), (rng.randint(101, 300), 2)] if ctx.thorough() else [])
    for nl, nq in deep:
        if ctx.out_of_time():
            break
        x = EVQEIndividual.random_individual(nq, nl, True, rng.randrange(2**31))
        for S in ([], [3, 10, 100, nl - 1], list(range(0, nl, 7))):
            check_views(ctx, x, S, rng, "deep")
        check_change(ctx, x, 100, rng)
    # the repaired finding F2: 2 qubits, 12 layers, seed 5
    x = EVQEIndividual.random_individual(2, 12, True, 5)
    for S in ([], list(range(12)), [10], [2, 10, 11]):
        check_views(ctx, x, S, rng, "fixed")


def replay(ctx, case):
    import random

    inp = case.get("case", case).get("input", case.get("input"))
    if "change" in inp:
        inp = inp["change"]
    xj = inp["indiv"]
    # tokens cannot be mapped back to floats: replay with the token values as angles
    x = EVQEIndividual(xj["n"], tuple(G.layer_obj(l) for l in xj["layers"]), tuple(float(v) * 0.731 - 3.0 for v in xj["values"]))
    if "symbolic" in inp:
        check_views(ctx, x, inp["symbolic"], random.Random(0), "replay")
    else:
        check_change(ctx, x, inp["layer_id"], random.Random(0))
