"""C20 — random layer / individual / population generation vs Model/Genome.lean (recorded RNG) + redundancy oracle."""
from __future__ import annotations

import itertools

import genome_corr as G
from queasars.minimum_eigensolvers.evqe.evolutionary_algorithm.individual import EVQEIndividual
from queasars.minimum_eigensolvers.evqe.evolutionary_algorithm.population import EVQEPopulation
from queasars.minimum_eigensolvers.evqe.quantum_circuit.circuit_layer import EVQECircuitLayer
from queasars.minimum_eigensolvers.evqe.quantum_circuit.quantum_gate import (
    ControlGate,
    ControlledRotationGate,
    IdentityGate,
    RotationGate,
)

META = {
    "lean_modules": ["QVerif.Props.C20"],
    "drivers": ["Genome"],
    "theorems": [
        "QVerif.Genome.randomLayer_nonredundant",
        "QVerif.Genome.randomLayer_valid",
        "QVerif.Genome.randomLayers_chain",
        "QVerif.Genome.add_chain_nonredundant",
        "QVerif.Genome.individual_chain_nonredundant",
        "QVerif.Genome.retry_always_possible",
    ],
    "level": "proof",
    "level_text": "Proof (every random draw is an oracle input, so for every seed): random_layer returns a valid layer (randomLayer_valid) that never "
    "puts a rotation directly after a rotation nor repeats a (target, control) controlled rotation of the previous layer (randomLayer_nonredundant), "
    "for every qubit count and previous layer; random_individual and add_random_layers chain this through any number of layers, including the "
    "boundary to the old last layer (randomLayers_chain, add_chain_nonredundant, individual_chain_nonredundant); for a valid previous layer at "
    "most one orientation of a qubit pair is rejected, so the pairing loop can always progress (retry_always_possible). Tied to the code by replaying "
    "the recorded RNG outcomes of real runs in the model.",
    "level_note": "Trusted: Lean kernel + standard axioms; hand-written model tied by sampled correspondence (recording subclass of random.Random "
    "observes choice/sample; values unchanged). Termination for a concrete Mersenne-Twister seed is not a theorem (only 'a retry is always possible'); "
    "it is covered by the sampled seeds.",
    "rule": "cases = random_layer(n, prev, seed) for n=1..6, prev in {None, ALL valid previous layers for n<=3, sampled valid layers above}, seeds; "
    "random_individual(n, 1..8 layers, seed); add_random_layers(x, 1..4, seed); random_population. RNG outcomes recorded and replayed in the model; "
    "outputs compared structurally. Oracle on the implementation: validity, parameter count = 3 x (#rotations + #controlled rotations), no rotation "
    "directly after a rotation, no repeated controlled rotation on the same (target, control) pair. non-trivial = a previous layer exists; "
    "distinct = (n, prev, seed)",
    "trusted_base": ["Lean 4 kernel; axioms per theorem under coverage.theorems", "harness/corr_C20.py, genome_corr.py, Driver/Genome.lean",
                     "random.Random(seed) is a deterministic function of the seed"],
    "assumptions": ["sample(population, 2) returns two distinct elements of the population"],
}


def all_valid_layers(n):
    """every valid layer on n qubits"""
    out = []

    def rec(q, gates):
        if q == n:
            try:
                out.append(EVQECircuitLayer(n, tuple(gates)))
            except Exception:  # noqa: BLE001
                pass
            return
        if gates[q] is not None:
            rec(q + 1, gates)
            return
        for g in (IdentityGate(q), RotationGate(q)):
            gates[q] = g
            rec(q + 1, gates)
        for c in range(q + 1, n):
            if gates[c] is None:
                gates[q], gates[c] = ControlledRotationGate(q, c), ControlGate(c, q)
                rec(q + 1, gates)
                gates[q], gates[c] = ControlGate(q, c), ControlledRotationGate(c, q)
                rec(q + 1, gates)
                gates[c] = None
        gates[q] = None

    rec(0, [None] * n)
    return out


def redundant(prev, new):
    bad = []
    for q in range(new.n_qubits):
        a, b = prev.gates[q], new.gates[q]
        if isinstance(a, RotationGate) and isinstance(b, RotationGate):
            bad.append(f"rotation after rotation on qubit {q}")
        if isinstance(b, ControlledRotationGate) and a == b:
            bad.append(f"controlled rotation ({q} <- {b.control_qubit_index}) repeated")
    return bad


def layer_ok(l):
    n_expected = 3 * sum(1 for g in l.gates if isinstance(g, (RotationGate, ControlledRotationGate)))
    return l.is_valid() and l.n_parameters == n_expected and len(l.gates) == l.n_qubits


def check_layer(ctx, n, prev, seed, tag):
    drv = ctx.lean("Genome")
    req = {"op": "genome.random_layer", "n": n, "prev": None if prev is None else G.layer_json(prev), "seed": seed}
    with G.Recorder() as rec:
        try:
            l = EVQECircuitLayer.random_layer(n, prev, seed)
            impl = {"ok": G.layer_json(l)}
        except Exception as e:  # noqa: BLE001
            l, impl = None, {"err": G.err_kind(e)}
    req["oracle"] = rec.oracle()
    ctx.case(req, nontrivial=prev is not None, tags=[tag, f"n:{n}", "prev" if prev is not None else "noprev", f"retries:{max(0, len(rec.pairs) - n // 2)}"])
    if l is None:
        ctx.violate("random_layer raised for valid arguments", req, impl, key="C20:layer:raises")
    else:
        if not layer_ok(l):
            ctx.violate("random_layer returned an invalid layer / wrong parameter count", req, impl, key="C20:layer:invalid")
        if prev is not None:
            bad = redundant(prev, l)
            if bad:
                ctx.violate("random_layer repeats a gate of the previous layer: " + bad[0], req, impl, key="C20:layer:redundant")
    if drv is not None:
        r = drv.ask(req)
        mod = {"ok": r["ok"]} if "ok" in r else r
        ctx.compare("genome.random_layer", req, impl, mod)
        if "ok" in r and (r["unused_coins"] or r["unused_pairs"]):
            ctx.disagree("genome.random_layer: the model did not consume all recorded draws", req, rec.oracle(), r)


def check_chain(ctx, layers, what, req, impl, start=1):
    for i in range(start, len(layers)):
        bad = redundant(layers[i - 1], layers[i])
        if bad:
            ctx.violate(f"{what}: layer {i} repeats a gate of the layer directly before it: {bad[0]}", req, impl, key=f"C20:{what}:redundant")
            return


def check_individual(ctx, n, k, randomize, seed):
    drv = ctx.lean("Genome")
    tk = G.Tokens()
    with G.Recorder() as rec:
        impl, x = G.res_indiv(lambda: EVQEIndividual.random_individual(n, k, randomize, seed), tk)
    req = {"op": "genome.random_individual", "n": n, "n_layers": k, "oracle": rec.oracle(),
           "vals": tk.toks(x.parameter_values) if x is not None else [], "seed": seed}
    ctx.case(req, nontrivial=k >= 2, tags=["individual", f"n:{n}"])
    if x is None:
        if impl.get("err") == "nonTermination":
            ctx.violate("random_individual does not terminate", req, impl, key="C20:individual:nontermination")
        elif k >= 1:
            ctx.violate("random_individual raised for valid arguments", req, impl, key="C20:individual:raises")
    else:
        if not x.is_valid() or not all(layer_ok(l) for l in x.layers) or len(x.parameter_values) != sum(l.n_parameters for l in x.layers):
            ctx.violate("random_individual returned an invalid individual", req, impl, key="C20:individual:invalid")
        check_chain(ctx, x.layers, "random_individual", req, impl)
    if drv is not None:
        ctx.compare("genome.random_individual", req, impl, drv.ask(req))
    return x


def check_add(ctx, x, k, seed):
    drv = ctx.lean("Genome")
    tk = G.Tokens()
    xj = G.indiv_json(x, tk)
    with G.Recorder() as rec:
        impl, y = G.res_indiv(lambda: EVQEIndividual.add_random_layers(x, k, False, seed), tk)
    req = {"op": "genome.add", "indiv": xj, "n_layers": k, "oracle": rec.oracle(), "new_vals": [0] * (len(y.parameter_values) - len(x.parameter_values)) if y else [], "seed": seed}
    ctx.case(req, nontrivial=True, tags=["add", f"k:{k}"])
    if y is None:
        ctx.violate("add_random_layers raised for valid arguments", req, impl, key="C20:add:raises")
    else:
        if not y.is_valid():
            ctx.violate("add_random_layers returned an invalid individual", req, impl, key="C20:add:invalid")
        check_chain(ctx, y.layers, "add_random_layers", req, impl, start=len(x.layers))
    if drv is not None:
        ctx.compare("genome.add", req, impl, drv.ask(req))


def run(ctx):
    rng = ctx.rng
    # exhaustive over previous layers for n <= 3 (n <= 2 in the quick tier), several seeds each
    prevs = {n: all_valid_layers(n) for n in (1, 2, 3)}
    ctx.extra["valid_layers_enumerated"] = {str(n): len(v) for n, v in prevs.items()}
    for n in (1, 2, 3):
        for prev in [None] + prevs[n]:
            for s in range(ctx.n(6, 60)):
                check_layer(ctx, n, prev, rng.randrange(2**31), "exhaustive-prev")
    for _ in range(ctx.n(600, 20000)):
        if ctx.out_of_time():
            break
        n = rng.randint(2, 6)
        prev = None
        r = rng.random()
        if r < 0.45:
            prev = EVQECircuitLayer.random_layer(n, None, rng.randrange(2**31))
        elif r < 0.85:
            prev = G.handmade_layer(rng, n)
        check_layer(ctx, n, prev, rng.randrange(2**31), "sampled")
    for _ in range(ctx.n(250, 6000)):
        if ctx.out_of_time():
            break
        n = rng.choice([1, 2, 2, 3, 3, 4, 5, 6])
        x = check_individual(ctx, n, rng.randint(1, 8), rng.random() < 0.5, rng.randrange(2**31))
        if x is not None:
            check_add(ctx, x, rng.randint(1, 4), rng.randrange(2**31))
        if rng.random() < 0.3:
            try:
                y = G.gen_individual(rng, wild=False)
            except G.NonTermination as e:
                ctx.violate("a random constructor does not terminate", {"generator": "gen_individual"}, repr(e), key="C20:individual:nontermination")
                break
            check_add(ctx, y, rng.randint(1, 4), rng.randrange(2**31))
        if len(ctx.violations) >= 20:
            break
    for _ in range(ctx.n(25, 400)):
        if ctx.out_of_time():
            break
        interleaved_case(ctx, rng)
    # random_population: valid members, consecutive layers redundancy free
    for _ in range(ctx.n(10, 200)):
        n, k, size, seed = rng.randint(1, 5), rng.randint(1, 4), rng.randint(1, 6), rng.randrange(2**31)
        try:
            with G.Recorder():  # non-termination guard
                pop = EVQEPopulation.random_population(n_qubits=n, n_layers=k, n_individuals=size, randomize_parameter_values=True, random_seed=seed)
            for x in pop.individuals:
                if not x.is_valid():
                    ctx.violate("random_population contains an invalid individual", {"n": n, "k": k, "size": size, "seed": seed}, None, key="C20:population")
                check_chain(ctx, x.layers, "random_population", {"n": n, "k": k, "size": size, "seed": seed}, None)
            ctx.case({"population": [n, k, size, seed]}, nontrivial=k >= 2, tags=["population"])
        except Exception as e:  # noqa: BLE001
            if type(e).__name__ == "NonTermination":
                ctx.violate("random_population does not terminate", {"n": n, "k": k, "size": size, "seed": seed}, repr(e), key="C20:population:nontermination")
            else:
                ctx.violate("random_population raised", {"n": n, "k": k, "size": size, "seed": seed}, repr(e), key="C20:population:raises")


def interleaved_case(ctx, rng):
    """the constructors are called from worker threads (EVQETopologicalSearch submits add_random_layers to the executor): a call that is pre-empted
    at its p-th generator use while another thread runs a whole call for the same qubit count must still return what it returns alone.  The
    generator class observed here only counts uses and parks the thread (values unchanged)."""
    import random as pyrandom
    import threading

    from queasars.minimum_eigensolvers.evqe.evolutionary_algorithm import individual as ind_mod
    from queasars.minimum_eigensolvers.evqe.quantum_circuit import circuit_layer as layer_mod

    n = rng.randint(2, 5)
    x = EVQEIndividual.random_individual(n, rng.randint(1, 2), True, rng.randrange(2**31))
    y = EVQEIndividual.random_individual(n, rng.randint(1, 2), True, rng.randrange(2**31))
    ka, kb, sa, sb = rng.randint(1, 2), rng.randint(1, 2), rng.randrange(2**31), rng.randrange(2**31)
    call_a = lambda: EVQEIndividual.add_random_layers(x, ka, True, sa)  # noqa: E731
    call_b = lambda: EVQEIndividual.add_random_layers(y, kb, True, sb)  # noqa: E731
    ref_a, ref_b = G.indiv_struct(call_a()), G.indiv_struct(call_b())
    state = {"uses": 0, "park_at": None, "parked": threading.Event(), "go": threading.Event(), "thread": None}

    class Parking(pyrandom.Random):
        def _use(s):
            if threading.current_thread() is state["thread"]:
                if state["uses"] == state["park_at"]:
                    state["parked"].set()
                    state["go"].wait(10)
                state["uses"] += 1

        def choice(s, seq):
            s._use()
            return super().choice(seq)

        def sample(s, population, k, **kw):
            s._use()
            return super().sample(population, k, **kw)

        def uniform(s, a, b):
            s._use()
            return super().uniform(a, b)

    saved = (layer_mod.Random, ind_mod.Random)
    layer_mod.Random = ind_mod.Random = Parking
    try:
        state["thread"] = threading.current_thread()
        state["park_at"] = None
        call_a()
        total = state["uses"]
        inp = {"interleaved": True, "n": n, "a": {"indiv": G.indiv_json(x, G.Tokens()) if hasattr(G, "indiv_json") else None, "n_layers": ka, "seed": sa},
               "b": {"n_layers": kb, "seed": sb}, "generator_uses_of_a": total}
        ctx.case(inp, nontrivial=True, tags=["interleaved-threads", f"n:{n}"])
        for p in sorted(set(rng.sample(range(max(total, 1)), min(total, 6)))) if total else []:
            out = {}

            def run_a():
                try:
                    out["a"] = G.indiv_struct(call_a())
                except Exception as e:  # noqa: BLE001
                    out["a"] = "exc:" + type(e).__name__ + ":" + str(e)[:80]

            state.update(uses=0, park_at=p)
            state["parked"].clear()
            state["go"].clear()
            t = threading.Thread(target=run_a, daemon=True)
            state["thread"] = t
            t.start()
            state["parked"].wait(10)
            try:
                out["b"] = G.indiv_struct(call_b())
            except Exception as e:  # noqa: BLE001
                out["b"] = "exc:" + type(e).__name__ + ":" + str(e)[:80]
            state["go"].set()
            t.join(20)
            if out.get("a") != ref_a or out.get("b") != ref_b:
                ctx.violate("add_random_layers does not return the object it returns alone (invalid / redundant / different) when another thread runs a "
                            "constructor call for the same qubit count in between", dict(inp, parked_at_use=p),
                            {"a_differs": out.get("a") != ref_a, "b_differs": out.get("b") != ref_b, "a": str(out.get("a"))[:200], "b": str(out.get("b"))[:200]},
                            key="C20:interleaved")
                break
    finally:
        layer_mod.Random, ind_mod.Random = saved


def replay(ctx, case):
    inp = case.get("case", case).get("input", case.get("input"))
    if inp.get("op") == "genome.random_layer":
        prev = None if inp["prev"] is None else G.layer_obj(inp["prev"])
        check_layer(ctx, inp["n"], prev, inp["seed"], "replay")
    elif inp.get("op") == "genome.random_individual":
        check_individual(ctx, inp["n"], inp["n_layers"], True, inp["seed"])
    elif inp.get("op") == "genome.add":
        xj = inp["indiv"]
        x = EVQEIndividual(xj["n"], tuple(G.layer_obj(l) for l in xj["layers"]), tuple(float(v) for v in xj["values"]))
        check_add(ctx, x, inp["n_layers"], inp["seed"])
