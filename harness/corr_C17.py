"""C17 — seeded single-worker runs are reproducible.

Oracle: (a) mutation operators applied under three single-worker executors (stock pool, tasks run eagerly inside submit, tasks held back until
the submitting thread is quiet) must give identical populations, evaluation counts and generator states; (b) whole EVQE solves from freshly
constructed solvers: twice in the process, under the three executors, and in sub-processes with different PYTHONHASHSEED values — identical
fingerprints; (c) every random constructor called twice / in sub-processes gives identical objects.
Correspondence with Model/Seeds.lean: which draws the operator's generator serves, in which thread, and which draw is the seed of which task."""
from __future__ import annotations

import hashlib
import json
import os
import random
import subprocess
import sys
import threading
import time
from concurrent.futures import ThreadPoolExecutor
from concurrent.futures import wait as cf_wait

META = {
    "lean_modules": ["QVerif.Props.C17", "QVerif.Props.C17Instances"],
    "drivers": ["Seeds", "RandInst"],
    "theorems": [
        "QVerif.Seeds.schedule_independent",
        "QVerif.Seeds.schedules_agree",
        "QVerif.Seeds.run_schedule_independent",
        "QVerif.Seeds.runs_agree",
        "QVerif.RandInst.randomInstance_accepted",
        "QVerif.RandInst.randomInstance_total",
        "QVerif.Seeds.inv_exec",
        "QVerif.Seeds.subAt_unique",
        "QVerif.Seeds.shared_generator_depends_on_schedule",
        "QVerif.Seeds.drawSeeds_length",
    ],
    "level": "proof",
    "level_text": "Partial proof. Proved (Model/Seeds.lean): a mutation-operator application modelled as a transition system — one shared generator state, a submitting "
    "loop that draws the mutation decision and the task's seed in submission order, worker actions that may run any pending task at any time (any number of workers, "
    "tasks running while the loop still submits) — yields, for EVERY schedule, the generator state and the individuals of the sequential reference "
    "(schedule_independent, schedules_agree), for an arbitrary generator and arbitrary task function; the variant whose tasks draw their seed from the shared generator "
    "is schedule dependent even with one worker (shared_generator_depends_on_schedule, kernel-checked). Lifted to whole runs: a run is a sequence of applications of "
    "operators that each own a generator (state kept from application to application) on the population handed from one to the next, every application under its own "
    "arbitrary schedule; the final population and the final state of EVERY operator's generator are those of the sequential reference run (run_schedule_independent, "
    "runs_agree). The random job-shop instance constructor is modelled with every use of its generator (choices / sample / shuffle) as an input (Model/RandomInstance.lean): "
    "whatever it returns is accepted by the problem-instance validators (randomInstance_accepted), and for valid arguments and draws that the generator can deliver it never raises — "
    "identifiers never collide, no machine is visited twice (randomInstance_total); so for every seed. NOT a theorem: independence of PYTHONHASHSEED (hash/dict-order behaviour of CPython), determinism of optimisers and "
    "primitives — these are covered by differential runs of the real code only: repeated fresh solves, three single-worker schedules, sub-processes with different "
    "hash seeds, and all random constructors.",
    "level_note": "Trusted: Lean kernel + standard axioms; the model's claim about WHERE the code draws (all draws of the operator's generator in the submitting thread, "
    "seed passed as argument) is tied to mutation.py by the recorded draw log (kind, thread, which draw seeds which task) on every run; the order in which the solver "
    "constructor seeds its operators is compared with Seeds.seedOrder; the whole-run model (generator state persisting across applications, population hand-over) is compared "
    "with real operator objects applied repeatedly (seeds.run).",
    "rule": "cases = (a'') random_job_shop_scheduling_instance with an observing Random subclass: 0-4 jobs, 1-5 machines, amounts/durations as values or distributions (valid, invalid, inside "
    "the 0.001 tolerance), names incl. the empty one; the recorded draws replayed in the model must give the same instance or the same failure kind; (a') runs of 3-6 applications of three mutation operator objects (own logged generators) on an evolving population, each application on a stock / eager / "
    "deferred one-worker executor: seed of every task per individual and draws consumed per operator vs Seeds.runRef; (a) mutation operators (topological search, layer removal, parameter search, last-layer search; probability in {0.3, 0.6, 1}) on populations of 2-7 "
    "individuals x 3 single-worker executors x 2 repetitions; (b) EVQE solves (2-3 qubits, population 3-5, 2-3 generations, COBYLA or SPSA (seeded by the library per task), exact "
    "fake primitives, tournament or roulette selection) x {repeat, eager, deferred} + sub-processes with PYTHONHASHSEED in {0, 1, 4242}; (c) random layer / individual / "
    "population / job-shop instance constructors x seeds, twice and across sub-processes. non-trivial = at least two tasks submitted (a), any solve (b); distinct = "
    "(operator, population, seed) resp. solver configuration",
    "trusted_base": ["Lean 4 kernel; axioms per theorem under coverage.theorems", "harness/corr_C17.py, Driver/Seeds.lean, fakes.py"],
    "assumptions": ["deterministic primitives and optimiser", "a single worker thread"],
}

HERE = os.path.dirname(os.path.abspath(__file__))


# ------------------------------------------------------------------------------------------------ executors (all: ONE worker thread)
class EagerExecutor(ThreadPoolExecutor):
    """the worker runs every task to completion before submit() returns"""

    def __init__(self):
        super().__init__(max_workers=1)

    def submit(self, fn, /, *a, **k):
        f = super().submit(fn, *a, **k)
        cf_wait([f])
        return f


class DeferredExecutor(ThreadPoolExecutor):
    """the worker starts a task only after the submitting side has been quiet for `quiet` seconds"""

    def __init__(self, quiet=0.02):
        super().__init__(max_workers=1)
        self.quiet = quiet
        self.stamp = time.monotonic()

    def submit(self, fn, /, *a, **k):
        self.stamp = time.monotonic()

        def gated():
            while time.monotonic() - self.stamp < self.quiet:
                time.sleep(0.002)
            return fn(*a, **k)

        return super().submit(gated)


EXECUTORS = {"stock": lambda: ThreadPoolExecutor(max_workers=1), "eager": EagerExecutor, "deferred": DeferredExecutor}


class LogRandom(random.Random):
    """random.Random with the production stream (getrandbits is defined, so _randbelow keeps using it) that logs random() and randint() with the calling thread"""

    def __init__(self, seed=None):
        self.log = []
        self.main = threading.get_ident()
        super().__init__(seed)

    def getrandbits(self, k):
        return super().getrandbits(k)

    def random(self):
        v = super().random()
        self.log.append(("rand", "main" if threading.get_ident() == self.main else "worker", v))
        return v

    def randint(self, a, b):
        v = super().randint(a, b)
        self.log.append(("seed", "main" if threading.get_ident() == self.main else "worker", v))
        return v


# ------------------------------------------------------------------------------------------------ (a) mutation operators
def pop_struct(pop):
    import genome_corr as G

    return [G.indiv_struct(x) for x in pop.individuals]


def apply_once(kind, info, seed, pop, exname):
    import evqe_corr as E
    from queasars.minimum_eigensolvers.base.evolutionary_algorithm import OperatorContext
    from queasars.minimum_eigensolvers.evqe.evolutionary_algorithm import mutation as M

    prob = info["prob"]
    if kind == "last-layer":
        op = M.EVQELastLayerParameterSearch(prob, E.FakeOptimizer(), E.COST, seed)
    elif kind == "param-search":
        op = M.EVQEParameterSearch(prob, E.FakeOptimizer(), E.COST, seed)
    elif kind == "topological":
        op = M.EVQETopologicalSearch(prob, seed)
    else:
        op = M.EVQELayerRemoval(prob, seed)
    lr = LogRandom(seed)
    op.random_generator = lr
    tasks = []
    inner = op.mutation_function
    ids = {}
    for i, x in enumerate(pop.individuals):
        ids.setdefault(id(x), []).append(i)  # the same object may occur at several indices

    def logged(individual, evaluator, optimizer, task_seed):
        tasks.append((id(individual), task_seed))
        return inner(individual, evaluator, optimizer, task_seed)

    op.mutation_function = logged
    counts = []
    ex = EXECUTORS[exname]()
    try:
        ctx_ = OperatorContext(circuit_evaluator=E.FakeEvaluator(pop.individuals[0].n_qubits), result_callback=lambda r: None,
                               circuit_evaluation_count_callback=counts.append, parallel_executor=ex)
        out = op.apply_operator(pop, ctx_)
    finally:
        ex.shutdown(wait=True)
    # index of every task: an object occurring at several indices gets them in the order in which its tasks' seeds were drawn
    pos = {v: p for p, (k, _, v) in enumerate(lr.log) if k == "seed"}
    resolved = []
    for oid in {o for o, _ in tasks}:
        mine = sorted((s for o, s in tasks if o == oid), key=lambda s: pos.get(s, 10**9))
        resolved += list(zip(ids.get(oid, [None] * len(mine)), mine))
    return {"pop": pop_struct(out), "counts": counts, "state": hashlib.sha1(repr(lr.getstate()).encode()).hexdigest(), "log": lr.log, "tasks": sorted(resolved, key=repr)}


def mutation_case(ctx, rng):
    import evqe_corr as E

    drv = ctx.lean("Seeds")
    kind = rng.choice(["topological", "removal", "param-search", "last-layer", "topological"])
    info = {"prob": rng.choice([0.3, 0.6, 1.0])}
    seed = rng.randrange(2**31)
    pop = E.gen_population(rng)
    # equal individuals may occur, but every position holds its own object (tasks are identified by the object they receive)
    from queasars.minimum_eigensolvers.evqe.evolutionary_algorithm.individual import EVQEIndividual
    from queasars.minimum_eigensolvers.evqe.evolutionary_algorithm.population import EVQEPopulation

    pop = EVQEPopulation(tuple(EVQEIndividual(x.n_qubits, x.layers, x.parameter_values) for x in pop.individuals), None, None, None)
    inp = {"kind": "mutation", "operator": kind, "prob": info["prob"], "seed": seed, "population": [repr(s) for s in pop_struct(pop)]}
    runs = {}
    for exname in ("stock", "eager", "deferred", "deferred"):
        runs.setdefault(exname, []).append(apply_once(kind, info, seed, pop, exname))
    ref = runs["stock"][0]
    n_tasks = len(ref["tasks"])
    ctx.case(inp, nontrivial=n_tasks >= 2, tags=["mutation", "operator:" + kind, f"tasks:{min(n_tasks, 5)}"])
    for exname, rs in runs.items():
        for r in rs:
            for field, what in (("pop", "individuals"), ("counts", "reported evaluation counts"), ("state", "generator state afterwards")):
                if r[field] != ref[field]:
                    ctx.violate(f"identically seeded applications of a mutation operator with one worker differ in the {what} (schedule: stock pool vs {exname})", inp,
                                {"stock": ref[field] if field != "pop" else "…", "other": r[field] if field != "pop" else "…"}, key=f"mutation:{field}")
    if drv is None:
        return
    for exname, rs in runs.items():
        r = rs[0]
        log = r["log"]
        decisions = [v <= info["prob"] for k, _, v in log if k == "rand"]
        # the schedule as the model's actions: a submit per loop iteration; a run when the task was started relative to the draws
        if exname == "eager":
            sched = []
            for d in decisions:
                sched.append("submit")
                if d:
                    sched.append(["run", 0])
        else:
            sched = ["submit"] * len(decisions) + [["run", 0]] * sum(decisions)
        m = drv.ask({"op": "seeds.mutation", "decisions": decisions, "schedule": sched})
        values = [v for _, _, v in log]
        impl = {"draw_kinds": [f"{t}:{k}" for k, t, _ in log],
                "tasks": sorted([i, next((p for p, (k, _, v) in enumerate(log) if k == "seed" and v == s), None)] for i, s in r["tasks"]),
                "draws": len(values)}
        kinds = []
        for d in decisions:
            kinds.append("main:rand")
            if d:
                kinds.append("main:seed")
        mod = {"draw_kinds": kinds, "tasks": sorted(m.get("reference_tasks", [])), "draws": m.get("reference_draws")}
        if not m.get("complete") or sorted(m.get("tasks", [])) != mod["tasks"] or m.get("draws") != mod["draws"]:
            ctx.disagree("seeds.mutation: the model's own schedule run is not the reference", inp, None, m)
        ctx.compare(f"seeds.mutation ({exname}): draws of the operator's generator and the seed of every task", inp, impl, mod)


def run_of_applications_case(ctx, rng):
    """a whole run at the operator level: the SAME operator objects (each with its own logged generator) applied several times in turn to
    the evolving population, every application on a differently behaving one-worker executor; compared with Seeds.runRef: the seed every
    task received (as a position in its operator's stream) per individual, and how far every operator's generator has advanced"""
    import evqe_corr as E
    from queasars.minimum_eigensolvers.base.evolutionary_algorithm import OperatorContext
    from queasars.minimum_eigensolvers.evqe.evolutionary_algorithm import mutation as M
    from queasars.minimum_eigensolvers.evqe.evolutionary_algorithm.individual import EVQEIndividual
    from queasars.minimum_eigensolvers.evqe.evolutionary_algorithm.population import EVQEPopulation

    drv = ctx.lean("Seeds")
    probs = [rng.choice([0.3, 0.6, 1.0]) for _ in range(3)]
    seeds = [rng.randrange(2**31) for _ in range(3)]
    ops = [M.EVQETopologicalSearch(probs[0], seeds[0]), M.EVQEParameterSearch(probs[1], E.FakeOptimizer(), E.COST, seeds[1]), M.EVQELayerRemoval(probs[2], seeds[2])]
    logs = []
    for o, sd in zip(ops, seeds):
        o.random_generator = LogRandom(sd)
        logs.append(o.random_generator)
    pop = E.gen_population(rng)
    pop = EVQEPopulation(tuple(EVQEIndividual(x.n_qubits, x.layers, x.parameter_values) for x in pop.individuals), None, None, None)
    n = len(pop.individuals)
    seq = [rng.randrange(3) for _ in range(rng.randint(3, 6))]
    exnames = [rng.choice(["stock", "eager", "deferred"]) for _ in seq]
    inp = {"kind": "run_of_applications", "probs": probs, "seeds": seeds, "sequence": seq, "executors": exnames, "population": [repr(s_) for s_ in pop_struct(pop)]}
    history = [[] for _ in range(n)]  # per index: (operator, position of the seed draw in that operator's stream)
    apps = []
    for k, exname in zip(seq, exnames):
        op, lr = ops[k], logs[k]
        start = len(lr.log)
        ids = {}
        for i, x in enumerate(pop.individuals):
            ids.setdefault(id(x), []).append(i)
        tasks = []
        inner = op.mutation_function

        def logged(individual, evaluator, optimizer, task_seed, inner=inner):
            tasks.append((id(individual), task_seed))
            return inner(individual, evaluator, optimizer, task_seed)

        op.mutation_function = logged
        ex = EXECUTORS[exname]()
        try:
            octx = OperatorContext(circuit_evaluator=E.FakeEvaluator(pop.individuals[0].n_qubits), result_callback=lambda r: None,
                                   circuit_evaluation_count_callback=lambda c: None, parallel_executor=ex)
            out = op.apply_operator(pop, octx)
        finally:
            ex.shutdown(wait=True)
            op.mutation_function = inner
        new = lr.log[start:]
        decisions = [v <= probs[k] for kind, _, v in new if kind == "rand"]
        pos = {v: start + p for p, (kind, _, v) in enumerate(new) if kind == "seed"}
        for oid in {o for o, _ in tasks}:
            mine = sorted((s_ for o, s_ in tasks if o == oid), key=lambda s_: pos.get(s_, 10**9))
            for i, s_ in zip(ids.get(oid, []), mine):
                history[i].append([k, pos.get(s_)])
        if exname == "eager":
            sched = []
            for d in decisions:
                sched.append("submit")
                if d:
                    sched.append(["run", 0])
        else:
            sched = ["submit"] * len(decisions) + [["run", 0]] * sum(decisions)
        apps.append({"op": k, "decisions": decisions, "schedule": sched})
        if any(w != "main" for _, w, _ in new):
            ctx.violate("an operator's generator was used by a worker thread", inp, {"application": len(apps) - 1}, key="run:worker-draw")
        # every position holds its own object again (an unmutated individual is handed on as the same object)
        pop = EVQEPopulation(tuple(EVQEIndividual(x.n_qubits, x.layers, x.parameter_values) for x in out.individuals), None, None, None)
    ctx.case(inp, nontrivial=sum(len(h) for h in history) >= 2, tags=["run-of-applications", f"applications:{len(seq)}"])
    if drv is None:
        return
    m = drv.ask({"op": "seeds.run", "n_ops": 3, "n": n, "seq": apps})
    if not m.get("schedule_run_equals_reference"):
        ctx.disagree("seeds.run: the model's schedule run is not its reference run", inp, None, m)
    ctx.compare("seeds.run: seed of every task per individual over the whole run, draws consumed per operator", inp,
                {"pop": history, "gens": [len(lr.log) for lr in logs]}, {"pop": m.get("pop"), "gens": m.get("gens")})


# ------------------------------------------------------------------------------------------------ (b) whole solves
SOLVE_SNIPPET = r'''
import json, sys, warnings
warnings.filterwarnings("ignore")
sys.path.insert(0, {here!r})
import corr_C17
print("FP=" + corr_C17.solve_fingerprint(json.loads({cfg!r}), {exname!r}))
'''


def solve_fingerprint(cfg, exname, optimizer_obj=None):
    import warnings

    warnings.filterwarnings("ignore")
    import numpy as np
    from qiskit.quantum_info import SparsePauliOp
    from qiskit_algorithms.optimizers import COBYLA, SPSA

    import fakes
    import genome_corr as G
    from queasars.circuit_evaluation.configured_primitives import ConfiguredEstimatorV2, ConfiguredSamplerV2
    from queasars.minimum_eigensolvers.evqe.evqe import EVQEMinimumEigensolver, EVQEMinimumEigensolverConfiguration

    op = SparsePauliOp(cfg["paulis"], cfg["coeffs"])
    ex = EXECUTORS[exname]()
    try:
        conf = EVQEMinimumEigensolverConfiguration(
            configured_estimator=ConfiguredEstimatorV2(estimator=fakes.ExactEstimator(), precision=None) if cfg["estimator"] else None,
            configured_sampler=ConfiguredSamplerV2(sampler=fakes.ExactSampler(), shots=cfg.get("shots", 256)), pass_manager=None,
            optimizer=optimizer_obj if optimizer_obj is not None else (
                SPSA(maxiter=cfg["maxiter"], learning_rate=0.1, perturbation=0.1) if cfg.get("optimizer") == "SPSA" else COBYLA(maxiter=cfg["maxiter"])),
            optimizer_n_circuit_evaluations=None, max_generations=cfg["max_gen"], max_circuit_evaluations=None, termination_criterion=None, random_seed=cfg["seed"],
            population_size=cfg["population"], speciation_genetic_distance_threshold=cfg["threshold"], selection_alpha_penalty=0.1, selection_beta_penalty=0.05,
            parameter_search_probability=cfg["p_param"], topological_search_probability=cfg["p_topo"], layer_removal_probability=cfg["p_rem"],
            use_tournament_selection=cfg["tournament"], tournament_size=2 if cfg["tournament"] else None, parallel_executor=ex, mutually_exclusive_primitives=cfg["mutex"])
        res = EVQEMinimumEigensolver(conf).compute_minimum_eigenvalue(op)
    finally:
        ex.shutdown(wait=True)
    fp = {
        "eigenvalue": repr(float(np.real(res.eigenvalue))),
        "best": repr(G.indiv_struct(res.best_individual)),
        "evals": [int(v) for v in res.circuit_evaluations],
        "generations": int(res.generations),
        "eigenstate": sorted((int(k), repr(float(v))) for k, v in res.eigenstate.items()),
        "history": [[[repr(G.indiv_struct(x)) for x in e.population.individuals], [repr(v) for v in e.expectation_values], repr(G.indiv_struct(e.best_individual)),
                     repr(e.best_expectation_value)] for e in res.population_evaluation_results],
    }
    return json.dumps(fp, sort_keys=True)


def diff_fields(a, b):
    a, b = json.loads(a), json.loads(b)
    return [k for k in a if a[k] != b.get(k)]


def run_sub(snippet, hashseed):
    import queasars

    tree = os.path.dirname(os.path.dirname(os.path.abspath(queasars.__file__)))  # the tree this process imported the package from
    env = dict(os.environ, PYTHONHASHSEED=str(hashseed), PYTHONPATH=os.pathsep.join([HERE, tree, os.environ.get("PYTHONPATH", "")]))
    p = subprocess.run([sys.executable, "-c", snippet], capture_output=True, text=True, env=env, timeout=600)
    for line in p.stdout.splitlines():
        if line.startswith("FP="):
            return line[3:]
    raise RuntimeError("sub-process failed: " + p.stderr[-400:])


def tie_prone_solve_case(ctx, rng):
    """coarse objective values (4-shot sampler, integer-valued diagonal operator): different individuals often tie exactly for a generation's best
    value; which of them is recorded as best must not depend on the order in which evaluation futures happen to be consumed (object addresses).
    Several repetitions on the stock one-worker pool, plus the eager and the deferred pool."""
    nq = 2
    cfg = {"paulis": ["ZI", "IZ", "ZZ"], "coeffs": [1.0, 1.0, rng.choice([1.0, 2.0])], "estimator": False, "maxiter": 2, "max_gen": rng.randint(4, 5), "seed": rng.randrange(1, 2**31),
           "population": 8, "threshold": 2, "p_param": 0.3, "p_topo": 0.5, "p_rem": 0.1, "tournament": True, "mutex": False, "optimizer": "COBYLA", "shots": 4}
    inp = {"kind": "solve", "tie_prone": True, **cfg}
    ctx.case(inp, nontrivial=True, tags=["solve", "tie-prone (4 shots)"])
    ref = solve_fingerprint(cfg, "stock")
    hist = json.loads(ref)["history"]
    ctx.dist["tie-prone: generations with an exact tie for the best value"] += sum(1 for h in hist if h[1].count(h[3]) > 1)
    for exname in ("stock", "stock", "stock", "eager", "deferred"):
        fp = solve_fingerprint(cfg, exname)
        if fp != ref:
            ctx.violate(f"two identically seeded single-worker solves from fresh solvers differ (coarse objective values with exact ties; schedule: stock pool vs {exname})",
                        inp, {"fields": diff_fields(ref, fp)}, key="solve:ties")
            return


class _CountingChecker:
    """an SPSA termination checker with memory: ends a minimisation once it has been called `patience` times since it was created (or copied)"""

    def __init__(self, patience):
        self.patience, self.calls = patience, 0

    def __call__(self, nfev, parameters, value, stepsize, accepted):
        self.calls += 1
        return self.calls >= self.patience


def shared_optimizer_case(ctx, rng):
    """the same optimiser OBJECT handed to several freshly constructed solvers (configuration objects are reused): an optimiser that keeps state
    between minimisations (SPSA with blocking: the allowed increase calibrated in its first run) must not carry it from one solve into the next"""
    from qiskit_algorithms.optimizers import SPSA

    cfg = {"paulis": ["ZI", "IZ", "XX"], "coeffs": [1.0, -0.5, rng.choice([0.5, 1.0])], "estimator": True, "maxiter": 3, "max_gen": 2, "seed": rng.randrange(1, 2**31),
           "population": 3, "threshold": 2, "p_param": 1.0, "p_topo": 0.5, "p_rem": 0.1, "tournament": False, "mutex": False, "optimizer": "SPSA(blocking) shared object"}
    inp = {"kind": "solve", "shared_optimizer_object": True, **cfg}
    ctx.case(inp, nontrivial=True, tags=["solve", "optimizer object shared by fresh solvers"])
    opt = SPSA(maxiter=cfg["maxiter"] + 3, blocking=True, learning_rate=0.1, perturbation=0.1, termination_checker=_CountingChecker(4))
    ref = solve_fingerprint(cfg, "stock", optimizer_obj=opt)
    for exname in ("stock", "eager"):
        fp = solve_fingerprint(cfg, exname, optimizer_obj=opt)
        if fp != ref:
            ctx.violate("two identically seeded single-worker solves from fresh solvers that were given the same optimiser object differ", inp,
                        {"fields": diff_fields(ref, fp), "schedule": exname}, key="solve:shared-optimizer")
            return


def solve_case(ctx, rng, subprocess_seeds, optimizer=None, seed=None):
    nq = rng.choice([2, 2, 3])
    paulis = sorted({"".join(rng.choice("IXYZ") for _ in range(nq)) for _ in range(rng.randint(1, 3))})
    cfg = {"paulis": paulis, "coeffs": [rng.randint(-4, 4) / 2 or 1.0 for _ in paulis], "estimator": rng.random() < 0.6, "maxiter": rng.randint(2, 4), "max_gen": rng.randint(2, 3),
           "seed": rng.randrange(2**31), "population": rng.randint(3, 5), "threshold": rng.randint(1, 3), "p_param": round(rng.random(), 2), "p_topo": round(rng.random(), 2),
           "p_rem": round(rng.random() * 0.4, 2), "tournament": rng.random() < 0.5, "mutex": rng.random() < 0.2,
           "optimizer": rng.choice(["COBYLA", "SPSA"])}  # SPSA draws from qiskit's process-global generator, which the library seeds per task
    if optimizer:
        cfg["optimizer"] = optimizer
    if seed is not None:
        cfg["seed"] = seed  # boundary values of the seed (0 is falsy in Python; the sample configuration of the package uses 0)
    if cfg["mutex"]:
        cfg["maxiter"], cfg["max_gen"], cfg["population"] = 2, 2, 3  # the batching wrapper waits 0.1 s per (sequential) evaluation
    if not cfg["estimator"]:
        cfg["paulis"] = sorted({"".join(rng.choice("IZ") for _ in range(nq)) for _ in range(rng.randint(1, 3))})
        cfg["coeffs"] = [rng.randint(-4, 4) / 2 or 1.0 for _ in cfg["paulis"]]
    inp = {"kind": "solve", **cfg}
    ctx.case(inp, nontrivial=True, tags=["solve", "estimator" if cfg["estimator"] else "sampler", f"subprocesses:{len(subprocess_seeds)}"])
    ref = solve_fingerprint(cfg, "stock")
    for exname in ("stock", "eager") if cfg["mutex"] else ("stock", "eager", "deferred"):
        fp = solve_fingerprint(cfg, exname)
        if fp != ref:
            ctx.violate(f"two identically seeded single-worker solves from fresh solvers differ (schedule: stock pool vs {exname})", inp, {"fields": diff_fields(ref, fp)},
                        key="solve:" + ("repeat" if exname == "stock" else "schedule"))
    for hs in subprocess_seeds:
        fp = run_sub(SOLVE_SNIPPET.format(here=HERE, cfg=json.dumps(cfg), exname="stock"), hs)
        if fp != ref:
            ctx.violate(f"an identically seeded solve in a process with PYTHONHASHSEED={hs} differs", inp, {"fields": diff_fields(ref, fp)}, key="solve:hashseed")


# ------------------------------------------------------------------------------------------------ (c) random constructors
def constructors_fingerprint(seeds):
    import genome_corr as G
    from queasars.job_shop_scheduling.random_problem_instances import random_job_shop_scheduling_instance
    from queasars.minimum_eigensolvers.evqe.evolutionary_algorithm.individual import EVQEIndividual
    from queasars.minimum_eigensolvers.evqe.evolutionary_algorithm.population import EVQEPopulation
    from queasars.minimum_eigensolvers.evqe.quantum_circuit.circuit_layer import EVQECircuitLayer

    import corr_C18

    out = []
    for s in seeds:
        random.seed(s * 7 + 1)  # the global generator must not matter
        l0 = EVQECircuitLayer.random_layer(n_qubits=4, previous_layer=None, random_seed=s)
        l1 = EVQECircuitLayer.random_layer(n_qubits=4, previous_layer=l0, random_seed=s)
        x = EVQEIndividual.random_individual(3, 3, True, s)
        y = EVQEIndividual.add_random_layers(x, 2, True, s)
        p = EVQEPopulation.random_population(2, 2, 4, True, s)
        def jssp(*a):  # an exception is an outcome too (and must be the same one for the same arguments)
            try:
                return corr_C18.render(random_job_shop_scheduling_instance(*a))
            except Exception as e:  # noqa: BLE001
                return "exc:" + type(e).__name__

        j = jssp("i", 3, 3, {0.34: 0.5, 0.67: 0.25, 1.0: 0.25}, {1: 0.5, 2: 0.25, 3: 0.25}, s)
        j2 = jssp("sparse", 2, 6, 0.34, {1: 0.5, 4: 0.5}, s)  # machines without any operation
        out.append([repr(corr_C18.render(l0)), repr(corr_C18.render(l1)), repr(G.indiv_struct(x)), repr(G.indiv_struct(y)), repr([G.indiv_struct(i) for i in p.individuals]),
                    repr(j) + repr(j2)])
    return json.dumps(out)


CONSTR_SNIPPET = r'''
import json, sys, warnings
warnings.filterwarnings("ignore")
sys.path.insert(0, {here!r})
import corr_C17
print("FP=" + corr_C17.constructors_fingerprint(json.loads({seeds!r})))
'''


def constructors_case(ctx, rng, subprocess_seeds):
    seeds = [rng.randrange(2**31) for _ in range(6)] + [0]
    inp = {"kind": "constructors", "seeds": seeds}
    ctx.case(inp, nontrivial=True, tags=["constructors", f"subprocesses:{len(subprocess_seeds)}"])
    ref = constructors_fingerprint(seeds)
    if constructors_fingerprint(seeds) != ref:
        ctx.violate("a random constructor returned different objects for the same arguments and seed", inp, None, key="constructors:repeat")
    for hs in subprocess_seeds:
        fp = run_sub(CONSTR_SNIPPET.format(here=HERE, seeds=json.dumps(seeds)), hs)
        if fp != ref:
            a, b = json.loads(ref), json.loads(fp)
            which = sorted({["layer", "layer(prev)", "individual", "add_random_layers", "population", "jssp_instance"][k] for u, v in zip(a, b) for k in range(6) if u[k] != v[k]})
            ctx.violate(f"a random constructor depends on the process (PYTHONHASHSEED={hs})", inp, {"constructors": which}, key="constructors:hashseed")


def history_fingerprint(specs, order, reuse):
    """the job-shop / genome constructors called for every argument set of `specs` in the given order; `reuse`: the distribution dicts are ONE
    object per parameter, updated in place between calls (otherwise short-lived fresh dicts).  Returns {index: rendering}."""
    import genome_corr as G
    from queasars.job_shop_scheduling.random_problem_instances import random_job_shop_scheduling_instance
    from queasars.minimum_eigensolvers.evqe.evolutionary_algorithm.individual import EVQEIndividual
    from queasars.minimum_eigensolvers.evqe.quantum_circuit.circuit_layer import EVQECircuitLayer

    import corr_C18

    out = {}
    shared_a, shared_d = {}, {}
    for i in order:
        amount, dur, nj, nm, seed, nq = specs[i]
        if reuse:
            shared_a.clear(); shared_a.update({float(k): v for k, v in amount}); shared_d.clear(); shared_d.update({int(k): v for k, v in dur})
            a, d = shared_a, shared_d
        else:
            a, d = {float(k): v for k, v in amount}, {int(k): v for k, v in dur}
        try:
            j = repr(corr_C18.render(random_job_shop_scheduling_instance(f"i{i}", nj, nm, a, d, seed)))
        except Exception as e:  # noqa: BLE001  (e.g. a drawn amount of 0 operations) — also a function of the arguments
            j = "exc:" + type(e).__name__
        prev = EVQECircuitLayer.random_layer(n_qubits=nq, previous_layer=None, random_seed=seed + 1)
        lay = EVQECircuitLayer.random_layer(n_qubits=nq, previous_layer=prev, random_seed=seed)
        x = EVQEIndividual.add_random_layers(EVQEIndividual.random_individual(nq, 2, True, seed), 2, True, seed)
        out[i] = j + repr(corr_C18.render(lay)) + repr(G.indiv_struct(x))
        del a, d, j
    return out


HIST_SNIPPET = r'''
import json, sys, warnings
warnings.filterwarnings("ignore")
sys.path.insert(0, {here!r})
import corr_C17
specs = json.loads({specs!r})
print("FP=" + json.dumps(corr_C17.history_fingerprint(specs, list(reversed(range(len(specs)))), False), sort_keys=True))
'''


def history_case(ctx, rng, subprocess_seeds):
    """'a function of its arguments and seed only': the same argument sets in another order, with the distribution objects reused and updated
    in place, and in a fresh process must give the same objects (no state carried from call to call, no dependence on object identity)."""
    specs = []
    for _ in range(14):
        ks = rng.sample([0.2, 0.34, 0.5, 0.67, 0.8, 1.0], 3)
        ds = rng.sample([1, 2, 3, 4, 5, 8, 9], rng.choice([2, 2, 3]))
        wa = rng.choice([[0.5, 0.25, 0.25], [0.25, 0.5, 0.25], [0.2, 0.2, 0.6]])
        wd = [0.5, 0.5] if len(ds) == 2 else rng.choice([[0.5, 0.25, 0.25], [0.25, 0.25, 0.5]])
        specs.append([list(zip(ks, wa)), list(zip(ds, wd)), rng.randint(2, 3), rng.randint(2, 4), rng.randrange(2**31), rng.randint(1, 4)])
    inp = {"kind": "constructor_history", "specs": specs}
    ctx.case(inp, nontrivial=True, tags=["constructor_history", f"subprocesses:{min(len(subprocess_seeds), 1)}"])
    n = len(specs)
    ref = history_fingerprint(specs, list(range(n)), False)
    variants = {"the same calls in reverse order": history_fingerprint(specs, list(reversed(range(n))), False),
                "the distribution dict objects reused and updated in place": history_fingerprint(specs, list(range(n)), True),
                "the same calls again": history_fingerprint(specs, list(range(n)), False)}
    for hs in subprocess_seeds[:1]:
        fp = json.loads(run_sub(HIST_SNIPPET.format(here=HERE, specs=json.dumps(specs)), hs))
        variants["a fresh process, reverse order"] = {int(k): v for k, v in fp.items()}
    for what, got in variants.items():
        bad = [i for i in range(n) if got[i] != ref[i]]
        if bad:
            ctx.violate("a random constructor is not a function of its arguments and seed only: " + what + " gives different objects", inp,
                        {"argument_sets": bad, "first": {"expected": ref[bad[0]][:300], "got": got[bad[0]][:300]}}, key="constructors:history")


def instance_model_case(ctx, rng):
    """random_job_shop_scheduling_instance against Model/RandomInstance.lean: every use of the constructor's generator (choices / sample /
    shuffle) is recorded by an observing subclass and replayed in the model — agreement means that all randomness of the constructor flows through
    Random(seed), in the modelled order, and that failures are the modelled ones"""
    import random as pyrandom
    from fractions import Fraction as F

    import corr_C19
    from common import rat_str
    from queasars.job_shop_scheduling import random_problem_instances as mod

    drv = ctx.lean("RandInst")
    log = []

    class Rec(pyrandom.Random):
        def choices(s, population, weights=None, *, cum_weights=None, k=1):
            r = super().choices(population, weights, cum_weights=cum_weights, k=k)
            log.append(("choices", list(population).index(r[0])))
            return r

        def sample(s, population, k, **kw):
            r = super().sample(population, k, **kw)
            log.append(("sample", [int(m.name[1:]) for m in r]))
            return r

        def shuffle(s, x):
            super().shuffle(x)
            log.append(("shuffle", [int(m.name[1:]) for m in x]))

    nm, nj = rng.randint(1, 5), rng.randint(0, 4)
    # amounts: dyadic values (float product exact; ties round half to even) or values whose product is far from a tie
    def amount_value():
        while True:
            a = rng.choice([0.25, 0.5, 0.75, 1.0, 0.34, 0.67, 0.2, 0.9, 1.25, 0.1, -0.5, 0.0])
            x = F(a) * nm
            if F(a).denominator in (1, 2, 4) or abs((x % 1) - F(1, 2)) > F(1, 1000):
                return a

    def weights(k):
        m = rng.randrange(8)
        if m == 0:
            w = [0.9 / k] * k  # too little
        elif m == 1:
            w = [0.5] * k if k != 2 else [0.7, 0.7]  # too much (unless it happens to be 1)
        elif m == 2:
            w = [1.0 / k] * (k - 1) + [1.0 / k - 0.0004]  # inside the tolerance of 0.001
        else:
            cuts = sorted(rng.randint(1, 15) for _ in range(k - 1))
            w = [(b - a) / 16 for a, b in zip([0] + cuts, cuts + [16])]
        return w

    if rng.random() < 0.5:
        amount = amount_value()
        amount_json = {"val": rat_str(F(amount))}
    else:
        ks = rng.sample([0.25, 0.5, 0.75, 1.0, 0.34, 0.67, 0.2, 0.9], rng.randint(1, 3))
        ks = [a for a in ks if F(a).denominator in (1, 2, 4) or abs(((F(a) * nm) % 1) - F(1, 2)) > F(1, 1000)] or [0.5]
        ws = weights(len(ks))
        amount = dict(zip(ks, ws))
        amount_json = {"dist": [[rat_str(F(a)), rat_str(F(w))] for a, w in amount.items()]}
    if rng.random() < 0.4:
        dur = rng.choice([1, 2, 3, 7, 0, -1])
        dur_json = {"val": dur}
    else:
        ks = rng.sample([1, 2, 3, 4, 5, 9, 0, -2], rng.randint(1, 3))
        dur = dict(zip(ks, weights(len(ks))))
        dur_json = {"dist": [[d, rat_str(F(w))] for d, w in dur.items()]}
    name = rng.choice(["inst", "i", "", "x y"])
    seed = rng.randrange(2**31)
    saved = mod.Random
    mod.Random = Rec
    try:
        try:
            inst = mod.random_job_shop_scheduling_instance(name, nj, nm, amount, dur, seed)
            impl = {"ok": {"name": inst.name, "machines": [m.name for m in inst.machines],
                           "jobs": [[j.name, [[o.name, o.job_name, o.machine.name, o.processing_duration] for o in j.operations]] for j in inst.jobs]}}
        except ValueError as e:
            impl = {"err": "badDistribution" if "probabilit" in str(e) else "sampleError" if "ample" in str(e) else "ValueError:" + str(e)[:40]}
        except Exception as e:  # noqa: BLE001
            k = corr_C19.kind_of(e)
            impl = {"err": "emptyJob" if k == "jobNoOps" else "invalid:" + str(k)}
    finally:
        mod.Random = saved
    # the recorded uses, grouped per job
    draws, i = [], 0
    amount_is_dist, dur_is_dist = isinstance(amount, dict), isinstance(dur, dict)
    while i < len(log):
        d = {"amount": None, "sample": [], "shuffled": [], "durs": []}
        if amount_is_dist and log[i][0] == "choices":
            d["amount"] = log[i][1]
            i += 1
        if i < len(log) and log[i][0] == "sample":
            d["sample"] = log[i][1]
            i += 1
        if i < len(log) and log[i][0] == "shuffle":
            d["shuffled"] = log[i][1]
            i += 1
        if dur_is_dist:
            while i < len(log) and log[i][0] == "choices" and len(d["durs"]) < len(d["shuffled"]):
                d["durs"].append(log[i][1])
                i += 1
        else:
            d["durs"] = [None] * len(d["shuffled"])
        draws.append(d)
    # one entry per job of the loop: an iteration that raised before its first recorded draw (invalid distribution, `sample` refusing) has none
    while len(draws) < nj:
        draws.append({"amount": None, "sample": [], "shuffled": [], "durs": []})
    inp = {"kind": "instance_model", "name": name, "n_jobs": nj, "n_machines": nm, "amount": amount_json, "dur": dur_json, "seed": seed}
    ctx.case(inp, nontrivial=nj >= 2 and "ok" in impl, tags=["instance-model", "outcome:" + ("ok" if "ok" in impl else impl["err"].split(":")[0])])
    if drv is None:
        return
    m = drv.ask({"op": "randinst.build", "name": name, "n_machines": nm, "amount": amount_json, "dur": dur_json, "draws": draws})
    ctx.compare("randinst.build: the instance built from the recorded draws / the failure", inp, impl, m)


def seed_order_case(ctx):
    """the solver constructor seeds its operators from the master generator in the order of Seeds.seedOrder"""
    from qiskit_algorithms.optimizers import COBYLA

    import fakes
    from queasars.circuit_evaluation.configured_primitives import ConfiguredSamplerV2
    from queasars.minimum_eigensolvers.evqe.evqe import EVQEMinimumEigensolver, EVQEMinimumEigensolverConfiguration
    from queasars.utility.random import new_random_seed

    drv = ctx.lean("Seeds")
    seed = 12345
    with ThreadPoolExecutor(max_workers=1) as ex:
        conf = EVQEMinimumEigensolverConfiguration(
            configured_estimator=None, configured_sampler=ConfiguredSamplerV2(sampler=fakes.ExactSampler(), shots=64), pass_manager=None, optimizer=COBYLA(maxiter=2),
            optimizer_n_circuit_evaluations=None, max_generations=1, max_circuit_evaluations=None, termination_criterion=None, random_seed=seed, population_size=2,
            speciation_genetic_distance_threshold=1, selection_alpha_penalty=0.0, selection_beta_penalty=0.0, parameter_search_probability=0.5,
            topological_search_probability=0.5, layer_removal_probability=0.1, parallel_executor=ex, mutually_exclusive_primitives=False)
        solver = EVQEMinimumEigensolver(conf)
    master = random.Random(seed)
    expected = [new_random_seed(master) for _ in range(7)]
    ops = solver.configuration.evolutionary_operators
    seen = []
    for o in ops:
        g = getattr(o, "random_generator", None) or getattr(o, "_random_generator")
        k = next((i for i, s in enumerate(expected) if random.Random(s).getstate() == g.getstate()), None)
        seen.append((k, type(o).__name__))
    pop = solver.configuration.population_initializer(2)
    from queasars.minimum_eigensolvers.evqe.evolutionary_algorithm.population import EVQEPopulation
    import genome_corr as G

    k = next((i for i, s in enumerate(expected) if [G.indiv_struct(x) for x in EVQEPopulation.random_population(2, 1, 2, True, s).individuals] == [G.indiv_struct(x) for x in pop.individuals]), None)
    seen.append((k, "population_initializer"))
    inp = {"kind": "seed_order", "seed": seed}
    ctx.case(inp, nontrivial=True, tags=["seed_order"])
    impl = [name for _, name in sorted(seen, key=lambda t: (t[0] is None, t[0]))] if all(k is not None for k, _ in seen) else seen
    if drv is not None:
        ctx.compare("seeds.order: consumers of the master generator in draw order", inp, impl, drv.ask({"op": "seeds.order"}).get("order"))


def run(ctx):
    import warnings

    warnings.filterwarnings("ignore")
    rng = ctx.rng
    seed_order_case(ctx)
    for _ in range(ctx.n(14, 300)):
        if ctx.out_of_time():
            break
        mutation_case(ctx, rng)
    for _ in range(ctx.n(8, 150)):
        if ctx.out_of_time():
            break
        run_of_applications_case(ctx, rng)
    for _ in range(ctx.n(300, 6000)):
        if ctx.out_of_time():
            break
        instance_model_case(ctx, rng)
    hs = [0, 1, 4242] if ctx.thorough() else [0, 4242]
    constructors_case(ctx, rng, hs)
    history_case(ctx, rng, hs)
    for i in range(ctx.n(2, 12)):
        if ctx.out_of_time():
            break
        tie_prone_solve_case(ctx, rng)
    for i in range(ctx.n(1, 6)):
        if ctx.out_of_time():
            break
        shared_optimizer_case(ctx, rng)
    for i in range(ctx.n(3, 40)):
        if ctx.out_of_time():
            break
        solve_case(ctx, rng, hs if (i == 0 or ctx.thorough() and i % 4 == 0) else [], optimizer=["SPSA", "COBYLA"][i % 2],
                   seed={0: 0, 5: 1, 9: 2**31 - 1}.get(i))


def replay(ctx, case):
    ctx.seed = case.get("seed", ctx.seed)
    ctx.tier = case.get("tier", ctx.tier)
    ctx.rng = random.Random(ctx.seed)
    run(ctx)
    want = (case.get("case") or {}).get("key")
    if want:
        hit = [v for v in ctx.violations if v["key"] == want]
        if hit:
            ctx.violations[:] = hit[:1]
