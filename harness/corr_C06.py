"""C06 — batching runner cluster (shared harness: runner_corr.py, sched.py)."""
import runner_corr

META = {
    "lean_modules": ["QVerif.Props.C06"],
    "drivers": ["Runner"],
    "theorems": ['Runner.C06_returned_is_own', 'Runner.C06_log_entries_positional', 'Runner.C06_slice_is_own_results', 'Runner.C06_each_pub_once', 'Runner.C06_handed_at_most_once', 'Runner.account_reachable', 'Runner.dinv_reachable', 'Runner.cinv_reachable', 'Runner.step_sound'],
    "level": "proof",
    "level_text": 'Proof: inductive invariants CInv+DInv over all reachable states of the runner transition system (any number of threads, calls, pubs, interleavings, f outcomes) give returned_is_own / slice_is_own_results: a returning call holds the outcome of exactly one f call whose batch contains its pubs in order at [idx, idx+n); a conservation law over all reachable states (account_reachable: logged batches + open batch + not-yet-appended pubs + pubs of future calls = all pubs, as multisets) gives each_pub_once: when all calls have returned, the pubs handed to f over all its invocations are exactly the submitted pubs, each once, and at no moment more often (handed_at_most_once). Tied to the code by lock-step trace conformance of the real run() under a cooperative scheduler.',
    "level_note": "Trusted: Lean kernel + propext/Classical.choice/Quot.sound; the hand-written transition system Model/Runner.lean is tied to "
    "mutex_primitives.py by the sampled lock-step conformance only; semantics of threading.Lock/Condition as modelled by the cooperative "
    "primitives; scheduler fairness for liveness; the wrapped primitive returns or raises.",
    "rule": "cases = controlled executions of the real BatchingMutexPrimitiveJobRunner.run: 1-5 threads x 1-3 calls x 0-3 pubs, fault plans "
    "(none / first / random / consecutive batches fail, raised by result() or at submission), schedules from seeded random walk, lazy/eager "
    "timeout firing, PCT priorities, sticky (few pre-emptions) and exhaustive bounded-pre-emption DFS on small configurations; after EVERY step "
    "lock owners, both waiter lists, all counters, batch, result/exception and each thread's pending synchronisation operation are compared with "
    "the Lean model; returned values and the log of f calls are compared at the end; the oracles (own slice, each pub once, overlap counter, "
    "no hang, exception delivery, reset) run on the implementation alone. non-trivial = >= 2 threads and >= 20 steps; distinct = (programs, faults, schedule)",
    "trusted_base": ['Lean 4 kernel; axioms of each theorem as listed under coverage.theorems (subset of propext, Classical.choice, Quot.sound)', "harness/sched.py: cooperative Lock/Condition/sleep replacing the names in mutex_primitives' namespace (mutual exclusion; wait atomically enqueues and releases; notify wakes only current waiters, FIFO; untimed wait has no spurious wake-up; a timed wait may return at any time); CPython's real primitives are assumed to behave like that", "harness/runner_corr.py + Driver/Runner.lean (translation of scheduling decisions into model actions, comparison of all shared fields and of every thread's pending synchronisation operation after every step)", 'the wrapped primitive returns or raises (it does not block forever)'],
    "assumptions": ["fair scheduling for liveness", "the wrapped primitive returns or raises"],
}


def run(ctx):
    import wrapper_corr

    # the wrapper level first (seconds): once the trace conformance is broken, the runner cluster spends the remaining budget on its searches
    wrapper_corr.run_wrapper_level(ctx, "C06")
    runner_corr.run_cluster(ctx, "C06")


def replay(ctx, case):
    inp = case.get("case", case).get("input", case.get("input")) or {}
    if "wrapper_level" in inp:
        import wrapper_corr

        return wrapper_corr.replay_wrapper_level(ctx, "C06", inp["wrapper_level"])
    runner_corr.replay_case(ctx, "C06", case)
