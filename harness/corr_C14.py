"""C14 — expectation / CVaR aggregation vs Model/Cvar.lean and an exact Fraction oracle."""
from __future__ import annotations

from fractions import Fraction as F

from qiskit.quantum_info import SparsePauliOp
from qiskit.result import QuasiDistribution

from common import rat_str
from queasars.circuit_evaluation.bitstring_evaluation import BitstringEvaluator
from queasars.circuit_evaluation.expectation_calculation import (
    get_expectation_with_bitstring_evaluator,
    get_expectation_with_operator,
)

META = {
    "lean_modules": ["QVerif.Props.C14"],
    "drivers": ["Cvar"],
    "theorems": [
        "QVerif.Cvar.cvar_is_min",
        "QVerif.Cvar.cvar_order_irrelevant",
        "QVerif.Cvar.cvar_one",
        "QVerif.Cvar.cvar_mono",
        "QVerif.Cvar.cvar_ge_min",
        "QVerif.Cvar.cvar_le_expectation",
        "QVerif.Cvar.loop_close_to_greedy",
        "QVerif.Cvar.tolerance_bound",
        "QVerif.Cvar.operator_eq_bitstring",
        "QVerif.Cvar.alpha_range",
        "QVerif.Cvar.greedy_lipschitz",
        "QVerif.Cvar.operator_alpha_one",
        "QVerif.Cvar.bitstring_alpha_one",
        "QVerif.Cvar.near_one_operator",
        "QVerif.Cvar.near_one_bitstring",
        "QVerif.Cvar.greedy_le_fill",
    ],
    "level": "proof",
    "level_text": "Proof: cvar_is_min (the exact aggregate is the minimum of sum q_i v_i over all ways of picking mass alpha — the definition — for every "
    "distribution, alpha, dict order and tie order), cvar_one (= plain expectation), cvar_mono, cvar_ge_min, cvar_le_expectation, operator_eq_bitstring, "
    "and tolerance_bound: the code's loop with its isclose early exit stays within (1e-8 + 1e-5 alpha) max|v| / alpha of the exact value (alpha not "
    "isclose to 1). For the isclose(alpha, 1) branch: alpha = 1 returns the plain expectation exactly on the operator path (operator_alpha_one) and within (1e-8 + 1e-5) max|v| "
    "on the bitstring path, whose loop runs in dictionary order (bitstring_alpha_one); for alpha within 1e-5 of 1 the operator path returns the plain expectation, "
    "which differs from the exact value by at most 2 (1 - alpha) max|v| (near_one_operator, via greedy_lipschitz). On the bitstring path for alpha strictly "
    "between 1 - 1e-5 and 1 the loop fills mass alpha in dictionary order WITHOUT sorting; the result is still within ((1e-8 + 1e-5 alpha) + 2 (1 - alpha)) max|v| / alpha "
    "of the exact value whatever the order (near_one_bitstring) - so all four branches of the two public functions have a theorem. Exact rational model tied to the float implementation by a "
    "differential correspondence.",
    "level_note": "Trusted: Lean kernel + standard axioms; Model/Cvar.lean hand-written, tied by sampled correspondence (1e-9 relative float tolerance); "
    "numpy.isclose = |a-b| <= 1e-8 + 1e-5|b|; Qiskit's QuasiDistribution / binary_probabilities / sampled_expectation_value / _evaluate_sparsepauli "
    "as documented.",
    "rule": "cases = shot-count distributions on 1-5 bits (shots in {1,2,3,7,10,64,100,1000,1024,10^6}; single outcome; ties) x diagonal SparsePauliOp with "
    "dyadic coefficients and the matching bitstring function x alpha in {1, 1/2, 1/4, k/shots, k/shots + delta (delta 1e-9..1e-5), 0.99999, 1-1e-6, "
    "random, invalid}; both public functions compared with the model (1e-9 relative) and with the exact Fraction CVaR within the documented 1e-5 "
    "resolution; monotonicity, bounds and operator-vs-function agreement checked on the implementation's outputs. non-trivial = >= 2 outcomes with "
    "distinct values and alpha < 1; distinct = (counts, values, alpha)",
    "trusted_base": [
        "Lean 4 kernel; axioms per theorem under coverage.theorems",
        "harness/corr_C14.py + Driver/Cvar.lean",
        "numpy.isclose default tolerances; Qiskit distribution containers",
    ],
    "assumptions": ["probabilities are count/shots, non-negative, summing to 1"],
}


def diag_value(terms, bits):
    """terms = [(set of qubit positions with Z, coeff Fraction)], bits = bitstring (qubit q = bits[-(q+1)])"""
    n = len(bits)
    tot = F(0)
    for zs, c in terms:
        sign = 1
        for q in zs:
            if bits[n - 1 - q] == "1":
                sign = -sign
        tot += sign * c
    return tot


def gen_case(rng):
    wide = rng.random() < 0.08  # registers beyond 32 / 63 / 64 qubits (the JSSP Hamiltonians have 100 and more): fixed-width integer arithmetic would show
    n = rng.choice([33, 40, 63, 64, 65, 66, 70, 100]) if wide else rng.randint(1, 5)
    shots = rng.choice([1, 2, 3, 7, 10, 64, 100, 1000, 1024, 10**6])
    k = rng.randint(1, min(2**n, shots, 8))
    states = rng.sample(range(2**n), k) if not wide else list({rng.getrandbits(n) for _ in range(k)})
    k = len(states)
    # random partition of shots into k positive counts
    if k == 1:
        counts = [shots]
    else:
        cuts = sorted(rng.sample(range(1, shots), k - 1)) if shots - 1 >= k - 1 else list(range(1, k))
        counts = [b - a for a, b in zip([0] + cuts, cuts + [shots])]
    nterms = rng.randint(1, 4)
    terms = []
    for _ in range(nterms):
        zs = frozenset(q for q in range(n) if rng.random() < 0.5) if not wide else frozenset(rng.sample(range(n), rng.randint(1, 4)) + [n - 1 - rng.randrange(3)])
        terms.append((zs, F(rng.randint(-16, 16), rng.choice([1, 2, 4, 8]))))
    if rng.random() < 0.15:
        terms = [(frozenset(), F(rng.randint(-3, 3)))]  # constant objective: all ties
    mode = rng.randrange(10)
    if mode == 0:
        alpha = 1.0
    elif mode == 1:
        alpha = rng.choice([0.5, 0.25, 0.125, 0.75])
    elif mode == 2:
        alpha = rng.randint(1, shots) / shots
    elif mode == 3:
        base = sum(sorted(counts)[: rng.randint(1, k)]) / shots
        alpha = min(1.0, base + rng.choice([1e-9, 1e-7, 2e-6, 5e-6, 9e-6, 1e-5]))
    elif mode == 4:
        alpha = rng.choice([0.99999, 1 - 1e-6, 1 - 1e-4, 1 - 2e-5, 0.999])
    elif mode == 5:
        alpha = rng.choice([1e-5, 5e-5, 1e-3, 1 / shots, 2 / shots if shots > 1 else 1.0])
    elif mode == 6:
        alpha = rng.choice([0.0, -0.1, 1.5, 1.0000001])
    else:
        alpha = rng.uniform(0.01, 1.0)
    return n, shots, states, counts, terms, alpha


def build(n, shots, states, counts, terms):
    data = {format(s, f"0{n}b"): c / shots for s, c in zip(states, counts)}
    qd = QuasiDistribution(data=data, shots=shots)
    labels, coeffs = [], []
    for zs, c in terms:
        labels.append("".join("Z" if (n - 1 - i) in zs else "I" for i in range(n)))
        coeffs.append(float(c))
    op = SparsePauliOp(labels, coeffs)
    vals = {format(s, f"0{n}b"): diag_value(terms, format(s, f"0{n}b")) for s in (range(2**n) if n <= 12 else states)}
    be = BitstringEvaluator(n, lambda b: float(vals[b]))
    return qd, op, be, vals


def exact_cvar(pairs, alpha):
    """pairs = [(prob Fraction, value Fraction)]; mean over the lowest alpha mass"""
    rem, tot = alpha, F(0)
    for p, v in sorted(pairs, key=lambda x: x[1]):
        q = min(rem, p)
        tot += q * v
        rem -= q
        if rem <= 0:
            break
    return tot / alpha


def call(fn, *a, **k):
    try:
        return {"ok": float(fn(*a, **k))}
    except ValueError:
        return {"err": "alphaOutOfRange"}
    except Exception as e:  # noqa: BLE001
        return {"exc": type(e).__name__ + ": " + str(e)[:80]}


def close(a, b, scale):
    return abs(a - b) <= 1e-9 * (1.0 + scale)


def check_case(ctx, n, shots, states, counts, terms, alpha, tag):
    qd, op, be, vals = build(n, shots, states, counts, terms)
    keys = list(qd.binary_probabilities().keys())
    pairs = [(F(c, shots), vals[format(s, f"0{n}b")]) for s, c in zip(states, counts)]
    order_ok = keys == [format(s, f"0{n}b") for s in states]
    fa = F(alpha)
    inp = {"n": n, "shots": shots, "states": states, "counts": counts,
           "terms": [[sorted(zs), rat_str(c)] for zs, c in terms], "alpha": rat_str(fa)}
    impl_op = call(get_expectation_with_operator, qd, op, alpha)
    impl_bits = call(get_expectation_with_bitstring_evaluator, qd, be, alpha)
    M = float(max(abs(v) for _, v in pairs))
    distinct_vals = len({v for _, v in pairs})
    valid = 0 < fa <= 1
    ctx.case(inp, nontrivial=(len(pairs) >= 2 and distinct_vals >= 2 and fa < 1 and valid),
             tags=[tag, f"shots:{shots}", "alpha:valid" if valid else "alpha:invalid", "near1" if valid and abs(alpha - 1) <= 1e-8 + 1e-5 else "sorted"])
    # ---- oracle: the definition --------------------------------------------------------------
    if not valid:
        for name, r in (("operator", impl_op), ("bitstring", impl_bits)):
            if "err" not in r:
                ctx.violate(f"{name} aggregation accepts alpha outside (0,1]", inp, r, key="C14:alpha-range")
    else:
        ex = float(exact_cvar(pairs, fa))
        bound = 4 * (1e-8 + 1e-5 * alpha) * M / alpha + 1e-9 * (1 + M)
        for name, r in (("operator", impl_op), ("bitstring", impl_bits)):
            if "ok" not in r:
                ctx.violate(f"{name} aggregation raises for a valid input", inp, r, key=f"C14:{name}:raises")
            elif abs(r["ok"] - ex) > bound:
                ctx.violate(f"{name} aggregation differs from the mean over the lowest alpha mass beyond the 1e-5 resolution",
                            inp, {"impl": r["ok"], "definition": ex, "bound": bound}, key=f"C14:{name}:value")
        if "ok" in impl_op and "ok" in impl_bits and abs(impl_op["ok"] - impl_bits["ok"]) > 2 * bound:
            ctx.violate("operator-based and bitstring-function-based aggregation disagree", inp,
                        {"op": impl_op, "bits": impl_bits}, key="C14:op-vs-bits")
        if "ok" in impl_bits:
            lo = float(min(v for _, v in pairs))
            plain = float(sum(p * v for p, v in pairs))
            if impl_bits["ok"] < lo - bound or impl_bits["ok"] > plain + bound:
                ctx.violate("aggregate outside [smallest sampled value, plain expectation]", inp,
                            {"impl": impl_bits["ok"], "min": lo, "expectation": plain}, key="C14:bounds")
    # ---- correspondence with the model ------------------------------------------------------------
    drv = ctx.lean("Cvar")
    if drv is not None and order_ok:
        r = drv.ask({"op": "cvar.eval", "dist": [[rat_str(p), rat_str(v)] for p, v in pairs], "alpha": rat_str(fa)})
        for name, impl, mod in (("op", impl_op, r.get("op")), ("bits", impl_bits, r.get("bits"))):
            if mod is None:
                ctx.disagree("cvar.eval driver", inp, impl, r)
            elif "ok" in mod and "ok" in impl:
                mv = float(F(mod["ok"]))
                if not close(impl["ok"], mv, M / max(alpha, 1e-12) if valid else M):
                    ctx.disagree(f"cvar.{name} value", inp, impl["ok"], mv)
            elif ("err" in mod) != ("err" in impl) or "exc" in impl:
                ctx.disagree(f"cvar.{name} error behaviour", inp, impl, mod)
    elif drv is not None:
        ctx.skip("dict order differs from construction order")
    return impl_bits


def run(ctx):
    rng = ctx.rng
    for _ in range(ctx.n(2500, 50000)):
        if ctx.out_of_time():
            break
        check_case(ctx, *gen_case(rng), "random")
    # monotonicity in alpha on the implementation's outputs
    for _ in range(ctx.n(300, 5000)):
        n, shots, states, counts, terms, _ = gen_case(rng)
        alphas = sorted({rng.uniform(0.02, 1.0) for _ in range(4)} | {1.0})
        prev = None
        for a in alphas:
            r = check_case(ctx, n, shots, states, counts, terms, a, "mono")
            if "ok" in r:
                M = float(max(abs(diag_value(terms, format(s, f"0{n}b"))) for s in states))
                tol = 8 * (1e-8 + 1e-5 * a) * M / a + 1e-9 * (1 + M)
                if prev is not None and r["ok"] < prev - tol:
                    ctx.violate("aggregate decreases when alpha increases", {"n": n, "shots": shots, "states": states, "counts": counts,
                                "terms": [[sorted(zs), rat_str(c)] for zs, c in terms], "alphas": alphas}, {"prev": prev, "now": r["ok"]}, key="C14:mono")
                prev = r["ok"]
    # fixed boundary cases
    check_case(ctx, 2, 4, [0, 1, 3], [2, 1, 1], [(frozenset([0]), F(1)), (frozenset([1]), F(2))], 0.25, "fixed")
    check_case(ctx, 1, 1000, [0, 1], [1, 999], [(frozenset([0]), F(7))], 0.001005, "fixed")
    check_case(ctx, 2, 10**6, [0, 1, 2], [50, 50, 999900], [(frozenset([0]), F(3)), (frozenset([1]), F(5))], 5e-5 + 5e-6, "fixed")


def replay(ctx, case):
    inp = case.get("case", case).get("input", case.get("input"))
    terms = [(frozenset(zs), F(c)) for zs, c in inp["terms"]]
    if "alphas" in inp:
        for a in inp["alphas"]:
            check_case(ctx, inp["n"], inp["shots"], inp["states"], inp["counts"], terms, a, "replay")
    else:
        check_case(ctx, inp["n"], inp["shots"], inp["states"], inp["counts"], terms, float(F(inp["alpha"])), "replay")
