"""Wrapper-level scenarios for the batching / mutex wrappers (C03, C06, C07, C08, C09): the real `BatchingMutexSampler/Estimator`
and `MutexSampler/Estimator` around a recording stub primitive, driven by free-running threads in rounds (a barrier releases the
callers of a round together), with fault plans (a batch fails at submission or at `result()`, with different exception classes)
and zero-pub calls.  The runner-level harness (runner_corr.py) controls the schedule inside `run()`; this one covers the glue
around it: `_run` (slicing, exception propagation), coercion of pubs, the behaviour of later rounds after a fault.

Oracles (from the stub's own records):
  C06  a caller that returns gets exactly the results that answer its own pubs, in order (zero pubs: an empty result); every pub
       reaches the wrapped primitive exactly once.
  C07  the wrapped primitive is never in use by two invocations at the same time.
  C08  every call returns (bounded wait).
  C09  every caller whose pubs were in a failed batch receives that batch's exception, callers of other batches receive results,
       the primitive is invoked once per batch, and later rounds behave normally.
The model side: the slice a caller receives is `Pipeline.Stack.wrap (.batching before after .plain)` (driver op `pipeline.slice`).
"""
from __future__ import annotations

import threading
import time

class TwoArgError(Exception):
    """an exception whose constructor signature differs from its `args` (cannot be rebuilt by copy/pickle-style `type(e)(*e.args)`), like
    qiskit's MissingOptionalLibraryError"""

    def __init__(self, what, where):
        super().__init__(f"{what} {where}")


FAULT_CLASSES = {"RuntimeError": RuntimeError, "ValueError": ValueError, "KeyError": KeyError, "TwoArgError": TwoArgError}


def make_fault(name, no):
    if name == "TwoArgError":
        return TwoArgError("fault in invocation", no)
    return FAULT_CLASSES[name](f"fault in invocation {no}")

# stubs pickle as a reference to themselves (a dask worker thread receives a serialized copy of the WRAPPER; all copies in a process must still
# guard the one wrapped primitive)
_STUBS = {}


def _lookup_stub(key):
    return _STUBS[key]


class StubBackend:
    """the attribute surface of a device backend behind a backend primitive (`BackendSamplerV2.backend` etc.): job size limits and the
    like are legal things for a wrapper to look at, and must not change what the property promises"""

    def __init__(self, max_circuits):
        self.name = "stub_backend"
        self.max_circuits = max_circuits
        self.num_qubits = 1
        self.description = "recording stub"
        self.backend_version = 2


def make_stub(kind, plan, delay, backend=None):
    """kind: 'sampler' | 'estimator'; plan: {invocation number: (where, exception class name)};
    backend: None (a reference primitive without backend) or {"max_circuits": k, "callable": bool}"""
    from qiskit.primitives import BaseEstimatorV2, BaseSamplerV2, PrimitiveResult, PubResult, SamplerPubResult
    from qiskit.primitives.containers import BitArray, DataBin
    from qiskit.primitives.containers.estimator_pub import EstimatorPub
    from qiskit.primitives.containers.sampler_pub import SamplerPub
    import numpy as np

    class Job:
        def __init__(self, stub, no, ids):
            self.stub, self.no, self.ids = stub, no, ids

        def result(self):
            s = self.stub
            try:
                time.sleep(delay)
                f = plan.get(self.no)
                if f and f[0] == "result":
                    s.failed.add(self.no)
                    raise make_fault(f[1], self.no)
                out = []
                for i in self.ids:
                    if kind == "sampler":
                        out.append(SamplerPubResult(DataBin(meas=BitArray.from_counts({"0": 1}, num_bits=1)), metadata={"id": i}))
                    else:
                        out.append(PubResult(DataBin(evs=np.array(float(i)), stds=np.array(0.0), shape=()), metadata={"id": i}))
                return PrimitiveResult(out, metadata={})
            finally:
                with s.lock:
                    s.in_use -= 1

    base = BaseSamplerV2 if kind == "sampler" else BaseEstimatorV2

    class Stub(base):
        def __init__(self):
            self.lock = threading.Lock()
            self.invocations = []  # id lists, in invocation order
            self.failed = set()
            self.in_use = 0       # from run() until the job's result() has returned or raised
            self.max_in_use = 0
            self.in_run = 0       # inside run() only (what a plain mutex wrapper serialises)
            self.max_in_run = 0
            _STUBS[id(self)] = self
            if backend is not None:
                b = StubBackend(backend.get("max_circuits"))
                self.backend = (lambda: b) if backend.get("callable") else b
            self.default_shots = 1024
            self.default_precision = 0.0
            self.options = {}

        def __reduce__(self):
            return (_lookup_stub, (id(self),))

        def run(self, pubs, **kw):
            pubs = list(pubs)
            ids = []
            for p in pubs:
                c = p.circuit if hasattr(p, "circuit") else p[0]
                ids.append(int(c.name[2:]))
            with self.lock:
                no = len(self.invocations)
                self.invocations.append(ids)
                self.in_use += 1
                self.max_in_use = max(self.max_in_use, self.in_use)
                self.in_run += 1
                self.max_in_run = max(self.max_in_run, self.in_run)
            try:
                time.sleep(delay / 2)
                f = plan.get(no)
                if f and f[0] == "run":
                    with self.lock:
                        self.failed.add(no)
                        self.in_use -= 1
                    raise make_fault(f[1], no)
                return Job(self, no, ids)
            finally:
                with self.lock:
                    self.in_run -= 1

    return Stub()


def make_pub(kind, i):
    from qiskit.circuit import QuantumCircuit
    from qiskit.quantum_info import SparsePauliOp

    qc = QuantumCircuit(1, name=f"id{i}")
    if kind == "sampler":
        qc.measure_all()
        return (qc,)
    return (qc, SparsePauliOp(["Z"], [1.0]))


def gen_scenario(rng):
    kind = rng.choice(["sampler", "estimator"])
    wrapper = rng.choice(["batching", "batching", "batching", "mutex", "mutex-copies"])
    n_rounds = rng.randint(2, 4)
    nid = [0]

    def ids(k):
        out = list(range(nid[0] + 1, nid[0] + 1 + k))
        nid[0] += k
        return out

    rounds = []
    for _ in range(n_rounds):
        callers = []
        for _ in range(rng.randint(1, 4)):
            callers.append(ids(rng.choice([0, 1, 1, 2, 3])))
        rounds.append(callers)
    plan = {}
    if rng.random() < 0.6:
        for _ in range(rng.randint(1, 2)):
            plan[str(rng.randint(0, n_rounds))] = [rng.choice(["run", "result"]), rng.choice(list(FAULT_CLASSES))]
    backend = None
    if rng.random() < 0.4:
        backend = {"max_circuits": rng.choice([1, 2, 2, 3, None]), "callable": rng.random() < 0.3}
    sc = {"kind": kind, "wrapper": wrapper, "rounds": rounds, "plan": plan, "waiting": rng.choice([0.02, 0.02, 0.005, 0.0]), "backend": backend}
    if wrapper == "batching" and rng.random() < 0.3:
        sc["reassign"] = True
    return sc


def execute_twin(sc, delay=0.01, timeout=8.0):
    """two batching wrappers (each around its own stub) used at the same time — the solver holds a BatchingMutexSampler and a BatchingMutexEstimator
    side by side: callers with even index call wrapper A, odd ones wrapper B, all released together.  Returns one (scenario, execution) pair per
    wrapper, in the shape `oracle` expects."""
    from queasars.circuit_evaluation.mutex_primitives import BatchingMutexEstimator, BatchingMutexSampler

    kinds = [sc["kind"], sc["twin"]]
    stubs = [make_stub(k, {}, delay, None) for k in kinds]
    ws = [(BatchingMutexSampler if k == "sampler" else BatchingMutexEstimator)(st, waiting_duration=0.05) for k, st in zip(kinds, stubs)]
    outcomes = []
    for callers in sc["rounds"]:
        res = [None] * len(callers)
        barrier = threading.Barrier(len(callers))

        def call(i, ids):
            try:
                barrier.wait(60)
                r = ws[i % 2].run([make_pub(kinds[i % 2], j) for j in ids]).result()
                res[i] = ["ok", [pr.metadata.get("id") for pr in r]]
            except Exception as e:  # noqa: BLE001
                res[i] = ["exc", type(e).__name__, str(e)[:80]]

        ths = [threading.Thread(target=call, args=(i, ids), daemon=True) for i, ids in enumerate(callers)]
        for t in ths:
            t.start()
        end = time.time() + timeout
        for t in ths:
            t.join(max(0.0, end - time.time()))
        outcomes.append([r if r is not None else ["hang"] for r in res])
        if any(t.is_alive() for t in ths):
            break
    parts = []
    for w in (0, 1):
        sc_w = dict(sc, rounds=[[ids for i, ids in enumerate(callers) if i % 2 == w] for callers in sc["rounds"]], plan={})
        ex_w = {"outcomes": [[o for i, o in enumerate(outs) if i % 2 == w] for outs in outcomes], "invocations": stubs[w].invocations,
                "failed": sorted(stubs[w].failed), "max_in_use": stubs[w].max_in_use}
        parts.append((sc_w, ex_w))
        _STUBS.pop(id(stubs[w]), None)
    return parts


def execute(sc, waiting=None, delay=0.01, timeout=8.0):
    waiting = sc.get("waiting", 0.02) if waiting is None else waiting
    from queasars.circuit_evaluation.mutex_primitives import BatchingMutexEstimator, BatchingMutexSampler, MutexEstimator, MutexSampler

    kind = sc["kind"]
    stub = make_stub(kind, {int(k): tuple(v) for k, v in sc["plan"].items()}, delay, sc.get("backend"))
    if sc["wrapper"] == "batching":
        w = (BatchingMutexSampler if kind == "sampler" else BatchingMutexEstimator)(stub, waiting_duration=waiting)
    else:
        w = (MutexSampler if kind == "sampler" else MutexEstimator)(stub)
    copies = sc["wrapper"] == "mutex-copies"  # every caller works on its own pickle round trip of the wrapper, as a dask worker thread does
    outcomes = []
    for callers in sc["rounds"]:
        res = [None] * len(callers)
        barrier = threading.Barrier(len(callers))

        def call(i, ids):
            try:
                import pickle

                mine = pickle.loads(pickle.dumps(w)) if copies and i % 2 == 1 else w
                barrier.wait(60)
                if sc.get("reassign") and i % 2 == 1:
                    # a live wrapper gets its constructor parameter assigned again (same value) while other callers are inside it
                    mine.waiting_duration = waiting
                r = mine.run([make_pub(kind, j) for j in ids]).result()
                res[i] = ["ok", [pr.metadata.get("id") for pr in r]]
            except Exception as e:  # noqa: BLE001
                res[i] = ["exc", type(e).__name__, str(e)[:80]]

        ths = [threading.Thread(target=call, args=(i, ids), daemon=True) for i, ids in enumerate(callers)]
        for t in ths:
            t.start()
        end = time.time() + timeout
        for t in ths:
            t.join(max(0.0, end - time.time()))
        hung = [i for i, t in enumerate(ths) if t.is_alive()]
        outcomes.append([r if r is not None else ["hang"] for r in res])
        if hung:
            break  # the wrapper is stuck; later rounds would hang as well
    _STUBS.pop(id(stub), None)
    return {"outcomes": outcomes, "invocations": stub.invocations, "failed": sorted(stub.failed),
            "max_in_use": stub.max_in_use if sc["wrapper"] == "batching" else stub.max_in_run}


def oracle(sc, ex):
    """list of (property, what)"""
    out = []
    inv, failed = ex["invocations"], set(ex["failed"])
    seen = {}
    for no, ids in enumerate(inv):
        for i in ids:
            seen.setdefault(i, []).append(no)
    if ex["max_in_use"] > 1:
        out.append(("C07", "the wrapped primitive was in use by two invocations at the same time"))
    all_ids = [i for callers in sc["rounds"][: len(ex["outcomes"])] for ids in callers for i in ids]
    for i in all_ids:
        if len(seen.get(i, [])) > 1:
            out.append(("C06", "a pub reached the wrapped primitive more than once"))
            out.append(("C09", "the wrapped primitive was invoked again for the pubs of a batch"))
            break
    for r, (callers, outs) in enumerate(zip(sc["rounds"], ex["outcomes"])):
        for ids, o in zip(callers, outs):
            if o[0] == "hang":
                out.append(("C08", "a call to the wrapper did not return"))
                continue
            nos = sorted({n for i in ids for n in seen.get(i, [])})
            in_failed = any(n in failed for n in nos)
            if o[0] == "ok":
                if o[1] != ids:
                    out.append(("C06", "a caller received results that do not answer exactly its own pubs"))
                if ids and in_failed:
                    out.append(("C09", "a caller whose pubs were in a failed batch received a result instead of the exception"))
                if ids and not nos:
                    out.append(("C06", "a caller received results although its pubs never reached the wrapped primitive"))
            else:
                if ids and not in_failed:
                    what = "a caller received an exception although the batch with its pubs did not fail"
                    out.append(("C09", what))
                    out.append(("C06", what + " (it did not get the results of its own pubs)"))
                if ids and in_failed and "fault in invocation" not in o[2]:
                    out.append(("C09", "a caller of a failed batch received a different exception than the one the wrapped primitive raised"))
                if not ids and not failed:
                    out.append(("C06", "a call without pubs raised instead of returning an empty result"))
    return out


def run_wrapper_level(ctx, prop, n_quick=25, n_thorough=400):
    rng = ctx.sub_rng("wrapper-level")
    drv = ctx.lean("Pipeline") if prop in ("C03", "C06") else None
    other = {}
    fixed = [
        {"kind": "sampler", "wrapper": "batching", "rounds": [[[]], [[1]], [[], []]], "plan": {}},
        {"kind": "estimator", "wrapper": "batching", "rounds": [[[1, 2], [3]], [[4], [5, 6]], [[7]]], "plan": {"1": ["result", "ValueError"]}},
        {"kind": "estimator", "wrapper": "batching", "rounds": [[[1], [2]], [[3]]], "plan": {"0": ["run", "RuntimeError"]}},
        {"kind": "sampler", "wrapper": "batching", "rounds": [[[1], [2, 3]], [[4]], [[5], [6]]], "plan": {"0": ["result", "KeyError"]}},
        {"kind": "sampler", "wrapper": "mutex-copies", "rounds": [[[1], [2], [3], [4]], [[5], [6], [7]]], "plan": {}},
        {"kind": "estimator", "wrapper": "mutex-copies", "rounds": [[[1], [2], [3], [4]], [[5], [6], [7]]], "plan": {}},
        {"kind": "estimator", "wrapper": "batching", "rounds": [[[1, 2], [3]], [[4]], [[5], [6]]], "plan": {"0": ["result", "TwoArgError"]}},
        {"kind": "sampler", "wrapper": "batching", "rounds": [[[1], [2]], [[3]]], "plan": {}, "waiting": 0.0},
        {"kind": "estimator", "wrapper": "batching", "rounds": [[[1], [2], [3], [4]], [[5], [6], [7]]], "plan": {}, "waiting": 0.02, "reassign": True},
        {"kind": "sampler", "wrapper": "batching", "rounds": [[[1, 2], [3], [4], [5]], [[6], [7]]], "plan": {}, "waiting": 0.02, "reassign": True},
        # a backend primitive with a job size limit below the batch size (one caller with three pubs; three callers)
        {"kind": "sampler", "wrapper": "batching", "rounds": [[[1, 2, 3]], [[4], [5, 6], [7]]], "plan": {}, "backend": {"max_circuits": 1, "callable": False}},
        {"kind": "estimator", "wrapper": "batching", "rounds": [[[1, 2, 3]], [[4], [5, 6], [7]]], "plan": {}, "backend": {"max_circuits": 2, "callable": True}},
    ]
    scenarios = fixed + [gen_scenario(rng) for _ in range(ctx.n(n_quick, n_thorough))]
    # two batching wrappers in use at the same time (sampler + estimator, or two of a kind)
    twins = [{"kind": "sampler", "twin": "estimator", "wrapper": "batching", "rounds": [[[1], [2], [3, 4], [5]], [[6, 7], [8]]], "plan": {}},
             {"kind": "estimator", "twin": "estimator", "wrapper": "batching", "rounds": [[[1, 2], [3], [4], [5, 6]], [[7], [8], [9]]], "plan": {}}]
    for sc in twins[: ctx.n(2, 2)] * ctx.n(1, 6):
        if ctx.out_of_time() or len(ctx.violations) >= 5:
            break
        ctx.case({"wrapper_level": sc}, nontrivial=True, tags=["wrapper-level", "wrapper:two-batching-wrappers-at-once"])
        for sc_w, ex_w in execute_twin(sc):
            for p, what in oracle(sc_w, ex_w):
                if p == prop or (prop == "C03" and p == "C06"):
                    ctx.violate(what + " [two batching wrappers used at the same time]", {"wrapper_level": sc}, ex_w, key=f"{prop}:twin:{what[:50]}")
                else:
                    other[p] = other.get(p, 0) + 1
    for sc in scenarios:
        if ctx.out_of_time() or len(ctx.violations) >= 5:
            break
        ex = execute(sc)
        nontrivial = sum(len(c) for c in sc["rounds"]) >= 3
        ctx.case({"wrapper_level": sc}, nontrivial=nontrivial, tags=["wrapper-level", "wrapper:" + sc["wrapper"], "faults" if sc["plan"] else "nofaults",
                                                                      "zero-pub-call" if any(not ids for c in sc["rounds"] for ids in c) else "all-nonempty",
                                                                      "backend-primitive" if sc.get("backend") else "reference-primitive"] + (["parameter-reassigned-while-in-use"] if sc.get("reassign") else []))
        for p, what in oracle(sc, ex):
            if p == prop or (prop == "C03" and p == "C06"):
                ctx.violate(what + " [wrapper level]", {"wrapper_level": sc}, ex, key=f"{prop}:wrapper:{what[:50]}")
            else:
                other[p] = other.get(p, 0) + 1
        if drv is not None and sc["wrapper"] == "batching":
            # the slice each returning caller received vs the model's batching wrapper
            for callers, outs in zip(sc["rounds"], ex["outcomes"]):
                for ids, o in zip(callers, outs):
                    if not ids or o[0] != "ok":
                        continue
                    batch = next((b for b in ex["invocations"] if ids[0] in b), None)
                    if batch is None:
                        continue
                    s = batch.index(ids[0])
                    m = drv.ask({"op": "pipeline.slice", "before": batch[:s], "mine": ids, "after": batch[s + len(ids):]})
                    ctx.compare("pipeline.slice (wrapper level)", {"wrapper_level": sc}, o[1], m.get("slice"))
    if other:
        ctx.notes.append(f"wrapper-level oracle violations of sibling properties seen in this run (reported by their own checks): {other}")


def replay_wrapper_level(ctx, prop, sc):
    if sc.get("twin"):
        for sc_w, ex_w in execute_twin(sc):
            for p, what in oracle(sc_w, ex_w):
                if p == prop or (prop == "C03" and p == "C06"):
                    ctx.violate(what + " [two batching wrappers used at the same time]", {"wrapper_level": sc}, ex_w, key=f"{prop}:twin:{what[:50]}")
        ctx.case({"wrapper_level": sc}, tags=["replay"])
        return
    ex = execute(sc)
    for p, what in oracle(sc, ex):
        if p == prop or (prop == "C03" and p == "C06"):
            ctx.violate(what + " [wrapper level]", {"wrapper_level": sc}, ex, key=f"{prop}:wrapper:{what[:50]}")
    ctx.case({"wrapper_level": sc}, tags=["replay"])
