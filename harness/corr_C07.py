"""C07 — batching runner cluster (shared harness: runner_corr.py, sched.py)."""
import runner_corr

META = {
    "lean_modules": ["QVerif.Props.C07"],
    "drivers": ["Runner", "Install"],
    "theorems": ["QVerif.Install.shared_guard", 'Runner.C07_f_exclusive', 'MutexModel.mutex_run_exclusive', 'Runner.cinv_reachable', 'Runner.step_sound'],
    "level": "proof",
    "level_text": 'Proof: f_exclusive (at most one thread between the start of f(batch) and the return of its result(), and it owns both locks) from the inductive invariant CInv, for any number of threads/calls/interleavings; mutex_run_exclusive for the plain `with lock:` wrappers; shared_guard for the constructor of the solver (Model/Install.lean): the guard installed by the first solver constructed on a configured primitive lies on the evaluation path of every solver constructed on it afterwards, with a transpiling wrapper outermost. Tied to the code by lock-step trace conformance and an overlap counter inside the fake primitive.',
    "level_note": "Trusted: Lean kernel + propext/Classical.choice/Quot.sound; the hand-written transition system Model/Runner.lean is tied to "
    "mutex_primitives.py by the sampled lock-step conformance only; semantics of threading.Lock/Condition as modelled by the cooperative "
    "primitives; scheduler fairness for liveness; the wrapped primitive returns or raises.",
    "rule": "cases = controlled executions of the real BatchingMutexPrimitiveJobRunner.run: 1-5 threads x 1-3 calls x 0-3 pubs, fault plans "
    "(none / first / random / consecutive batches fail, raised by result() or at submission), schedules from seeded random walk, lazy/eager "
    "timeout firing, PCT priorities, sticky (few pre-emptions) and exhaustive bounded-pre-emption DFS on small configurations; after EVERY step "
    "lock owners, both waiter lists, all counters, batch, result/exception and each thread's pending synchronisation operation are compared with "
    "the Lean model; returned values and the log of f calls are compared at the end; the oracles (own slice, each pub once, overlap counter, "
    "no hang, exception delivery, reset) run on the implementation alone; solver level: real EVQE solvers (thread pool, mutually exclusive primitives) on an "
    "estimator that counts invocations in progress — one solver, a second solver constructed on the SAME configured estimator while the first computes, one solver solving twice — "
    "and the wrapper chain the constructor installs. non-trivial = >= 2 threads and >= 20 steps; distinct = (programs, faults, schedule)",
    "trusted_base": ['Lean 4 kernel; axioms of each theorem as listed under coverage.theorems (subset of propext, Classical.choice, Quot.sound)', "harness/sched.py: cooperative Lock/Condition/sleep replacing the names in mutex_primitives' namespace (mutual exclusion; wait atomically enqueues and releases; notify wakes only current waiters, FIFO; untimed wait has no spurious wake-up; a timed wait may return at any time); CPython's real primitives are assumed to behave like that", "harness/runner_corr.py + Driver/Runner.lean (translation of scheduling decisions into model actions, comparison of all shared fields and of every thread's pending synchronisation operation after every step)", 'the wrapped primitive returns or raises (it does not block forever)'],
    "assumptions": ["fair scheduling for liveness", "the wrapped primitive returns or raises"],
}


def run(ctx):
    import wrapper_corr

    # the wrapper level first (seconds): once the trace conformance is broken, the runner cluster spends the remaining budget on its searches
    wrapper_corr.run_wrapper_level(ctx, "C07")
    runner_corr.run_cluster(ctx, "C07")
    import solver_wrappers_corr

    solver_wrappers_corr.run_solver_level(ctx, "C07")


def replay(ctx, case):
    inp = case.get("case", case).get("input", case.get("input")) or {}
    if "wrapper_level" in inp:
        import wrapper_corr

        return wrapper_corr.replay_wrapper_level(ctx, "C07", inp["wrapper_level"])
    if "solver_level" in inp:
        import random

        import solver_wrappers_corr

        if inp["solver_level"] == "wrapper-table":
            return solver_wrappers_corr.wrapper_table_case(ctx, "C07")
        return solver_wrappers_corr.shared_primitive_case(ctx, "C07", random.Random(inp.get("seed", 0)), inp["solver_level"])
    runner_corr.replay_case(ctx, "C07", case)
