"""C15 — the JSSP encoding is total, complete and injective (shared harness: encoder_corr.py)."""
import encoder_corr

META = {
    "lean_modules": ["QVerif.Props.C15"],
    "drivers": ["Encoder"],
    "theorems": [
        "QVerif.Encoder.hamiltonian_on_n_qubits",
        "QVerif.Encoder.energyPolyOf_supp",
        "QVerif.Encoder.prepare_ok_iff",
        "QVerif.Encoder.nqubits_formula",
        "QVerif.Encoder.hamiltonian_ok",
        "QVerif.Encoder.translate_total",
        "QVerif.Encoder.decoded_within_bounds",
        "QVerif.Encoder.decode_injective",
        "QVerif.Encoder.decode_complete_vars",
        "QVerif.Encoder.feasible_in_window",
        "QVerif.Encoder.decodeWindow_eq_some_iff",
    ],
    "level": "proof",
    "level_text": "Proof (model Model/Encoder.lean): a limit is accepted iff no job is longer than it, else the documented error (prepare_ok_iff); qubit "
    "count formula (nqubits_formula); a Hamiltonian exists exactly when the limit suffices and >= 1 qubit is needed (hamiltonian_ok), and then the operator the encoder "
    "builds (Model/EncoderPoly.lean: sums and products of I/Z strings, mirrored construction by construction) mentions only qubits below n_qubits and evaluates to the "
    "energy on every basis state (hamiltonian_on_n_qubits, energyPolyOf_supp); every bitstring "
    "decodes (translate_total) to start times between the summed duration of the predecessors and limit - own - successors' durations "
    "(decoded_within_bounds); two full-length bitstrings decoding every variable to the same values are equal (decode_injective); every choice of one value "
    "per variable is decoded from some bitstring (decode_complete_vars) and every precedence-respecting schedule ending by the limit has all start times "
    "inside the variables' ranges (feasible_in_window) - together: every feasible schedule within the limit is the decoding of some bitstring. Tied to the "
    "code by a differential correspondence (variables, all 2^n decodings and energies for small n).",
    "level_note": "Trusted: Lean kernel + standard axioms; hand-written model tied by sampled correspondence; Qiskit's SparsePauliOp arithmetic on I/Z strings; "
    "pauli_identity_string(0) raises. decodeWindow is a structural restatement of value_from_bitlist (first zero, then no ones).",
    "rule": "cases = instances (1-4 jobs, 1-4 machines, 1-3 operations per job on distinct machines, durations 1-3; shapes: only single-operation jobs, "
    "single job, one machine, no shared machine) x limits (longest job + 0..3, and one below the longest job) x penalty configurations of the documented "
    "regime incl. boundary and defaults; compared with the model: qubit count, every variable (first qubit, smallest value, number of values), the error "
    "for short limits, and for n <= 11 (13 thorough) ALL 2^n energies and decodings; oracle on the implementation: all clauses of C15/C01/C02 on the "
    "real diagonal, feasible schedules enumerated independently. non-trivial = >= 2 jobs and >= 2 qubits; distinct = (instance, limit, penalties)",
    "trusted_base": ["Lean 4 kernel; axioms per theorem under coverage.theorems", "harness/corr_C15.py, encoder_corr.py, Driver/Encoder.lean",
                     "Qiskit SparsePauliOp arithmetic on I/Z strings is pointwise on the computational-basis diagonal"],
    "assumptions": ["instances accepted by the constructors (positive durations)"],
}


def run(ctx):
    encoder_corr.run_cluster(ctx, "C15")


def replay(ctx, case):
    encoder_corr.replay_case(ctx, "C15", case)
