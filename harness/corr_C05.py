"""C05 — the solver result is consistent with its own evaluation history (shared harness: solver_corr.py)."""
import solver_corr

META = {
    "lean_modules": ["QVerif.Props.C05", "QVerif.Props.C10"],
    "drivers": ["Solver"],
    "theorems": [
        "QVerif.Solver.result_consistent",
        "QVerif.Solver.best_is_first_min",
        "QVerif.Solver.ledger_length_events",
        "QVerif.Solver.runLoop_spec",
        "QVerif.Evqe.selection_spec",
    ],
    "level": "proof",
    "level_text": "Proof over the state-machine model of _solve_by_evolution with arbitrary scripted operator behaviour: the returned (best individual, eigenvalue) is the "
    "first history entry attaining the minimum best-expectation value, the measured individual (eigenstate, auxiliary values) is that same individual, generations = "
    "number of recorded evaluations, the ledger has at most generations+1 entries, exactly one per generation plus a trailing one iff work was reported after the last "
    "evaluation when every result is preceded by a count (ledger_length_events), and sums to everything reported (result_consistent). Per-evaluation index alignment and "
    "best = minimum is selection_spec (C10). Tied to the code by (a) the real _solve_by_evolution driven by scripted operators with exact fake primitives: every result "
    "field compared with the model and recomputed by the oracle, including the eigenstate (exact distribution of the best circuit behind the initial state) and auxiliary "
    "values; (b) end-to-end EVQE solves with exact primitives where every recorded evaluation is recomputed independently.",
    "level_note": "Trusted: Lean kernel + standard axioms; the callback bodies and the loop flattening are hand-modelled and validated by correspondence. Partial in one "
    "respect: 'eigenstate is the measurement distribution of the best circuit' and 'aux values are that individual's objectives' are modelled only as WHICH individual is "
    "measured (Result.measured = bestIndividual); the quantum evaluation itself (Qiskit primitives, floating point) is outside the model and is covered by the oracle on "
    "exact fake primitives.",
    "rule": "cases = as C12 (random scripts and limits) with random initial-state circuit (none / X / X+H), auxiliary evaluators none / list / dict, pools of 1-4 distinct "
    "individuals, values from a 6-element set so that ties and a best value of exactly 0 occur; plus end-to-end EVQE solves (2-3 qubits, 2-4 individuals, 1-3 generations) "
    "with exact estimator/sampler where each recorded evaluation's expectation values are recomputed with Statevector. non-trivial = at least two operators started; "
    "distinct = (configuration, script)",
    "trusted_base": ["Lean 4 kernel; axioms per theorem under coverage.theorems", "harness/corr_C05.py, solver_corr.py, fakes.py, Driver/Solver.lean"],
    "assumptions": ["operators report through the two callbacks only", "floating-point comparison of best values in the code agrees with the rational order on the values used"],
}


def run(ctx):
    import warnings
    warnings.filterwarnings("ignore")
    solver_corr.run_cluster(ctx, "C05")
    solver_corr.run_end_to_end(ctx, "C05")


def replay(ctx, case):
    solver_corr.replay_case(ctx, "C05", case)
