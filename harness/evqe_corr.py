"""Shared harness for the EVQE operator cluster (C10, C11): fakes, recording RNG, operator sequences, model requests,
oracles (population invariants; no-mutation snapshots)."""
from __future__ import annotations

import random as pyrandom
import threading
import time
from concurrent.futures import ThreadPoolExecutor
from fractions import Fraction as F

import numpy as np
from qiskit_algorithms.optimizers import Optimizer, OptimizerResult, OptimizerSupportLevel

import genome_corr as G
from common import rat_str
from queasars.circuit_evaluation.circuit_evaluation import BaseCircuitEvaluator
from queasars.minimum_eigensolvers.base.evolutionary_algorithm import OperatorContext
from queasars.minimum_eigensolvers.evqe.evolutionary_algorithm import individual as ind_mod
from queasars.minimum_eigensolvers.evqe.evolutionary_algorithm import mutation as mut_mod
from queasars.minimum_eigensolvers.evqe.evolutionary_algorithm import selection as sel_mod
from queasars.minimum_eigensolvers.evqe.evolutionary_algorithm import speciation as spec_mod
from queasars.minimum_eigensolvers.evqe.evolutionary_algorithm.individual import EVQEIndividual
from queasars.minimum_eigensolvers.evqe.evolutionary_algorithm.mutation import (
    EVQELastLayerParameterSearch,
    EVQELayerRemoval,
    EVQEParameterSearch,
    EVQETopologicalSearch,
)
from queasars.minimum_eigensolvers.evqe.evolutionary_algorithm.population import EVQEPopulation
from queasars.minimum_eigensolvers.evqe.evolutionary_algorithm.selection import EVQESelection, EVQESelectionException
from queasars.minimum_eigensolvers.evqe.evolutionary_algorithm.speciation import EVQESpeciation
from queasars.minimum_eigensolvers.evqe.quantum_circuit import circuit_layer as layer_mod

DELTA = 0.25
COST = 3


def value_of(params) -> float:
    """the fake evaluator's objective: a dyadic function of the parameter values only"""
    s = sum(int(round(float(p) * 8)) * (i % 5 + 1) for i, p in enumerate(params))
    return ((s * 7 + len(params)) % 97) / 8.0 - 5.0


def special_value(v, mode):
    """an evaluator that misbehaves numerically for some individuals (NaN / infinite objective values): what the operators compute from such
    values is not specified, but they still must not touch their input or anything recorded earlier (C11)"""
    k = int(v * 8) % 3
    if mode == "nan":
        return float("nan") if k == 0 else v
    if mode == "inf":
        return float("inf") if k == 0 else (float("-inf") if k == 1 and int(v * 8) % 2 == 0 else v)
    return float("nan") if k == 0 else (float("inf") if k == 1 else v)


class FakeEvaluator(BaseCircuitEvaluator):
    def __init__(self, n_qubits, delays=None, special=None):
        self._n = n_qubits
        self.delays = delays
        self.special = special
        self.calls = 0
        self.lock = threading.Lock()

    def evaluate_circuits(self, circuits, parameter_values):
        with self.lock:
            self.calls += len(circuits)
            k = self.calls
        if self.delays:
            time.sleep(self.delays[k % len(self.delays)])
        if self.special:
            return [special_value(value_of(p), self.special) for p in parameter_values]
        return [value_of(p) for p in parameter_values]

    @property
    def n_qubits(self):
        return self._n


class FakeOptimizer(Optimizer):
    """x* = x0 + DELTA, COST evaluations"""

    def __init__(self):
        super().__init__()

    def get_support_level(self):
        return {"gradient": OptimizerSupportLevel.ignored, "bounds": OptimizerSupportLevel.ignored,
                "initial_point": OptimizerSupportLevel.required}

    def minimize(self, fun, x0, jac=None, bounds=None):
        x0 = np.asarray(x0, dtype=float)
        for _ in range(COST):
            fun(x0)
        r = OptimizerResult()
        r.x = x0 + DELTA
        r.fun = 0.0
        r.nfev = COST
        return r


class Recorder:
    """recording subclass of random.Random patched into all EVQE modules; one log per generator instance"""

    def __init__(self):
        self.instances = []
        self.lock = threading.Lock()
        rec = self

        class RecRandom(pyrandom.Random):
            def __init__(s, seed=None):
                super().__init__(seed)
                s.log = []
                s.seed0 = seed
                with rec.lock:
                    rec.instances.append(s)

            def getrandbits(s, k):
                # defining getrandbits keeps random.Random on its standard `_randbelow_with_getrandbits` path although
                # `random()` is overridden below, so the recorded streams are exactly the production streams
                return super().getrandbits(k)

            def choice(s, seq):
                r = super().choice(seq)
                s.log.append(("choice", r))
                return r

            def sample(s, population, k, **kw):
                r = super().sample(population, k, **kw)
                s.log.append(("sample", list(r)))
                return r

            def choices(s, population, weights=None, *, cum_weights=None, k=1):
                n0 = len(s.log)
                r = super().choices(population, weights, cum_weights=cum_weights, k=k)
                del s.log[n0:]  # choices() draws through self.random(): not separate draws of the library code
                s.log.append(("choices", list(r)))
                return r

            def random(s):
                r = super().random()
                s.log.append(("random", r))
                return r

            def randrange(s, *a, **kw):
                r = super().randrange(*a, **kw)
                s.log.append(("randrange", r))
                return r

            def randint(s, a, b):
                r = super().randint(a, b)
                if s.log and s.log[-1][0] == "randrange":
                    s.log.pop()  # randint is implemented through randrange
                s.log.append(("randint", r))
                return r

        self.cls = RecRandom
        self.mods = [spec_mod, sel_mod, mut_mod, ind_mod, layer_mod]

    def __enter__(self):
        self.saved = [m.Random for m in self.mods]
        for m in self.mods:
            m.Random = self.cls
        return self

    def __exit__(self, *a):
        for m, s in zip(self.mods, self.saved):
            m.Random = s

    def by_seed(self, seed, start=0):
        for inst in self.instances[start:]:
            if inst.seed0 == seed:
                return inst
        return None


# ---- JSON forms -----------------------------------------------------------------------------------------


def pop_json(pop, tk):
    ij = lambda x: G.indiv_json(x, tk)  # noqa: E731
    return {
        "inds": [ij(x) for x in pop.individuals],
        "reps": None if pop.species_representatives is None else [ij(x) for x in pop.species_representatives],
        "members": None if pop.species_members is None else [[ij(k), list(v)] for k, v in pop.species_members.items()],
        "membership": None if pop.species_membership is None else [[k, ij(v)] for k, v in pop.species_membership.items()],
    }


def pop_struct(pop):
    """deep structural snapshot (independent of object identity and of __eq__)"""
    st = G.indiv_struct
    return (
        tuple(st(x) for x in pop.individuals),
        None if pop.species_representatives is None else tuple(st(x) for x in pop.species_representatives),
        None if pop.species_members is None else tuple((st(k), tuple(v)) for k, v in pop.species_members.items()),
        None if pop.species_membership is None else tuple((k, st(v)) for k, v in pop.species_membership.items()),
    )


def result_struct(res):
    # floats by repr: NaN must compare equal to itself in a snapshot
    return (pop_struct(res.population), tuple(repr(float(v)) for v in res.expectation_values), G.indiv_struct(res.best_individual),
            repr(float(res.best_expectation_value)))


# ---- operators ----------------------------------------------------------------------------------------------


def make_operator(kind, rng):
    seed = rng.randrange(2**31)
    if kind == "speciation":
        return EVQESpeciation(rng.choice([0, 1, 1, 2, 2, 3]), seed), {"kind": kind}
    if kind == "selection-roulette":
        return EVQESelection(0.5, 0.25, False, None, seed), {"kind": kind}
    if kind == "selection-tournament":
        return EVQESelection(0.5, 0.25, True, rng.choice([1, 2, 3]), seed), {"kind": kind}
    prob = rng.choice([0.0, 0.3, 0.6, 1.0])
    if kind == "last-layer":
        return EVQELastLayerParameterSearch(prob, FakeOptimizer(), COST, seed), {"kind": kind, "prob": prob}
    if kind == "param-search":
        return EVQEParameterSearch(prob, FakeOptimizer(), COST, seed), {"kind": kind, "prob": prob}
    if kind == "topological":
        return EVQETopologicalSearch(prob, seed), {"kind": kind, "prob": prob}
    if kind == "removal":
        return EVQELayerRemoval(prob, seed), {"kind": kind, "prob": prob}
    raise ValueError(kind)


KINDS = ["speciation", "selection-roulette", "selection-tournament", "last-layer", "param-search", "topological", "removal"]


def gen_sequence(rng):
    n = rng.randint(1, 10)
    seq = []
    speciated = False
    for _ in range(n):
        k = rng.choice(KINDS)
        if k.startswith("selection") and not speciated and rng.random() < 0.85:
            seq.append("speciation")
        seq.append(k)
        speciated = k == "speciation"
    return seq


def gen_population(rng, force_colliding=False):
    m = rng.randrange(6)
    n = rng.choice([1, 1, 2, 2, 3])
    size = rng.randint(2, 7)
    if m <= 3 and not force_colliding:
        return EVQEPopulation.random_population(n, rng.randint(1, 3), size, True, rng.randrange(2**31))
    inds = []
    for _ in range(size):
        if rng.random() < 0.5:
            inds.append(EVQEIndividual.random_individual(n, rng.randint(1, 4), rng.random() < 0.7, rng.randrange(2**31)))
        else:
            layers = tuple(G.handmade_layer(rng, n) for _ in range(rng.randint(1, 3)))
            inds.append(EVQEIndividual(n, layers, tuple(rng.randint(-8, 8) / 4 for _ in range(sum(l.n_parameters for l in layers)))))
    if m == 5:
        inds = inds + [inds[0], inds[-1]]  # duplicates
    if force_colliding or rng.random() < 0.25:
        # a hash-equal but different pair (hash(-1.0) == hash(-2.0); EVQEIndividual.__eq__ compares hashes)
        x = next((y for y in inds if y.parameter_values), None)
        if x is not None:
            k = rng.randrange(len(x.parameter_values))
            va = tuple(-1.0 if i == k else float(v) for i, v in enumerate(x.parameter_values))
            vb = tuple(-2.0 if i == k else float(v) for i, v in enumerate(x.parameter_values))
            pair = [EVQEIndividual(x.n_qubits, x.layers, va), EVQEIndividual(x.n_qubits, x.layers, vb)]
            inds = pair + inds if rng.random() < 0.5 else inds + pair
    return EVQEPopulation(tuple(inds), None, None, None)


# ---- one operator application: implementation + model + oracles ---------------------------------------------


def model_request(kind, info, pop_in, tk, rec, start, op, evaluator_vals):
    """derive the oracle inputs of the model from the recorded generator logs"""
    pj = pop_json(pop_in, tk)
    if kind == "speciation":
        inst = rec.by_seed(op.random_generator.seed0) if hasattr(op.random_generator, "seed0") else None
        ch = [r for (m, r) in op.random_generator.log if m == "choice"]
        return {"op": "evqe.speciate", "pop": pj, "thr": op.genetic_distance_threshold, "choices": ch[info.get("choice_offset", 0):]}
    if kind.startswith("selection"):
        log = op._random_generator.log[info.get("log_offset", 0):]
        if kind == "selection-roulette":
            sel = []
            for m, r in log:
                if m == "choices":
                    for x in r:
                        sel.append(next(i for i, y in enumerate(pop_in.individuals) if y is x))
            mode = {"roulette": sel}
        else:
            mode = {"tournament": [list(r) for m, r in log if m == "choices"]}
        return {"op": "evqe.select", "pop": pj, "alpha": "1/2", "beta": "1/4", "mode": mode, "evals": [rat_str(v) for v in evaluator_vals]}
    # mutation
    log = op.random_generator.log[info.get("log_offset", 0):]
    plan = []
    it = iter(log)
    for x in pop_in.individuals:
        m, r = next(it)
        assert m == "random", log
        if r <= info["prob"]:
            m2, seed = next(it)
            assert m2 == "randint"
            if kind == "last-layer":
                vals = [v + DELTA for v in x.get_layer_parameter_values(-1)]
                plan.append({"opt": [[-1, tk.toks(vals), COST]]})
            elif kind == "param-search":
                inst = rec.by_seed(seed, start)
                order = [r2 for (m3, r2) in inst.log if m3 == "choice"]
                plan.append({"opt": [[l, tk.toks([v + DELTA for v in x.get_layer_parameter_values(l)]), COST] for l in order]})
            elif kind == "topological":
                inst = rec.by_seed(seed, start)
                lseed = [r2 for (m3, r2) in inst.log if m3 == "randint"][0]
                linst = rec.by_seed(lseed, start)
                plan.append({"add": {"coins": [r2.name == "ROTATION" for (m3, r2) in linst.log if m3 == "choice"],
                                     "pairs": [list(r2) for (m3, r2) in linst.log if m3 == "sample"]}})
            else:
                if len(x.layers) == 1:
                    plan.append({"remove": 0})
                else:
                    inst = rec.by_seed(seed, start)
                    plan.append({"remove": [r2 for (m3, r2) in inst.log if m3 == "randrange"][0]})
        else:
            plan.append(None)
    return {"op": "evqe.mutate", "pop": pj, "plan": plan}


def check_partition(pop):
    n = len(pop.individuals)
    if pop.species_members is None or pop.species_membership is None or pop.species_representatives is None:
        return "speciation left species information empty"
    seen = [i for ms in pop.species_members.values() for i in ms]
    if sorted(seen) != list(range(n)):
        return f"species member lists do not partition the indices: {sorted(seen)}"
    if [G.indiv_struct(k) for k in pop.species_members.keys()] != [G.indiv_struct(r) for r in pop.species_representatives]:
        return "representatives differ from the keys of the member lists"
    for rep, ms in pop.species_members.items():
        if not any(G.indiv_struct(pop.individuals[j]) == G.indiv_struct(rep) for j in ms):
            return "a representative is not a member of its own species"
        for j in ms:
            if j not in pop.species_membership or G.indiv_struct(pop.species_membership[j]) != G.indiv_struct(rep):
                return "membership map inconsistent with the member lists"
    if sorted(pop.species_membership.keys()) != list(range(n)):
        return "membership map does not cover every index exactly once"
    return None


class Run:
    """one operator sequence on one initial population"""

    def __init__(self, ctx, prop, rng, workers, special=None):
        self.ctx, self.prop, self.rng = ctx, prop, rng
        self.special = special  # "nan" | "inf" | "mixed": numerically misbehaving evaluator; only the C11 oracles apply
        self.tk = G.Tokens()
        self.snapshots = []  # (label, object, structural snapshot at the time)
        self.workers = workers

    def violate(self, p, what, inp, observed=None):
        if self.special and p != "C11":
            return
        if p == self.prop:
            self.ctx.violate(what, inp, observed, key=f"{p}:{what[:70]}")
        else:
            o = self.ctx.extra.setdefault("_other", {})
            o[p] = o.get(p, 0) + 1

    def check_snapshots(self, when, inp):
        for label, obj, snap, fn in self.snapshots:
            if fn(obj) != snap:
                self.violate("C11", f"{label} was modified by a later operator ({when})", inp, {"before": str(snap)[:300], "after": str(fn(obj))[:300]})
                return

    def run(self, pop, seq):
        ctx, rng, tk = self.ctx, self.rng, self.tk
        drv = ctx.lean("Evqe")
        nq = pop.individuals[0].n_qubits
        delays = [0.0, 0.002, 0.0, 0.001] if self.workers > 1 else None
        evaluator = FakeEvaluator(nq, delays, self.special)
        events = []
        ctxt = OperatorContext(
            circuit_evaluator=evaluator,
            result_callback=lambda r: events.append(("result", r)),
            circuit_evaluation_count_callback=lambda n: events.append(("count", n)),
            parallel_executor=None,
        )
        with Recorder() as rec, ThreadPoolExecutor(max_workers=self.workers) as ex:
            ctxt.parallel_executor = ex
            ops = [make_operator(k, rng) for k in seq]
            for step, (kind, (op, info)) in enumerate(zip(seq, ops)):
                start = len(rec.instances)
                pin_struct = pop_struct(pop)
                self.snapshots.append((f"the input population of operator {step} ({kind})", pop, pin_struct, pop_struct))
                n_ev = len(events)
                pj_in = pop_json(pop, tk)
                inp = {"sequence": seq[: step + 1], "step": step, "kind": kind, "pop": pj_in,
                       "token_values": {str(k): v for k, v in tk.back.items()}}  # parameter values are shown as tokens (class * 1024 + index)
                try:
                    out = op.apply_operator(pop, ctxt)
                    err = None
                except EVQESelectionException:
                    out, err = None, "selectionWithoutSpeciation"
                except Exception as e:  # noqa: BLE001
                    out, err = None, "exc:" + type(e).__name__ + ":" + str(e)[:80]
                new_events = events[n_ev:]
                if self.special:
                    inp["evaluator_returns"] = self.special
                ctx.case({"kind": kind, "pop": pj_in, "step": step, "special": self.special}, nontrivial=len(pop.individuals) >= 3,
                         tags=[kind, f"workers:{self.workers}", "err" if err else "ok"] + (["evaluator:" + self.special] if self.special else []))
                # ---------------- oracles (C10) --------------------------------------------------------
                expected_err = kind.startswith("selection") and (pop.species_members is None or pop.species_membership is None or pop.species_representatives is None)
                if err is not None and not (expected_err and err == "selectionWithoutSpeciation"):
                    self.violate("C10", f"operator {kind} did not complete on a valid population: {err}", inp, err)
                if err is None and expected_err:
                    self.violate("C10", "selection without speciation information did not raise the documented exception", inp)
                evals = None
                for tag, payload in new_events:
                    if tag == "result":
                        self.snapshots.append((f"the evaluation result reported by operator {step} ({kind})", payload, result_struct(payload), result_struct))
                if kind.startswith("selection"):
                    counts = [p for t, p in new_events if t == "count"]
                    results = [p for t, p in new_events if t == "result"]
                    if counts != [len(pop.individuals)]:
                        self.violate("C10", "selection does not report exactly one evaluation per individual", inp, counts)
                    evals = [value_of(x.get_parameter_values()) for x in pop.individuals]
                    if err is None:
                        if len(results) != 1:
                            self.violate("C10", "selection does not report exactly one evaluation result", inp, len(results))
                        else:
                            r = results[0]
                            if list(r.expectation_values) != evals:
                                self.violate("C10", "expectation value at index i is not the value of individual i", inp,
                                             {"reported": list(r.expectation_values), "true": evals})
                            b = min(range(len(evals)), key=lambda i: (evals[i], i))
                            if r.best_expectation_value != evals[b] or G.indiv_struct(r.best_individual) != G.indiv_struct(pop.individuals[b]) or r.population is not pop:
                                self.violate("C10", "reported best individual/value is not the (first) minimum of the evaluated population", inp)
                if out is not None:
                    if len(out.individuals) != len(pop.individuals):
                        self.violate("C10", f"{kind} changed the population size", inp, [len(pop.individuals), len(out.individuals)])
                    if any((not x.is_valid()) or x.n_qubits != nq for x in out.individuals):
                        self.violate("C10", f"{kind} produced an invalid individual / wrong qubit count", inp)
                    if kind == "speciation":
                        bad = check_partition(out)
                        if bad:
                            self.violate("C10", "after speciation: " + bad, inp)
                        if [G.indiv_struct(x) for x in out.individuals] != [G.indiv_struct(x) for x in pop.individuals]:
                            self.violate("C10", "speciation changed the individuals", inp)
                    elif kind.startswith("selection"):
                        src = {G.indiv_struct(x) for x in pop.individuals}
                        if any(G.indiv_struct(x) not in src for x in out.individuals):
                            self.violate("C10", "selection returned an individual that is not in its input", inp)
                    else:
                        for a, b in zip(pop.individuals, out.individuals):
                            sa, sb = G.indiv_struct(a), G.indiv_struct(b)
                            if sa == sb:
                                continue
                            if kind in ("last-layer", "param-search"):
                                if sa[1] != sb[1]:
                                    self.violate("C10", "parameter search changed the circuit structure", inp)
                                elif kind == "last-layer":
                                    k = len(a.parameter_values) - a.layers[-1].n_parameters
                                    if sa[2][:k] != sb[2][:k]:
                                        self.violate("C10", "last-layer parameter search changed parameters of other layers", inp)
                            elif kind == "topological":
                                if len(b.layers) != len(a.layers) + 1 or sb[1][:-1] != sa[1] or sb[2][: len(sa[2])] != sa[2]:
                                    self.violate("C10", "topological search did not append exactly one layer", inp)
                            elif kind == "removal":
                                if not (1 <= len(b.layers) < len(a.layers)) or sa[1][: len(b.layers)] != sb[1] or sa[2][: len(sb[2])] != sb[2]:
                                    self.violate("C10", "layer removal did not drop a non-empty proper suffix of layers", inp)
                        if kind == "removal" and any(len(a.layers) == 1 and G.indiv_struct(a) != G.indiv_struct(b) for a, b in zip(pop.individuals, out.individuals)):
                            self.violate("C10", "layer removal changed a single-layer individual", inp)
                # ---------------- C11: nothing recorded earlier may change --------------------------------
                self.check_snapshots(f"after operator {step} ({kind})", inp)
                # aliasing predicted by the heap model (Props/C11.lean): speciation returns fresh containers,
                # selection and mutation hand the representative list reference on and create no container
                if out is not None:
                    if kind == "speciation":
                        olds = [id(c) for _, q, _, _ in self.snapshots if isinstance(q, EVQEPopulation)
                                for c in (q.species_representatives, q.species_members, q.species_membership) if c is not None]
                        fresh = all(id(c) not in olds for c in (out.species_representatives, out.species_members, out.species_membership))
                        if not fresh:
                            ctx.disagree("heap model: speciation must return fresh containers", inp, "shared", "fresh")
                    elif out.species_representatives is not pop.species_representatives or out.species_members is not None:
                        ctx.disagree("heap model: selection/mutation hand on the representative list reference", inp, "copied", "shared")
                # ---------------- model correspondence ------------------------------------------------------
                if drv is not None and not self.special and (err is None or err == "selectionWithoutSpeciation"):
                    try:
                        req = model_request(kind, info, pop, tk, rec, start, op, evals)
                    except Exception as e:  # noqa: BLE001
                        ctx.disagree("could not derive the model oracle from the recorded draws", inp, repr(e)[:200], None)
                        req = None
                    if req is not None:
                        r = drv.ask(req)
                        impl = {"ok": pop_json(out, tk)} if out is not None else {"err": err}
                        mod = {"ok": r["ok"]} if "ok" in r else {"err": r.get("err", r)}
                        if kind == "speciation" and out is not None and "ok" in mod:
                            pass
                        ctx.compare(f"evqe {kind}", inp, impl, mod)
                        if "events" in r:
                            ie = [["count", p] if t == "count" else ["result", [rat_str(v) for v in p.expectation_values],
                                   next(i for i, y in enumerate(pop.individuals) if y is p.best_individual)] for t, p in new_events]
                            ctx.compare(f"evqe {kind} events", inp, ie, r["events"])
                if out is None:
                    break
                pop = out
        self.check_snapshots("at the end of the run", {"sequence": seq})


def check_recorder_stream():
    """the recording generator must reproduce the production random stream exactly"""
    with Recorder():
        a, b = spec_mod.Random(5), pyrandom.Random(5)
        return [a.random(), a.randint(0, 99), a.choice([1, 2, 3]), a.choices(range(5), k=3), a.sample(range(9), 2), a.randrange(1, 7)] == \
            [b.random(), b.randint(0, 99), b.choice([1, 2, 3]), b.choices(range(5), k=3), b.sample(range(9), 2), b.randrange(1, 7)]


class debug_logging:
    """the host application's logging configuration is part of the environment: with the package's loggers at DEBUG (records discarded by a
    NullHandler) diagnostic code paths run that are skipped otherwise"""

    def __init__(self, on):
        self.on = on

    def __enter__(self):
        import logging

        if self.on:
            self.lg = logging.getLogger("queasars")
            self.old, self.prop = self.lg.level, self.lg.propagate
            self.h = logging.NullHandler()
            self.lg.addHandler(self.h)
            self.lg.setLevel(logging.DEBUG)
            self.lg.propagate = False

    def __exit__(self, *a):
        if self.on:
            self.lg.setLevel(self.old)
            self.lg.propagate = self.prop
            self.lg.removeHandler(self.h)


def reevaluation_case(ctx, prop, rng):
    """the SAME operator objects applied again (as the solver does generation after generation, and when a population is evaluated a second time):
    speciation + selection on a population, then speciation + selection once more on the same individuals (the representatives are redrawn).
    Every input population and every reported evaluation result of the first pass must still be what it was (C11); the second pass must report
    an evaluation of ITS population (C10)."""
    pop = gen_population(rng)
    nq = pop.individuals[0].n_qubits
    evaluator = FakeEvaluator(nq, None, None)
    events = []
    tk = G.Tokens()
    sp = EVQESpeciation(rng.choice([0, 1, 2, 3]), rng.randrange(2**31))
    sel = EVQESelection(0.5, 0.25, rng.random() < 0.5, 2, rng.randrange(2**31))
    inp = {"reevaluation": True, "pop": pop_json(pop, tk), "token_values": {str(k): v for k, v in tk.back.items()}}
    ctx.case(inp, nontrivial=len(pop.individuals) >= 3, tags=["same-operator-objects-applied-again"])
    snaps = []
    with ThreadPoolExecutor(max_workers=1) as ex:
        ctxt = OperatorContext(circuit_evaluator=evaluator, result_callback=lambda r: events.append(r),
                               circuit_evaluation_count_callback=lambda n: None, parallel_executor=ex)
        for round_no in range(rng.randint(2, 3)):
            try:
                p1 = sp.apply_operator(pop, ctxt)
                snaps.append((f"the input population of selection (pass {round_no})", p1, pop_struct(p1), pop_struct))
                n_ev = len(events)
                sel.apply_operator(p1, ctxt)
            except Exception as e:  # noqa: BLE001
                if prop == "C10":
                    ctx.violate("speciation + selection did not complete when the same operator objects were applied again", inp, repr(e)[:200], key="C10:reeval:raises")
                return
            for r in events[n_ev:]:
                snaps.append((f"the evaluation result reported in pass {round_no}", r, result_struct(r), result_struct))
                if prop == "C10" and pop_struct(r.population) != pop_struct(p1):
                    ctx.violate("selection reported an evaluation whose population is not the population it was applied to", inp, None, key="C10:reeval:population")
            if prop == "C11":
                for label, obj, snap, fn in snaps:
                    if fn(obj) != snap:
                        ctx.violate(f"{label} was modified when the same operator objects were applied again (pass {round_no})", inp,
                                    {"before": str(snap)[:300], "after": str(fn(obj))[:300]}, key="C11:reeval:modified")
                        return


def run_cluster(ctx, prop):
    rng = ctx.rng
    if not check_recorder_stream():
        raise RuntimeError("recording Random subclass does not reproduce random.Random's stream")
    for it in range(ctx.n(60, 1500)):
        if ctx.out_of_time():
            break
        with debug_logging(it % 3 == 1):
            ctx.dist["logging:DEBUG" if it % 3 == 1 else "logging:default"] += 1
            Run(ctx, prop, rng, workers=rng.choice([1, 1, 3])).run(gen_population(rng), gen_sequence(rng))
    for it in range(ctx.n(20, 300)):
        if ctx.out_of_time():
            break
        reevaluation_case(ctx, prop, rng)
    # a numerically misbehaving evaluator (NaN / infinite values for some individuals): C11's clauses only
    if prop == "C11":
        for it in range(ctx.n(16, 200)):
            if ctx.out_of_time():
                break
            pop = gen_population(rng)
            seq = ["speciation", rng.choice(["selection-roulette", "selection-tournament", "selection-tournament"])] + gen_sequence(rng)[: rng.randint(0, 5)]
            Run(ctx, prop, rng, workers=rng.choice([1, 3]), special=rng.choice(["nan", "nan", "inf", "mixed"])).run(pop, seq)
    # populations with a pair of different but hash-equal individuals (EVQEIndividual.__eq__ is hash equality), evaluated and selected from
    # before any mutation touches the pair: dict/set keyed shortcuts over individuals would merge the two
    for it in range(ctx.n(12, 150)):
        if ctx.out_of_time():
            break
        pop = gen_population(rng, force_colliding=True)
        if any(x.parameter_values for x in pop.individuals):
            ctx.dist["hash-colliding pair evaluated first"] += 1
            tail = gen_sequence(rng)[: rng.randint(0, 4)]
            Run(ctx, prop, rng, workers=rng.choice([1, 3])).run(pop, ["speciation", rng.choice(["selection-roulette", "selection-tournament"])] + tail)
    # large populations (more individuals than any plausible task or batch limit, and not a multiple of one): every individual
    # is evaluated once by speciation + selection and the selected ones come from the whole population
    for n_ind in (17, 20, 33, 40)[: ctx.n(2, 4)]:
        if ctx.out_of_time():
            break
        ctx.dist[f"large population:{n_ind}"] += 1
        pop = EVQEPopulation.random_population(2, rng.randint(1, 2), n_ind, True, rng.randint(0, 10**6))
        Run(ctx, prop, rng, workers=rng.choice([1, 3])).run(pop, ["speciation", rng.choice(["selection-roulette", "selection-tournament"])])
    # the repaired findings: 1-qubit individuals through parameter search and removal (F5, F6), history aliasing (F7)
    pop = EVQEPopulation.random_population(1, 3, 4, True, 11)
    Run(ctx, prop, rng, 1).run(pop, ["speciation", "selection-tournament", "last-layer", "removal", "speciation", "selection-roulette", "param-search", "topological", "speciation"])
    pop = EVQEPopulation.random_population(2, 2, 5, True, 3)
    Run(ctx, prop, rng, 1).run(pop, ["speciation", "selection-tournament", "topological", "speciation", "selection-tournament", "topological", "speciation"])
    other = ctx.extra.pop("_other", {})
    if other:
        ctx.notes.append(f"oracle violations of sibling properties seen in this run (reported by their own checks): {other}")


def replay_case(ctx, prop, case):
    import random

    inp = case.get("case", case).get("input", case.get("input"))
    pj = inp["pop"]

    tv = inp.get("token_values", {})

    def mk(xj):
        return EVQEIndividual(xj["n"], tuple(G.layer_obj(l) for l in xj["layers"]),
                              tuple(float(tv[str(v)]) if str(v) in tv else float(v) * 0.25 for v in xj["values"]))

    pop = EVQEPopulation(tuple(mk(x) for x in pj["inds"]), None, None, None)
    seq = inp.get("sequence", [inp["kind"]])
    Run(ctx, prop, random.Random(0), 1, special=inp.get("evaluator_returns")).run(pop, seq if pj.get("reps") is None else ["speciation"] + seq[-1:])
    ctx.extra.pop("_other", None)
