"""C13 — convergence criteria and the SPSA termination checker vs Model/Criteria.lean + Fraction oracle."""
from __future__ import annotations

from fractions import Fraction as F
from types import SimpleNamespace

from common import rat_str
from queasars.minimum_eigensolvers.base import termination_criteria as tc
from queasars.utility.spsa_termination import SPSATerminationChecker

META = {
    "lean_modules": ["QVerif.Props.C13"],
    "drivers": ["Criteria"],
    "theorems": [
        "QVerif.Criteria.bestChange_answer_iff",
        "QVerif.Criteria.bestRelChange_answer_iff",
        "QVerif.Criteria.popChange_answer_iff",
        "QVerif.Criteria.popRelChange_answer_iff",
        "QVerif.Criteria.threshold_answer_iff",
        "QVerif.Criteria.windowBelow_nonpos_threshold",
        "QVerif.Criteria.best_reset_forgets",
        "QVerif.Criteria.pop_reset_forgets",
        "QVerif.Criteria.spsa_new_run_forgets",
        "QVerif.Criteria.spsa_new_run_forgets_stream",
        "QVerif.Criteria.spsa_answer_iff",
        "QVerif.Criteria.decide_iff_prefilled",
        "QVerif.Criteria.run_generic",
    ],
    "level": "proof",
    "level_text": "Proof: for each of the five criteria, answer at step k <=> the documented change measure (magnitude; relative variants divided by the "
    "magnitude of the reference, +inf for a zero reference) is below the threshold for the last allowed+1 steps and that many measures exist "
    "(*_answer_iff, for every history, threshold and allowed count); reset_state re-establishes the initial state; the SPSA checker treats a "
    "callback with nfev <= previous (or after convergence) exactly like a fresh checker (spsa_new_run_forgets) and answers by the window condition "
    "within a run (spsa_answer_iff). Exact rational model tied to the float implementation by a differential correspondence on dyadic inputs.",
    "level_note": "Trusted: Lean kernel + standard axioms; Model/Criteria.lean is hand-written (tied by sampled correspondence); numpy.median as documented; "
    "floating point: inputs are dyadic rationals, decisions whose exact margin is below 1e-9 are skipped and counted; evaluation results have at "
    "least one non-None expectation value.",
    "rule": "cases = (criterion kind, threshold, allowed 0-3, 1-3 segments separated by reset_state of 1-8 evaluations with 1-6 values from the "
    "dyadic grid k/8 in [-4,4] incl. negative, zero, mixed sign, ties, None entries) and SPSA callback streams of 1-4 runs (equal-nfev restarts, "
    "maxfev, rejected steps). Answers and exception kinds compared exactly with the model and with a Fraction oracle of the documented rule. "
    "non-trivial = at least one answer position has >= allowed+1 measures; distinct = canonical JSON of the case",
    "trusted_base": [
        "Lean 4 kernel; axioms per theorem under coverage.theorems",
        "harness/corr_C13.py + Driver/Criteria.lean",
        "numpy.median = middle element / mean of the two middle elements of the sorted values",
    ],
    "assumptions": ["evaluation results carry at least one non-None expectation value", "float decisions with exact margin < 1e-9 are skipped"],
}

GRID = [F(k, 8) for k in range(-32, 33)]
THR_POS = [F(1, 16), F(1, 8), F(1, 4), F(1, 2), F(3, 4), F(1), F(2)]
THR_ANY = THR_POS + [F(0), F(-1, 8), F(-1), F(5)]


def gen_eval(rng, prev=None):
    n = rng.randint(1, 6)
    mode = rng.randrange(6)
    if prev is not None and mode <= 1:
        # small perturbation of the previous generation (so that windows below the threshold occur)
        vals = [v + rng.choice([F(0), F(0), F(1, 8), F(-1, 8)]) for v in prev["vals"]]
    elif mode == 2:
        v = rng.choice(GRID)
        vals = [v] * n
    elif mode == 3:
        vals = [rng.choice([F(0), F(1, 8), F(-1, 8), F(0)]) for _ in range(n)]
    else:
        vals = [rng.choice(GRID) for _ in range(n)]
    nones = [i for i in range(len(vals)) if rng.random() < 0.08]
    if len(nones) == len(vals):
        nones = nones[1:]
    best = min(v for i, v in enumerate(vals) if i not in nones) if rng.random() < 0.9 else rng.choice(GRID)
    return {"vals": vals, "nones": nones, "best": best}


def to_ns(e):
    ev = tuple(None if i in e["nones"] else float(v) for i, v in enumerate(e["vals"]))
    return SimpleNamespace(expectation_values=ev, best_expectation_value=float(e["best"]), population=None, best_individual=None)


def to_json(e):
    return {"values": [rat_str(v) for i, v in enumerate(e["vals"]) if i not in e["nones"]], "best": rat_str(e["best"])}


# ---- Fraction oracle of the documented rule ---------------------------------------------------


def median(xs):
    s = sorted(xs)
    n = len(s)
    return s[n // 2] if n % 2 else (s[n // 2 - 1] + s[n // 2]) / 2


def hausdorff(a, b):
    def d(f, t):
        return median([min(abs(x - y) for y in t) for x in f])

    return max(d(a, b), d(b, a))


INF = None


def measure(kind, prev, cur):
    pv = [v for i, v in enumerate(prev["vals"]) if i not in prev["nones"]]
    cv = [v for i, v in enumerate(cur["vals"]) if i not in cur["nones"]]
    if kind == "best":
        return abs(prev["best"] - cur["best"])
    if kind == "bestrel":
        return INF if prev["best"] == 0 else abs(prev["best"] - cur["best"]) / abs(prev["best"])
    m = max(hausdorff(pv, cv), abs(prev["best"] - cur["best"]))
    if kind == "pop":
        return m
    med = median(pv)
    return INF if med == 0 else m / abs(med)


def oracle_answers(kind, thr, allowed, seg):
    """returns (answers, min margin)"""
    out, margin = [], None
    ms = []
    for k, e in enumerate(seg):
        if kind == "thr":
            out.append(e["best"] < thr)
            mg = abs(e["best"] - thr)
            margin = mg if margin is None else min(margin, mg)
            continue
        if k > 0:
            ms.append(measure(kind, seg[k - 1], e))
        if len(ms) < allowed + 1:
            out.append(False)
        else:
            w = ms[-(allowed + 1):]
            out.append(all(x is not INF and x < thr for x in w))
            for x in w:
                if x is not INF:
                    mg = abs(x - thr)
                    margin = mg if margin is None else min(margin, mg)
    return out, margin


def impl_answers(kind, thr, allowed, segs):
    try:
        if kind == "best":
            c = tc.BestIndividualChangeTolerance(float(thr), allowed)
        elif kind == "bestrel":
            c = tc.BestIndividualRelativeChangeTolerance(float(thr), allowed)
        elif kind == "thr":
            c = tc.BestIndividualExpectationValueThreshold(float(thr))
        elif kind == "pop":
            c = tc.PopulationChangeTolerance(float(thr), allowed)
        else:
            c = tc.PopulationChangeRelativeTolerance(float(thr), allowed)
    except Exception as e:  # noqa: BLE001
        return "ctor-exc:" + type(e).__name__
    out = []
    for si, seg in enumerate(segs):
        if si > 0:
            c.reset_state()
        row = []
        running = None  # the solver passes the best value found SO FAR in the run as third argument (not the generation's best)
        for e in seg:
            ns = to_ns(e)
            running = ns.best_expectation_value if running is None else min(running, ns.best_expectation_value)
            try:
                row.append(bool(c.check_termination(ns, None, running)))
            except Exception as ex:  # noqa: BLE001
                row.append("exc:" + type(ex).__name__)
        out.append(row)
    return out


def one_criterion_case(ctx, kind, thr, allowed, segs, tag):
    inp = {"kind": kind, "thr": rat_str(thr), "allowed": allowed,
           "segments": [[to_json(e) for e in seg] for seg in segs]}
    impl = impl_answers(kind, thr, allowed, segs)
    orc, margin = [], None
    for seg in segs:
        a, m = oracle_answers(kind, thr, allowed, seg)
        orc.append(a)
        if m is not None:
            margin = m if margin is None else min(margin, m)
    nontrivial = any(len(seg) >= allowed + 2 for seg in segs) or kind == "thr"
    ctx.case(inp, nontrivial=nontrivial, tags=[tag, "kind:" + kind, "terminates" if any(any(r) for r in orc) else "never"])
    if margin is not None and 0 < margin < F(1, 10**9):
        ctx.skip("decision margin below 1e-9")
        return
    if impl != orc:
        raised = isinstance(impl, str) or any(isinstance(x, str) for r in impl for x in r)
        ctx.violate("criterion raises for a finite history" if raised else "criterion answer differs from the documented window rule",
                    inp, {"impl": impl, "documented": orc}, key=f"C13:{kind}:" + ("raises" if raised else "answer"))
    drv = ctx.lean("Criteria")
    if drv is not None:
        r = drv.ask({"op": "crit.run", **inp})
        ctx.compare("crit.run", inp, impl, r.get("answers", r))


# ---- SPSA ---------------------------------------------------------------------------------------


def gen_spsa(rng):
    calls = []
    nruns = rng.randint(1, 4)
    for _ in range(nruns):
        style = rng.randrange(4)
        n = 1 if style == 0 else rng.randint(1, 6)
        nfev = 0
        v = rng.choice(GRID)
        for _ in range(n):
            nfev += rng.choice([2, 2, 3])
            if rng.random() < 0.6:
                v = v + rng.choice([F(0), F(0), F(1, 8), F(-1, 8), F(1, 64), F(-1, 64)])
            else:
                v = rng.choice(GRID)
            calls.append({"nfev": nfev, "value": v, "accepted": rng.random() < 0.85})
    return calls


def spsa_oracle(thr, allowed, maxfev, calls):
    out, margin = [], None
    vals, prev_nfev, done = [], 0, False
    for c in calls:
        if done or c["nfev"] <= prev_nfev:
            vals, done = [], False
        prev_nfev = c["nfev"]
        if maxfev is not None and c["nfev"] >= maxfev:
            out.append(True)
            continue
        if not c["accepted"]:
            out.append(False)
            continue
        vals.append(c["value"])
        ms = [INF if a == 0 else abs(b - a) / abs(a) for a, b in zip(vals, vals[1:])]
        if len(ms) < allowed + 1 or len(vals) < 2:
            out.append(False)
            continue
        w = ms[-(allowed + 1):]
        ans = all(x is not INF and x < thr for x in w)
        for x in w:
            if x is not INF:
                mg = abs(x - thr)
                margin = mg if margin is None else min(margin, mg)
        if ans:
            done = True
        out.append(ans)
    return out, margin


def spsa_impl(thr, allowed, maxfev, calls):
    import numpy as np

    try:
        ch = SPSATerminationChecker(float(thr), allowed, maxfev)
    except Exception as e:  # noqa: BLE001
        return "ctor-exc:" + type(e).__name__
    out = []
    for c in calls:
        try:
            out.append(bool(ch.termination_check(c["nfev"], np.array([0.0]), float(c["value"]), 0.1, c["accepted"])))
        except Exception as e:  # noqa: BLE001
            out.append("exc:" + type(e).__name__)
    return out


def one_spsa_case(ctx, thr, allowed, maxfev, calls, tag):
    inp = {"thr": rat_str(thr), "allowed": allowed, "maxfev": maxfev,
           "calls": [{"nfev": c["nfev"], "value": rat_str(c["value"]), "accepted": c["accepted"]} for c in calls]}
    impl = spsa_impl(thr, allowed, maxfev, calls)
    orc, margin = spsa_oracle(thr, allowed, maxfev, calls)
    ctx.case({"spsa": inp}, nontrivial=len(calls) >= allowed + 2, tags=[tag, "kind:spsa", "terminates" if any(orc) else "never"])
    if margin is not None and 0 < margin < F(1, 10**9):
        ctx.skip("decision margin below 1e-9")
        return
    if impl != orc:
        raised = isinstance(impl, str) or any(isinstance(x, str) for x in impl)
        ctx.violate("SPSA checker raises for a finite callback stream" if raised else "SPSA checker answer differs from the documented rule",
                    {"spsa": inp}, {"impl": impl, "documented": orc}, key="C13:spsa:" + ("raises" if raised else "answer"))
    drv = ctx.lean("Criteria")
    if drv is not None:
        r = drv.ask({"op": "spsa.run", **inp})
        ctx.compare("spsa.run", {"spsa": inp}, impl, r.get("answers", r))


def run(ctx):
    rng = ctx.rng
    kinds = ["best", "bestrel", "thr", "pop", "poprel"]
    for i in range(ctx.n(2500, 80000)):
        if ctx.out_of_time():
            break
        kind = kinds[i % 5]
        if kind == "best":
            thr = rng.choice(THR_POS)
        elif kind == "bestrel":
            thr = rng.choice([t for t in THR_POS if t <= 1])
        else:
            thr = rng.choice(THR_ANY)
        allowed = rng.choice([0, 0, 1, 1, 2, 3])
        segs = []
        for _ in range(rng.choice([1, 1, 2, 3])):
            seg, prev = [], None
            for _ in range(rng.randint(1, 8)):
                prev = gen_eval(rng, prev)
                seg.append(prev)
            segs.append(seg)
        one_criterion_case(ctx, kind, thr, allowed, segs, "random")
    for i in range(ctx.n(1200, 40000)):
        if ctx.out_of_time():
            break
        thr = rng.choice(THR_ANY)
        allowed = rng.choice([0, 0, 1, 2, 3])
        maxfev = rng.choice([None, None, None, 6, 10, 2])
        one_spsa_case(ctx, thr, allowed, maxfev, gen_spsa(rng), "random")
    # the repaired findings stay in the corpus-like fixed list
    fixed = [
        ("poprel", F(1, 10), 0, [[{"vals": [F(-10), F(-8)], "nones": [], "best": F(-10)}, {"vals": [F(-5), F(-1)], "nones": [], "best": F(-5)}]]),
        ("pop", F(-1), 0, [[{"vals": [F(1), F(2)], "nones": [], "best": F(1)}, {"vals": [F(1), F(2)], "nones": [], "best": F(1)}]]),
        ("bestrel", F(1, 2), 0, [[{"vals": [F(0)], "nones": [], "best": F(0)}, {"vals": [F(0)], "nones": [], "best": F(0)}, {"vals": [F(1)], "nones": [], "best": F(1)}]]),
        ("poprel", F(1, 2), 1, [[{"vals": [F(0), F(0)], "nones": [], "best": F(0)}] * 4]),
    ]
    for kind, thr, allowed, segs in fixed:
        one_criterion_case(ctx, kind, thr, allowed, segs, "fixed")
    one_spsa_case(ctx, F(1, 10), 0, None, [{"nfev": 2, "value": F(5), "accepted": True}] * 3, "fixed")
    one_spsa_case(ctx, F(1, 10), 0, None, [{"nfev": 2, "value": F(-10), "accepted": True}, {"nfev": 4, "value": F(-5), "accepted": True}], "fixed")
    one_spsa_case(ctx, F(1, 10), 0, None, [{"nfev": 2, "value": F(0), "accepted": True}, {"nfev": 4, "value": F(0), "accepted": True}], "fixed")


def _parse_eval(j):
    vals = [F(v) for v in j["values"]]
    return {"vals": vals, "nones": [], "best": F(j["best"])}


def replay(ctx, case):
    inp = case.get("case", case).get("input", case.get("input"))
    if "spsa" in inp:
        s = inp["spsa"]
        calls = [{"nfev": c["nfev"], "value": F(c["value"]), "accepted": c["accepted"]} for c in s["calls"]]
        one_spsa_case(ctx, F(s["thr"]), s["allowed"], s["maxfev"], calls, "replay")
    else:
        segs = [[_parse_eval(e) for e in seg] for seg in inp["segments"]]
        one_criterion_case(ctx, inp["kind"], F(inp["thr"]), inp["allowed"], segs, "replay")
