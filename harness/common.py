"""Shared plumbing of the QUEASARS verification harness.

* `LeanDriver`  — client of a Lean model driver (`lake env lean --run QVerif/Driver/<X>.lean`), JSON lines.
* `Ctx`         — one check run: tier, seed, PRNG, case bookkeeping (evaluations / distinct / non-trivial /
                  samples / input distribution), disagreements (model vs implementation) and violations
                  (the property fails on the implementation for a concrete input).
Everything random derives from `random.Random(seed)`; nothing here touches /repo.
"""
from __future__ import annotations

import collections
import fractions
import hashlib
import json
import os
import random
import subprocess
import sys
import time
from typing import Any, Optional

VERIF = os.path.dirname(os.path.dirname(os.path.abspath(__file__)))
LEAN_DIR = os.path.join(VERIF, "lean")
OUT_DIR = os.path.join(VERIF, "out")
REPLAY_DIR = os.path.join(OUT_DIR, "replays")


def canon(obj: Any) -> str:
    return json.dumps(obj, sort_keys=True, separators=(",", ":"), default=str)


def rat_str(x) -> str:
    """Exact rational of an int / Fraction / float (floats are dyadic rationals) as 'p/q'."""
    f = fractions.Fraction(x)
    return str(f.numerator) if f.denominator == 1 else f"{f.numerator}/{f.denominator}"


def parse_rat(s: str) -> fractions.Fraction:
    return fractions.Fraction(s)


class DriverError(Exception):
    pass


class LeanDriver:
    """Line-protocol client of one Lean model driver."""

    def __init__(self, cluster: str):
        self.cluster = cluster
        path = os.path.join("QVerif", "Driver", cluster + ".lean")
        self.proc = subprocess.Popen(
            ["lake", "env", "lean", "--run", path],
            cwd=LEAN_DIR,
            stdin=subprocess.PIPE,
            stdout=subprocess.PIPE,
            stderr=subprocess.PIPE,
            text=True,
            bufsize=1,
        )
        # the interpreter may print compiler diagnostics first: skip until READY
        while True:
            line = self.proc.stdout.readline()
            if line == "":
                err = self.proc.stderr.read()
                raise DriverError(f"driver {cluster} did not start: {err[-2000:]}")
            if line.strip() == "READY":
                break
        self.n_requests = 0

    def ask_many(self, reqs: list[dict]) -> list[dict]:
        out: list[dict] = []
        CH = 200
        for i in range(0, len(reqs), CH):
            chunk = reqs[i : i + CH]
            self.proc.stdin.write("".join(json.dumps(r, separators=(",", ":")) + "\n" for r in chunk))
            self.proc.stdin.flush()
            for _ in chunk:
                line = self.proc.stdout.readline()
                if line == "":
                    raise DriverError(f"driver {self.cluster} died: {self.proc.stderr.read()[-2000:]}")
                out.append(json.loads(line))
        self.n_requests += len(reqs)
        return out

    def ask(self, req: dict) -> dict:
        return self.ask_many([req])[0]

    def close(self):
        try:
            self.proc.stdin.close()
            self.proc.wait(timeout=10)
        except Exception:
            self.proc.kill()


class Ctx:
    def __init__(self, prop: str, tier: str, seed: int, model_ok: bool = True, deadline: Optional[float] = None):
        self.prop = prop
        self.tier = tier
        self.seed = seed
        self.rng = random.Random(seed)
        self.model_ok = model_ok
        self.deadline = deadline
        self.evaluations = 0
        self._distinct: set[str] = set()
        self._nontrivial: set[str] = set()
        self.samples: list[Any] = []
        self.dist: collections.Counter = collections.Counter()
        self.disagreements: list[dict] = []
        self.violations: list[dict] = []
        self.skipped: collections.Counter = collections.Counter()
        self.notes: list[str] = []
        self._drivers: dict[str, LeanDriver] = {}
        self.extra: dict[str, Any] = {}

    # ---- sizes -------------------------------------------------------------------------
    def n(self, quick: int, thorough: int) -> int:
        return thorough if self.tier == "thorough" else quick

    def thorough(self) -> bool:
        return self.tier == "thorough"

    def out_of_time(self) -> bool:
        return self.deadline is not None and time.time() > self.deadline

    def sub_rng(self, label: str) -> random.Random:
        return random.Random(f"{self.seed}:{label}")

    # ---- model -------------------------------------------------------------------------
    def lean(self, cluster: str) -> Optional[LeanDriver]:
        """The model driver, or None when the model could not be built (then only the oracle runs)."""
        if not self.model_ok:
            return None
        if cluster not in self._drivers:
            self._drivers[cluster] = LeanDriver(cluster)
        return self._drivers[cluster]

    def close(self):
        for d in self._drivers.values():
            d.close()

    # ---- bookkeeping -------------------------------------------------------------------
    def case(self, inp: Any, nontrivial: bool = True, tags=()) -> None:
        self.evaluations += 1
        h = hashlib.sha1(canon(inp).encode()).hexdigest()
        self._distinct.add(h)
        if nontrivial:
            self._nontrivial.add(h)
        for t in tags:
            self.dist[t] += 1
        if len(self.samples) < 3 or (len(self.samples) < 8 and nontrivial and self.rng_sample()):
            self.samples.append(inp)

    def rng_sample(self) -> bool:
        # independent of the case-generating stream
        return (self.evaluations * 2654435761) % 97 == 0

    @property
    def distinct(self) -> int:
        return len(self._distinct)

    @property
    def distinct_nontrivial(self) -> int:
        return len(self._nontrivial)

    def disagree(self, what: str, inp: Any, impl: Any, model: Any) -> None:
        if len(self.disagreements) < 50:
            self.disagreements.append({"what": what, "input": inp, "impl": impl, "model": model})

    def violate(self, what: str, inp: Any, observed: Any = None, key: Optional[str] = None) -> None:
        """The property itself fails on the implementation for this concrete input."""
        if len(self.violations) < 50:
            self.violations.append({"what": what, "input": inp, "observed": observed, "key": key or what})

    def skip(self, why: str) -> None:
        self.skipped[why] += 1

    def compare(self, what: str, inp: Any, impl: Any, model: Any) -> bool:
        if impl != model:
            self.disagree(what, inp, impl, model)
            return False
        return True


def write_replay(prop: str, payload: dict) -> str:
    os.makedirs(REPLAY_DIR, exist_ok=True)
    name = f"{prop}_{int(time.time()*1000)}_{os.getpid()}.json"
    path = os.path.join(REPLAY_DIR, name)
    with open(path, "w") as f:
        json.dump(payload, f, indent=1, sort_keys=True, default=str)
    return path
