"""C16 — structural mutations of individuals vs Model/Genome.lean + oracle."""
from __future__ import annotations

import genome_corr as G
from queasars.minimum_eigensolvers.evqe.evolutionary_algorithm.individual import EVQEIndividual

META = {
    "lean_modules": ["QVerif.Props.C16"],
    "drivers": ["Genome"],
    "theorems": [
        "QVerif.Genome.add_prefix",
        "QVerif.Genome.remove_total",
        "QVerif.Genome.remove_add_inverse",
        "QVerif.Genome.change_layer_only_values",
        "QVerif.Genome.change_all_only_values",
        "QVerif.Genome.results_valid",
        "QVerif.Genome.documented_errors",
        "QVerif.Genome.add_zero_keeps_denotation",
    ],
    "level": "proof",
    "level_text": "Proof (model Model/Genome.lean): appended layers keep all layers and values as a prefix (add_prefix); removing 0<k<len layers succeeds "
    "for every valid individual and keeps exactly the values of the remaining layers (remove_total); remove undoes add (remove_add_inverse); changing one "
    "layer's / all values changes nothing else (change_*_only_values); every operation returns a valid individual or a documented error "
    "(results_valid, documented_errors); zero-initialised appended layers contribute the identity for every gate semantics with sem(zero gate)=1 "
    "(add_zero_keeps_denotation). Tied to individual.py by differential correspondence with recorded RNG outcomes.",
    "level_note": "Trusted: Lean kernel + standard axioms; hand-written model tied by sampled correspondence; that Qiskit's U(0,0,0), CU3(0,0,0) and id are "
    "identity matrices is assumed in the theorem (hypothesis on sem) and checked numerically by the oracle (Operator.equiv, <= 5 qubits).",
    "rule": "cases = individuals from random_individual (1-6 qubits, 1-6 layers, random / zero / out-of-range angles), hand-made layers (all-identity, "
    "1 qubit, repeated layers) x operations change_parameter_values (right/wrong count), change_layer_parameter_values (layer ids from -len-1 to len+1, "
    "right/wrong count), add_random_layers (n in -1..3, zero or random values, RNG outcomes recorded and fed to the model), remove_layers (k in -1..len+1), "
    "remove after add; results compared structurally with the model; oracle checks every clause on the implementation (unitary equivalence via "
    "Operator.equiv for <= 5 qubits). non-trivial = individual has >= 2 layers; distinct = (individual, operation, arguments)",
    "trusted_base": ["Lean 4 kernel; axioms per theorem under coverage.theorems", "harness/corr_C16.py, genome_corr.py, Driver/Genome.lean",
                     "Qiskit: U(0,0,0)=CU3(0,0,0)=id=identity (checked numerically by the oracle)"],
    "assumptions": ["parameter values are opaque to the genome code (modelled as tokens)"],
}

DOCUMENTED = {"wrongValueCount", "nLayersTooSmall", "removedTooMany", "individualInvalid"}


def layer_vals(x):
    return [tuple(float(v) for v in x.get_layer_parameter_values(i)) for i in range(len(x.layers))]


def one_individual(ctx, x, rng):
    tk = G.Tokens()
    drv = ctx.lean("Genome")
    xj = G.indiv_json(x, tk)
    nl = len(x.layers)
    nontrivial = nl >= 2

    def cmp(what, req, impl):
        if drv is not None:
            ctx.compare(what, req, impl, drv.ask(req))

    def check_result(what, inp, impl, y):
        if "err" in impl:
            if impl["err"] not in DOCUMENTED:
                ctx.violate(f"{what} raised an undocumented exception", inp, impl, key=f"C16:{what}:undocumented")
        elif not y.is_valid():
            ctx.violate(f"{what} returned an invalid individual", inp, impl, key=f"C16:{what}:invalid")

    # --- layer values read-back
    if drv is not None:
        r = drv.ask({"op": "genome.indiv", "indiv": xj})
        ctx.compare("genome.indiv", {"indiv": xj}, {"valid": x.is_valid(), "layer_values": [tk.toks(v) for v in layer_vals(x)]}, r)

    # --- change_parameter_values
    for delta in (0, 1, -1):
        n = max(0, len(x.parameter_values) + delta)
        vals = tuple(G.wild_angle(rng) for _ in range(n))
        req = {"op": "genome.change_params", "indiv": xj, "vals": tk.toks(vals)}
        impl, y = G.res_indiv(lambda: EVQEIndividual.change_parameter_values(x, vals), tk)
        ctx.case(req, nontrivial, tags=["change_params", "ok" if "ok" in impl else impl["err"]])
        check_result("change_parameter_values", req, impl, y)
        if y is not None and (y.layers != x.layers or tuple(y.parameter_values) != vals):
            ctx.violate("change_parameter_values changed more than the values", req, impl, key="C16:change_params")
        if (n == len(x.parameter_values)) != ("ok" in impl):
            ctx.violate("change_parameter_values accepts/rejects the wrong value counts", req, impl, key="C16:change_params:count")
        cmp("genome.change_params", req, impl)

    # --- change_layer_parameter_values
    for lid in sorted({-nl - 1, -nl, -1, 0, nl - 1, nl, nl + 1, rng.randint(-nl, nl)}):
        i = lid % nl
        want = x.layers[i].n_parameters
        for delta in ((0, 1) if rng.random() < 0.3 else (0,)):
            vals = tuple(G.wild_angle(rng) for _ in range(want + delta))
            req = {"op": "genome.change_layer", "indiv": xj, "layer_id": lid, "vals": tk.toks(vals)}
            impl, y = G.res_indiv(lambda: EVQEIndividual.change_layer_parameter_values(x, lid, vals), tk)
            ctx.case(req, nontrivial, tags=["change_layer", "ok" if "ok" in impl else impl["err"]])
            check_result("change_layer_parameter_values", req, impl, y)
            if (delta == 0) != ("ok" in impl):
                ctx.violate("change_layer_parameter_values accepts/rejects the wrong value counts", req, impl, key="C16:change_layer:count")
            if y is not None:
                before, after = layer_vals(x), layer_vals(y)
                if y.layers != x.layers or after[i] != tuple(float(v) for v in vals) or any(after[j] != before[j] for j in range(nl) if j != i):
                    ctx.violate("change_layer_parameter_values changed something other than the addressed layer's values", req,
                                {"before": before, "after": after, "layer": i}, key="C16:change_layer:other")
            cmp("genome.change_layer", req, impl)

    # --- add_random_layers / remove_layers
    for k in (rng.choice([-1, 0]), 1, rng.choice([2, 3])):
        for randomize in ((False, True) if k == 1 else (False,)):
            seed = rng.randrange(2**31)
            with G.Recorder() as rec:
                impl, y = G.res_indiv(lambda: EVQEIndividual.add_random_layers(x, k, randomize, seed), tk)
            new_vals = tk.toks(y.parameter_values[len(x.parameter_values):]) if y is not None else []
            req = {"op": "genome.add", "indiv": xj, "n_layers": k, "oracle": rec.oracle(), "new_vals": new_vals}
            ctx.case(req, nontrivial, tags=["add", "ok" if "ok" in impl else impl["err"], f"k:{k}"])
            check_result("add_random_layers", req, impl, y)
            if (k >= 1) != ("ok" in impl):
                ctx.violate("add_random_layers accepts/rejects the wrong layer counts", req, impl, key="C16:add:count")
            if y is not None:
                if y.layers[:nl] != x.layers or tuple(y.parameter_values[: len(x.parameter_values)]) != tuple(x.parameter_values) or len(y.layers) != nl + k:
                    ctx.violate("add_random_layers does not keep the existing layers and values as a prefix", req, impl, key="C16:add:prefix")
                if not randomize and any(v != 0 for v in y.parameter_values[len(x.parameter_values):]):
                    ctx.violate("add_random_layers without randomisation produced non-zero values", req, impl, key="C16:add:zero")
                if not randomize and x.n_qubits <= 5 and len(y.layers) <= 9:
                    if not G.unitary_equiv(x.get_quantum_circuit(), y.get_quantum_circuit()):
                        ctx.violate("appending zero-initialised layers changes the unitary", req, impl, key="C16:add:unitary")
                # remove undoes add
                impl_r, z = G.res_indiv(lambda: EVQEIndividual.remove_layers(y, k), tk)
                if z is None or G.indiv_struct(z) != G.indiv_struct(x):
                    ctx.violate("remove_layers(k) does not undo add_random_layers(k)", req, {"after_remove": impl_r}, key="C16:remove-add")
                yj = G.indiv_json(y, tk)
                cmp("genome.remove(after add)", {"op": "genome.remove", "indiv": yj, "k": k}, impl_r)
            cmp("genome.add", req, impl)
    for k in range(-1, nl + 2):
        req = {"op": "genome.remove", "indiv": xj, "k": k}
        impl, y = G.res_indiv(lambda: EVQEIndividual.remove_layers(x, k), tk)
        ctx.case(req, nontrivial, tags=["remove", "ok" if "ok" in impl else impl["err"]])
        check_result("remove_layers", req, impl, y)
        if (0 < k < nl) != ("ok" in impl):
            ctx.violate("remove_layers does not succeed exactly for 0 < k < number of layers", req, impl, key="C16:remove:range")
        if y is not None:
            if y.layers != x.layers[: nl - k] or layer_vals(y) != layer_vals(x)[: nl - k]:
                ctx.violate("remove_layers does not keep exactly the parameters of the remaining layers", req, impl, key="C16:remove:values")
        cmp("genome.remove", req, impl)


def interleaved_ops_case(ctx, rng):
    """individuals are shared between worker threads (a population's individuals are handed to parallel mutation / evaluation tasks): an operation
    on a FRESH individual object that is pre-empted after its k-th executed source line inside the package, while another thread runs a whole
    operation on the same object, must still return what it returns alone — and so must the other one.  (Line-level pre-emption via sys.settrace.)"""
    import sys
    import threading

    x0 = G.gen_individual(rng, wild=False)
    if len(x0.layers) < 2 or not x0.parameter_values:
        x0 = EVQEIndividual.random_individual(rng.randint(1, 3), rng.randint(2, 4), True, rng.randrange(2**31))
    nl = len(x0.layers)
    la, lb = rng.randrange(nl), rng.randrange(nl)
    va = tuple(0.25 * (i + 1) for i in range(x0.layers[la].n_parameters))

    def fresh():
        return EVQEIndividual(x0.n_qubits, x0.layers, tuple(x0.parameter_values))

    def op_a(x):
        return G.indiv_struct(EVQEIndividual.change_layer_parameter_values(x, la, va))

    def op_b(x):
        return (tuple(x.get_layer_parameter_values(lb)), G.indiv_struct(EVQEIndividual.remove_layers(x, 1)) if nl >= 2 else None)

    ref_a, ref_b = op_a(fresh()), op_b(fresh())
    # how many package lines does op_a execute?
    count = [0]

    def counter(frame, event, arg):
        if "/queasars/" in frame.f_code.co_filename:
            if event == "line":
                count[0] += 1
            return counter
        return None

    xf = fresh()  # (built before tracing starts, as in the interleaved runs)
    sys.settrace(counter)
    try:
        op_a(xf)
    finally:
        sys.settrace(None)
    total = count[0]
    inp = {"interleaved_ops": {"individual": G.indiv_json(x0, G.Tokens()), "layer_a": la, "layer_b": lb, "package_lines_of_a": total}}
    ctx.case(inp, True, tags=["interleaved-threads"])
    points = sorted(set(rng.sample(range(1, total + 1), min(total, 25)))) if total else []
    for k in points:
        x = fresh()
        out = {}
        parked, go = threading.Event(), threading.Event()
        seen = [0]

        def tracer(frame, event, arg):
            if "/queasars/" in frame.f_code.co_filename:
                if event == "line":
                    seen[0] += 1
                    if seen[0] == k:
                        parked.set()
                        go.wait(10)
                return tracer
            return None

        def run_a():
            sys.settrace(tracer)
            try:
                out["a"] = op_a(x)
            except Exception as e:  # noqa: BLE001
                out["a"] = "exc:" + type(e).__name__ + ":" + str(e)[:60]
            finally:
                sys.settrace(None)
                parked.set()  # (finished without reaching line k: nothing to interleave)

        t = threading.Thread(target=run_a, daemon=True)
        t.start()
        parked.wait(5)
        try:
            out["b"] = op_b(x)
        except Exception as e:  # noqa: BLE001
            out["b"] = "exc:" + type(e).__name__ + ":" + str(e)[:60]
        go.set()
        t.join(20)
        if out.get("a") != ref_a or out.get("b") != ref_b:
            ctx.violate("an operation on an individual shared by two threads does not return what it returns alone (valid individual with only the documented change, "
                        "or the documented exception)", dict(inp, preempted_after_line=k),
                        {"a_differs": out.get("a") != ref_a, "b_differs": out.get("b") != ref_b, "a": str(out.get("a"))[:160], "b": str(out.get("b"))[:160]},
                        key="C16:interleaved")
            return


def run(ctx):
    rng = ctx.rng
    for _ in range(ctx.n(120, 2500)):
        if ctx.out_of_time():
            break
        x = G.gen_individual(rng)
        one_individual(ctx, x, rng)
        if x.parameter_values and rng.random() < 0.3:
            # two different individuals that Python treats as equal (EVQEIndividual.__eq__ is hash equality, hash(-1.0) == hash(-2.0)):
            # the same operations on both, one after the other - each result must be the result for ITS individual
            k = 0 if rng.random() < 0.6 else rng.randrange(len(x.parameter_values))
            for special in (-1.0, -2.0):
                vals = tuple(special if i == k else float(v) for i, v in enumerate(x.parameter_values))
                ctx.dist["hash-equal sibling"] += 1
                one_individual(ctx, EVQEIndividual(x.n_qubits, x.layers, vals), rng)
    for _ in range(ctx.n(12, 150)):
        if ctx.out_of_time():
            break
        interleaved_ops_case(ctx, rng)
    # deep individuals: appending zero layers when the new layer ids cross the decimal boundaries 100 / 1000 of the (zero-padded) parameter names —
    # the values of the existing layers must stay bound to their own gates
    for nl in [rng.randint(98, 100), rng.randint(998, 1000)] + ([rng.randint(9995, 10000)] if ctx.thorough() else []):
        nq = rng.randint(1, 2)
        iseed = rng.randrange(2**31)
        x = EVQEIndividual.random_individual(nq, nl, True, iseed)
        seed = rng.randrange(2**31)
        y = EVQEIndividual.add_random_layers(x, rng.randint(2, 3), False, seed)
        req = {"deep_zero_append": {"n_qubits": nq, "n_layers": nl, "individual_seed": iseed, "appended": len(y.layers) - nl, "seed": seed}}
        ctx.case(req, True, tags=["add", "deep-zero-append", f"layers:{'10000' if nl > 5000 else '1000' if nl > 500 else '100'}"])
        if not G.unitary_equiv(x.get_quantum_circuit(), y.get_quantum_circuit()):
            ctx.violate("appending zero-initialised layers changes the unitary", req, None, key="C16:add:unitary")
        z = EVQEIndividual.remove_layers(y, len(y.layers) - nl)
        if G.indiv_struct(z) != G.indiv_struct(x) or not G.unitary_equiv(x.get_quantum_circuit(), z.get_quantum_circuit()):
            ctx.violate("remove_layers(k) does not undo add_random_layers(k)", req, None, key="C16:remove-add")
    # the repaired finding F6: 1-qubit individual [Rot],[Id],[Rot]
    x = EVQEIndividual.random_individual(1, 3, True, 0)
    one_individual(ctx, x, rng)


def replay(ctx, case):
    import random

    inp = case.get("case", case).get("input", case.get("input"))
    if "interleaved_ops" in inp:
        ctx.case(inp, True, tags=["replay"])
        for _ in range(8):
            interleaved_ops_case(ctx, random.Random(_))
        return
    if "deep_zero_append" in inp:
        d = inp["deep_zero_append"]
        x = EVQEIndividual.random_individual(d["n_qubits"], d["n_layers"], True, d["individual_seed"])
        y = EVQEIndividual.add_random_layers(x, d["appended"], False, d["seed"])
        ctx.case(inp, True, tags=["replay"])
        if not G.unitary_equiv(x.get_quantum_circuit(), y.get_quantum_circuit()):
            ctx.violate("appending zero-initialised layers changes the unitary", inp, None, key="C16:add:unitary")
        return
    xj = inp["indiv"]
    x = EVQEIndividual(xj["n"], tuple(G.layer_obj(l) for l in xj["layers"]), tuple(float(v) for v in xj["values"]))
    one_individual(ctx, x, random.Random(0))
