"""Shared harness for the genome cluster (C04, C16, C20): conversions, recording RNG, generators, oracles."""
from __future__ import annotations

import math
import random as pyrandom

from queasars.minimum_eigensolvers.evqe.evolutionary_algorithm import individual as ind_mod
from queasars.minimum_eigensolvers.evqe.evolutionary_algorithm.individual import EVQEIndividual, EVQEIndividualException
from queasars.minimum_eigensolvers.evqe.quantum_circuit import circuit_layer as layer_mod
from queasars.minimum_eigensolvers.evqe.quantum_circuit.circuit_layer import EVQECircuitLayer, EVQECircuitLayerException
from queasars.minimum_eigensolvers.evqe.quantum_circuit.quantum_gate import (
    ControlGate,
    ControlledRotationGate,
    IdentityGate,
    RotationGate,
)

# ---- conversions ------------------------------------------------------------------------------------


def gate_json(g):
    if isinstance(g, IdentityGate):
        return ["id", g.qubit_index]
    if isinstance(g, RotationGate):
        return ["rot", g.qubit_index]
    if isinstance(g, ControlGate):
        return ["ctrl", g.qubit_index, g.controlled_qubit_index]
    if isinstance(g, ControlledRotationGate):
        return ["crot", g.qubit_index, g.control_qubit_index]
    raise TypeError(g)


def gate_obj(j):
    k = j[0]
    if k == "id":
        return IdentityGate(j[1])
    if k == "rot":
        return RotationGate(j[1])
    if k == "ctrl":
        return ControlGate(j[1], j[2])
    return ControlledRotationGate(j[1], j[2])


def layer_json(l):
    return {"n": l.n_qubits, "gates": [gate_json(g) for g in l.gates]}


def layer_obj(j):
    return EVQECircuitLayer(n_qubits=j["n"], gates=tuple(gate_obj(g) for g in j["gates"]))


class Tokens:
    """floats <-> integer tokens (0 <-> the value 0).  token // 1024 is the float's *hash class*: two floats get the same class exactly
    when CPython hashes them alike (hash(-1.0) == hash(-2.0), x vs x + k*(2**61 - 1)) - Model/Evqe.lean `valHash` relies on it to mirror
    EVQEIndividual.__eq__ (hash equality)."""

    def __init__(self):
        self.t = {0.0: 0}
        self.back = {0: 0.0}
        self.classes = {hash(0.0): 0}
        self.in_class = {0: 1}

    def tok(self, v):
        v = float(v)
        if v not in self.t:
            c = self.classes.setdefault(hash(v), len(self.classes))
            i = self.in_class.get(c, 0)
            assert i < 1024, "more than 1024 hash-equal floats in one run"
            self.in_class[c] = i + 1
            k = c * 1024 + i
            self.t[v] = k
            self.back[k] = v
        return self.t[v]

    def toks(self, vs):
        return [self.tok(v) for v in vs]


def indiv_json(x, tk):
    return {"n": x.n_qubits, "layers": [layer_json(l) for l in x.layers], "values": tk.toks(x.parameter_values)}


def indiv_struct(x):
    """structural dump (never use EVQEIndividual.__eq__: it is hash equality)"""
    return (x.n_qubits, tuple(tuple(tuple(gate_json(g)) for g in l.gates) for l in x.layers), tuple(float(v) for v in x.parameter_values))


def err_kind(e):
    s = str(e)
    if isinstance(e, EVQECircuitLayerException):
        if "invalid" in s:
            return "layerInvalid"
        if "fewer than one" in s:
            return "fewerThanOneQubit"
        if "previous_layer" in s:
            return "qubitMismatch"
        if "amount of provided parameter values" in s:
            return "wrongValueCount"
        return "layerException:" + s[:40]
    if isinstance(e, EVQEIndividualException):
        if "not valid" in s:
            return "individualInvalid"
        if "does not match" in s:
            return "wrongValueCount"
        if "must be at least 1" in s:
            return "nLayersTooSmall"
        if "Removed too many" in s:
            return "removedTooMany"
        return "individualException:" + s[:40]
    if type(e).__name__ == "NonTermination":
        return "nonTermination"
    return "exc:" + type(e).__name__


def res_indiv(fn, tk):
    try:
        x = fn()
        return {"ok": indiv_json(x, tk)}, x
    except Exception as e:  # noqa: BLE001
        return {"err": err_kind(e)}, None


# ---- recording RNG ----------------------------------------------------------------------------------


class NonTermination(Exception):
    """raised by the recording generator when a random constructor has created / consulted generators far more often than any terminating
    run does (a constructor that loops forever keeps drawing or re-seeding): turns a hang into a reportable outcome"""


class Recorder:
    """replaces the name `Random` in circuit_layer / individual by a subclass that records `choice` and `sample`
    (values are unchanged: the subclass only observes)"""

    BUDGET = 200000

    def __init__(self):
        self.coins = []
        self.pairs = []
        self.seeds = []
        self.uses = 0
        rec = self

        def spend():
            rec.uses += 1
            if rec.uses > Recorder.BUDGET:
                raise NonTermination(f"more than {Recorder.BUDGET} generator uses in one constructor call")

        class RecRandom(pyrandom.Random):
            def __init__(s, seed=None):
                super().__init__(seed)
                rec.seeds.append(seed)
                spend()

            def choice(s, seq):
                spend()
                r = super().choice(seq)
                rec.coins.append(r.name == "ROTATION")
                return r

            def sample(s, population, k, **kw):
                spend()
                r = super().sample(population, k, **kw)
                rec.pairs.append([r[0], r[1]])
                return r

        self.cls = RecRandom

    def __enter__(self):
        self.saved = (layer_mod.Random, ind_mod.Random)
        layer_mod.Random = self.cls
        ind_mod.Random = self.cls
        return self

    def __exit__(self, *a):
        layer_mod.Random, ind_mod.Random = self.saved

    def oracle(self):
        return {"coins": list(self.coins), "pairs": [list(p) for p in self.pairs]}


# ---- generators -------------------------------------------------------------------------------------


def wild_angle(rng):
    m = rng.randrange(5)
    if m == 0:
        return 0.0
    if m == 1:
        return rng.uniform(0, 2 * math.pi)
    if m == 2:
        return rng.uniform(-4 * math.pi, 0)
    if m == 3:
        return rng.uniform(2 * math.pi, 6 * math.pi)
    return rng.choice([math.pi, -math.pi, 2 * math.pi, 3 * math.pi, 0.5])


def handmade_layer(rng, n, kind=None):
    """a valid layer built directly (not through random_layer), including all-identity layers"""
    kind = kind if kind is not None else rng.randrange(4)
    gates = [IdentityGate(q) for q in range(n)]
    if kind == 0:
        return EVQECircuitLayer(n, tuple(gates))
    qs = list(range(n))
    rng.shuffle(qs)
    while qs:
        q = qs.pop()
        r = rng.random()
        if r < 0.35 and qs:
            c = qs.pop()
            gates[q] = ControlledRotationGate(q, c)
            gates[c] = ControlGate(c, q)
        elif r < 0.75:
            gates[q] = RotationGate(q)
    return EVQECircuitLayer(n, tuple(gates))


def guarded(fn):
    """run a random constructor under the recording generator's non-termination guard"""
    with Recorder():
        return fn()


def gen_individual(rng, max_qubits=6, max_layers=6, wild=True):
    return guarded(lambda: _gen_individual(rng, max_qubits, max_layers, wild))


def _gen_individual(rng, max_qubits=6, max_layers=6, wild=True):
    mode = rng.randrange(10)
    if mode <= 4:
        n = rng.choice([1, 1, 2, 2, 3, 3, 4, 5, 6][: max(2, max_qubits + 3)])
        n = min(n, max_qubits)
        k = rng.randint(1, max_layers)
        x = EVQEIndividual.random_individual(n, k, True, rng.randrange(2**31))
    elif mode <= 6:
        n = rng.randint(1, min(4, max_qubits))
        k = rng.randint(1, max_layers)
        layers = tuple(handmade_layer(rng, n) for _ in range(k))
        x = EVQEIndividual(n, layers, tuple(0.0 for _ in range(sum(l.n_parameters for l in layers))))
    elif mode == 7:
        # repeated layers (ties between layers)
        n = rng.randint(1, min(3, max_qubits))
        l = handmade_layer(rng, n, kind=1)
        k = rng.randint(2, max_layers)
        layers = tuple(l if rng.random() < 0.7 else handmade_layer(rng, n) for _ in range(k))
        x = EVQEIndividual(n, layers, tuple(0.0 for _ in range(sum(l.n_parameters for l in layers))))
    elif mode == 8:
        x = EVQEIndividual.random_individual(1, rng.randint(1, max_layers), True, rng.randrange(2**31))
    else:
        x = EVQEIndividual.random_individual(rng.randint(2, max_qubits), rng.randint(1, max_layers), False, rng.randrange(2**31))
    if wild and rng.random() < 0.7:
        x = EVQEIndividual(x.n_qubits, x.layers, tuple(wild_angle(rng) for _ in x.parameter_values))
    return x


# ---- circuits ---------------------------------------------------------------------------------------


def instructions(circ):
    out = []
    for inst in circ.data:
        name = inst.operation.name
        qs = [circ.find_bit(q).index for q in inst.qubits]
        ps = []
        for p in inst.operation.params:
            try:
                ps.append(float(p))
            except TypeError:
                ps.append(str(p))
        out.append((name, qs, ps))
    return out


def binding_of(circ, x):
    """slot -> parameter (float or parameter name) read off a decomposed circuit of individual x.
    `decompose()` orders instructions topologically, so only the order on each qubit wire is meaningful: the k-th
    instruction on wire q belongs to layer k.  Returns None if the circuit does not have the shape the genome dictates."""
    ins = instructions(circ)
    wires = {q: [] for q in range(x.n_qubits)}
    for idx, (_, qs, _) in enumerate(ins):
        for q in qs:
            if q not in wires:
                return None
            wires[q].append(idx)
    ptr = {q: 0 for q in wires}
    used = 0
    b = {}

    def nxt(q):
        if ptr[q] >= len(wires[q]):
            return None
        return wires[q][ptr[q]]

    for li, l in enumerate(x.layers):
        for g in l.gates:
            if isinstance(g, ControlGate):
                continue
            k = nxt(g.qubit_index)
            if k is None:
                return None
            name, qs, ps = ins[k]
            if isinstance(g, IdentityGate):
                if name != "id" or qs != [g.qubit_index]:
                    return None
                ptr[g.qubit_index] += 1
            elif isinstance(g, RotationGate):
                if name != "u" or qs != [g.qubit_index] or len(ps) != 3:
                    return None
                ptr[g.qubit_index] += 1
                b[(li, g.qubit_index, "theta")], b[(li, g.qubit_index, "phi")], b[(li, g.qubit_index, "lambda")] = ps
            else:
                c = g.control_qubit_index
                if name != "cu3" or qs != [c, g.qubit_index] or len(ps) != 3 or nxt(c) != k:
                    return None
                ptr[g.qubit_index] += 1
                ptr[c] += 1
                b[(li, g.qubit_index, "theta")], b[(li, g.qubit_index, "phi")], b[(li, g.qubit_index, "lambda")] = ps
            used += 1
    if used != len(ins):
        return None
    return b


def unitary_equiv(c1, c2):
    from qiskit.quantum_info import Operator

    return Operator(c1).equiv(Operator(c2))


def differ_on_states(c1, c2, tries=2):
    """True if the two circuits provably denote different unitaries (even up to a global phase): they map some product state to states of
    fidelity < 1.  Usable far beyond the widths where the full operator fits (statevector simulation: up to about 16 qubits)."""
    import numpy as np
    from qiskit.circuit import QuantumCircuit
    from qiskit.quantum_info import Statevector

    n = c1.num_qubits
    if c2.num_qubits != n or n > 16:
        return False
    gen = np.random.default_rng(12345)
    for _ in range(tries):
        prep = QuantumCircuit(n)
        for q in range(n):
            prep.ry(float(gen.uniform(0, np.pi)), q)
            prep.rz(float(gen.uniform(0, 2 * np.pi)), q)
        a = Statevector(prep.compose(c1))
        b = Statevector(prep.compose(c2))
        if abs(np.vdot(a.data, b.data)) ** 2 < 1 - 1e-9:
            return True
    return False
