"""Cooperative deterministic scheduling of the real `BatchingMutexPrimitiveJobRunner.run`.

The names `Lock`, `Condition` and `sleep` in the namespace of `queasars.circuit_evaluation.mutex_primitives`
are replaced by cooperative versions: every synchronisation operation first yields to the scheduler, which
decides which thread performs its next operation.  Exactly one controlled thread runs at any time, so a run
is a deterministic function of (programs, fault plan, schedule).  Nothing in /repo is modified.

Scheduling points (label the thread is parked on  <->  model location, see Model/Runner.lean):
  ('start')            idle       ('ret')              r
  ('acq','E')          a0 / b2    ('try','V')          a1
  ('rel','E')          a2/a7/g6   ('rel','V')          a3/b4/c0/d2/g5
  ('center','EC')      a4/a8/g7   ('center','IC')      c1/d1/g1/g3      (enter `with cond:`; the body is atomic)
  ('wake?','EC')       a9         ('wake?','IC')       g2               (timed wait: may return any time)
  ('wake','IC')        c2                                               (untimed wait: only when notified)
  ('sleep')            b0         ('acq','V')          b1/d0/g4
  ('f.result')         b3         ('read','tc')        g0               (unlocked read of _thread_counter)
"""
from __future__ import annotations

import threading

import queasars.circuit_evaluation.mutex_primitives as mp

LABEL = {
    "idle": ("start", None), "r": ("ret", None),
    "a0": ("acq", "E"), "a1": ("try", "V"), "a2": ("rel", "E"), "a3": ("rel", "V"), "a4": ("center", "EC"),
    "a7": ("rel", "E"), "a8": ("center", "EC"), "a9": ("wake?", "EC"),
    "b0": ("sleep", None), "b1": ("acq", "V"), "b2": ("acq", "E"), "b3": ("f.result", None), "b4": ("rel", "V"),
    "c0": ("rel", "V"), "c1": ("center", "IC"), "c2": ("wake", "IC"),
    "d0": ("acq", "V"), "d1": ("center", "IC"), "d2": ("rel", "V"),
    "g0": ("read", "tc"), "g1": ("center", "IC"), "g2": ("wake?", "IC"), "g3": ("center", "IC"),
    "g4": ("acq", "V"), "g5": ("rel", "V"), "g6": ("rel", "E"), "g7": ("center", "EC"),
}


def _faithful_sleep(w):
    """cooperative `sleep`: yields to the scheduler; like time.sleep it rejects a negative duration"""

    def csleep(d):
        if d < 0:
            raise ValueError("sleep length must be non-negative")
        w.yield_(("sleep", None))

    return csleep


class Abort(BaseException):
    pass


class PrimitiveFailure(Exception):
    """raised by the fake wrapped primitive for a failing batch"""

    def __init__(self, k):
        super().__init__(f"fail{k}")
        self.k = k


class World:
    """one controlled execution: `programs[t]` = list of calls of thread t, each a list of pub ids;
    `faults` = set of indices of calls to f whose result() raises."""

    def __init__(self, programs, faults, waiting=0.0, submit_faults=()):
        self.programs = programs
        self.faults = set(faults)
        # failing f calls whose exception is raised by f(...) itself (at submission) instead of by .result()
        self.submit_faults = set(submit_faults) & self.faults
        self.tls = threading.local()
        self.gates = {}
        self.state = {}
        self.ctl = threading.Semaphore(0)
        self.abort = False
        self.fcalls = []  # batches handed to f, in order
        self.in_f = 0  # calls of f in progress (between f(...) and the return of .result())
        self.max_in_f = 0
        self.outs = {t: [] for t in range(len(programs))}
        self.schedule = []  # thread ids chosen
        self.saved = (mp.Lock, mp.Condition, mp.sleep)
        w = self

        class CLock:
            def __init__(s):
                s.owner = None
                s.name = next(w._ln)

            def acquire(s, blocking=True, timeout=-1):
                if blocking:
                    w.yield_(("acq", s.name), lambda: s.owner is None)
                    s.owner = w.tid()
                    return True
                w.yield_(("try", s.name))
                if s.owner is None:
                    s.owner = w.tid()
                    return True
                return False

            def release(s):
                w.yield_(("rel", s.name))
                if s.owner is None:
                    raise RuntimeError("release unlocked lock")
                s.owner = None

            def locked(s):
                return s.owner is not None

            def __enter__(s):
                s.acquire()
                return s

            def __exit__(s, *a):
                s.release()

        class CCond:
            def __init__(s, lock=None):
                s.waiters = []
                s.woken = set()
                s.name = next(w._cn)

            def __enter__(s):
                w.yield_(("center", s.name))
                return s

            def __exit__(s, *a):
                pass

            def wait(s, timeout=None):
                t = w.tid()
                s.waiters.append(t)
                if timeout is None:
                    w.yield_(("wake", s.name), lambda: t in s.woken)
                else:
                    w.yield_(("wake?", s.name), lambda: True)
                if t in s.woken:
                    s.woken.discard(t)
                    return True
                s.waiters.remove(t)
                return False

            def notify(s, n=1):
                for _ in range(n):
                    if s.waiters:
                        s.woken.add(s.waiters.pop(0))

            def notify_all(s):
                s.notify(len(s.waiters))

        self._ln = iter(["E", "V", "L3", "L4"])
        self._cn = iter(["IC", "EC", "C3", "C4"])
        mp.Lock = CLock
        mp.Condition = CCond
        mp.sleep = _faithful_sleep(w)
        # a virtual clock: between any two synchronisation operations an arbitrary amount of time may pass (a pre-empted thread can be away for long),
        # so whatever the module reads from the clock jumps by several seconds per scheduling step.  The reference implementation never reads it.
        import time as _time

        self.vclock = _time.monotonic()
        self._clock_saved = {}
        _clocks = {_time.monotonic: 1.0, _time.time: 1.0, _time.perf_counter: 1.0, _time.monotonic_ns: 1e9, _time.time_ns: 1e9, _time.perf_counter_ns: 1e9}
        for name, val in list(vars(mp).items()):
            if callable(val) and val in _clocks:
                self._clock_saved[name] = val
                unit = _clocks[val]
                setattr(mp, name, (lambda unit=unit: type(unit)(w.vclock * unit) if unit == 1.0 else int(w.vclock * unit)))
            elif val is _time:
                self._clock_saved[name] = val

                class _TimeProxy:
                    def __getattr__(p, attr):
                        real = getattr(_time, attr)
                        if real in _clocks:
                            unit = _clocks[real]
                            return (lambda: w.vclock * unit) if unit == 1.0 else (lambda: int(w.vclock * unit))
                        if attr == "sleep":
                            return mp.sleep
                        return real

                setattr(mp, name, _TimeProxy())

        class Job:
            def __init__(j, pubs, k):
                j.pubs = pubs
                j.k = k

            def result(j):
                try:
                    w.yield_(("f.result", None))
                    if j.k in w.faults:
                        raise PrimitiveFailure(j.k)
                    return list(j.pubs)
                finally:
                    w.in_f -= 1

        def f(pubs):
            k = len(w.fcalls)
            w.fcalls.append(list(pubs))
            w.in_f += 1
            w.max_in_f = max(w.max_in_f, w.in_f)
            if k in w.submit_faults:
                try:
                    w.yield_(("f.result", None))
                    raise PrimitiveFailure(k)
                finally:
                    w.in_f -= 1
            return Job(list(pubs), k)

        # the value the attribute has before its first assignment (0 if the class does not carry a default)
        _TC_DEFAULT = mp.BatchingMutexPrimitiveJobRunner.__dict__.get("_thread_counter", 0)
        self._tc_default = _TC_DEFAULT

        class YRunner(mp.BatchingMutexPrimitiveJobRunner):
            """the library's runner; only the *unlocked* read of `_thread_counter` becomes a scheduling point"""

            @property
            def _thread_counter(s):
                vl = s.__dict__.get("_variable_lock")
                if w.tid() is not None and vl is not None and getattr(vl, "owner", None) != w.tid():
                    w.yield_(("read", "tc"))
                return s.__dict__.get("_tc", _TC_DEFAULT)

            @_thread_counter.setter
            def _thread_counter(s, v):
                s.__dict__["_tc"] = v

        try:
            self.runner = YRunner(f, waiting)
        finally:
            mp.Lock, mp.Condition, mp.sleep = self.saved
        # keep the patched names while the threads run (restored in close())
        mp.sleep = _faithful_sleep(w)
        self.threads = [self._spawn(t, calls) for t, calls in enumerate(programs)]

    # -------------------------------------------------------------------------------------------
    def tid(self):
        return getattr(self.tls, "tid", None)

    def yield_(self, label, enabled=lambda: True):
        t = self.tid()
        if t is None:
            return
        self.state[t] = ("ready", label, enabled)
        self.ctl.release()
        self.gates[t].acquire()
        if self.abort:
            raise Abort()

    def _spawn(self, t, calls):
        self.gates[t] = threading.Semaphore(0)

        def body():
            self.tls.tid = t
            try:
                for pubs in calls:
                    self.yield_(("start", None))
                    try:
                        res, idx = self.runner.run(list(pubs))
                        out = {"ok": list(res), "idx": idx}
                    except Abort:
                        raise
                    except PrimitiveFailure as e:
                        out = {"exc": e.k}
                    except BaseException as e:  # noqa: BLE001
                        out = {"crash": f"{type(e).__name__}: {e}"}
                    self.outs[t].append(out)
                    self.yield_(("ret", None))
            except Abort:
                pass
            self.state[t] = ("done", ("start", None), None)
            self.ctl.release()

        th = threading.Thread(target=body, daemon=True)
        th.start()
        self.ctl.acquire()
        return th

    def enabled(self):
        return sorted(t for t, s in self.state.items() if s[0] == "ready" and s[2]())

    def unfinished(self):
        return [t for t, s in self.state.items() if s[0] != "done"]

    def label(self, t):
        return self.state[t][1]

    def is_pure_timeout(self, t):
        """thread t's next step is the expiry of a timed wait that has not been notified"""
        s = self.state[t]
        if s[0] != "ready" or s[1][0] != "wake?":
            return False
        c = self.runner._internal_wait_condition if s[1][1] == "IC" else self.runner._external_wait_condition
        return t not in c.woken

    def action(self, t):
        """the model action corresponding to scheduling thread t now"""
        lab = self.label(t)
        if lab[0] == "wake?":
            return {"k": "timeout" if self.is_pure_timeout(t) else "step", "t": t}
        if lab[0] == "f.result":
            return {"k": "fret", "t": t, "fail": (len(self.fcalls) - 1) in self.faults}
        return {"k": "step", "t": t}

    def step(self, t):
        self.vclock += 3.0  # (see the virtual clock above)
        self.schedule.append(t)
        self.gates[t].release()
        self.ctl.acquire()

    def snapshot(self):
        r = self.runner
        ex = r._exception
        return {
            "E": r._entry_lock.owner, "V": r._variable_lock.owner,
            "icw": list(r._internal_wait_condition.waiters), "ecw": list(r._external_wait_condition.waiters),
            "tc": r.__dict__.get("_tc", self._tc_default), "ec": r._entry_counter, "blen": r._batch_length,
            "batch": list(r._batched_pubs),
            "res": None if r._result is None else list(r._result),
            "exn": None if ex is None else (ex.k if isinstance(ex, PrimitiveFailure) else repr(ex)),
            "th": [None if self.state[t][0] == "done" else list(self.state[t][1]) for t in range(len(self.programs))],
        }

    def close(self):
        self.abort = True
        for t, s in self.state.items():
            if s[0] != "done":
                self.gates[t].release()
        for th in self.threads:
            th.join(2)
        mp.Lock, mp.Condition, mp.sleep = self.saved
        for name, val in getattr(self, "_clock_saved", {}).items():
            setattr(mp, name, val)
