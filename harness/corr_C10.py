"""C10 — evolutionary operators preserve population invariants (shared harness: evqe_corr.py)."""
import evqe_corr

META = {
    "lean_modules": ["QVerif.Props.C10"],
    "drivers": ["Evqe"],
    "theorems": [
        "QVerif.Evqe.speciation_partition",
        "QVerif.Evqe.selection_spec",
        "QVerif.Evqe.selection_size_roulette",
        "QVerif.Evqe.argmin_lt",
        "QVerif.Evqe.applyMutStep_spec",
        "QVerif.Evqe.mutateFrom_spec",
        "QVerif.Evqe.mutation_spec",
        "QVerif.Evqe.assign_spec",
        "QVerif.Evqe.redraw_spec",
    ],
    "level": "proof",
    "level_text": "Proof (model Model/Evqe.lean; every random draw, evaluator value and optimiser result is an oracle input): after speciation the member lists are "
    "a permutation of 0..n-1, every representative is individuals[j] for a j of its own list, representatives = keys of the member map, membership = its inverse, "
    "representatives pairwise Python-unequal (speciation_partition, for Python's hash-equality incl. colliding mirror layers); selection reports one count of n, then "
    "(if species information is present) one result for its input population with the positional expectation values and their first minimum, and returns only input "
    "individuals (selection_spec); mutation keeps the size, reports one count and changes each individual only as documented: parameter search keeps the structure, "
    "topological search appends exactly one layer with the old layers/values as prefix, layer removal leaves single-layer individuals alone or drops a non-empty proper "
    "suffix; valid individuals stay valid (applyMutStep_spec, mutateFrom_spec, mutation_spec). Tied to the code by replaying recorded RNG/optimiser outcomes.",
    "level_note": "Trusted: Lean kernel + standard axioms; hand-written model tied by sampled correspondence; Python's tuple/float hashing is injective on the keys of a run "
    "(hash equality of individuals = equality of their field tuples ignoring gate classes); results of parallel tasks are collected positionally (mirrored, and exercised with "
    "3 workers and delays); random.choice returns a member. Tournament selection size = n needs n non-empty tournaments (covered by the correspondence).",
    "rule": "cases = operator applications inside random operator sequences (length 1-10 over speciation with thresholds 0-3, roulette/tournament selection, last-layer and "
    "full parameter search with a fake optimiser, topological search, layer removal; probabilities 0/0.3/0.6/1) on populations of 2-9 individuals on 1-3 qubits (random "
    "constructors, hand-made layers incl. parameter-less ones, duplicates), 1 or 3 worker threads with delays; the model is fed the recorded draws and must reproduce "
    "populations and callback events; oracles check every clause on the implementation after every operator. non-trivial = population of >= 3; distinct = (operator, input population)",
    "trusted_base": ["Lean 4 kernel; axioms per theorem under coverage.theorems", "harness/corr_C10.py, evqe_corr.py, genome_corr.py, Driver/Evqe.lean",
                     "recording subclass of random.Random (stream identical to production: checked at start-up)"],
    "assumptions": ["no hash collisions beyond the structural ones modelled (mirror layers)"],
}


def run(ctx):
    import warnings
    warnings.filterwarnings("ignore")
    evqe_corr.run_cluster(ctx, "C10")


def replay(ctx, case):
    evqe_corr.replay_case(ctx, "C10", case)
