"""C08 — batching runner cluster (shared harness: runner_corr.py, sched.py)."""
import runner_corr

META = {
    "lean_modules": ["QVerif.Props.C08"],
    "drivers": ["Runner"],
    "theorems": ['Runner.C08_every_fair_execution_completes', 'Runner.no_infinite_fair_execution', 'Runner.fair_of_stuck', 'Runner.C08_step_decreases_or_retries', 'Runner.C08_bounded_work', 'Runner.C08_can_always_complete', 'Runner.C08_no_deadlock', 'Runner.progress', 'Runner.step_complete', 'Runner.dinv_reachable'],
    "level": "proof",
    "level_text": "Proof: can_always_complete — from every reachable state of the runner model (any threads/calls/interleaving/failing batches, timed waits firing early or late) some finite continuation reaches quiescence, via `progress` (an enabled step decreasing a lexicographic measure exists in every non-quiescent state satisfying the invariants); hence no deadlock and no doomed state. Under ANY scheduler (no fairness assumed): every step strictly decreases the measure (callsLeft, sum of rank2) or is an iteration step of one of the two timed retry loops (entry retry a0-a9, executor drain g0-g3) that does not increase it (C08_step_decreases_or_retries), so every execution contains at most weight(s) steps that are not retry iterations (C08_bounded_work): a call can fail to return only if a thread iterates a timed retry loop forever, which is never forced (can_always_complete). EVERY CALL RETURNS UNDER EVERY STRONGLY FAIR SCHEDULE (C08_every_fair_execution_completes): every maximal execution from a reachable state in which each thread whose next synchronisation operation is enabled infinitely often performs it infinitely often (f returning is such an operation) reaches a quiescent state — there is no infinite strongly fair execution (no_infinite_fair_execution: after finitely many non-retry steps only retry-loop steps remain; threads outside the loops are then never enabled again; in such a 'quiet' state every retry step decreases a second measure Psi, by a case analysis on who holds the variable lock). Strong (not weak) fairness is exactly what is needed: the executor-elect's acquire of the entry lock is enabled only intermittently while a caller spins in the entry retry loop. What remains assumed: that the OS scheduler and CPython's lock hand-over are strongly fair in this sense, and that the wrapped primitive returns. Tied to the code by lock-step trace conformance.",
    "level_note": "Trusted: Lean kernel + propext/Classical.choice/Quot.sound; the hand-written transition system Model/Runner.lean is tied to "
    "mutex_primitives.py by the sampled lock-step conformance only; semantics of threading.Lock/Condition as modelled by the cooperative "
    "primitives; scheduler fairness for liveness; the wrapped primitive returns or raises.",
    "rule": "cases = controlled executions of the real BatchingMutexPrimitiveJobRunner.run: 1-5 threads x 1-3 calls x 0-3 pubs, fault plans "
    "(none / first / random / consecutive batches fail, raised by result() or at submission), schedules from seeded random walk, lazy/eager "
    "timeout firing, PCT priorities, sticky (few pre-emptions) and exhaustive bounded-pre-emption DFS on small configurations; after EVERY step "
    "lock owners, both waiter lists, all counters, batch, result/exception and each thread's pending synchronisation operation are compared with "
    "the Lean model; returned values and the log of f calls are compared at the end; the oracles (own slice, each pub once, overlap counter, "
    "no hang, exception delivery, reset) run on the implementation alone. non-trivial = >= 2 threads and >= 20 steps; distinct = (programs, faults, schedule)",
    "trusted_base": ['Lean 4 kernel; axioms of each theorem as listed under coverage.theorems (subset of propext, Classical.choice, Quot.sound)', "harness/sched.py: cooperative Lock/Condition/sleep replacing the names in mutex_primitives' namespace (mutual exclusion; wait atomically enqueues and releases; notify wakes only current waiters, FIFO; untimed wait has no spurious wake-up; a timed wait may return at any time); CPython's real primitives are assumed to behave like that", "harness/runner_corr.py + Driver/Runner.lean (translation of scheduling decisions into model actions, comparison of all shared fields and of every thread's pending synchronisation operation after every step)", 'the wrapped primitive returns or raises (it does not block forever)'],
    "assumptions": ["the scheduler is strongly fair (hypothesis StrongFair of C08_every_fair_execution_completes)", "the wrapped primitive returns or raises"],
}


def run(ctx):
    import wrapper_corr

    # the wrapper level first (seconds): once the trace conformance is broken, the runner cluster spends the remaining budget on its searches
    wrapper_corr.run_wrapper_level(ctx, "C08")
    runner_corr.run_cluster(ctx, "C08")


def replay(ctx, case):
    inp = case.get("case", case).get("input", case.get("input")) or {}
    if "wrapper_level" in inp:
        import wrapper_corr

        return wrapper_corr.replay_wrapper_level(ctx, "C08", inp["wrapper_level"])
    runner_corr.replay_case(ctx, "C08", case)
