"""C19 — correspondence + oracle for problem_instances.py (validators, result verdicts)."""
from __future__ import annotations

import itertools

from queasars.job_shop_scheduling import problem_instances as pi

META = {
    "lean_modules": ["QVerif.Props.C19"],
    "drivers": ["Jssp"],
    "theorems": [
        "QVerif.Jssp.accepted_iff_wellformed",
        "QVerif.Jssp.checkMachine_ok_iff",
        "QVerif.Jssp.checkOperation_ok_iff",
        "QVerif.Jssp.checkJob_ok_iff",
        "QVerif.Jssp.checkInstance_ok_iff",
        "QVerif.Jssp.checkResult_ok_iff",
        "QVerif.Jssp.isValidRows_iff_feasible",
        "QVerif.Jssp.isValid_iff_feasible",
        "QVerif.Jssp.makespan_spec",
        "QVerif.Jssp.validSchedule_raises_iff",
    ],
    "level": "proof",
    "level_text": "Proof: Lean theorems isValid_iff_feasible (verdict = JSSP definition for every instance and every assignment, "
    "tie order of equal start times irrelevant), makespan_spec, validSchedule_raises_iff, accepted_iff_wellformed / checkResult_ok_iff "
    "(constructors accept exactly well-formed data) about the model of problem_instances.py; model tied to the code by a differential "
    "correspondence run on every check. Right level: the property quantifies over all instances and all assignments.",
    "level_note": "Trusted: Lean kernel + propext/Classical.choice/Quot.sound; the hand-written model Model/Jssp.lean is tied to the code only by "
    "the sampled correspondence (harness/corr_C19.py); CPython set/sorted/dataclass-equality semantics are assumed.",
    "rule": "cases = (a) raw constructor data over the alphabet names {'', a, b, a_b}, durations {-1,0,1,2,3}, "
    "duplicate/undeclared machines, mismatched job names, built bottom-up on the implementation and in the model "
    "(first error kind compared); (b) accepted instances x start-time assignments (equal starts, touching, "
    "overlapping, negative, unscheduled) and malformed schedule dicts (missing/extra job, wrong operations): "
    "constructor verdict, is_valid, makespan, valid_schedule compared. non-trivial = not the empty instance and, "
    "for (b), at least two operations share a machine or a job has >= 2 operations; distinct = canonical JSON of the input",
    "trusted_base": [
        "Lean 4 kernel; axioms of each theorem as listed under coverage.theorems (subset of propext, Classical.choice, Quot.sound)",
        "harness/corr_C19.py + Driver/Jssp.lean (translation of inputs/outputs)",
        "CPython: len(set(xs)) counts distinct elements, dataclass equality is field-wise, sorted() returns a permutation ordered by key",
    ],
    "assumptions": ["start times and durations are Python ints (unbounded)"],
}

MSG = [
    ("The name of a Machine", "machineEmptyName"),
    ("The name of an Operation", "opEmptyName"),
    ("The job_name of an Operation", "opEmptyJobName"),
    ("The processing_duration", "opBadDuration"),
    ("The name of a Job ", "jobEmptyName"),
    ("This job contains no operations", "jobNoOps"),
    ("The identifiers of all operations", "jobDupIdent"),
    ("The job_name of an operation was mismatched", "jobNameMismatch"),
    ("The machine ", "jobMachineRevisit"),
    ("The name of a JobShopSchedulingProblemInstance", "instEmptyName"),
    ("The Machines in a", "instDupMachines"),
    ("The names of the Jobs", "instDupJobNames"),
    ("The Jobs in a JobShopSchedulingProblemInstance must not access", "instUndeclaredMachine"),
    ("The JobShopSchedulingResult must contain the same Jobs", "resJobsMismatch"),
    ("The schedule for a Job must contain the same operations", "resOpsMismatch"),
    ("Cannot access a valid schedule", "invalidResult"),
]


def kind_of(e: Exception) -> str:
    if isinstance(e, pi.JobShopSchedulingProblemException):
        s = str(e)
        for pre, k in MSG:
            if s.startswith(pre):
                return k
        return "unknownJSSPException:" + s[:40]
    return "exc:" + type(e).__name__


# ------------------------------------------------------------------------------------------------
# building on the implementation (bottom-up, in the order the model uses)


def build_impl(raw):
    """raw = {"name", "machines": [str], "jobs": [{"name", "ops": [{"name","job","machine","dur"}]}]}
    returns ("ok", instance) or ("err", kind)"""
    try:
        machines = tuple(pi.Machine(m) for m in raw["machines"])
        jobs = []
        for j in raw["jobs"]:
            ops = []
            for o in j["ops"]:
                m = pi.Machine(o["machine"])
                ops.append(pi.Operation(o["name"], o["job"], m, o["dur"]))
            jobs.append(pi.Job(j["name"], tuple(ops)))
        inst = pi.JobShopSchedulingProblemInstance(raw["name"], machines, tuple(jobs))
        return "ok", inst
    except Exception as e:  # noqa: BLE001
        return "err", kind_of(e)


def wf_oracle(raw) -> bool:
    """the documented well-formedness rules, written independently of the implementation"""
    if raw["name"] == "" or any(m == "" for m in raw["machines"]):
        return False
    if len(raw["machines"]) != len(set(raw["machines"])):
        return False
    names = [j["name"] for j in raw["jobs"]]
    if len(names) != len(set(names)):
        return False
    for j in raw["jobs"]:
        if j["name"] == "" or not j["ops"]:
            return False
        idents = [o["job"] + "_" + o["name"] for o in j["ops"]]
        if len(set(idents)) != len(idents):
            return False
        ms = [o["machine"] for o in j["ops"]]
        if len(set(ms)) != len(ms):
            return False
        for o in j["ops"]:
            if o["name"] == "" or o["job"] == "" or o["machine"] == "" or o["dur"] < 1:
                return False
            if o["job"] != j["name"] or o["machine"] not in raw["machines"]:
                return False
    return True


def feasible_oracle(raw, starts):
    """JSSP definition on raw data; starts[j][k] is an int or None. returns (feasible, latest_end)"""
    flat = []
    for j, row in zip(raw["jobs"], starts):
        prev_end = None
        for o, s in zip(j["ops"], row):
            if s is None:
                return False, None
            if prev_end is not None and s < prev_end:
                return False, None
            prev_end = s + o["dur"]
            flat.append((o["machine"], s, s + o["dur"]))
    for a, b in itertools.combinations(flat, 2):
        if a[0] == b[0] and a[1] < b[2] and b[1] < a[2]:
            return False, None
    return True, max((e for _, _, e in flat), default=0)


# ------------------------------------------------------------------------------------------------
# generators

NAMES = ["", "a", "b", "a_b", "c"]
DURS = [-1, 0, 1, 1, 2, 2, 3]


def gen_raw_alphabet(rng):
    """mostly-valid raw data with seeded defects"""
    nm = rng.choice([1, 2, 2, 3])
    machines = [f"m{i}" for i in range(nm)]
    nj = rng.choice([0, 1, 2, 2, 3])
    jobs = []
    for ji in range(nj):
        jn = f"j{ji}"
        k = rng.randint(1, nm)
        ms = rng.sample(machines, k)
        ops = [{"name": f"o{oi}", "job": jn, "machine": m, "dur": rng.choice([1, 1, 2, 3])} for oi, m in enumerate(ms)]
        jobs.append({"name": jn, "ops": ops})
    raw = {"name": "inst", "machines": machines, "jobs": jobs}
    # seeded defects (0..2)
    for _ in range(rng.choice([0, 0, 1, 1, 1, 2])):
        d = rng.randrange(14)
        if d == 0:
            raw["name"] = ""
        elif d == 1 and raw["machines"]:
            raw["machines"][rng.randrange(len(raw["machines"]))] = rng.choice(["", raw["machines"][0]])
        elif d == 2 and jobs:
            rng.choice(jobs)["name"] = rng.choice(["", jobs[0]["name"], "zz"])
        elif d == 3 and jobs:
            rng.choice(jobs)["ops"] = []
        elif d == 4 and jobs:
            j = rng.choice(jobs)
            if j["ops"]:
                rng.choice(j["ops"])["name"] = rng.choice(["", j["ops"][0]["name"]])
        elif d == 5 and jobs:
            j = rng.choice(jobs)
            if j["ops"]:
                rng.choice(j["ops"])["job"] = rng.choice(["", "other", jobs[0]["name"]])
        elif d == 6 and jobs:
            j = rng.choice(jobs)
            if j["ops"]:
                rng.choice(j["ops"])["dur"] = rng.choice([-1, 0])
        elif d == 7 and jobs:
            j = rng.choice(jobs)
            if j["ops"]:
                rng.choice(j["ops"])["machine"] = rng.choice(["", "undeclared", j["ops"][0]["machine"]])
        elif d == 8 and jobs and raw["machines"]:
            # identifier collision through the separator: job "a", op "b_c" vs job "a_b", op "c"
            j = rng.choice(jobs)
            j["name"] = "a"
            j["ops"] = [
                {"name": "b_c", "job": "a", "machine": raw["machines"][0], "dur": 1},
                {"name": "c", "job": "a_b", "machine": raw["machines"][-1], "dur": 1},
            ]
        elif d == 9:
            raw["machines"] = raw["machines"] + raw["machines"][:1]
        elif d == 10 and len(jobs) >= 2:
            jobs[1]["name"] = jobs[0]["name"]
            for o in jobs[1]["ops"]:
                o["job"] = jobs[0]["name"]
        elif d == 11 and jobs:
            j = rng.choice(jobs)
            if len(j["ops"]) >= 1:
                j["ops"].append(dict(j["ops"][0]))
        elif d == 12 and jobs:
            j = rng.choice(jobs)
            for o in j["ops"]:
                o["job"] = "renamed"
            j["name"] = "renamed"
        elif d == 13:
            raw["machines"] = []
    return raw


def gen_valid_raw(rng, max_jobs=4, max_machines=4):
    nm = rng.randint(1, max_machines)
    machines = [f"m{i}" for i in range(nm)]
    if rng.random() < 0.15:
        machines.append("unused")
    nj = rng.choice([0] + list(range(1, max_jobs + 1)) * 4)
    jobs = []
    # a third of the instances: operation oi of EVERY job has the same Operation.identifier (job_name + "_" + name) although job names differ and
    # operation names are unique within each job (job "j" / op "x_o0", job "j_x" / op "o0": both "j_x_o0") — legal; the operations stay distinct
    collide = nj >= 2 and rng.random() < 0.33
    for ji in range(nj):
        jn = "j" + "_x" * ji if collide else f"j{ji}"
        k = rng.randint(1, nm)
        ms = rng.sample(machines[:nm], k)
        ops = [{"name": ("x_" * (nj - 1 - ji) if collide else "") + f"o{oi}", "job": jn, "machine": m, "dur": rng.choice([1, 1, 2, 3])} for oi, m in enumerate(ms)]
        jobs.append({"name": jn, "ops": ops})
    return {"name": "inst", "machines": machines, "jobs": jobs}


def gen_starts(rng, raw):
    mode = rng.randrange(6)
    starts = []
    if mode == 0:
        # a feasible greedy schedule (machines and jobs serialised), occasionally perturbed later
        mfree = {}
        for j in raw["jobs"]:
            t, row = 0, []
            for o in j["ops"]:
                s = max(t, mfree.get(o["machine"], 0))
                row.append(s)
                t = s + o["dur"]
                mfree[o["machine"]] = t
            starts.append(row)
    else:
        hi = rng.choice([2, 4, 8])
        for j in raw["jobs"]:
            if mode in (1, 2):
                # precedence-respecting within the job, machines unconstrained (ties/touching likely)
                t, row = rng.randint(0, 2), []
                for o in j["ops"]:
                    s = t + rng.choice([0, 0, 0, 1])
                    row.append(s)
                    t = s + o["dur"]
                starts.append(row)
            else:
                starts.append([rng.randint(-1 if mode == 5 else 0, hi) for _ in j["ops"]])
    # perturb
    if starts and rng.random() < 0.35:
        r = rng.choice(starts)
        if r:
            r[rng.randrange(len(r))] = rng.choice([None, 0, 1, r[0]])
    return starts


def schedule_json(raw, starts, keyjobs=None):
    jobs = raw["jobs"] if keyjobs is None else keyjobs
    return [{"job": j, "row": [{"op": o, "start": s} for o, s in zip(j["ops"], row)]} for j, row in zip(jobs, starts)]


def impl_result(inst, raw, sched_json):
    """build the schedule dict from the JSON form (jobs in it may differ from the instance's)"""
    try:
        sched = {}
        for e in sched_json:
            j = e["job"]
            ops = tuple(pi.Operation(o["name"], o["job"], pi.Machine(o["machine"]), o["dur"]) for o in j["ops"])
            job = pi.Job(j["name"], ops)
            row = []
            for so in e["row"]:
                o = so["op"]
                op = pi.Operation(o["name"], o["job"], pi.Machine(o["machine"]), o["dur"])
                row.append(pi.UnscheduledOperation(op) if so["start"] is None else pi.ScheduledOperation(op, so["start"]))
            sched[job] = tuple(row)
        res = pi.JobShopSchedulingResult(inst, sched)
    except Exception as e:  # noqa: BLE001
        return {"err": kind_of(e)}
    out = {"ok": True}
    try:
        out["valid"] = res.is_valid
    except Exception as e:  # noqa: BLE001
        out["valid"] = kind_of(e)
    try:
        out["makespan"] = res.makespan
    except Exception as e:  # noqa: BLE001
        out["makespan"] = kind_of(e)
    try:
        vs = res.valid_schedule
        out["valid_schedule"] = "ok" if vs is res.schedule or vs == res.schedule else "other"
    except Exception as e:  # noqa: BLE001
        out["valid_schedule"] = kind_of(e)
    return out


# ------------------------------------------------------------------------------------------------


def check_build(ctx, raw, tag):
    status, val = build_impl(raw)
    impl = {"ok": True} if status == "ok" else {"err": val}
    ctx.case({"build": raw}, nontrivial=bool(raw["jobs"]), tags=[tag, "build:" + (val if status == "err" else "ok")])
    wf = wf_oracle(raw)
    if (status == "ok") != wf:
        ctx.violate(
            "constructor accepts data violating the well-formedness rules" if status == "ok" else "constructor rejects well-formed data",
            {"build": raw}, impl, key="C19:accept!=wf")
    elif status == "err" and val.startswith(("exc:", "unknown")):
        ctx.violate("constructor raised an undocumented exception", {"build": raw}, impl, key="C19:undocumented-exc")
    drv = ctx.lean("Jssp")
    if drv is not None:
        ctx.compare("jssp.build", {"build": raw}, impl, drv.ask({"op": "jssp.build", "inst": raw}))
    return status, val


def check_result(ctx, raw, inst, sched_json, starts, matching, tag):
    impl = impl_result(inst, raw, sched_json)
    inp = {"inst": raw, "sched": sched_json}
    nops = sum(len(j["ops"]) for j in raw["jobs"])
    ctx.case(inp, nontrivial=nops >= 2, tags=[tag, "res:" + ("err" if "err" in impl else ("valid" if impl.get("valid") is True else "invalid"))])
    if matching:
        if "err" in impl:
            ctx.violate("result constructor rejects a schedule that matches its instance", inp, impl, key="C19:result-rejects-matching")
        else:
            feas, latest = feasible_oracle(raw, starts)
            exp = {"ok": True, "valid": feas, "makespan": latest if feas else None,
                   "valid_schedule": "ok" if feas else "invalidResult"}
            if impl != exp:
                what = "is_valid differs from the JSSP definition" if impl.get("valid") != feas else (
                    "makespan is not the latest end time / None" if impl.get("makespan") != exp["makespan"] else
                    "valid_schedule accessor does not raise exactly when invalid")
                ctx.violate(what, inp, {"impl": impl, "definition": exp}, key="C19:" + what)
    else:
        if "err" not in impl:
            ctx.violate("result constructor accepts a schedule that does not match its instance", inp, impl, key="C19:result-accepts-mismatch")
    drv = ctx.lean("Jssp")
    if drv is not None:
        ctx.compare("jssp.result", inp, impl, drv.ask({"op": "jssp.result", "inst": raw, "sched": sched_json}))


def mutate_schedule(rng, raw, starts):
    """a schedule dict that does NOT match the instance"""
    import copy

    sj = schedule_json(raw, starts)
    sj = copy.deepcopy(sj)
    k = rng.randrange(5)
    if k == 0 and sj:
        sj.pop(rng.randrange(len(sj)))
        return sj
    if k == 1:
        extra = {"name": "extra", "ops": [{"name": "x", "job": "extra", "machine": raw["machines"][0], "dur": 1}]}
        sj.append({"job": extra, "row": [{"op": extra["ops"][0], "start": 0}]})
        return sj
    if k == 2 and sj:
        e = rng.choice(sj)
        if len(e["row"]) >= 2:
            e["row"] = list(reversed(e["row"]))
            return sj
        e["row"] = []
        return sj
    if k == 3 and sj:
        e = rng.choice(sj)
        e["row"][0]["op"]["dur"] += 1
        return sj
    if k == 4 and sj:
        e = rng.choice(sj)
        e["row"] = e["row"][:-1]
        return sj
    return None


def run(ctx):
    rng = ctx.rng
    # (a) constructor alphabet
    for _ in range(ctx.n(600, 20000)):
        if ctx.out_of_time():
            break
        check_build(ctx, gen_raw_alphabet(rng), "alphabet")
    # exhaustive tiny alphabet: one job, <= 2 ops, all names/durs
    tiny = 0
    for jn, on1, oj1, d1, m1 in itertools.product(["", "a"], ["", "a", "b"], ["", "a", "b"], [0, 1], ["", "m", "n"]):
        raw = {"name": "i", "machines": ["m"], "jobs": [{"name": jn, "ops": [{"name": on1, "job": oj1, "machine": m1, "dur": d1}]}]}
        check_build(ctx, raw, "tiny")
        tiny += 1
    ctx.extra["exhaustive_tiny_alphabet_cases"] = tiny
    # (b) results on accepted instances
    for _ in range(ctx.n(1500, 60000)):
        if ctx.out_of_time():
            break
        raw = gen_valid_raw(rng)
        status, inst = build_impl(raw)
        if status != "ok":
            ctx.violate("constructor rejects well-formed data", {"build": raw}, inst, key="C19:accept!=wf")
            continue
        starts = gen_starts(rng, raw)
        if rng.random() < 0.12:
            sj = mutate_schedule(rng, raw, starts)
            if sj is not None:
                check_result(ctx, raw, inst, sj, None, False, "mismatch")
                continue
        check_result(ctx, raw, inst, schedule_json(raw, starts), starts, True, "result")
    # exhaustive small scope: 2 jobs x 2 ops on 2 machines, starts in 0..3 (256 assignments) + unscheduled
    raw = {"name": "i", "machines": ["m1", "m2"], "jobs": [
        {"name": "j1", "ops": [{"name": "o1", "job": "j1", "machine": "m1", "dur": 1}, {"name": "o2", "job": "j1", "machine": "m2", "dur": 1}]},
        {"name": "j2", "ops": [{"name": "o1", "job": "j2", "machine": "m2", "dur": 1}, {"name": "o2", "job": "j2", "machine": "m1", "dur": 2}]}]}
    _, inst = build_impl(raw)
    vals = [None, 0, 1, 2, 3] if ctx.thorough() else [None, 0, 1, 2]
    for a, b, c, d in itertools.product(vals, repeat=4):
        starts = [[a, b], [c, d]]
        check_result(ctx, raw, inst, schedule_json(raw, starts), starts, True, "exhaustive2x2")


def replay(ctx, case):
    inp = case.get("case", case).get("input", case.get("input"))
    if "build" in inp:
        check_build(ctx, inp["build"], "replay")
    else:
        raw = inp["inst"]
        status, inst = build_impl(raw)
        if status != "ok":
            ctx.violate("constructor rejects the instance of the replay", inp, inst)
            return
        jobs_match = [e["job"] for e in inp["sched"]] == raw["jobs"] and all(
            [so["op"] for so in e["row"]] == e["job"]["ops"] for e in inp["sched"])
        starts = [[so["start"] for so in e["row"]] for e in inp["sched"]] if jobs_match else None
        check_result(ctx, raw, inst, inp["sched"], starts, jobs_match, "replay")
