"""Lock-step correspondence of the real BatchingMutexPrimitiveJobRunner.run with Model/Runner.lean, plus the
independent oracles for C06 (own results, each pub once), C07 (f never concurrent), C08 (no hang), C09 (failure
delivery and re-usability).  Shared by corr_C06 … corr_C09."""
from __future__ import annotations

import itertools
import random

import sched as S

MAX_STEPS = 1500
FAIR_STEPS = 1500


def gen_config(rng, big=False):
    nt = rng.choice([1, 2, 2, 2, 3, 3, 4] if not big else [2, 3, 4, 5])
    ids = itertools.count(1)
    programs = [
        [[next(ids) for _ in range(rng.choice([0, 1, 1, 2, 3]))] for _ in range(rng.choice([1, 1, 2, 3] if not big else [1, 2]))]
        for _ in range(nt)
    ]
    ncalls = sum(len(p) for p in programs)
    mode = rng.randrange(4)
    if mode == 0:
        faults = set()
    elif mode == 1:
        faults = {0}
    elif mode == 2:
        faults = {k for k in range(ncalls) if rng.random() < 0.3}
    else:
        k = rng.randrange(max(1, ncalls))
        faults = {k, k + 1}  # consecutive batches fail
    submit = sorted(k for k in faults if rng.random() < 0.4)
    return programs, sorted(faults), submit


class Chooser:
    """schedule generators; `pick(world)` returns a thread id from world.enabled()"""

    def __init__(self, kind, rng, nthreads, prefix=None):
        self.kind, self.rng, self.prefix, self.i = kind, rng, list(prefix or []), 0
        self.prio = list(range(nthreads))
        rng.shuffle(self.prio)
        self.change = {rng.randrange(1, 120) for _ in range(rng.choice([1, 2, 3]))}
        self.last = None

    def pick(self, w, en):
        self.i += 1
        if self.prefix:
            t = self.prefix.pop(0)
            if t in en:
                return t
        if self.kind == "random":
            return self.rng.choice(en)
        if self.kind == "lazy-timeouts":
            non = [t for t in en if not w.is_pure_timeout(t)]
            return self.rng.choice(non or en)
        if self.kind == "eager-timeouts":
            tos = [t for t in en if w.is_pure_timeout(t)]
            return self.rng.choice(tos) if tos and self.rng.random() < 0.7 else self.rng.choice(en)
        if self.kind == "pct":
            if self.i in self.change:
                # demote the currently highest enabled thread
                top = min(en, key=self.prio.index)
                self.prio.remove(top)
                self.prio.append(top)
            non = [t for t in en if not w.is_pure_timeout(t)]
            return min(non or en, key=self.prio.index)
        if self.kind == "sticky":
            # run one thread as long as possible, switch rarely (few pre-emptions)
            if self.last in en and not w.is_pure_timeout(self.last) and self.rng.random() < 0.9:
                return self.last
            non = [t for t in en if not w.is_pure_timeout(t)]
            self.last = self.rng.choice(non or en)
            return self.last
        if self.kind == "starve":
            # one victim thread is parked at a random point for a long stretch (everybody else runs on, whole batches may pass) and resumes later:
            # exposes stale notifications / state that a delayed thread carries into a later batch
            if not hasattr(self, "victim"):
                self.victim = self.rng.randrange(len(self.prio))
                self.start = self.rng.randrange(3, 90)
                self.length = self.rng.randrange(30, 400)
            others = [t for t in en if t != self.victim]
            if self.start <= self.i < self.start + self.length and others:
                non = [t for t in others if not w.is_pure_timeout(t)]
                return self.rng.choice(non or others)
            non = [t for t in en if not w.is_pure_timeout(t)]
            return self.rng.choice(non or en) if self.rng.random() < 0.7 else self.rng.choice(en)
        raise ValueError(self.kind)


def execute(programs, faults, chooser, record=True, max_steps=MAX_STEPS, submit=()):
    """runs the real code under the chooser; returns a dict describing the execution"""
    w = S.World(programs, faults, submit_faults=submit)
    acts, snaps = [], []
    hang = None
    try:
        init = w.snapshot()
        n = 0
        rr = 0
        while w.unfinished():
            en = w.enabled()
            if not en:
                hang = "deadlock: unfinished threads and no enabled thread"
                break
            if n < max_steps:
                t = chooser.pick(w, en)
            elif n < max_steps + FAIR_STEPS:
                # fair round robin fallback: every enabled thread is scheduled again and again
                rr += 1
                t = en[rr % len(en)]
            else:
                hang = f"no completion within {max_steps}+{FAIR_STEPS} steps (last {FAIR_STEPS} under fair round-robin scheduling)"
                break
            a = w.action(t)
            w.step(t)
            n += 1
            if record:
                acts.append(a)
                snaps.append(w.snapshot())
        res = {
            "programs": programs, "faults": faults, "submit": list(submit), "schedule": list(w.schedule), "steps": n, "hang": hang,
            "init": init, "acts": acts, "snaps": snaps, "fcalls": [list(b) for b in w.fcalls],
            "outs": {t: list(o) for t, o in w.outs.items()}, "max_in_f": w.max_in_f,
            "final": w.snapshot(),
        }
    finally:
        w.close()
    return res


# -------------------------------------------------------------------------------------------------
# oracles on the implementation (independent of the Lean model)


def oracle(ex):
    """returns a list of (property, what) violated by this execution"""
    bad = []
    programs, faults, fcalls, outs = ex["programs"], set(ex["faults"]), ex["fcalls"], ex["outs"]
    if ex["hang"]:
        bad.append(("C08", "a caller blocks forever / the wrapper stops making progress: " + ex["hang"]))
        bad.append(("C06", "a call never returns: " + ex["hang"]))
        if faults:
            bad.append(("C09", "a caller hangs after a batch failed: " + ex["hang"]))
    if ex["max_in_f"] > 1:
        bad.append(("C07", f"{ex['max_in_f']} invocations of the wrapped primitive in progress at the same time"))
    # each pub handed to f exactly once (over completed calls); never twice
    handed = [p for b in fcalls for p in b]
    if len(handed) != len(set(handed)):
        bad.append(("C06", "a pub was handed to the wrapped primitive more than once"))
    where = {}
    for k, b in enumerate(fcalls):
        for p in b:
            where.setdefault(p, k)
    for t, calls in enumerate(programs):
        for ci, out in enumerate(outs.get(t, [])):
            pubs = calls[ci]
            ks = {where.get(p) for p in pubs}
            if "crash" in out:
                bad.append(("C09" if faults else "C06", f"call raised an exception the wrapped primitive did not raise: {out['crash']}"))
                continue
            if pubs and (None in ks or len(ks) != 1):
                bad.append(("C06", "pubs of a finished call were not handed to the primitive in exactly one batch"))
                continue
            if "ok" in out:
                got = out["ok"][out["idx"]: out["idx"] + len(pubs)]
                if got != pubs:
                    bad.append(("C06", f"call with pubs {pubs} received results {got}"))
                if pubs and next(iter(ks)) in faults:
                    bad.append(("C09", "a caller of a failing batch received a result instead of the exception"))
            elif "exc" in out:
                k = out["exc"]
                if pubs:
                    if next(iter(ks)) != k:
                        bad.append(("C09", f"caller received the exception of batch {k} but its pubs were in batch {next(iter(ks))}"))
                else:
                    # a call without pubs still belongs to some batch; it may only see an exception of a failing batch
                    if k not in faults:
                        bad.append(("C09", "caller received an exception although no batch failed"))
    if not ex["hang"]:
        # every call finished and every submitted pub was handed over exactly once
        submitted = sorted(p for calls in programs for c in calls for p in c)
        if sorted(handed) != submitted:
            bad.append(("C06", "not every submitted pub was handed to the wrapped primitive exactly once"))
        for t, calls in enumerate(programs):
            if len(outs.get(t, [])) != len(calls):
                bad.append(("C08", "a call did not complete"))
        fin = ex["final"]
        if not (fin["E"] is None and fin["V"] is None and fin["tc"] == 0 and fin["ec"] == 0 and fin["blen"] == 0
                and fin["batch"] == [] and fin["res"] is None and fin["exn"] is None and not fin["icw"] and not fin["ecw"]):
            bad.append(("C09", f"shared state not reset after all calls returned: {fin}"))
    return bad


# -------------------------------------------------------------------------------------------------
# conformance with the model


def conform(ex, drv):
    """returns None or a description of the first disagreement between the execution and the model"""
    r = drv.ask({"op": "runner.trace", "progs": ex["programs"], "acts": ex["acts"]})
    if "driver_error" in r:
        return "driver error: " + r["driver_error"]
    states = [r["init"]] + r["states"]
    impl = [ex["init"]] + ex["snaps"]
    if r["disabled_at"] is not None:
        i = r["disabled_at"]
        return f"step {i + 1}: the model refuses action {ex['acts'][i]} that the implementation performed (model thread state {states[i]['th'][ex['acts'][i]['t']]['loc']}, impl label {impl[i]['th'][ex['acts'][i]['t']]})"
    for i, (m, s) in enumerate(zip(states, impl)):
        for k in ("E", "V", "icw", "ecw", "tc", "ec", "blen", "batch", "res", "exn"):
            if m[k] != s[k]:
                return f"after step {i} ({ex['acts'][i - 1] if i else 'init'}): field {k}: impl={s[k]} model={m[k]}"
        for t, x in enumerate(m["th"]):
            want = list(S.LABEL[x["loc"]])
            have = s["th"][t]
            if have is None:
                if x["loc"] != "idle":
                    return f"after step {i}: thread {t} finished in the implementation but the model is at {x['loc']}"
            elif have != want:
                return f"after step {i} ({ex['acts'][i - 1] if i else 'init'}): thread {t} implementation is at {have}, model at {x['loc']} expects {want}"
    if not ex["hang"]:
        # data level: outcomes per call and the log of f calls
        mf = [e["batch"] for e in r["flog"]]
        if mf != ex["fcalls"]:
            return f"batches handed to f: impl={ex['fcalls']} model={mf}"
        last = states[-1]
        for t, x in enumerate(last["th"]):
            mo = [({"ok": o["out"]["ok"], "idx": o["idx"]} if "ok" in o["out"] else {"exc": o["out"]["exc"]}) for o in x["outs"]]
            io = ex["outs"][t]
            if mo != io:
                return f"outcomes of thread {t}: impl={io} model={mo}"
    return None


KINDS = ["random", "random", "lazy-timeouts", "eager-timeouts", "pct", "pct", "sticky", "starve", "starve"]


def explore_bounded(programs, faults, bound, limit, on_exec, submit=(), stop=lambda: False):
    """stateless DFS over schedules with at most `bound` pre-emptions (a switch away from a thread that is
    still enabled); pure timeouts are only taken when nothing else is enabled, except as pre-emptions."""
    count = 0
    stack = [[]]
    seen = set()
    while stack and count < limit and not stop():
        prefix = stack.pop()
        key = tuple(prefix)
        if key in seen:
            continue
        seen.add(key)
        w = S.World(programs, faults, submit_faults=submit)
        acts, snaps, hang = [], [], None
        choices = []  # (enabled, chosen, preemptions so far)
        try:
            init = w.snapshot()
            n, pre, last = 0, 0, None
            while w.unfinished():
                en = w.enabled()
                if not en:
                    hang = "deadlock: unfinished threads and no enabled thread"
                    break
                if n >= 1500:
                    hang = None
                    break
                if n < len(prefix):
                    t = prefix[n]
                    if t not in en:
                        break
                else:
                    non = [x for x in en if not w.is_pure_timeout(x)]
                    t = last if (last in en and not w.is_pure_timeout(last)) else (non or en)[0]
                if last is not None and last in en and t != last and not w.is_pure_timeout(last):
                    pre += 1
                choices.append((en, t, pre))
                acts.append(w.action(t))
                w.step(t)
                snaps.append(w.snapshot())
                last = t
                n += 1
            if n >= 1500 and w.unfinished():
                continue
            ex = {"programs": programs, "faults": faults, "submit": list(submit), "schedule": list(w.schedule), "steps": n, "hang": hang,
                  "init": init, "acts": acts, "snaps": snaps, "fcalls": [list(b) for b in w.fcalls],
                  "outs": {t: list(o) for t, o in w.outs.items()}, "max_in_f": w.max_in_f, "final": w.snapshot()}
        finally:
            w.close()
        count += 1
        on_exec(ex)
        # branch: alternatives at positions >= len(prefix)
        for i in range(len(prefix), len(choices)):
            en, t, pre = choices[i]
            prev = choices[i - 1][1] if i else None
            for alt in en:
                if alt == t:
                    continue
                cost = 1 if (prev is not None and prev in en and alt != prev) else 0
                base = choices[i - 1][2] if i else 0
                if base + cost <= bound:
                    stack.append([c[1] for c in choices[:i]] + [alt])
    return count


def run_cluster(ctx, prop):
    """generates configurations and schedules, checks conformance and the oracles; violations of `prop`
    are reported as violations, those of the sibling properties as notes (their own checks report them)."""
    rng = ctx.rng
    drv = ctx.lean("Runner")
    other = {}

    def recording():
        # once the correspondence is known to be broken the remaining budget goes into the oracle search
        if len(ctx.disagreements) >= 10 and not ctx.extra.get("_search_deadline_set"):
            import time
            ctx.extra["_search_deadline_set"] = True
            ctx.deadline = min(ctx.deadline or (time.time() + 90), time.time() + 90)
        return drv is not None and len(ctx.disagreements) < 10

    def handle(ex, tag):
        nontrivial = len(ex["programs"]) >= 2 and ex["steps"] >= 20
        inp = {"programs": ex["programs"], "faults": ex["faults"], "submit": ex.get("submit", []), "schedule": ex["schedule"]}
        ctx.case(inp, nontrivial=nontrivial, tags=[tag, f"threads:{len(ex['programs'])}", "faults" if ex["faults"] else "nofaults"])
        ctx.extra["steps_conformed"] = ctx.extra.get("steps_conformed", 0) + ex["steps"]
        ctx.extra["max_steps_in_one_execution"] = max(ctx.extra.get("max_steps_in_one_execution", 0), ex["steps"])
        for p, what in oracle(ex):
            if p == prop:
                ctx.violate(what, inp, {"outs": ex["outs"], "fcalls": ex["fcalls"], "final": ex["final"]}, key=f"{p}:{what[:60]}")
            else:
                other[p] = other.get(p, 0) + 1
        if drv is not None and ex["snaps"]:
            d = conform(ex, drv)
            if d is not None:
                ctx.disagree("runner trace conformance", inp, d, "Model/Runner.lean step")

    n = ctx.n(250, 2500)
    for i in range(n):
        if ctx.out_of_time() or len(ctx.violations) >= 5:
            break
        programs, faults, submit = gen_config(rng, big=(i % 10 == 9))
        kind = KINDS[i % len(KINDS)]
        ch = Chooser(kind, random.Random(rng.random()), len(programs))
        handle(execute(programs, faults, ch, submit=submit, record=recording()), kind)
    # exhaustive exploration with a pre-emption bound on small configurations
    small = [([[[1]], [[2, 3]]], [], []), ([[[1]], [[2, 3]]], [0], []), ([[[1], [4]], [[2]]], [1], [1])]
    if ctx.thorough():
        small += [([[[1]], [[2]], [[3]]], [], []), ([[[1]], [[2]], [[3]]], [0], [0]), ([[[1], [4]], [[2], [5]]], [0, 1], [])]
    tot = 0
    for programs, faults, submit in small:
        if ctx.out_of_time() or len(ctx.violations) >= 5:
            break
        tot += explore_bounded(programs, faults, bound=ctx.n(2, 3), limit=ctx.n(400, 3000),
                               on_exec=lambda ex: handle(ex, "bounded-preemption"), submit=submit,
                               stop=lambda: ctx.out_of_time() or len(ctx.violations) >= 5)
    ctx.extra["bounded_preemption_schedules"] = tot
    # divergence-guided search: where the implementation left the model, park each thread in turn right there for a long stretch while the others run on
    # (the model says which step differs; what a delayed thread then carries into later batches is what the oracles look at)
    if ctx.disagreements and not ctx.violations:
        import re
        import time

        t_end = time.time() + float(__import__("os").environ.get("VERIF_GUIDED_S", "150"))  # its own budget: the general one is usually spent by now
        tried = 0
        targets = []
        for d in [d for d in ctx.disagreements if d.get("what") == "runner trace conformance"][:6]:
            m = re.search(r"step (\d+)", str(d.get("impl")))
            inp = d.get("input") or {}
            if not m or "schedule" not in inp:
                continue
            # later batches need callers: every thread gets two further calls
            ids = itertools.count(1000)
            progs = [[list(c) for c in p] + [[next(ids)], [next(ids), next(ids)]] for p in inp["programs"]]
            targets.append((int(m.group(1)), progs, inp))
        while targets and time.time() < t_end and not ctx.violations:
            for k, progs, inp in targets:
                for back in (0, 1, 2, 3, 5, 8):
                    prefix = inp["schedule"][: max(k - back, 0)]
                    for victim in range(len(progs)):
                        if time.time() > t_end or ctx.violations:
                            break
                        ch = Chooser("starve", random.Random(rng.random()), len(progs), prefix=prefix)
                        ch.victim, ch.start, ch.length = victim, len(prefix), random.Random(rng.random()).randrange(40, 600)
                        handle(execute(progs, inp["faults"], ch, submit=inp.get("submit", []), record=False), "divergence-guided")
                        tried += 1
        ctx.extra["divergence_guided_schedules"] = tried
    if other:
        ctx.notes.append(f"oracle violations of sibling properties seen in this run (reported by their own checks): {other}")


def replay_case(ctx, prop, case):
    inp = case.get("case", case).get("input", case.get("input"))
    ch = Chooser("lazy-timeouts", random.Random(0), len(inp["programs"]), prefix=inp["schedule"])
    ex = execute(inp["programs"], inp["faults"], ch, submit=inp.get("submit", []))
    for p, what in oracle(ex):
        if p == prop:
            ctx.violate(what, inp, {"outs": ex["outs"], "fcalls": ex["fcalls"]}, key=f"{p}:{what[:60]}")
    drv = ctx.lean("Runner")
    if drv is not None:
        d = conform(ex, drv)
        if d is not None:
            ctx.disagree("runner trace conformance", inp, d, "Model/Runner.lean step")
    ctx.case(inp, tags=["replay"])
