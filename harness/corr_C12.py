"""C12 — termination limits are honoured (shared harness: solver_corr.py)."""
import solver_corr

META = {
    "lean_modules": ["QVerif.Props.C12"],
    "drivers": ["Solver"],
    "theorems": [
        "QVerif.Solver.no_start_after_limit",
        "QVerif.Solver.started_chain",
        "QVerif.Solver.gens_le_max",
        "QVerif.Solver.exactly_max_when_only_limit",
        "QVerif.Solver.raises_if_nothing_evaluated",
        "QVerif.Solver.runLoop_spec",
        "QVerif.Solver.no_start_after_limit_with_faults",
        "QVerif.Solver.fault_stops_run",
    ],
    "level": "proof",
    "level_text": "Proof over a state-machine model of _solve_by_evolution in which every operator application is an arbitrary list of callback events chosen by a "
    "script (so every operator behaviour, every estimate and every criterion answer sequence is covered): no operator is started with the flag set, with reported "
    "evaluations (plus its own estimate) at or above the budget, or with max_generations reached (no_start_after_limit, started_chain); generations never exceed the "
    "maximum and equal it when it is the only limit, for operators reporting at most one evaluation per application (gens_le_max, exactly_max_when_only_limit); a result "
    "is only returned when at least one population was evaluated (raises_if_nothing_evaluated); the limits also hold in runs in which an operator application fails "
    "after it has reported evaluations/results — the failure ends the run and nothing is started past a limit (no_start_after_limit_with_faults, fault_stops_run). Tied to the code by driving the real _solve_by_evolution with scripted "
    "operators/criteria and comparing started-operator sequence, ledger totals and generations at each start, outcome and result with the model.",
    "level_note": "Trusted: Lean kernel + standard axioms; the flattening of `while not terminate: for op in operators` into one per-operator check sequence and the "
    "callback bodies are hand-modelled and validated by the correspondence. An empty operator list (infinite loop in the code) is outside the model. The EVQE operators' "
    "own behaviour (<= 1 result per application) is C10's model.",
    "rule": "cases = random scripts of 3-14 applications (empty / count-only / count+result / result without count / two results per application; estimates None/0/2/5), "
    "1-3 operators per cycle, limits max_generations in {None,0,1,2,3,5}, max_circuit_evaluations in {None,0,3,8,15,-1}, criterion answers random; 30 % of the scripts let one application raise after its events (transient fault); the oracle recomputes "
    "every clause from the recorded apply_operator calls (ledger total and generations before each start). non-trivial = at least two operators were started; "
    "distinct = (configuration, script)",
    "trusted_base": ["Lean 4 kernel; axioms per theorem under coverage.theorems", "harness/corr_C12.py, solver_corr.py, fakes.py, Driver/Solver.lean"],
    "assumptions": ["operators report through the two callbacks only; at least one operator is configured"],
}


def run(ctx):
    import warnings
    warnings.filterwarnings("ignore")
    solver_corr.run_cluster(ctx, "C12")


def replay(ctx, case):
    solver_corr.replay_case(ctx, "C12", case)
