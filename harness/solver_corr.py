"""Shared harness for the solver loop (C05, C12): the real `_solve_by_evolution` driven by scripted operators,
compared with Model/Solver.lean; oracles recompute every clause from the recorded run."""
from __future__ import annotations

from concurrent.futures import ThreadPoolExecutor
from fractions import Fraction as F

from qiskit.circuit import QuantumCircuit
from qiskit.quantum_info import Statevector

import fakes
import genome_corr as G
from common import rat_str
from queasars.circuit_evaluation.circuit_evaluation import BaseCircuitEvaluator
from queasars.circuit_evaluation.configured_primitives import ConfiguredSamplerV2
from queasars.minimum_eigensolvers.base.evolutionary_algorithm import (
    BaseEvolutionaryOperator,
    BasePopulationEvaluationResult,
)
from queasars.minimum_eigensolvers.base.evolving_ansatz_minimum_eigensolver import (
    EvolvingAnsatzMinimumEigensolver,
    EvolvingAnsatzMinimumEigensolverConfiguration,
)
from queasars.minimum_eigensolvers.base.termination_criteria import EvolvingAnsatzMinimumEigensolverBaseTerminationCriterion
from queasars.minimum_eigensolvers.evqe.evolutionary_algorithm.individual import EVQEIndividual
from queasars.minimum_eigensolvers.evqe.evolutionary_algorithm.population import EVQEPopulation

SHOTS = 64


class Tape:
    def __init__(self, script, pool, pop):
        self.script, self.pool, self.pop = script, pool, pop
        self.k = -1  # index of the step being applied
        self.estimate_calls = 0
        self.applied = []  # (step index, total reported before, generations before)
        self.reported = 0
        self.results_emitted = 0
        self.crit_answers = []
        self.exhausted = False
        self.apply_after_terminate = False
        self.terminated = False
        self.pending_crit = None


class ScriptedOp(BaseEvolutionaryOperator):
    def __init__(self, tape):
        self.tape = tape

    def get_n_expected_circuit_evaluations(self, population, operator_context):
        t = self.tape
        t.estimate_calls += 1
        k = len(t.applied)  # the application this estimate is for (the tape only advances when an operator is applied)
        if k >= len(t.script):
            return None  # beyond the script: no estimate; applying is impossible (see apply_operator)
        return t.script[k]["est"]

    def apply_operator(self, population, operator_context):
        t = self.tape
        t.k = len(t.applied)
        if t.k >= len(t.script):
            t.exhausted = True
            raise StopIteration("script exhausted")
        step = t.script[t.k]
        if t.terminated:
            t.apply_after_terminate = True
        t.applied.append((t.k, t.reported, t.results_emitted))
        for ev in step["events"]:
            if ev[0] == "count":
                t.reported += ev[1]
                operator_context.circuit_evaluation_count_callback(ev[1])
            else:
                _, b, v, crit = ev
                t.pending_crit = crit
                t.results_emitted += 1
                operator_context.result_callback(BasePopulationEvaluationResult(
                    population=t.pop, expectation_values=tuple(float(F(v)) + 0.5 * i for i in range(len(t.pop.individuals))),
                    best_individual=t.pool[b], best_expectation_value=float(F(v))))
        if step.get("fault"):
            raise TransientFault(f"operator application {t.k} failed after reporting")
        return population


class TransientFault(RuntimeError):
    """a failure inside an operator application (e.g. a primitive job that fails) after it has already reported evaluations / results"""


class ScriptedCriterion(EvolvingAnsatzMinimumEigensolverBaseTerminationCriterion):
    def __init__(self, tape):
        self.tape = tape
        self.resets = 0

    def reset_state(self):
        self.resets += 1

    def check_termination(self, population_evaluation, best_individual, best_expectation_value):
        t = self.tape
        t.crit_answers.append((best_expectation_value, best_individual))
        if t.pending_crit:
            t.terminated = True
        return bool(t.pending_crit)


class AuxEvaluator(BaseCircuitEvaluator):
    def __init__(self, n, offset):
        self._n, self.offset, self.requests = n, offset, []

    def evaluate_circuits(self, circuits, parameter_values):
        self.requests.append((circuits, parameter_values))
        return [self.offset + sum(float(p) for p in pv) for pv in parameter_values]

    @property
    def n_qubits(self):
        return self._n


def gen_script(rng):
    n = rng.randint(3, 14)
    npool = rng.randint(1, 4)
    vals = [F(rng.randint(-8, 8), 2) for _ in range(6)]
    script = []
    for _ in range(n):
        m = rng.randrange(10)
        est = rng.choice([None, 0, 0, 2, 5])
        if m <= 2:
            ev = []
        elif m <= 5:
            c = rng.randint(0, 6)
            ev = [["count", c], ["result", rng.randrange(npool), rat_str(rng.choice(vals)), rng.random() < 0.2]]
        elif m == 6:
            ev = [["count", rng.randint(0, 5)]]
        elif m == 7:
            ev = [["count", rng.randint(1, 3)], ["count", rng.randint(0, 3)], ["result", rng.randrange(npool), rat_str(rng.choice(vals)), rng.random() < 0.3], ["count", rng.randint(0, 4)]]
        elif m == 8:
            ev = [["result", rng.randrange(npool), rat_str(rng.choice(vals)), False]]  # result without a preceding count
        else:
            ev = [["count", 2], ["result", rng.randrange(npool), rat_str(rng.choice(vals)), False],
                  ["count", 1], ["result", rng.randrange(npool), rat_str(rng.choice(vals)), rng.random() < 0.3]]  # two results
        script.append({"est": est, "events": ev})
    if rng.random() < 0.3:  # one application fails after having emitted its events (often one that reports a result, i.e. may reach a limit)
        cands = [i for i, st in enumerate(script) if any(e[0] == "result" for e in st["events"])] if rng.random() < 0.7 else []
        script[rng.choice(cands) if cands else rng.randrange(len(script))]["fault"] = True
    return script, npool


def gen_cfg(rng):
    while True:
        degenerate = rng.random() < 0.12  # limits that stop the run before anything is evaluated
        cfg = {"max_gen": rng.choice([None, None, 0, 1] if degenerate else [None, None, 1, 2, 3, 5, 8]),
               "max_evals": rng.choice([None, 0, -1, 3] if degenerate else [None, None, None, 8, 15, 30, 60]),
               "has_crit": rng.random() < 0.5}
        if cfg["max_gen"] is not None or cfg["max_evals"] is not None or cfg["has_crit"]:
            return cfg


def expected_distribution(init, ind):
    qc = QuantumCircuit(ind.n_qubits)
    if init is not None:
        qc.compose(init, inplace=True)
    qc.compose(ind.get_quantum_circuit(), inplace=True)
    qc.measure_all()
    c = fakes.exact_counts(qc, SHOTS)["meas"]
    return {k: v / SHOTS for k, v in c.items()}


def one_run(ctx, prop, rng, cfg, script, npool, tag):
    drv = ctx.lean("Solver")
    nq = rng.choice([1, 2])
    pool = []
    while len(pool) < npool:
        x = EVQEIndividual.random_individual(nq, rng.randint(1, 2), True, rng.randrange(2**31))
        x = EVQEIndividual(x.n_qubits, x.layers, tuple(round(v * 4) / 4 for v in x.parameter_values))
        if all(G.indiv_struct(x) != G.indiv_struct(y) for y in pool):
            pool.append(x)
    pop = EVQEPopulation(tuple(pool), None, None, None)
    tape = Tape(script, pool, pop)
    nops = rng.randint(1, 3)
    sampler = fakes.ExactSampler()
    crit = ScriptedCriterion(tape) if cfg["has_crit"] else None
    init = None
    if rng.random() < 0.4:
        init = QuantumCircuit(nq)
        init.x(0)
        if nq > 1 and rng.random() < 0.5:
            init.h(1)
    aux_kind = rng.choice(["none", "list", "dict"])
    aux = None if aux_kind == "none" else ([AuxEvaluator(nq, 10.0), AuxEvaluator(nq, 20.0)] if aux_kind == "list" else {"a": AuxEvaluator(nq, 10.0), "b": AuxEvaluator(nq, 20.0)})
    inp = {"cfg": cfg, "script": script, "n_ops": nops, "aux": aux_kind, "init": init is not None, "pool": npool}
    with ThreadPoolExecutor(max_workers=1) as ex:
        conf = EvolvingAnsatzMinimumEigensolverConfiguration(
            population_initializer=lambda n: pop, evolutionary_operators=[ScriptedOp(tape) for _ in range(nops)],
            configured_sampler=ConfiguredSamplerV2(sampler=sampler, shots=SHOTS), configured_estimator=None, pass_manager=None,
            max_generations=cfg["max_gen"], max_circuit_evaluations=cfg["max_evals"], termination_criterion=crit,
            parallel_executor=ex, mutually_exclusive_primitives=False)
        solver = EvolvingAnsatzMinimumEigensolver(conf)
        evaluator = AuxEvaluator(nq, 0.0)
        try:
            res = solver._solve_by_evolution(circuit_evaluator=evaluator, aux_circuit_evaluators=aux, initial_state_circuit=init)
            outcome = "ok"
        except StopIteration:
            res, outcome = None, "exhausted"
        except TransientFault:
            res, outcome = None, "fault"
        except Exception as e:  # noqa: BLE001
            res, outcome = None, ("raised" if "without having evaluated any population" in str(e) else "exc:" + type(e).__name__ + ":" + str(e)[:60])
    nres = sum(1 for st in script for ev in st["events"] if ev[0] == "result")
    ctx.case(inp, nontrivial=len(tape.applied) >= 2, tags=[tag, "outcome:" + outcome.split(":")[0], f"applied:{min(len(tape.applied), 6)}",
                                                           "fault-scripted" if any(st.get("fault") for st in script) else "no-fault"])

    def violate(p, what, observed=None):
        if p == prop:
            ctx.violate(what, inp, observed, key=f"{p}:{what[:70]}")
        else:
            o = ctx.extra.setdefault("_other", {})
            o[p] = o.get(p, 0) + 1

    # ------------------------------------------------------------------ oracles (from the recorded run only)
    emitted = []  # all events actually emitted
    for (k, _, _) in tape.applied:
        emitted.extend(script[k]["events"])
    hist = [(ev[1], F(ev[2])) for ev in emitted if ev[0] == "result"]
    total_counts = sum(ev[1] for ev in emitted if ev[0] == "count")
    one_result_per_op = all(sum(1 for ev in st["events"] if ev[0] == "result") <= 1 for st in script)
    if outcome.startswith("exc"):
        violate("C05", "the solve raised an unexpected exception", outcome)
    # C12
    for (k, reported, gens) in tape.applied:
        if cfg["max_evals"] is not None and (reported >= cfg["max_evals"] or (script[k]["est"] is not None and reported + script[k]["est"] >= cfg["max_evals"])):
            violate("C12", "an operator was started although the reported evaluations (plus its estimate) had reached the budget", {"step": k, "reported": reported})
        if cfg["max_gen"] is not None and gens >= cfg["max_gen"]:
            violate("C12", "an operator was started after the maximum number of generations had been evaluated", {"step": k, "generations": gens})
    if tape.apply_after_terminate:
        violate("C12", "an operator was applied after the termination criterion answered terminate")
    if outcome == "ok" and not hist:
        violate("C12", "a run without any evaluated population returned a result instead of raising")
    if outcome == "raised" and hist:
        violate("C12", "the run raised 'nothing evaluated' although populations were evaluated")
    if outcome == "ok":
        if cfg["max_gen"] is not None and one_result_per_op and res.generations > cfg["max_gen"]:
            violate("C12", "more generations evaluated than max_generations", res.generations)
        if cfg["max_gen"] is not None and cfg["max_evals"] is None and not cfg["has_crit"] and one_result_per_op and res.generations != cfg["max_gen"]:
            violate("C12", "max_generations is the only limit but a different number of generations was evaluated", res.generations)
        # C05
        mn = min(v for _, v in hist)
        first = next(b for b, v in hist if v == mn)
        if F(res.eigenvalue) != mn:
            violate("C05", "eigenvalue is not the smallest best-expectation value of the history", {"eigenvalue": res.eigenvalue, "min": float(mn)})
        if G.indiv_struct(res.best_individual) != G.indiv_struct(pool[first]):
            violate("C05", "best individual is not the individual that achieved the eigenvalue")
        if res.generations != len(hist) or len(res.population_evaluation_results) != len(hist):
            violate("C05", "generations differs from the number of recorded population evaluations", [res.generations, len(hist)])
        if sum(res.circuit_evaluations) != total_counts:
            violate("C05", "evaluation counts do not sum to everything the operators reported", [res.circuit_evaluations, total_counts])
        well_counted = True
        pending = False
        for ev in emitted:
            if ev[0] == "count":
                pending = True
            else:
                well_counted = well_counted and pending
                pending = False
        if well_counted and not (len(hist) <= len(res.circuit_evaluations) <= len(hist) + 1):
            violate("C05", "not one evaluation-count entry per evaluated generation (plus at most one trailing)", res.circuit_evaluations)
        exp = expected_distribution(init, pool[first])
        got = {k: float(v) for k, v in res.eigenstate.binary_probabilities().items()} if hasattr(res.eigenstate, "binary_probabilities") else dict(res.eigenstate)
        if {k: round(v, 9) for k, v in got.items()} != {k: round(v, 9) for k, v in exp.items()}:
            violate("C05", "eigenstate is not the measurement distribution of the best individual's circuit behind the initial state", {"got": got, "expected": exp})
        bestvals = sum(float(p) for p in pool[first].get_parameter_values())
        if aux_kind == "list" and list(res.aux_operators_evaluated) != [10.0 + bestvals, 20.0 + bestvals]:
            violate("C05", "auxiliary operator values are not those of the best individual", res.aux_operators_evaluated)
        if aux_kind == "dict" and dict(res.aux_operators_evaluated) != {"a": 10.0 + bestvals, "b": 20.0 + bestvals}:
            violate("C05", "auxiliary operator values are not those of the best individual", res.aux_operators_evaluated)
        if cfg["has_crit"] and crit.resets != 1:
            violate("C05", "termination criterion was not reset exactly once at the start", crit.resets)
    # ------------------------------------------------------------------ model
    if drv is not None and not outcome.startswith("exc"):
        fault_at = next((i for i, st in enumerate(script) if st.get("fault")), None)
        r = drv.ask({"op": "solver.run", "cfg": cfg, "script": script, "fault_at": fault_at})
        impl = {"outcome": outcome, "started": len(tape.applied), "totals_at_start": [rep for _, rep, _ in tape.applied],
                "gens_at_start": [g for _, _, g in tape.applied]}
        mod = {"outcome": r["outcome"], "started": r["started"], "totals_at_start": r["totals_at_start"], "gens_at_start": r["gens_at_start"]}
        if outcome == "ok":
            impl.update({"eigenvalue": rat_str(F(res.eigenvalue)), "best": next((i for i, y in enumerate(pool) if G.indiv_struct(y) == G.indiv_struct(res.best_individual)), None),
                         "ledger": list(res.circuit_evaluations), "generations": res.generations,
                         "history": [[next((i for i, y in enumerate(pool) if y is e.best_individual), None), rat_str(F(e.best_expectation_value))] for e in res.population_evaluation_results]})
            for k in ("eigenvalue", "best", "ledger", "generations", "history"):
                mod[k] = r.get(k)
        ctx.compare("solver.run", inp, impl, mod)
    # ------------------------------------------------------------------ the same solver object solves again (nothing may carry over from the first run)
    if rng.random() < 0.35 and not outcome.startswith("exc"):
        script2, _ = gen_script(rng)
        for st in script2:
            for ev in st["events"]:
                if ev[0] == "result":
                    ev[1] = ev[1] % npool
        cfg2 = dict(gen_cfg(rng), has_crit=cfg["has_crit"])
        if rng.random() < 0.5:
            cfg2["max_gen" if rng.random() < 0.5 else "max_evals"] = 0  # stops before anything is evaluated
        tape.__init__(script2, pool, pop)
        conf.max_generations, conf.max_circuit_evaluations = cfg2["max_gen"], cfg2["max_evals"]
        with ThreadPoolExecutor(max_workers=1) as ex2:
            conf.parallel_executor = ex2
            try:
                res2 = solver._solve_by_evolution(circuit_evaluator=evaluator, aux_circuit_evaluators=aux, initial_state_circuit=init)
                outcome2 = "ok"
            except StopIteration:
                res2, outcome2 = None, "exhausted"
            except TransientFault:
                res2, outcome2 = None, "fault"
            except Exception as e:  # noqa: BLE001
                res2, outcome2 = None, ("raised" if "without having evaluated any population" in str(e) else "exc:" + type(e).__name__ + ":" + str(e)[:60])
        inp2 = dict(inp, second_run_on_the_same_solver={"cfg": cfg2, "script": script2})
        inp = inp2  # (violations of the second run are reported with both runs as the failing input)
        ctx.case(inp2, nontrivial=True, tags=["second-run-same-solver", "outcome2:" + outcome2.split(":")[0]])
        emitted2 = []
        for (k, _, _) in tape.applied:
            emitted2.extend(script2[k]["events"])
        hist2 = [(ev[1], F(ev[2])) for ev in emitted2 if ev[0] == "result"]
        if outcome2 == "ok" and not hist2:
            violate("C12", "a run without any evaluated population returned a result instead of raising (second run on the same solver object)")
        # the limits configured NOW (the configuration object was edited between the solves) are the ones that count
        for (k, reported, gens) in tape.applied:
            if cfg2["max_evals"] is not None and (reported >= cfg2["max_evals"] or (script2[k]["est"] is not None and reported + script2[k]["est"] >= cfg2["max_evals"])):
                violate("C12", "an operator was started although the reported evaluations (plus its estimate) had reached the budget (second run on the same solver object, "
                        "limits edited in the configuration in between)", {"step": k, "reported": reported, "max_circuit_evaluations": cfg2["max_evals"]})
                break
            if cfg2["max_gen"] is not None and gens >= cfg2["max_gen"]:
                violate("C12", "an operator was started after the maximum number of generations had been evaluated (second run on the same solver object, limits edited "
                        "in the configuration in between)", {"step": k, "generations": gens, "max_generations": cfg2["max_gen"]})
                break
        one2 = all(sum(1 for ev in st["events"] if ev[0] == "result") <= 1 for st in script2)
        if outcome2 == "ok" and cfg2["max_gen"] is not None and cfg2["max_evals"] is None and not cfg2["has_crit"] and one2 and res2.generations != cfg2["max_gen"]:
            violate("C12", "max_generations is the only limit but a different number of generations was evaluated (second run on the same solver object)", res2.generations)
        if outcome2 == "ok" and hist2:
            mn2 = min(v for _, v in hist2)
            if F(res2.eigenvalue) != mn2 or res2.generations != len(hist2) or len(res2.population_evaluation_results) != len(hist2):
                violate("C05", "the result of a second run on the same solver object is not consistent with that run's own history",
                        {"eigenvalue": res2.eigenvalue, "min": float(mn2), "generations": res2.generations, "history": len(hist2)})
        if drv is not None and not outcome2.startswith("exc"):
            fault_at2 = next((i for i, st in enumerate(script2) if st.get("fault")), None)
            r2 = drv.ask({"op": "solver.run", "cfg": cfg2, "script": script2, "fault_at": fault_at2})
            impl2 = {"outcome": outcome2, "started": len(tape.applied), "totals_at_start": [rep for _, rep, _ in tape.applied]}
            mod2 = {"outcome": r2["outcome"], "started": r2["started"], "totals_at_start": r2["totals_at_start"]}
            if outcome2 == "ok":
                impl2.update({"eigenvalue": rat_str(F(res2.eigenvalue)), "ledger": list(res2.circuit_evaluations), "generations": res2.generations})
                for k in ("eigenvalue", "ledger", "generations"):
                    mod2[k] = r2.get(k)
            ctx.compare("solver.run (second run on the same solver object)", inp2, impl2, mod2)


def run_cluster(ctx, prop):
    rng = ctx.rng
    for _ in range(ctx.n(250, 6000)):
        if ctx.out_of_time():
            break
        script, npool = gen_script(rng)
        one_run(ctx, prop, rng, gen_cfg(rng), script, npool, "random")
    # fixed: best found early, ties, zero values (a recorded best of exactly 0.0 must not be forgotten)
    fixed = [
        ({"max_gen": 3, "max_evals": None, "has_crit": False},
         [{"est": 0, "events": [["count", 1], ["result", 0, "1", False]]}, {"est": 0, "events": [["count", 1], ["result", 1, "0", False]]},
          {"est": 0, "events": [["count", 1], ["result", 0, "1", False]]}, {"est": 0, "events": []}], 2),
        ({"max_gen": 3, "max_evals": None, "has_crit": False},
         [{"est": None, "events": [["count", 2], ["result", 1, "-1", False]]}, {"est": None, "events": [["count", 2], ["result", 0, "-1", False]]},
          {"est": None, "events": [["count", 0], ["result", 0, "3", False]]}, {"est": 0, "events": []}], 2),
        ({"max_gen": None, "max_evals": 0, "has_crit": False}, [{"est": None, "events": [["count", 3], ["result", 0, "1", False]]}, {"est": 0, "events": []}], 1),
        ({"max_gen": None, "max_evals": 6, "has_crit": False},
         [{"est": 0, "events": []}, {"est": 2, "events": [["count", 2], ["result", 0, "1", False]]}, {"est": None, "events": [["count", 9]]},
          {"est": None, "events": [["count", 1]]}, {"est": 0, "events": []}], 1),
    ]
    for cfg, script, npool in fixed:
        one_run(ctx, prop, rng, cfg, script, npool, "fixed")
    other = ctx.extra.pop("_other", {})
    if other:
        ctx.notes.append(f"oracle violations of sibling properties seen in this run (reported by their own checks): {other}")


def replay_case(ctx, prop, case):
    import random

    inp = case.get("case", case).get("input", case.get("input"))
    one_run(ctx, prop, random.Random(0), inp["cfg"], inp["script"], inp["pool"], "replay")
    ctx.extra.pop("_other", None)


# ---------------------------------------------------------------------------------------------------------------------
# end-to-end: the real EVQE solver with exact primitives; every recorded evaluation is recomputed independently
def _exact_expectation(init, ind, op):
    qc = QuantumCircuit(ind.n_qubits)
    if init is not None:
        qc.compose(init, inplace=True)
    qc.compose(ind.get_quantum_circuit(), inplace=True)
    return float(Statevector(qc).expectation_value(op).real)


def run_end_to_end(ctx, prop):
    import warnings

    from qiskit.quantum_info import SparsePauliOp
    from qiskit_algorithms.optimizers import COBYLA, SPSA

    from queasars.circuit_evaluation.configured_primitives import ConfiguredEstimatorV2
    from queasars.minimum_eigensolvers.evqe.evqe import EVQEMinimumEigensolver, EVQEMinimumEigensolverConfiguration

    warnings.filterwarnings("ignore")
    rng = ctx.rng
    n_full = ctx.n(6, 60)
    for _ in range(n_full + ctx.n(16, 160)):
        if ctx.out_of_time():
            break
        # after the full solves: short speciation+selection runs (one worker) in which the estimator fails for ONE individual of the first selection
        selfault = _ >= n_full
        nq = rng.choice([2, 2, 3])
        paulis = sorted({"".join(rng.choice("IXYZ") for _ in range(nq)) for _ in range(rng.randint(1, 4))})  # distinct: equal strings could cancel to the zero operator
        coeffs = [rng.randint(-4, 4) / 2 or 1.0 for _ in paulis]  # a zero operator is rejected by the primitives ("Empty observable")
        op = SparsePauliOp(paulis, coeffs)
        aux_kind = rng.choice(["none", "list", "dict"])
        auxops = [SparsePauliOp(["Z" * nq], [1.0]), SparsePauliOp(["X" + "I" * (nq - 1)], [0.5])]
        aux = None if aux_kind == "none" else (auxops if aux_kind == "list" else {"a": auxops[0], "b": auxops[1]})
        init = None
        if rng.random() < 0.5:
            init = QuantumCircuit(nq)
            init.x(0)
            if rng.random() < 0.5:
                init.h(nq - 1)
        psize = rng.randint(2, 4)
        max_gen = rng.randint(1, 3)
        tournament = rng.random() < 0.5
        seed = rng.randrange(2**31)
        sampler, estimator = fakes.ExactSampler(), fakes.ExactEstimator()
        # a transient fault of the estimator in ONE evaluation (a failed backend job) in a quarter of the solves: the solve may raise that
        # fault, but whatever it returns must still be consistent
        fault_at = rng.randrange(2, 30) if rng.random() < 0.25 else None
        if selfault:
            psize, max_gen = rng.randint(3, 5), rng.randint(1, 2)
            fault_at = rng.randint(1, psize)
        if fault_at is not None:
            class FaultyEstimator(fakes.ExactEstimator):
                def __init__(s):
                    super().__init__()
                    s.calls = 0

                def _run(s, pubs):
                    with s.lock:
                        s.calls += 1
                        no = s.calls
                    if no == fault_at:
                        raise RuntimeError("injected fault: estimator job failed")
                    return super()._run(pubs)

            estimator = FaultyEstimator()
        # every third solve starts from a hand-made population whose individuals are pairwise different but hash-equal in pairs
        # (CPython: hash(-1.0) == hash(-2.0)): EVQEIndividual.__eq__ is hash equality, so dict/set based shortcuts would merge them
        colliding = _ % 3 == 2 and not selfault
        inp = {"kind": "end_to_end", "nq": nq, "paulis": paulis, "coeffs": coeffs, "aux": aux_kind, "init": init is not None, "population": psize,
               "max_gen": max_gen, "tournament": tournament, "seed": seed, "hash_colliding_population": colliding, "estimator_fault_in_invocation": fault_at,
               "speciation_and_selection_only": colliding or selfault}
        with ThreadPoolExecutor(max_workers=1 if selfault else rng.choice([1, 3])) as ex:
            conf = EVQEMinimumEigensolverConfiguration(
                configured_estimator=ConfiguredEstimatorV2(estimator=estimator, precision=None), configured_sampler=ConfiguredSamplerV2(sampler=sampler, shots=SHOTS),
                pass_manager=None, optimizer=COBYLA(maxiter=rng.randint(2, 5)), optimizer_n_circuit_evaluations=None, max_generations=max_gen,
                max_circuit_evaluations=None, termination_criterion=None, random_seed=seed, population_size=psize,
                speciation_genetic_distance_threshold=rng.randint(1, 3), selection_alpha_penalty=rng.choice([0.0, 0.1]), selection_beta_penalty=rng.choice([0.0, 0.05]),
                parameter_search_probability=rng.random(), topological_search_probability=rng.random(), layer_removal_probability=rng.random() * 0.3,
                use_tournament_selection=tournament, tournament_size=rng.randint(1, psize) if tournament else None, parallel_executor=ex,
                mutually_exclusive_primitives=rng.random() < 0.5)
            solver = EVQEMinimumEigensolver(conf)
            if colliding or selfault:
                base = EVQEIndividual.random_individual(nq, 1, True, seed)
                vals = list(base.parameter_values)
                pop0 = []
                for k in range(psize):
                    v = list(vals)
                    v[0:3] = [[-1.0, -2.0][k % 2]] * 3  # all three angles of the first gate (theta, phi, lambda in Qiskit's name order)
                    if k >= 2:
                        v[-1] = float(k)
                    pop0.append(EVQEIndividual(base.n_qubits, base.layers, tuple(v)))
                if selfault:
                    pop0 = [EVQEIndividual.random_individual(nq, rng.randint(1, 2), True, seed + k) for k in range(psize)]
                # speciation and selection only: the first evaluation sees the hand-made population unchanged
                from queasars.minimum_eigensolvers.evqe.evolutionary_algorithm.selection import EVQESelection
                from queasars.minimum_eigensolvers.evqe.evolutionary_algorithm.speciation import EVQESpeciation

                bconf = EvolvingAnsatzMinimumEigensolverConfiguration(
                    population_initializer=lambda n, pop0=pop0: EVQEPopulation(tuple(pop0), None, None, None),
                    evolutionary_operators=[EVQESpeciation(conf.speciation_genetic_distance_threshold, seed),
                                            EVQESelection(conf.selection_alpha_penalty, conf.selection_beta_penalty, tournament, conf.tournament_size, seed + 1)],
                    configured_sampler=ConfiguredSamplerV2(sampler=sampler, shots=SHOTS), configured_estimator=ConfiguredEstimatorV2(estimator=estimator, precision=None),
                    pass_manager=None, max_generations=max_gen, max_circuit_evaluations=None, termination_criterion=None, parallel_executor=ex,
                    mutually_exclusive_primitives=False)
                solver = EvolvingAnsatzMinimumEigensolver(bconf)
            try:
                res = solver.compute_minimum_eigenvalue_with_initial_state(op, aux, init)
            except Exception as e:  # noqa: BLE001
                if fault_at is not None and "injected fault" in str(e):
                    ctx.case(inp, nontrivial=False, tags=["end_to_end", "outcome:injected-fault-propagated"])
                    continue
                ctx.case(inp, nontrivial=False, tags=["end_to_end", "outcome:exc"])
                if prop == "C05":
                    ctx.violate("an end-to-end solve raised " + type(e).__name__, inp, str(e)[:200], key="e2e-exc:" + type(e).__name__)
                continue
        ctx.case(inp, nontrivial=True, tags=["end_to_end", f"generations:{res.generations}"])
        if prop != "C05":
            continue

        def violate(what, observed=None):
            ctx.violate(what, inp, observed, key="e2e:" + what[:70])

        evals = res.population_evaluation_results
        TOL = 1e-9
        if res.generations != len(evals) or (res.generations != max_gen and fault_at is None):
            violate("generations differs from the number of recorded population evaluations (or from max_generations)", [res.generations, len(evals)])
            continue  # (the recorded evaluations are not those of this solve: nothing further to recompute)
        if any(ind.n_qubits != nq for e in evals for ind in e.population.individuals):
            violate("a recorded evaluation contains individuals on another number of qubits than the problem")
            continue
        for g, e in enumerate(evals):
            inds = e.population.individuals
            if len(e.expectation_values) != len(inds):
                violate("a recorded evaluation has a different number of values than individuals")
                continue
            for i, ind in enumerate(inds):
                if e.expectation_values[i] is not None and abs(_exact_expectation(init, ind, op) - e.expectation_values[i]) > TOL:
                    violate("a recorded expectation value at index i does not belong to the individual at index i", {"generation": g, "index": i})
                    break
            known = [v for v in e.expectation_values if v is not None]  # (the field is Optional per individual)
            if not known:
                violate("a recorded evaluation carries no expectation value at all", {"generation": g})
                continue
            mn = min(known)
            if e.best_expectation_value != mn or G.indiv_struct(e.best_individual) != G.indiv_struct(inds[list(e.expectation_values).index(mn)]):
                violate("the best entry of a recorded evaluation is not the minimum of its values / not the individual that holds it", {"generation": g})
        bests = [e.best_expectation_value for e in evals]
        if res.eigenvalue != min(bests):
            violate("eigenvalue is not the smallest best-expectation value of the history", [res.eigenvalue, bests])
        first = evals[bests.index(min(bests))].best_individual
        if G.indiv_struct(res.best_individual) != G.indiv_struct(first):
            violate("best individual is not the individual that achieved the eigenvalue")
        if abs(_exact_expectation(init, res.best_individual, op) - res.eigenvalue) > TOL:
            violate("re-evaluating the best individual does not reproduce the eigenvalue", [res.eigenvalue])
        exp = expected_distribution(init, res.best_individual)
        got = {k: float(v) for k, v in res.eigenstate.binary_probabilities().items()} if hasattr(res.eigenstate, "binary_probabilities") else dict(res.eigenstate)
        if {k: round(v, 9) for k, v in got.items()} != {k: round(v, 9) for k, v in exp.items()}:
            violate("eigenstate is not the measurement distribution of the best individual's circuit behind the initial state", {"got": got, "expected": exp})
        if aux_kind != "none":
            want = [_exact_expectation(init, res.best_individual, a) for a in auxops]
            gotaux = list(res.aux_operators_evaluated) if aux_kind == "list" else [res.aux_operators_evaluated["a"], res.aux_operators_evaluated["b"]]
            gotaux = [x[0] if isinstance(x, tuple) else x for x in gotaux]
            if any(abs(a - b) > TOL for a, b in zip(want, gotaux)):
                violate("auxiliary operator values are not the objectives of the best individual", {"got": gotaux, "expected": want})
        if not (len(evals) <= len(res.circuit_evaluations) <= len(evals) + 1):
            violate("not one evaluation-count entry per evaluated generation (plus at most one trailing)", res.circuit_evaluations)
        n_eval_pubs = len(estimator.pubs)
        if fault_at is None and sum(res.circuit_evaluations) + len(auxops) * (aux_kind != "none") != n_eval_pubs:
            # every circuit evaluation the operators report is one estimator pub; the auxiliary evaluations are not reported
            violate("evaluation counts do not sum to the circuit evaluations actually requested from the estimator", [res.circuit_evaluations, n_eval_pubs])
