/-!
# Model of `job_shop_scheduling/domain_wall_hamiltonian_encoder.py` and `utility/domain_wall_variables.py`

Every operator the encoder builds is a sum of products of `I`/`Z` strings, i.e. diagonal in the computational
basis; the model works with its *eigenvalue on a basis state*: `energy pen inst limit bits : Rat`, where `bits[q]`
is the value of qubit `q` (the harness passes Python's bitstring reversed, as `translate_result_bitstring` does;
`Z` on qubit `q` has eigenvalue `+1` for bit 0 and `−1` for bit 1).  Exact rationals throughout.

Assumed about Qiskit: `SparsePauliOp` sums/products/scalar multiples of `I`/`Z` strings act pointwise on these
eigenvalues; `pauli_identity_string(0)` raises (the library's own check).
-/

namespace QVerif.Encoder

/-- an operation as the encoder sees it: machine (an index) and positive duration -/
structure EOp where
  machine : Nat
  dur : Nat
  deriving DecidableEq, Repr, Inhabited

abbrev EJob := List EOp
abbrev EInst := List EJob

/-- a domain-wall variable: first qubit, smallest value, number of values (`n_qubits = nvals − 1`) -/
structure Var where
  qstart : Nat
  lo : Nat
  nvals : Nat
  deriving DecidableEq, Repr, Inhabited

def Var.nq (v : Var) : Nat := v.nvals - 1
def Var.hi (v : Var) : Nat := v.lo + v.nvals - 1      -- `values[-1]`

inductive Err where
  | limitTooShort | noQubits | badBitstringLength
  deriving DecidableEq, Repr

def jobTotal (j : EJob) : Nat := (j.map EOp.dur).sum

/-- variables of one job, given the first free qubit: every operation gets `limit − total + 1` start times
beginning at the summed duration of its predecessors (`_prepare_encoding`) -/
def jobVars (limit : Nat) (total : Nat) : List EOp → (qstart head : Nat) → List Var
  | [], _, _ => []
  | o :: rest, q, head =>
    let n := limit - total + 1
    { qstart := q, lo := head, nvals := n } :: jobVars limit total rest (q + (n - 1)) (head + o.dur)

/-- `_prepare_encoding`: per job the list of variables; error iff some job is longer than the limit -/
def prepareFrom (limit : Nat) : EInst → Nat → Except Err (List (List Var))
  | [], _ => .ok []
  | j :: js, q =>
    let total := jobTotal j
    if total > limit then .error .limitTooShort
    else
      match prepareFrom limit js (q + j.length * (limit - total)) with
      | .error e => .error e
      | .ok rest => .ok (jobVars limit total j q 0 :: rest)

def prepare (inst : EInst) (limit : Nat) : Except Err (List (List Var)) := prepareFrom limit inst 0

def nQubits (vars : List (List Var)) : Nat := (vars.flatten.map Var.nq).sum

/-! ## eigenvalues on a basis state -/

abbrev Bits := List Bool

/-- `_z_dash_term` shifted by one: `zd v k` is the eigenvalue of the (virtual) qubit `k − 1` of the variable,
`k = 0` the virtual qubit before (−1), `k = nq + 1` the one after (+1) -/
def zd (v : Var) (bits : Bits) (k : Nat) : Int :=
  if k = 0 then -1
  else if k = v.nq + 1 then 1
  else if bits.getD (v.qstart + k - 1) false then -1 else 1

/-- `value_term` for the value with index `idx` -/
def valueTerm (v : Var) (bits : Bits) (idx : Nat) : Rat :=
  if v.nq = 0 then 1 else ((zd v bits (idx + 1) - zd v bits idx : Int) : Rat) / 2

/-- `viability_term`: number of domain walls minus one -/
def viability (v : Var) (bits : Bits) : Rat :=
  if v.nq = 0 then 0
  else (((List.range (v.nq + 1)).map (fun k => ((1 - zd v bits k * zd v bits (k + 1) : Int) : Rat) / 2)).sum) - 1

/-- the variable's own qubits `bit_list[qstart : qstart + nq]` -/
def window (v : Var) (bits : Bits) : Bits := (bits.drop v.qstart).take v.nq

/-- `value_from_bitlist` on the window: index of the first 0 (or the length if there is none), `none` if a 1
occurs at or after it -/
def decodeWindow : Bits → Option Nat
  | [] => some 0
  | true :: t => (decodeWindow t).map (· + 1)
  | false :: t => if t.any id then none else some 0

/-- `value_from_bitlist` -/
def decodeVar (v : Var) (bits : Bits) : Option Nat := (decodeWindow (window v bits)).map (· + v.lo)

/-- `translate_result_bitstring` (start times per job; `none` = unscheduled) -/
def translate (vars : List (List Var)) (bits : Bits) : List (List (Option Nat)) :=
  vars.map (fun row => row.map (fun v => decodeVar v bits))

/-! ## penalty terms -/

structure Penalties where
  enc : Rat
  ovl : Rat
  prec : Rat
  opt : Rat
  share : Rat
  deriving Repr

/-- an operation together with its variable; `key` identifies it (job index, position) -/
structure OpVar where
  key : Nat × Nat
  op : EOp
  var : Var
  deriving Repr, Inhabited

def values (v : Var) : List Nat := (List.range v.nvals).map (· + v.lo)

/-- value pairs `(s₁, s₂)` penalised by `_operation_precedence_term` (empty after the early-out) -/
def precPairs (a b : OpVar) : List (Nat × Nat) :=
  if a.var.hi + a.op.dur ≤ b.var.lo then []
  else (values a.var).flatMap (fun s1 => (values b.var).filterMap (fun s2 =>
    if ¬ (s1 + a.op.dur ≤ s2) then some (s1, s2) else none))

/-- value pairs penalised by `_operation_overlap_term` -/
def ovlPairs (a b : OpVar) : List (Nat × Nat) :=
  if a.var.hi + a.op.dur ≤ b.var.lo then []
  else if b.var.hi + b.op.dur ≤ a.var.lo then []
  else (values a.var).flatMap (fun s1 => (values b.var).filterMap (fun s2 =>
    if s1 < s2 + b.op.dur ∧ s2 < s1 + a.op.dur then some (s1, s2) else none))

/-- a penalty term: the two operations and the penalised value pairs -/
structure PairTerm where
  a : OpVar
  b : OpVar
  pairs : List (Nat × Nat)
  deriving Repr

def opVars (inst : EInst) (vars : List (List Var)) : List (List OpVar) :=
  (inst.zip vars).zipIdx.map (fun ((j, vs), ji) => (j.zip vs).zipIdx.map (fun ((o, v), oi) => ⟨(ji, oi), o, v⟩))

/-- consecutive operations of every job -/
def precTerms (ovs : List (List OpVar)) : List PairTerm :=
  ovs.flatMap (fun row => (row.zip row.tail).map (fun (a, b) => ⟨a, b, precPairs a b⟩))

/-- `itertools.combinations(l, 2)` -/
def combos {α} : List α → List (α × α)
  | [] => []
  | x :: t => t.map (fun y => (x, y)) ++ combos t

/-- the machines in order of first use (`_machine_operations` is an insertion-ordered dict) -/
def machinesInOrder (flat : List OpVar) : List Nat := (flat.map (·.op.machine)).eraseDups

/-- all pairs of operations sharing a machine -/
def ovlTerms (ovs : List (List OpVar)) : List PairTerm :=
  let flat := ovs.flatten
  (machinesInOrder flat).flatMap (fun m =>
    (combos (flat.filter (fun x => x.op.machine == m))).map (fun (a, b) => ⟨a, b, ovlPairs a b⟩))

/-- eigenvalue of one pair term: Σ over penalised pairs of the product of the two value terms -/
def pairTermValue (t : PairTerm) (bits : Bits) : Rat :=
  (t.pairs.map (fun (s1, s2) =>
    valueTerm t.a.var bits (s1 - t.a.var.lo) * valueTerm t.b.var bits (s2 - t.b.var.lo))).sum

/-- `_operation_constraint_counts[(op, start)]` after all pair terms have been built -/
def constraintCount (terms : List PairTerm) (key : Nat × Nat) (s : Nat) : Nat :=
  (terms.map (fun t =>
    (if t.a.key = key then (t.pairs.filter (fun p => p.1 = s)).length else 0) +
    (if t.b.key = key then (t.pairs.filter (fun p => p.2 = s)).length else 0))).sum

def maxCount (terms : List PairTerm) (x : OpVar) : Nat :=
  ((values x.var).map (constraintCount terms x.key)).foldl max 0

/-- `_makespan_optimization_term` -/
def makespanTerm (ovs : List (List OpVar)) (limit : Nat) (bits : Bits) : Rat :=
  let n : Nat := ovs.length
  let maxOpt : Rat := ((n * (n + 1) ^ limit : Nat) : Rat)
  (ovs.map (fun row =>
    match row.getLast? with
    | none => 0
    | some x => ((values x.var).map (fun s =>
        (1 / maxOpt) * (((n + 1) ^ (s + x.op.dur) : Nat) : Rat) * valueTerm x.var bits (s - x.var.lo))).sum)).sum

/-- `_early_start_term` -/
def earlyStartTerm (ovs : List (List OpVar)) (bits : Bits) : Rat :=
  let flat := ovs.flatten
  let z : Rat := (((flat.map (fun x => x.var.nvals - 1)).sum : Nat) : Rat)
  (flat.map (fun x => ((List.range x.var.nvals).map (fun (i : Nat) =>
    if i = 0 then (0 : Rat) else (1 / z) * ((i : Nat) : Rat) * valueTerm x.var bits i)).sum)).sum

/-- eigenvalue of the problem Hamiltonian on a basis state (given the prepared variables) -/
def energyOf (pen : Penalties) (inst : EInst) (vars : List (List Var)) (limit : Nat) (bits : Bits) : Rat :=
  let ovs := opVars inst vars
  let pt := precTerms ovs
  let ot := ovlTerms ovs
  let all := pt ++ ot
  (pt.map (fun t => pairTermValue t bits)).sum * pen.prec
  + (ot.map (fun t => pairTermValue t bits)).sum * pen.ovl
  + (ovs.flatten.map (fun x => ((maxCount all x + 1 : Nat) : Rat) * viability x.var bits)).sum * pen.enc
  + makespanTerm ovs limit bits * (pen.opt * (1 - pen.share))
  + earlyStartTerm ovs bits * (pen.opt * pen.share)

/-- `get_problem_hamiltonian` evaluated on a basis state: errors for a too short limit and when no qubit is
needed (`pauli_identity_string(0)`) -/
def energy (pen : Penalties) (inst : EInst) (limit : Nat) (bits : Bits) : Except Err Rat :=
  match prepare inst limit with
  | .error e => .error e
  | .ok vars =>
    if nQubits vars = 0 then .error .noQubits
    else .ok (energyOf pen inst vars limit bits)

end QVerif.Encoder
