/-!
# Model of `EvolvingAnsatzMinimumEigensolver._solve_by_evolution`

The evolution loop as a state machine.  An operator application is an arbitrary finite list of callback events
(chosen by an oracle, the *script*), so the theorems quantify over every behaviour an operator could show; the answers
of the termination criterion are part of the script as well.  Individuals are opaque identifiers.

`while not terminate: for operator in operators: <checks>; if terminate: break; apply` is flattened to
"before every operator: stop if `terminate`; run the three limit checks in source order; stop if `terminate`; apply"
(the `while` condition is only re-evaluated at cycle boundaries, where the `for`-loop check has just been made; an
empty operator list — an infinite loop in the code — is outside the model).
-/

namespace QVerif.Solver

structure Cfg where
  maxGen : Option Nat
  maxEvals : Option Int           -- `max_circuit_evaluations` (any int the configuration accepts)
  hasCriterion : Bool
  deriving Repr

/-- callback events an operator may emit -/
inductive Ev where
  | count (n : Nat)                                        -- `circuit_evaluation_count_callback(n)`
  | result (best : Nat) (val : Rat) (crit : Bool)          -- `result_callback(r)`; `crit` = the criterion's answer
  deriving Repr

/-- one (potential) operator application: the estimate it reports beforehand and the events it emits -/
structure Step where
  est : Option Nat
  events : List Ev
  deriving Repr

structure St where
  ledger : List Nat := []                 -- `n_circuit_evaluations`
  nGen : Nat := 0
  terminate : Bool := false
  best : Option (Nat × Rat) := none       -- `current_best_individual`, `current_best_expectation_value`
  hist : List (Nat × Rat) := []           -- `population_evaluations` (best individual, best value of each)
  deriving Repr

/-- `circuit_evaluation_callback` -/
def onCount (s : St) (n : Nat) : St :=
  if s.ledger.length < s.nGen + 1 then { s with ledger := s.ledger ++ [n] }
  else { s with ledger := s.ledger.set s.nGen (s.ledger.getD s.nGen 0 + n) }

/-- `result_callback` -/
def onResult (cfg : Cfg) (s : St) (b : Nat) (v : Rat) (crit : Bool) : St :=
  let best := match s.best with
    | none => some (b, v)
    | some (b0, v0) => if v < v0 then some (b, v) else some (b0, v0)
  { s with hist := s.hist ++ [(b, v)], best := best, nGen := s.nGen + 1,
           terminate := if cfg.hasCriterion then crit else s.terminate }

def onEvent (cfg : Cfg) (s : St) : Ev → St
  | .count n => onCount s n
  | .result b v c => onResult cfg s b v c

def total (s : St) : Int := ((s.ledger.sum : Nat) : Int)

/-- the three limit checks before an operator is started -/
def limitReached (cfg : Cfg) (s : St) (est : Option Nat) : Bool :=
  (match cfg.maxEvals with | some m => decide (m ≤ total s) | none => false) ||
  (match cfg.maxEvals, est with | some m, some e => decide (m ≤ total s + (e : Int)) | _, _ => false) ||
  (match cfg.maxGen with | some g => decide (g ≤ s.nGen) | none => false)

/-- outcome of running the loop on a script: final state, the states in which an operator was started, and whether
the script ran out before the loop terminated -/
def runLoop (cfg : Cfg) : St → List Step → St × List St × Bool
  | s, [] =>
    -- beyond the script operators report no estimate and cannot be applied: the loop ends here only if it would
    -- stop anyway
    if s.terminate then (s, [], false)
    else if limitReached cfg s none then ({ s with terminate := true }, [], false)
    else (s, [], true)
  | s, step :: rest =>
    if s.terminate then (s, [], false)
    else if limitReached cfg s step.est then ({ s with terminate := true }, [], false)
    else
      let s' := step.events.foldl (onEvent cfg) s
      let (sF, started, ex) := runLoop cfg s' rest
      (sF, s :: started, ex)

structure Result where
  eigenvalue : Rat
  bestIndividual : Nat
  circuitEvaluations : List Nat
  generations : Nat
  history : List (Nat × Rat)
  /-- the individual whose circuit (behind the initial state) is sampled for the eigenstate and evaluated for every
  auxiliary operator -/
  measured : Nat
  deriving Repr

inductive Outcome where
  | ok (r : Result)
  | raisedNothingEvaluated
  | scriptExhausted
  deriving Repr

/-- `_solve_by_evolution` -/
def solve (cfg : Cfg) (script : List Step) : Outcome × List St :=
  let (s, started, ex) := runLoop cfg {} script
  if ex then (.scriptExhausted, started)
  else match s.best with
    | none => (.raisedNothingEvaluated, started)
    | some (b, v) =>
      if s.hist.isEmpty then (.raisedNothingEvaluated, started)
      else (.ok { eigenvalue := v, bestIndividual := b, circuitEvaluations := s.ledger, generations := s.nGen,
                  history := s.hist, measured := b }, started)

/-- outcome of a solve in which an operator application may fail -/
inductive OutcomeF where
  | normal (o : Outcome)
  | operatorRaised                 -- the exception of the failing operator leaves `_solve_by_evolution` unchanged
  deriving Repr

/-- `_solve_by_evolution` when the application of `script[k]` (`faultAt = some k`) raises after having emitted its events
(a transient backend fault inside an operator): the loop has no handler, so if that application is reached the exception
propagates and nothing further is started; if the loop stops before reaching it, the fault plays no role. -/
def solveF (cfg : Cfg) (script : List Step) (faultAt : Option Nat) : OutcomeF × List St :=
  match faultAt with
  | none => (.normal (solve cfg script).1, (solve cfg script).2)
  | some k =>
    let started := (solve cfg (script.take (k + 1))).2
    if k < script.length ∧ started.length = k + 1 then (.operatorRaised, started)
    else (.normal (solve cfg script).1, (solve cfg script).2)

end QVerif.Solver
