/-!
# Model of the seed plumbing (C17)

`evqe.py` (`EVQEMinimumEigensolver.__init__`), `utility/random.py`, `mutation.py` (`BaseEVQEMutationOperator.apply_operator`).

The part of "reproducible" that is logic: every random number comes from a `random.Random` object; the only generator
that is alive while several threads run is the mutation operator's — it is used by the submitting thread (mutation
decisions and per-task seeds, in submission order), and every task receives its seed as an argument and builds its own
generator from it.  The model is a transition system with one shared generator state, a submitting thread and worker
actions that may run any pending task at any time; the theorems say that the outcome does not depend on the schedule.

A generator is abstract: `rand` (`random()`) and `seed` (`new_random_seed` = `randint(0, 2147483647)`) are arbitrary
state transformers.  A task (`mutation_function`) is an arbitrary function of (individual, seed).
-/

namespace QVerif.Seeds

structure Rng (S U : Type) where
  rand : S → U × S
  seed : S → Nat × S

/-! ## The solver's seed derivation -/

/-- consumers of the master generator in the order `EVQEMinimumEigensolver.__init__` draws their seeds; the initial
population's seed is drawn later, when `population_initializer` is called at the start of the solve -/
def seedOrder : List String :=
  ["EVQELastLayerParameterSearch", "EVQESpeciation", "EVQESelection", "EVQEParameterSearch", "EVQETopologicalSearch",
   "EVQELayerRemoval", "population_initializer"]

/-- `k` consecutive seeds -/
def drawSeeds {S U} (R : Rng S U) : Nat → S → List Nat × S
  | 0, s => ([], s)
  | k + 1, s =>
    let (x, s1) := R.seed s
    let (xs, s2) := drawSeeds R k s1
    (x :: xs, s2)

/-! ## A mutation operator application -/

structure Task (Ind : Type) where
  idx : Nat
  ind : Ind
  seed : Nat

structure Cfg (S U Ind Res : Type) where
  R : Rng S U
  mutate : U → Bool                 -- `random() <= mutation_probability`
  inds : List Ind                   -- `population.individuals`
  task : Ind → Nat → Res            -- `mutation_function(individual, evaluator, optimizer copy, seed)`

structure St (S Ind Res : Type) where
  rng : S                           -- state of `self.random_generator`
  next : Nat                        -- loop index of the submitting thread
  pending : List (Task Ind)         -- submitted, not yet executed
  done : List (Nat × Res)           -- finished futures by individual index

inductive Act where
  | submit                          -- one iteration of the submitting loop
  | run (k : Nat)                   -- a worker executes the `k`-th pending task

def init {S U Ind Res} (_ : Cfg S U Ind Res) (s0 : S) : St S Ind Res := { rng := s0, next := 0, pending := [], done := [] }

/-- one iteration of `for i, individual in enumerate(population.individuals)` -/
def submitStep {S U Ind Res} (c : Cfg S U Ind Res) (st : St S Ind Res) : St S Ind Res :=
  match c.inds[st.next]? with
  | none => st
  | some x =>
    let r := c.R.rand st.rng
    if c.mutate r.1 then
      let sd := c.R.seed r.2
      { st with rng := sd.2, next := st.next + 1, pending := st.pending ++ [⟨st.next, x, sd.1⟩] }
    else { st with rng := r.2, next := st.next + 1 }

def step {S U Ind Res} (c : Cfg S U Ind Res) (st : St S Ind Res) : Act → St S Ind Res
  | .submit => submitStep c st
  | .run k =>
    match st.pending[k]? with
    | none => st
    | some t => { st with pending := st.pending.eraseIdx k, done := st.done ++ [(t.idx, c.task t.ind t.seed)] }

def exec {S U Ind Res} (c : Cfg S U Ind Res) (s0 : S) (acts : List Act) : St S Ind Res := acts.foldl (step c) (init c s0)

/-- the application is over: the loop ran to the end and `wait(...)` returned -/
def Complete {S U Ind Res} (c : Cfg S U Ind Res) (st : St S Ind Res) : Prop := st.next = c.inds.length ∧ st.pending = []

/-- the state of the generator and the submitted tasks after `k` loop iterations — sequential reference -/
def subAt {S U Ind Res} (c : Cfg S U Ind Res) (s0 : S) : Nat → S × List (Task Ind)
  | 0 => (s0, [])
  | k + 1 =>
    let s := (subAt c s0 k).1
    let ts := (subAt c s0 k).2
    match c.inds[k]? with
    | none => (s, ts)
    | some x =>
      let r := c.R.rand s
      if c.mutate r.1 then
        let sd := c.R.seed r.2
        (sd.2, ts ++ [⟨k, x, sd.1⟩])
      else (r.2, ts)

/-- `new_individuals`: result of the future of index `i` if one was submitted, else the old individual -/
def gather {S Ind Res} (inject : Ind → Res) (inds : List Ind) (st : St S Ind Res) : List Res :=
  inds.zipIdx.map (fun (x, i) => match st.done.lookup i with | some r => r | none => inject x)

/-- the sequential reference outcome -/
def reference {S U Ind Res} (c : Cfg S U Ind Res) (inject : Ind → Res) (s0 : S) : S × List Res :=
  let (s, ts) := subAt c s0 c.inds.length
  (s, c.inds.zipIdx.map (fun (x, i) => match (ts.map (fun t => (t.idx, c.task t.ind t.seed))).lookup i with
                                        | some r => r | none => inject x))

/-! ## A whole run: a sequence of operator applications, every operator with its own generator

`_solve_by_evolution` applies the configured operators one after the other; each EVQE operator owns a generator seeded in
the solver's constructor (`seedOrder`), the population is handed from one application to the next.  An application of
operator `k` runs under some schedule of its submitting loop and the workers. -/

/-- an operator: its generator interface, its mutation decision and the task it submits for an individual and a seed
(speciation and selection submit tasks that ignore the seed or none at all: `mutate := fun _ => false`) -/
structure Op (S U Ind : Type) where
  R : Rng S U
  mutate : U → Bool
  task : Ind → Nat → Ind

structure RunSt (S Ind : Type) where
  gens : List S               -- generator state of every operator
  pop : List Ind

def Op.cfg {S U Ind} (o : Op S U Ind) (pop : List Ind) : Cfg S U Ind Ind :=
  { R := o.R, mutate := o.mutate, inds := pop, task := o.task }

/-- apply operator `k` under the schedule `acts` -/
def applyWith {S U Ind} (ops : List (Op S U Ind)) (st : RunSt S Ind) (k : Nat) (acts : List Act) : RunSt S Ind :=
  match ops[k]?, st.gens[k]? with
  | some o, some g =>
    let fin := exec (o.cfg st.pop) g acts
    { gens := st.gens.set k fin.rng, pop := gather id st.pop fin }
  | _, _ => st

/-- apply operator `k` sequentially (the reference) -/
def applyRef {S U Ind} (ops : List (Op S U Ind)) (st : RunSt S Ind) (k : Nat) : RunSt S Ind :=
  match ops[k]?, st.gens[k]? with
  | some o, some g =>
    let r := reference (o.cfg st.pop) id g
    { gens := st.gens.set k r.1, pop := r.2 }
  | _, _ => st

/-- the application of operator `k` in state `st` under `acts` ran to completion -/
def AppComplete {S U Ind} (ops : List (Op S U Ind)) (st : RunSt S Ind) (k : Nat) (acts : List Act) : Prop :=
  match ops[k]?, st.gens[k]? with
  | some o, some g => Complete (o.cfg st.pop) (exec (o.cfg st.pop) g acts)
  | _, _ => True

/-- a whole run: the operator indices in application order, each with the schedule it ran under -/
def runWith {S U Ind} (ops : List (Op S U Ind)) : RunSt S Ind → List (Nat × List Act) → RunSt S Ind
  | st, [] => st
  | st, (k, acts) :: rest => runWith ops (applyWith ops st k acts) rest

def runRef {S U Ind} (ops : List (Op S U Ind)) : RunSt S Ind → List Nat → RunSt S Ind
  | st, [] => st
  | st, k :: rest => runRef ops (applyRef ops st k) rest

/-- every application of the run was complete (in the state in which it started) -/
def RunComplete {S U Ind} (ops : List (Op S U Ind)) : RunSt S Ind → List (Nat × List Act) → Prop
  | _, [] => True
  | st, (k, acts) :: rest => AppComplete ops st k acts ∧ RunComplete ops (applyWith ops st k acts) rest

/-! ## The variant in which the seed is drawn inside the task (shared generator used by two threads) -/

namespace Shared

def submitStep {S U Ind Res} (c : Cfg S U Ind Res) (st : St S Ind Res) : St S Ind Res :=
  match c.inds[st.next]? with
  | none => st
  | some x =>
    let r := c.R.rand st.rng
    if c.mutate r.1 then { st with rng := r.2, next := st.next + 1, pending := st.pending ++ [⟨st.next, x, 0⟩] }
    else { st with rng := r.2, next := st.next + 1 }

def step {S U Ind Res} (c : Cfg S U Ind Res) (st : St S Ind Res) : Act → St S Ind Res
  | .submit => submitStep c st
  | .run k =>
    match st.pending[k]? with
    | none => st
    | some t =>
      let sd := c.R.seed st.rng
      { st with rng := sd.2, pending := st.pending.eraseIdx k, done := st.done ++ [(t.idx, c.task t.ind sd.1)] }

def exec {S U Ind Res} (c : Cfg S U Ind Res) (s0 : S) (acts : List Act) : St S Ind Res := acts.foldl (step c) (init c s0)

end Shared

end QVerif.Seeds
