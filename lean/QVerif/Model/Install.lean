/-!
# Model of the wrapper installation in `EvolvingAnsatzMinimumEigensolver.__init__`

The constructor does not build a private stack: it REPLACES the primitive stored in the (shared, mutable) configured
primitive object by a wrapper around what is stored there — first a batching wrapper (thread pool) or a plain mutex wrapper
(dask client) when `mutually_exclusive_primitives` is set, then the transpiling wrapper.  A second solver constructed on the
same configured primitive therefore wraps the first solver's chain.  A chain is the list of wrappers from the outside in;
`batching k` / `mutex k` carry the identity `k` of their runner / lock object.
-/

namespace QVerif.Install

inductive Executor where
  | threadPool | daskClient | none
  deriving DecidableEq, Repr

inductive W where
  | transpiling
  | batching (id : Nat)
  | mutex (id : Nat)
  deriving DecidableEq, Repr

structure Cfg where
  mutuallyExclusive : Bool
  executor : Executor
  deriving Repr

/-- the guard (runner / lock) a constructor call creates, if any -/
def guardOf (cfg : Cfg) (fresh : Nat) : Option W :=
  if cfg.mutuallyExclusive then
    match cfg.executor with
    | .threadPool => some (.batching fresh)
    | .daskClient => some (.mutex fresh)
    | .none => none
  else none

/-- one constructor call on a configured primitive whose current chain is `chain`; `fresh` identifies new objects -/
def install (cfg : Cfg) (fresh : Nat) (chain : List W) : List W :=
  .transpiling :: (match guardOf cfg fresh with | some g => g :: chain | none => chain)

/-- solvers constructed one after the other on the same configured primitive: the chain each of them evaluates through
(the `k`-th solver creates objects with identity `k`) -/
def viewsFrom : List Cfg → Nat → List W → List (List W)
  | [], _, _ => []
  | c :: cs, k, chain => install c k chain :: viewsFrom cs (k + 1) (install c k chain)

def views (cfgs : List Cfg) : List (List W) := viewsFrom cfgs 0 []

end QVerif.Install
