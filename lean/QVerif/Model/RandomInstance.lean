import QVerif.Model.Jssp

/-!
# Model of `job_shop_scheduling/random_problem_instances.py`

`random_job_shop_scheduling_instance(instance_name, n_jobs, n_machines, relative_op_amount, op_duration, random_seed)`.

Every use of the generator is an input (the *oracle*): per job the index drawn from the operation-amount distribution
(`choices(...)[0]`, only consulted when a distribution is given), the machines returned by `sample`, their order after
`shuffle`, and per operation the index drawn from the duration distribution.  The harness records these from the real
`random.Random(random_seed)` and replays them here; so the model agreeing with the code means that ALL randomness of the
constructor flows through that one generator, in this order.  Names are `m{i}`, `job{i}`, `op{j}`.
-/

namespace QVerif.RandInst

open QVerif.Jssp

/-- a plain value or a probability distribution (`dict`: keys in insertion order with their weights) -/
inductive VD (α : Type) where
  | val (x : α)
  | dist (keys : List α) (weights : List Rat)
  deriving Repr

inductive RErr where
  | badDistribution        -- ValueError: the probabilities do not add up to 1
  | sampleError            -- ValueError of `random.sample` (more operations than machines, or a negative amount)
  | emptyJob               -- JobShopSchedulingProblemException: a job without operations
  | invalid (e : Jssp.Err) -- any other rejection by the problem-instance constructors
  | oracleMismatch         -- the recorded draws do not fit the calls the model makes (a disagreement, not an outcome)
  deriving Repr, DecidableEq

/-- `math.isclose(sum, 1, abs_tol=0.001)` -/
def sumsToOne (ws : List Rat) : Bool :=
  let s := ws.sum
  let d := if s - 1 < 0 then 1 - s else s - 1
  decide (d ≤ 1 / 1000)

/-- `_get_value`: a value is returned as is; a distribution is checked, then drawn from (the oracle's index) -/
def getValue {α} (v : VD α) (draw : Option Nat) : Except RErr α :=
  match v with
  | .val x => .ok x
  | .dist keys ws =>
    if !sumsToOne ws then .error .badDistribution
    else match draw with
      | none => .error .oracleMismatch
      | some i => match keys[i]? with
        | some x => .ok x
        | none => .error .oracleMismatch

/-- Python's `round` on an exact value: half to even -/
def pyRound (q : Rat) : Int :=
  let f := q.floor
  let r := q - (f : Rat)
  if r < 1 / 2 then f else if 1 / 2 < r then f + 1 else if f % 2 = 0 then f else f + 1

/-- what the generator delivers for one job -/
structure JobDraws where
  amount : Option Nat := none        -- index into the amount distribution
  sample : List Nat := []            -- `sample(population=machines, k=n_ops)` as machine indices
  shuffled : List Nat := []          -- the same list after `shuffle`
  durs : List (Option Nat) := []     -- per operation: index into the duration distribution
  deriving Repr

def machineName (i : Nat) : String := "m" ++ toString i
def jobName (i : Nat) : String := "job" ++ toString i
def opName (j : Nat) : String := "op" ++ toString j

/-- the operations of job `i`: machine `shuffled[j]`, duration drawn per operation in order -/
def mkOps (i : Nat) (dur : VD Int) : List Nat → List (Option Nat) → Nat → Except RErr (List Operation)
  | [], _, _ => .ok []
  | m :: ms, ds, j =>
    match getValue dur (ds.headD none) with
    | .error e => .error e
    | .ok d =>
      let o : Operation := { name := opName j, jobName := jobName i, machine := machineName m, dur := d }
      -- `Operation(...)` validates itself as soon as it is created, before the next duration is drawn
      match checkOperation o with
      | .error e => .error (.invalid e)
      | .ok () =>
        match mkOps i dur ms ds.tail (j + 1) with
        | .error e => .error e
        | .ok rest => .ok (o :: rest)

/-- one iteration of the `for i in range(n_jobs)` loop -/
def mkJob (nMachines : Nat) (amount : VD Rat) (dur : VD Int) (i : Nat) (d : JobDraws) : Except RErr Job :=
  match getValue amount d.amount with
  | .error e => .error e
  | .ok a =>
    let k := pyRound (a * (nMachines : Rat))
    if k < 0 ∨ (nMachines : Int) < k then .error .sampleError
    else if d.sample.length ≠ k.toNat ∨ d.shuffled.length ≠ k.toNat then .error .oracleMismatch
    else match mkOps i dur d.shuffled d.durs 0 with
      | .error e => .error e
      | .ok ops =>
        -- then `Job(...)` validates the job
        if ops.length = 0 then .error .emptyJob
        else match checkJob { name := jobName i, ops := ops } with
          | .error e => .error (.invalid e)
          | .ok () => .ok { name := jobName i, ops := ops }

def mkJobs (nMachines : Nat) (amount : VD Rat) (dur : VD Int) : List JobDraws → Nat → Except RErr (List Job)
  | [], _ => .ok []
  | d :: ds, i =>
    match mkJob nMachines amount dur i d with
    | .error e => .error e
    | .ok j => match mkJobs nMachines amount dur ds (i + 1) with
      | .error e => .error e
      | .ok rest => .ok (j :: rest)

/-- `random_job_shop_scheduling_instance` (one `JobDraws` per job) -/
def randomInstance (name : String) (nMachines : Nat) (amount : VD Rat) (dur : VD Int) (draws : List JobDraws) :
    Except RErr Instance :=
  match mkJobs nMachines amount dur draws 0 with
  | .error e => .error e
  | .ok jobs =>
    let inst : Instance := { name := name, machines := (List.range nMachines).map machineName, jobs := jobs }
    match checkInstance inst with
    | .error e => .error (.invalid e)
    | .ok () => .ok inst

end QVerif.RandInst
