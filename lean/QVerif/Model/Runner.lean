/-! Scratch model of BatchingMutexPrimitiveJobRunner.run (post-fix protocol), see DESIGN Appendix A.
    v2: "notified" is represented by absence from the waiter list, so every step only changes the
    acting thread's local state and global fields. -/
namespace Runner

inductive Loc
  | idle | a0 | a1 | a2 | a3 | a4 | a7 | a8 | a9 | b0 | b1 | b2 | b3 | b4 | c0 | c1 | c2
  | d0 | d1 | d2 | g0 | g1 | g2 | g3 | g4 | g5 | g6 | g7 | r
  deriving DecidableEq, Repr, Hashable, BEq, Inhabited

inductive Outcome
  | ok (rs : List Nat)
  | exc (e : Nat)
  deriving DecidableEq, Repr, Hashable, BEq, Inhabited

structure TS where
  loc : Loc := .idle
  pubs : List Nat := []
  idx : Nat := 0
  exec : Bool := false
  loc_res : Option Outcome := none          -- local copy taken at D0
  todo : List (List Nat) := []               -- remaining calls (closed system for exploration)
  outs : List (Outcome × Nat) := []          -- finished calls: (outcome, idx)
  deriving DecidableEq, Repr, Hashable, BEq, Inhabited

structure St where
  E : Option Nat := none
  V : Option Nat := none
  icw : List Nat := []
  ecw : List Nat := []
  tc : Nat := 0
  ec : Nat := 0
  blen : Nat := 0
  g : Nat := 0                               -- ghost: members of the current batch that have gathered
  batch : List Nat := []
  result : Option (List Nat) := none
  exn : Option Nat := none
  flog : List (List Nat × Outcome) := []
  th : List TS := []
  deriving DecidableEq, Repr, Hashable, BEq, Inhabited

inductive Act
  | step (t : Nat)              -- the thread's next synchronisation operation
  | timeout (t : Nat)           -- a timed wait returns without notification
  | fret (t : Nat) (fail : Bool) -- f(batch).result() returns / raises
  deriving DecidableEq, Repr, Hashable, BEq

def St.get (s : St) (t : Nat) : TS := s.th.getD t {}
def St.set (s : St) (t : Nat) (x : TS) : St := { s with th := s.th.set t x }
def St.at (s : St) (t : Nat) (l : Loc) : St := s.set t { s.get t with loc := l }

def gather (s : St) : Outcome :=
  match s.result, s.exn with
  | some rs, _ => .ok rs
  | none, some e => .exc e
  | none, none => .exc 999     -- "Result was not yet ready to retrieve!"

def step (s : St) : Act → Option St
  | .step t =>
    if t ≥ s.th.length then none else
    let x := s.get t
    match x.loc with
    | .idle => if x.todo = [] then none else
        some (s.set t { x with loc := .a0, pubs := x.todo.headD [], todo := x.todo.tail, exec := false, loc_res := none, idx := 0 })
    | .a0 => if s.E = none then some ({ s with E := some t }.at t .a1) else none
    | .a1 => if s.V = none then
               some ({ s with V := some t, batch := s.batch ++ x.pubs, blen := s.blen + x.pubs.length, tc := s.tc + 1 }.set t
                      { x with loc := .a2, idx := s.blen })
             else some (s.at t .a7)
    | .a2 => some ({ s with E := none }.at t .a3)
    | .a3 => some ({ s with V := none }.at t .a4)
    | .a4 => some ({ s with ecw := [] }.at t .b0)
    | .a7 => some ({ s with E := none }.at t .a8)
    | .a8 => some ({ s with ecw := s.ecw ++ [t] }.at t .a9)
    | .a9 => if t ∈ s.ecw then none else some (s.at t .a0)
    | .b0 => some (s.at t .b1)
    | .b1 => if s.V = none then
               if s.ec + 1 = s.tc then some ({ s with V := some t, ec := s.ec + 1 }.set t { x with loc := .b2, exec := true })
               else some ({ s with V := some t, ec := s.ec + 1 }.set t { x with loc := .c0, exec := false })
             else none
    | .b2 => if s.E = none then some ({ s with E := some t }.at t .b3) else none
    | .b3 => none   -- needs Act.fret
    | .b4 => some ({ s with V := none }.at t .d0)
    | .c0 => some ({ s with V := none }.at t .c1)
    | .c1 => some ({ s with icw := s.icw ++ [t] }.at t .c2)
    | .c2 => if t ∈ s.icw then none else some (s.at t .d0)
    | .d0 => if s.V = none then
               some ({ s with V := some t, tc := s.tc - 1, g := s.g + 1 }.set t { x with loc := .d1, loc_res := some (gather s) })
             else none
    | .d1 => some ({ s with icw := s.icw.tail }.at t .d2)
    | .d2 => if x.exec then some ({ s with V := none }.at t .g0) else some ({ s with V := none }.at t .r)
    | .g0 => if s.tc > 0 then some (s.at t .g1) else some (s.at t .g4)
    | .g1 => some ({ s with icw := s.icw ++ [t] }.at t .g2)
    | .g2 => if t ∈ s.icw then none else some (s.at t .g3)
    | .g3 => some ({ s with icw := s.icw.tail }.at t .g0)
    | .g4 => if s.V = none then
               some ({ s with V := some t, result := none, exn := none, batch := [], blen := 0, tc := 0, ec := 0, g := 0 }.at t .g5)
             else none
    | .g5 => some ({ s with V := none }.at t .g6)
    | .g6 => some ({ s with E := none }.at t .g7)
    | .g7 => some ({ s with ecw := [] }.at t .r)
    | .r  => if x.loc_res.isSome then
               some (s.set t { x with loc := .idle, outs := x.outs ++ [(x.loc_res.getD (.exc 0), x.idx)] })
             else none
  | .timeout t =>
    if t ≥ s.th.length then none else
    let x := s.get t
    match x.loc with
    | .a9 => if t ∈ s.ecw then some ({ s with ecw := s.ecw.erase t }.at t .a0) else none
    | .g2 => if t ∈ s.icw then some ({ s with icw := s.icw.erase t }.at t .g3) else none
    | _ => none
  | .fret t fail =>
    if t ≥ s.th.length then none else
    let x := s.get t
    match x.loc with
    | .b3 =>
      if fail then
        some ({ s with result := none, exn := some s.flog.length, flog := s.flog ++ [(s.batch, Outcome.exc s.flog.length)] }.at t .b4)
      else
        some ({ s with result := some s.batch, exn := none, flog := s.flog ++ [(s.batch, Outcome.ok s.batch)] }.at t .b4)
    | _ => none

/-- run a list of actions (used by the drivers and the non-vacuity examples) -/
def runActs (s : St) : List Act → Option St
  | [] => some s
  | a :: t => (step s a).bind (fun s' => runActs s' t)

end Runner
