import QVerif.Model.Encoder

/-!
# The problem Hamiltonian as an operator: a polynomial in the Pauli-Z operators

`Model/Encoder.lean` describes the Hamiltonian through its eigenvalue on a basis state.  The code, however, builds an
*operator*: sums, scalar multiples and products (`compose`) of `pauli_identity_string` and `pauli_z_string`
(`utility/pauli_strings.py`, `utility/domain_wall_variables.py`, `domain_wall_hamiltonian_encoder.py`).  This file mirrors
those constructions term by term on a symbolic representation — a list of (coefficient, list of the qubits carrying a `Z`)
— exactly the data of a `SparsePauliOp` made of `I`/`Z` strings before `simplify()` (a qubit occurring twice in a product
stands for `Z·Z = I`).  `Lemmas/EncoderPoly.lean` proves that its value on every basis state is the eigenvalue function of
`Model/Encoder.lean` and that it only mentions qubits below the reported qubit count.
-/

namespace QVerif.Encoder

/-- a product of `Z` operators: the qubits it acts on (with repetitions) -/
abbrev Mono := List Nat
/-- a `SparsePauliOp` of `I`/`Z` strings: coefficient and `Z` positions of every term -/
abbrev Poly := List (Rat × Mono)

/-- eigenvalue of `Z` on qubit `q` -/
def zval (bits : Bits) (q : Nat) : Rat := if bits.getD q false then -1 else 1

def evalMono (bits : Bits) : Mono → Rat
  | [] => 1
  | q :: m => zval bits q * evalMono bits m

/-- eigenvalue of the operator on a basis state -/
def evalPoly (bits : Bits) : Poly → Rat
  | [] => 0
  | t :: p => t.1 * evalMono bits t.2 + evalPoly bits p

/-- `c * pauli_identity_string(n)` -/
def pconst (c : Rat) : Poly := [(c, [])]
/-- `pauli_z_string(q, n)` -/
def pz (q : Nat) : Poly := [(1, [q])]
def padd (p q : Poly) : Poly := p ++ q
def pscale (c : Rat) (p : Poly) : Poly := p.map (fun t => (c * t.1, t.2))
/-- `p.compose(q)` / `p @ q` on `I`/`Z` strings: term-wise products -/
def pmul (p q : Poly) : Poly := p.flatMap (fun a => q.map (fun b => (a.1 * b.1, a.2 ++ b.2)))
/-- `SparsePauliOp.sum(ops)` -/
def psum (ps : List Poly) : Poly := ps.flatten

/-! ### canonical form (`SparsePauliOp.simplify` with zero tolerance): `Z·Z = I`, equal strings merged, zero terms dropped -/

/-- cancel adjacent equal qubits of a sorted product -/
def cancelPairs : Mono → Mono
  | a :: b :: t => if a = b then cancelPairs t else a :: cancelPairs (b :: t)
  | l => l

def normMono (m : Mono) : Mono := cancelPairs (m.mergeSort (fun a b => decide (a ≤ b)))

/-- add a term to a table keyed by the `Z` positions -/
def addTerm : Poly → Rat × Mono → Poly
  | [], t => [t]
  | (c', m') :: rest, t => if m' = t.2 then (c' + t.1, m') :: rest else (c', m') :: addTerm rest t

def normalize (p : Poly) : Poly :=
  (p.foldl (fun acc t => addTerm acc (t.1, normMono t.2)) []).filter (fun t => decide (t.1 ≠ 0))

/-- `_z_dash_term` (index shifted by one as in `zd`) -/
def zdP (v : Var) (k : Nat) : Poly :=
  if k = 0 then pconst (-1)
  else if k = v.nq + 1 then pconst 1
  else pz (v.qstart + k - 1)

/-- `value_term` -/
def valueTermP (v : Var) (idx : Nat) : Poly :=
  if v.nq = 0 then pconst 1 else pscale (1 / 2) (padd (zdP v (idx + 1)) (pscale (-1) (zdP v idx)))

/-- `viability_term` -/
def viabilityP (v : Var) : Poly :=
  if v.nq = 0 then pscale 0 (pconst 1)
  else psum ((List.range (v.nq + 1)).map (fun k =>
          pscale (1 / 2) (padd (pconst 1) (pscale (-1) (pmul (zdP v k) (zdP v (k + 1)))))) ++ [pconst (-1)])

/-- `_operation_precedence_term` / `_operation_overlap_term`: sum over the penalised value pairs -/
def pairTermP (t : PairTerm) : Poly :=
  psum (t.pairs.map (fun (s1, s2) => pmul (valueTermP t.a.var (s1 - t.a.var.lo)) (valueTermP t.b.var (s2 - t.b.var.lo))))

/-- `_makespan_optimization_term` -/
def makespanTermP (ovs : List (List OpVar)) (limit : Nat) : Poly :=
  let n : Nat := ovs.length
  let maxOpt : Rat := ((n * (n + 1) ^ limit : Nat) : Rat)
  psum (ovs.map (fun row =>
    match row.getLast? with
    | none => []
    | some x => psum ((values x.var).map (fun s =>
        pscale ((1 / maxOpt) * (((n + 1) ^ (s + x.op.dur) : Nat) : Rat)) (valueTermP x.var (s - x.var.lo))))))

/-- `_early_start_term` -/
def earlyStartTermP (ovs : List (List OpVar)) : Poly :=
  let flat := ovs.flatten
  let z : Rat := (((flat.map (fun x => x.var.nvals - 1)).sum : Nat) : Rat)
  psum (flat.map (fun x => psum ((List.range x.var.nvals).map (fun (i : Nat) =>
    if i = 0 then [] else pscale ((1 / z) * ((i : Nat) : Rat)) (valueTermP x.var i)))))

/-- `_prepare_hamiltonian`: the weighted sum of the five parts -/
def energyPolyOf (pen : Penalties) (inst : EInst) (vars : List (List Var)) (limit : Nat) : Poly :=
  let ovs := opVars inst vars
  let pt := precTerms ovs
  let ot := ovlTerms ovs
  let all := pt ++ ot
  padd (padd (padd (padd
    (pscale pen.prec (psum (pt.map pairTermP)))
    (pscale pen.ovl (psum (ot.map pairTermP))))
    (pscale pen.enc (psum (ovs.flatten.map (fun x => pscale ((maxCount all x + 1 : Nat) : Rat) (viabilityP x.var))))))
    (pscale (pen.opt * (1 - pen.share)) (makespanTermP ovs limit)))
    (pscale (pen.opt * pen.share) (earlyStartTermP ovs))

/-- `get_problem_hamiltonian` as an operator -/
def energyPoly (pen : Penalties) (inst : EInst) (limit : Nat) : Except Err Poly :=
  match prepare inst limit with
  | .error e => .error e
  | .ok vars =>
    if nQubits vars = 0 then .error .noQubits
    else .ok (energyPolyOf pen inst vars limit)

end QVerif.Encoder
