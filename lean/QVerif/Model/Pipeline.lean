import QVerif.Model.Cvar

/-!
# Model of the circuit-evaluation pipeline (C03)

`circuit_evaluation.py`, `transpiling_primitives.py`, and the *interface* of the wrappers in `mutex_primitives.py`
(their internals are the subject of C06–C09).

What is logic is modelled; what is physics is a parameter:

* a primitive is a function from a list of pubs to a list of results (`Prim`); an *ideal* primitive answers every pub
  by a function of that pub alone (`Pointwise`);
* the wrappers are functions on primitives: the transpiling wrapper rewrites every pub, the mutex wrapper forwards,
  a batching wrapper runs the caller's pubs inside a larger batch and returns the caller's slice;
* the evaluators compose the initial state in front of every circuit, add measurements, zip circuits with parameter
  vectors, call the primitive once and turn result `i` into value `i`;
* the estimator's transpiling wrapper must re-lay-out the observable: `applyLayout` (Qiskit's
  `SparsePauliOp.apply_layout(transpiled.layout)`, which uses the FINAL index layout) against the physical
  position of every virtual qubit at the end of the transpiled circuit.  The invariance of the value is proved for
  the classical fragment — Pauli observables on computational-basis states and their mixtures.

Qubit `i` is list position `i` (the harness converts Qiskit's little-endian labels).
-/

namespace QVerif.Pipeline

/-! ## Primitives and wrappers -/

abbrev Prim (π ρ : Type) := List π → List ρ

/-- an ideal primitive: result `i` is a function of pub `i` only -/
def Pointwise {π ρ} (P : Prim π ρ) (ans : π → ρ) : Prop := ∀ pubs, P pubs = pubs.map ans

/-- a stack of the library's wrappers around a primitive -/
inductive Stack (π : Type) where
  | plain
  | transpiling (tr : π → π) (inner : Stack π)               -- `TranspilingSamplerV2` / `TranspilingEstimatorV2`
  | mutex (inner : Stack π)                                   -- `MutexSampler` / `MutexEstimator`
  | batching (before after : List π) (inner : Stack π)        -- `BatchingMutex…`: other callers' pubs in the same batch

/-- the primitive a caller sees through the stack -/
def Stack.wrap {π ρ} : Stack π → Prim π ρ → Prim π ρ
  | .plain, P => P
  | .transpiling tr s, P => fun pubs => s.wrap P (pubs.map tr)
  | .mutex s, P => s.wrap P
  | .batching before after s, P => fun pubs => ((s.wrap P (before ++ pubs ++ after)).drop before.length).take pubs.length

/-- every rewriting in the stack preserves the ideal answer -/
def Stack.Sound {π ρ} (ans : π → ρ) : Stack π → Prop
  | .plain => True
  | .transpiling tr s => (∀ p, ans (tr p) = ans p) ∧ s.Sound ans
  | .mutex s => s.Sound ans
  | .batching _ _ s => s.Sound ans

/-! ## Sampler-based evaluators -/

abbrev Bits := List Bool

/-- a measured counts dictionary in iteration order -/
abbrev Counts := List (Bits × Nat)

/-- `measure_quasi_distributions`: `count / shots`, paired with the objective value of the outcome -/
def quasi (f : Bits → Rat) (shots : Nat) (c : Counts) : QVerif.Cvar.Dist :=
  c.map (fun e => ((e.2 : Rat) / (shots : Rat), f e.1))

structure SamplerEval (Circ Par : Type) where
  compose : Circ → Circ → Circ          -- `initial_state_circuit.compose(circuit)`
  measureAll : Circ → Circ              -- `circuit.measure_all(inplace=False)`
  init : Option Circ
  shots : Nat
  f : Bits → Rat                        -- operator diagonal / bitstring function
  alpha : Rat

def SamplerEval.prep {Circ Par} (e : SamplerEval Circ Par) (c : Circ) : Circ :=
  e.measureAll (match e.init with | none => c | some i => e.compose i c)

/-- `OperatorSamplerCircuitEvaluator.evaluate_circuits` / `BitstringCircuitEvaluator.evaluate_circuits` -/
def SamplerEval.evaluate {Circ Par} (e : SamplerEval Circ Par) (P : Prim (Circ × Par) Counts)
    (circuits : List Circ) (params : List Par) : List Rat :=
  let pubs := (circuits.map e.prep).zip params
  (P pubs).map (fun c => QVerif.Cvar.getExpectation (quasi e.f e.shots c) e.alpha)

/-! ### Pubs that carry their shot count

`measure_quasi_distributions` submits `(circuit, parameter_values, shots)` and divides the returned counts by the SAME
`shots`; the wrappers hand the pubs on as `SamplerPub`s, each with its own shot count (a batch may mix pubs of evaluators
with different shot counts). -/

abbrev SPub (Circ Par : Type) := Circ × Par × Nat

def countsTotal (c : Counts) : Nat := (c.map (·.2)).sum

/-- `OperatorSamplerCircuitEvaluator.evaluate_circuits` / `BitstringCircuitEvaluator.evaluate_circuits` with the shot count in
the pub -/
def SamplerEval.evaluateS {Circ Par} (e : SamplerEval Circ Par) (P : Prim (SPub Circ Par) Counts)
    (circuits : List Circ) (params : List Par) : List Rat :=
  let pubs := ((circuits.map e.prep).zip params).map (fun cp => (cp.1, cp.2, e.shots))
  (P pubs).map (fun c => QVerif.Cvar.getExpectation (quasi e.f e.shots c) e.alpha)

/-- `TranspilingSamplerV2.run` on one coerced pub: the circuit is transpiled, parameter values and shots are kept -/
def transpileSPub {Circ Par} (pm : Circ → Circ) (p : SPub Circ Par) : SPub Circ Par := (pm p.1, p.2.1, p.2.2)

/-- a (defective) hand-over that submits a whole batch with one shot count -/
def overrideShots {Circ Par} (s : Nat) (p : SPub Circ Par) : SPub Circ Par := (p.1, p.2.1, s)

/-! ## Estimator-based evaluator -/

structure EstimatorEval (Circ Obs : Type) where
  compose : Circ → Circ → Circ
  init : Option Circ
  op : Obs

def EstimatorEval.prep {Circ Obs} (e : EstimatorEval Circ Obs) (c : Circ) : Circ :=
  match e.init with | none => c | some i => e.compose i c

/-- `OperatorCircuitEvaluator.evaluate_circuits` -/
def EstimatorEval.evaluate {Circ Obs Par} (e : EstimatorEval Circ Obs) (P : Prim (Circ × Obs × Par) Rat)
    (circuits : List Circ) (params : List Par) : List Rat :=
  P (((circuits.map e.prep).zip params).map (fun cp => (cp.1, e.op, cp.2)))

/-- `TranspilingEstimatorV2.run` on one pub: transpile the circuit, map the observable to the layout of the transpiled
circuit -/
def transpileEstimatorPub {Circ Obs Par} (pm : Circ → Circ) (relayout : Circ → Obs → Obs) (p : Circ × Obs × Par) :
    Circ × Obs × Par :=
  (pm p.1, relayout (pm p.1) p.2.1, p.2.2)

/-- `TranspilingSamplerV2.run` on one pub -/
def transpileSamplerPub {Circ Par} (pm : Circ → Circ) (p : Circ × Par) : Circ × Par := (pm p.1, p.2)

/-! ## Layouts and Pauli observables on basis states -/

inductive Pauli where
  | I | X | Y | Z
  deriving DecidableEq, Repr, Inhabited

/-- ⟨b| P |b⟩ for one qubit -/
def factor (p : Pauli) (b : Bool) : Rat :=
  match p with
  | .I => 1
  | .Z => if b then -1 else 1
  | _ => 0

/-- ⟨b| P₀ ⊗ P₁ ⊗ … |b⟩ -/
def stringVal : List Pauli → Bits → Rat
  | p :: ps, b :: bs => factor p b * stringVal ps bs
  | _, _ => 1

/-- `SparsePauliOp`: coefficient and Pauli string per term -/
abbrev PauliOp := List (Rat × List Pauli)

def opVal (o : PauliOp) (b : Bits) : Rat := (o.map (fun t => t.1 * stringVal t.2 b)).sum

/-- write the entries of `xs` to the positions `pos` of `acc` -/
def scatter {α} : List α → List Nat → List α → List α
  | x :: xs, k :: ks, acc => scatter xs ks (acc.set k x)
  | _, _, acc => acc

/-- `Pauli.apply_layout(layout, m)`: virtual position `i` goes to physical position `layout[i]`, identity elsewhere -/
def applyLayout (ps : List Pauli) (layout : List Nat) (m : Nat) : List Pauli := scatter ps layout (List.replicate m .I)

def opApplyLayout (o : PauliOp) (layout : List Nat) (m : Nat) : PauliOp := o.map (fun t => (t.1, applyLayout t.2 layout m))

/-- the basis state a semantics-preserving transpilation leaves on the physical qubits: virtual qubit `i` ends on
physical qubit `final[i]`, ancillas stay `0` -/
def place (b : Bits) (final : List Nat) (m : Nat) : Bits := scatter b final (List.replicate m false)

/-- a mixture of basis states (what a diagonal observable sees of any state) -/
abbrev Mixture := List (Rat × Bits)

def mixVal (o : PauliOp) (μ : Mixture) : Rat := (μ.map (fun e => e.1 * opVal o e.2)).sum

def mixPlace (μ : Mixture) (final : List Nat) (m : Nat) : Mixture := μ.map (fun e => (e.1, place e.2 final m))

/-- a well-formed final index layout of `n` virtual qubits on `m` physical ones -/
structure LayoutOk (final : List Nat) (n m : Nat) : Prop where
  len : final.length = n
  lt : ∀ k ∈ final, k < m
  nodup : final.Nodup

end QVerif.Pipeline

/-! ## Pure states (superpositions) with Gaussian-rational amplitudes

The classical fragment above sees a state only through its measurement statistics.  For the estimator path with
non-diagonal observables the whole state matters: a state is a finite list of (basis state, amplitude) pairs —
amplitudes of equal basis states add up; no normalisation is assumed — and `expval` is ⟨ψ| P |ψ⟩. -/

namespace QVerif.Pipeline

/-- `re + im·i` -/
structure GRat where
  re : Rat
  im : Rat
  deriving DecidableEq, Repr, Inhabited

namespace GRat
def zero : GRat := ⟨0, 0⟩
def add (a b : GRat) : GRat := ⟨a.re + b.re, a.im + b.im⟩
def mul (a b : GRat) : GRat := ⟨a.re * b.re - a.im * b.im, a.re * b.im + a.im * b.re⟩
def conj (a : GRat) : GRat := ⟨a.re, -a.im⟩
def smul (c : Rat) (a : GRat) : GRat := ⟨c * a.re, c * a.im⟩
/-- `i^k` -/
def ipow (k : Nat) : GRat :=
  match k % 4 with
  | 0 => ⟨1, 0⟩
  | 1 => ⟨0, 1⟩
  | 2 => ⟨-1, 0⟩
  | _ => ⟨0, -1⟩
def sum (l : List GRat) : GRat := l.foldr add zero
end GRat

abbrev State := List (Bits × GRat)

/-- the amplitude of a basis state -/
def amp (ψ : State) (b : Bits) : GRat := GRat.sum ((ψ.filter (fun e => e.1 = b)).map (·.2))

/-- one-qubit Pauli on a basis state: `P|b⟩ = i^k |b'⟩`, returned as `(k, b')` -/
def act1 (p : Pauli) (b : Bool) : Nat × Bool :=
  match p, b with
  | .I, b => (0, b)
  | .X, b => (0, !b)
  | .Y, false => (1, true)
  | .Y, true => (3, false)
  | .Z, false => (0, false)
  | .Z, true => (2, true)

/-- exponent of `i` picked up by a Pauli string on a basis state -/
def phase : List Pauli → Bits → Nat
  | p :: ps, b :: bs => (act1 p b).1 + phase ps bs
  | _, _ => 0

/-- the basis state a Pauli string maps a basis state to (positions without a Pauli are left alone) -/
def flip : List Pauli → Bits → Bits
  | p :: ps, b :: bs => (act1 p b).2 :: flip ps bs
  | _, bs => bs

/-- ⟨ψ| P |ψ⟩ = Σ_b ψ(b) · i^{phase P b} · conj ψ(P·b) -/
def expval (ps : List Pauli) (ψ : State) : GRat :=
  GRat.sum (ψ.map (fun e => GRat.mul (GRat.mul (GRat.conj (amp ψ (flip ps e.1))) e.2) (GRat.ipow (phase ps e.1))))

/-- ⟨ψ| O |ψ⟩ for a `SparsePauliOp` -/
def opExpval (o : PauliOp) (ψ : State) : GRat := GRat.sum (o.map (fun t => GRat.smul t.1 (expval t.2 ψ)))

/-- the state a semantics-preserving transpilation prepares on the physical qubits -/
def statePlace (ψ : State) (final : List Nat) (m : Nat) : State := ψ.map (fun e => (place e.1 final m, e.2))

end QVerif.Pipeline
