/-!
# Model of `circuit_evaluation/expectation_calculation.py`

A measured distribution is a list of `(probability, value)` pairs in the iteration order of the Python
dict; `value` is the objective of that outcome (operator diagonal entry or bitstring function value).
Exact rationals; `numpy.isclose(a, b)` is the exact predicate `|a − b| ≤ 1e-8 + 1e-5·|b|`.
-/

namespace QVerif.Cvar

abbrev Dist := List (Rat × Rat)

def rabs (x : Rat) : Rat := if x < 0 then -x else x

def atol : Rat := 1 / 100000000
def rtol : Rat := 1 / 100000

/-- `numpy.isclose(a, b)` with default tolerances -/
def isclose (a b : Rat) : Bool := decide (rabs (a - b) ≤ atol + rtol * rabs b)

/-- `sorted(state_list, key=lambda x: x[2])` (stable) -/
def sortByValue (l : Dist) : Dist := l.mergeSort (fun a b => decide (a.2 ≤ b.2))

/-- the `for` loop of `_get_expectation` (with its `break`); returns the accumulated `expectation` -/
def loop (alpha : Rat) : Dist → (gathered expectation : Rat) → Rat
  | [], _, e => e
  | (p, v) :: t, g, e =>
    let p' := min (alpha - g) p
    let e' := e + p' * v
    let g' := g + p'
    if isclose g' alpha then e' else loop alpha t g' e'

/-- `_get_expectation(state_list, alpha)` -/
def getExpectation (l : Dist) (alpha : Rat) : Rat :=
  let l := if !isclose alpha 1 then sortByValue l else l
  loop alpha l 0 0 / alpha

/-- `sampled_expectation_value`: Σ p·v -/
def plainExpectation : Dist → Rat
  | [] => 0
  | (p, v) :: t => p * v + plainExpectation t

inductive Err | alphaOutOfRange
  deriving DecidableEq, Repr

/-- `get_expectation_with_operator` -/
def expectationWithOperator (l : Dist) (alpha : Rat) : Except Err Rat :=
  if alpha ≤ 0 ∨ 1 < alpha then .error .alphaOutOfRange
  else if isclose alpha 1 then .ok (plainExpectation l)
  else .ok (getExpectation (sortByValue l) alpha)

/-- `get_expectation_with_bitstring_evaluator` -/
def expectationWithBitstrings (l : Dist) (alpha : Rat) : Except Err Rat :=
  if alpha ≤ 0 ∨ 1 < alpha then .error .alphaOutOfRange
  else .ok (getExpectation l alpha)

/-! ## the tolerance-free greedy fill (reference for the theorems) -/

/-- fill mass `a` in list order; returns Σ qᵢ·vᵢ -/
def greedy : Dist → Rat → Rat
  | [], _ => 0
  | (p, v) :: t, a => min a p * v + greedy t (a - min a p)

/-- exact CVaR: greedy fill of the value-sorted distribution, divided by α -/
def cvarExact (l : Dist) (alpha : Rat) : Rat := greedy (sortByValue l) alpha / alpha

end QVerif.Cvar
