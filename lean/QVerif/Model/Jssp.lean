/-!
# Model of `queasars/job_shop_scheduling/problem_instances.py`

Hand-written, executable, core Lean only.  Mirrors, branch for branch and in source order:

* `Machine.__post_init__`, `Operation.__post_init__`, `Job.__post_init__`,
  `JobShopSchedulingProblemInstance.__post_init__`  (validators, returning the *kind* of the
  exception raised — the harness maps the exception messages to the same kinds),
* `JobShopSchedulingResult.__init__` (the two consistency checks),
* `JobShopSchedulingResult._is_valid_solution`, `.is_valid`, `.makespan`, `.valid_schedule`.

Python facts that are assumed (trusted base): `len(set(xs))` is the number of distinct elements of
`xs` under `==`; dataclass equality is field-wise; `sorted(..., key=start)` returns a permutation that
is non-decreasing in the key (the model uses `List.mergeSort`, but the theorems only use
"permutation sorted by start", so the tie order is irrelevant); `dict` look-up by an equal key.
-/

namespace QVerif.Jssp

/-- Kinds of `JobShopSchedulingProblemException` (one per `raise` site). -/
inductive Err where
  | machineEmptyName
  | opEmptyName | opEmptyJobName | opBadDuration
  | jobEmptyName | jobNoOps | jobDupIdent | jobNameMismatch | jobMachineRevisit
  | instEmptyName | instDupMachines | instDupJobNames | instUndeclaredMachine
  | resJobsMismatch | resOpsMismatch
  | invalidResult
  deriving DecidableEq, Repr

def Err.toString : Err → String
  | .machineEmptyName => "machineEmptyName"
  | .opEmptyName => "opEmptyName" | .opEmptyJobName => "opEmptyJobName" | .opBadDuration => "opBadDuration"
  | .jobEmptyName => "jobEmptyName" | .jobNoOps => "jobNoOps" | .jobDupIdent => "jobDupIdent"
  | .jobNameMismatch => "jobNameMismatch" | .jobMachineRevisit => "jobMachineRevisit"
  | .instEmptyName => "instEmptyName" | .instDupMachines => "instDupMachines"
  | .instDupJobNames => "instDupJobNames" | .instUndeclaredMachine => "instUndeclaredMachine"
  | .resJobsMismatch => "resJobsMismatch" | .resOpsMismatch => "resOpsMismatch"
  | .invalidResult => "invalidResult"

/-- `Machine` is identified with its name. -/
abbrev Machine := String

structure Operation where
  name : String
  jobName : String
  machine : Machine
  dur : Int
  deriving DecidableEq, Repr

structure Job where
  name : String
  ops : List Operation
  deriving DecidableEq, Repr, Inhabited

structure Instance where
  name : String
  machines : List Machine
  jobs : List Job
  deriving DecidableEq, Repr

/-- `Operation.identifier` -/
def Operation.ident (o : Operation) : String := o.jobName ++ "_" ++ o.name

/-- `len(set(xs))`: the number of distinct elements. -/
def card {α} [DecidableEq α] : List α → Nat
  | [] => 0
  | a :: l => if a ∈ l then card l else card l + 1

/-! ## Validators (`__post_init__`) -/

def checkMachine (m : Machine) : Except Err Unit :=
  if m = "" then .error .machineEmptyName else .ok ()

def checkOperation (o : Operation) : Except Err Unit :=
  if o.name = "" then .error .opEmptyName
  else if o.jobName = "" then .error .opEmptyJobName
  else if o.dur ≤ 0 then .error .opBadDuration
  else .ok ()

/-- The `for operation in self.operations` loop of `Job.__post_init__` with its `visited_machines` set. -/
def jobLoop (jobName : String) : List Operation → List Machine → Except Err Unit
  | [], _ => .ok ()
  | o :: rest, visited =>
    if o.jobName ≠ jobName then .error .jobNameMismatch
    else if o.machine ∈ visited then .error .jobMachineRevisit
    else jobLoop jobName rest (o.machine :: visited)

def checkJob (j : Job) : Except Err Unit :=
  if j.name = "" then .error .jobEmptyName
  else if j.ops.length = 0 then .error .jobNoOps
  else if card (j.ops.map Operation.ident) ≠ j.ops.length then .error .jobDupIdent
  else jobLoop j.name j.ops []

/-- `Job.is_consistent_with_machines` -/
def Job.consistentWith (j : Job) (machines : List Machine) : Bool :=
  j.ops.all (fun o => decide (o.machine ∈ machines))

def checkInstance (i : Instance) : Except Err Unit :=
  if i.name = "" then .error .instEmptyName
  else if card i.machines ≠ i.machines.length then .error .instDupMachines
  else if card (i.jobs.map Job.name) ≠ i.jobs.length then .error .instDupJobNames
  else if i.jobs.all (fun j => j.consistentWith i.machines) then .ok ()
  else .error .instUndeclaredMachine

/-- first error of a sequence of checks executed in order -/
def firstErr : List (Except Err Unit) → Except Err Unit
  | [] => .ok ()
  | .ok () :: rest => firstErr rest
  | .error e :: _ => .error e

/-- the checks Python executes when a job is built from raw data: its operations (machine, then
operation) in order, then the job itself -/
def jobChecks (j : Job) : List (Except Err Unit) :=
  j.ops.flatMap (fun o => [checkMachine o.machine, checkOperation o]) ++ [checkJob j]

/-- Everything Python executes when an instance is built bottom-up from raw data: machines first,
then for every job its operations and the job, then the instance (first error wins). -/
def buildInstance (i : Instance) : Except Err Unit :=
  firstErr (i.machines.map checkMachine ++ i.jobs.flatMap jobChecks ++ [checkInstance i])

/-! ## Results -/

/-- `ScheduledOperation(op, start)` / `UnscheduledOperation(op)` -/
structure SchedOp where
  op : Operation
  start : Option Int
  deriving DecidableEq, Repr

def SchedOp.fin (s : SchedOp) : Option Int := s.start.map (· + s.op.dur)

/-- The schedule `dict[Job, tuple[PotentiallyScheduledOperation, ...]]` as an association list
(keys pairwise distinct, as in a `dict`). -/
abbrev Schedule := List (Job × List SchedOp)

def Schedule.get (s : Schedule) (j : Job) : List SchedOp := (s.lookup j).getD []

/-- `set(problem_instance.jobs) == set(schedule.keys())` -/
def sameJobSet (i : Instance) (s : Schedule) : Bool :=
  i.jobs.all (fun j => decide (j ∈ s.map Prod.fst)) && (s.map Prod.fst).all (fun k => decide (k ∈ i.jobs))

/-- `job.operations == tuple(map(lambda x: x.operation, schedule[job]))` for every job -/
def sameOps (i : Instance) (s : Schedule) : Bool :=
  i.jobs.all (fun j => decide (j.ops = (s.get j).map SchedOp.op))

/-- `JobShopSchedulingResult.__init__` -/
def checkResult (i : Instance) (s : Schedule) : Except Err Unit :=
  if !sameJobSet i s then .error .resJobsMismatch
  else if sameOps i s then .ok ()
  else .error .resOpsMismatch

/-- A scheduled operation on the time line. -/
structure Slot where
  machine : Machine
  start : Int
  dur : Int
  deriving DecidableEq, Repr

def Slot.fin (o : Slot) : Int := o.start + o.dur

/-- `ensure_all_operations_are_scheduled` on the rows of the schedule -/
def allScheduled (rows : List (List SchedOp)) : Bool :=
  rows.all (fun r => r.all (fun s => s.start.isSome))

def toSlots (r : List SchedOp) : List Slot :=
  r.filterMap (fun s => s.start.map (fun t => { machine := s.op.machine, start := t, dur := s.op.dur }))

/-- the neighbour loop used twice in `_is_valid_solution`:
`if scheduled_operation.start_time < previous_scheduled_operation.end_time: return False` -/
def chainOk : List Slot → Bool
  | a :: b :: t => !(decide (b.start < a.fin)) && chainOk (b :: t)
  | _ => true

/-- `sorted(scheduled_operations, key=lambda x: x.start_time)` -/
def sortByStart (l : List Slot) : List Slot := l.mergeSort (fun a b => decide (a.start ≤ b.start))

/-- `_is_valid_solution` on the per-job rows (in the order of `problem_instance.jobs`). -/
def isValidRows (machines : List Machine) (rows : List (List SchedOp)) : Bool :=
  if !allScheduled rows then false
  else
    let rs := rows.map toSlots
    if !(rs.all chainOk) then false
    else machines.all (fun m => chainOk (sortByStart (rs.flatten.filter (fun o => o.machine = m))))

/-- the rows of a result in the order of the instance's jobs (`self._schedule[job]`) -/
def rowsOf (i : Instance) (s : Schedule) : List (List SchedOp) := i.jobs.map s.get

/-- `JobShopSchedulingResult.is_valid` -/
def isValid (i : Instance) (s : Schedule) : Bool := isValidRows i.machines (rowsOf i s)

def maxList : List Int → Int → Int
  | [], d => d
  | a :: l, _ => l.foldl max a

/-- last element's end time of a row (`scheduled_operations[-1].end_time`) -/
def rowEnd (r : List Slot) : Option Int := r.getLast?.map Slot.fin

/-- `JobShopSchedulingResult.makespan` (`max(..., default=0)`; the rows are the dict's values — `max` is
order independent).  `none` models Python's `None`. -/
def makespanRows (machines : List Machine) (rows : List (List SchedOp)) : Option Int :=
  if !isValidRows machines rows then none
  else some (maxList ((rows.map toSlots).filterMap rowEnd) 0)

def makespan (i : Instance) (s : Schedule) : Option Int := makespanRows i.machines (rowsOf i s)

/-- `JobShopSchedulingResult.valid_schedule`: raises iff the result is invalid. -/
def validSchedule (i : Instance) (s : Schedule) : Except Err Schedule :=
  if isValid i s then .ok s else .error .invalidResult

end QVerif.Jssp
