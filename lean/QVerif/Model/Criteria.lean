/-!
# Model of `minimum_eigensolvers/base/termination_criteria.py` and `utility/spsa_termination.py`

Values are exact rationals; `float("inf")` is `none` in `ERat := Option Rat`.
Each criterion is a state machine mirroring the Python class: `init` = constructor / `reset_state`,
`check` = `check_termination`.  Assumed about NumPy: `median` of a non-empty list is the middle element of the
sorted list (odd length) or the mean of the two middle elements (even length).
-/

namespace QVerif.Criteria

/-- extended rationals: `none` is `+inf` -/
abbrev ERat := Option Rat

def ERat.lt (a : ERat) (thr : Rat) : Bool :=
  match a with
  | none => false
  | some x => decide (x < thr)

def ERat.max (a b : ERat) : ERat :=
  match a, b with
  | some x, some y => some (if x ≤ y then y else x)
  | _, _ => none

/-- Python `max(list)` of a non-empty list of floats possibly containing `inf` (`none` for the empty list is
never used: all call sites have non-empty windows) -/
def emax : List ERat → ERat
  | [] => none
  | [a] => a
  | a :: t => ERat.max a (emax t)

def rabs (x : Rat) : Rat := if x < 0 then -x else x

/-- `_relative_change` -/
def relChange (change ref : Rat) : ERat := if ref = 0 then none else some (change / rabs ref)

/-- `hist[-allowed-1:]` -/
def window (hist : List ERat) (allowed : Nat) : List ERat := hist.drop (hist.length - (allowed + 1))

/-- the common tail of all criteria:
`if len(hist) < allowed + 1: return False; return max(hist[-allowed-1:]) < threshold` -/
def decide_ (hist : List ERat) (allowed : Nat) (thr : Rat) : Bool :=
  if hist.length < allowed + 1 then false else (emax (window hist allowed)).lt thr

/-- what a criterion sees of a `BasePopulationEvaluationResult`: the non-`None` expectation values (in order)
and the best expectation value -/
structure Eval where
  values : List Rat
  best : Rat
  deriving Repr, DecidableEq

/-! ## BestIndividualChangeTolerance -/

structure BestState where
  prev : Option Rat := none
  hist : List ERat := []
  deriving Repr

def bestChangeCheck (allowed : Nat) (thr : Rat) (s : BestState) (e : Eval) : BestState × Bool :=
  match s.prev with
  | none => ({ s with prev := some e.best }, false)
  | some p =>
    let hist := s.hist ++ [some (rabs (p - e.best))]
    ({ prev := some e.best, hist := hist }, decide_ hist allowed thr)

/-! ## BestIndividualRelativeChangeTolerance -/

def bestRelChangeCheck (allowed : Nat) (thr : Rat) (s : BestState) (e : Eval) : BestState × Bool :=
  match s.prev with
  | none => ({ s with prev := some e.best }, false)
  | some p =>
    let hist := s.hist ++ [relChange (rabs (p - e.best)) p]
    ({ prev := some e.best, hist := hist }, decide_ hist allowed thr)

/-! ## BestIndividualExpectationValueThreshold -/

def thresholdCheck (thr : Rat) (e : Eval) : Bool := decide (e.best < thr)

/-! ## median Hausdorff distance -/

def insertSorted (x : Rat) : List Rat → List Rat
  | [] => [x]
  | y :: t => if x ≤ y then x :: y :: t else y :: insertSorted x t

def sortRat (l : List Rat) : List Rat := l.foldr insertSorted []

/-- `numpy.median` of a non-empty list (0 for the empty list, which no call site passes) -/
def median (l : List Rat) : Rat :=
  let s := sortRat l
  let n := s.length
  if n = 0 then 0
  else if n % 2 = 1 then s.getD (n / 2) 0
  else (s.getD (n / 2 - 1) 0 + s.getD (n / 2) 0) / 2

def minList : List Rat → Rat
  | [] => 0
  | [a] => a
  | a :: t => let m := minList t; if a ≤ m then a else m

/-- `distance(from, to)` inside `_median_hausdorff_distance_by_expectation_value` -/
def directed (frm to : List Rat) : Rat :=
  median (frm.map (fun f => minList (to.map (fun t => rabs (f - t)))))

def rmax (a b : Rat) : Rat := if a ≤ b then b else a

def medianHausdorff (a b : Eval) : Rat := rmax (directed a.values b.values) (directed b.values a.values)

/-! ## PopulationChangeTolerance / PopulationChangeRelativeTolerance -/

structure PopState where
  last : Option Eval := none
  hist : List ERat := []
  deriving Repr

/-- constructor / `reset_state`: history pre-filled with `allowed + 1` infinities -/
def popInit (allowed : Nat) : PopState := { last := none, hist := List.replicate (allowed + 1) none }

def popMeasure (l e : Eval) : Rat := rmax (medianHausdorff l e) (rabs (l.best - e.best))

def popChangeCheck (allowed : Nat) (thr : Rat) (s : PopState) (e : Eval) : PopState × Bool :=
  let hist := match s.last with
    | none => s.hist
    | some l => s.hist ++ [some (popMeasure l e)]
  ({ last := some e, hist := hist }, decide_ hist allowed thr)

def popRelMeasure (l e : Eval) : ERat := relChange (popMeasure l e) (median l.values)

def popRelChangeCheck (allowed : Nat) (thr : Rat) (s : PopState) (e : Eval) : PopState × Bool :=
  let hist := match s.last with
    | none => s.hist
    | some l => s.hist ++ [popRelMeasure l e]
  ({ last := some e, hist := hist }, decide_ hist allowed thr)

/-- answers of a criterion over a whole history -/
def runCrit {σ} (check : σ → Eval → σ × Bool) : σ → List Eval → List Bool
  | _, [] => []
  | s, e :: rest => let (s', b) := check s e; b :: runCrit check s' rest

/-! ## SPSATerminationChecker -/

structure SpsaCall where
  nfev : Nat
  value : Rat
  accepted : Bool
  deriving Repr, DecidableEq

structure SpsaState where
  values : List Rat := []          -- `_function_value_history`
  changes : List ERat := []        -- `_change_history`
  nfev : Nat := 0                  -- `_n_function_evaluations`
  nfevHist : List Nat := []        -- `_n_function_evaluation_history`
  best : ERat := none              -- `_best_function_value`
  done : Bool := false
  deriving Repr

def spsaReset (s : SpsaState) : SpsaState :=
  { s with values := [], changes := [], nfev := 0, nfevHist := [], best := none, done := false }

/-- the implicit reset at the head of `termination_check` -/
def spsaEnter (s : SpsaState) (c : SpsaCall) : SpsaState :=
  if s.done || c.nfev ≤ s.nfev then spsaReset s else s

/-- the rest of `termination_check` -/
def spsaBody (allowed : Nat) (thr : Rat) (maxfev : Option Nat) (s : SpsaState) (c : SpsaCall) : SpsaState × Bool :=
  let s := { s with nfev := c.nfev }
  if (match maxfev with | some m => decide (m ≤ s.nfev) | none => false) then (s, true)
  else if !c.accepted then (s, false)
  else
    let prevVals := s.values
    let s := { s with values := s.values ++ [c.value], nfevHist := s.nfevHist ++ [c.nfev],
                      best := match s.best with
                        | none => some c.value
                        | some b => if c.value < b then some c.value else some b }
    match prevVals.getLast? with
    | none => (s, false)
    | some p =>
      let change : ERat := if p = 0 then none else some (rabs (c.value - p) / rabs p)
      let s := { s with changes := s.changes ++ [change] }
      if s.changes.length < allowed + 1 then (s, false)
      else if (emax (window s.changes allowed)).lt thr then ({ s with done := true }, true)
      else (s, false)

def spsaCheck (allowed : Nat) (thr : Rat) (maxfev : Option Nat) (s : SpsaState) (c : SpsaCall) : SpsaState × Bool :=
  spsaBody allowed thr maxfev (spsaEnter s c) c

def runSpsa (allowed : Nat) (thr : Rat) (maxfev : Option Nat) : SpsaState → List SpsaCall → List Bool
  | _, [] => []
  | s, c :: rest => let (s', b) := spsaCheck allowed thr maxfev s c; b :: runSpsa allowed thr maxfev s' rest

end QVerif.Criteria
