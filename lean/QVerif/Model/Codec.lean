import QVerif.Model.Genome
import QVerif.Model.Jssp

/-!
# Model of the JSON encoder / decoder pairs

* `evqe/quantum_circuit/serialization.py`  (`EVQECircuitLayerEncoder` / `…Decoder`)            → `encGate`, `encLayer`, `hookLayer`
* `evqe/serialization.py`                  (`EVQEPopulationJSONEncoder` / `…Decoder`)          → `encIndiv`, `encPop`, `hookPop`
* `base/serialization.py`                  (`EvolvingAnsatzMinimumEigensolverResultJSON…`)     → `encResult` …, `hookBase`
* `job_shop_scheduling/serialization.py`   (`JSSPJSONEncoder` / `JSSPJSONDecoder`)             → `encInst`, `encJResult`, `hookJssp`

The encoders map typed objects to a JSON tree `J` (what `default` returns, as `json.dumps` writes it); a decoder is
Python's `json.loads(..., object_hook=hook)`: the tree is rebuilt bottom-up and every JSON object, after its children
have been decoded, is handed to `hook` (`dec`).  Decoded values live in the dynamically typed universe `V`; a hook
that finds a child of the wrong Python type yields `Err.illTyped` (Python would build an object outside the typed
universe; this never happens on encoder output — that is what the round-trip theorems show).

Trusted / outside the model: the text layer of the `json` module (`loads (dumps t) = t` on trees of None, bool, int,
finite float, str, list, dict with distinct string keys; floats are opaque tokens — their `repr`); qpy + base64
(`QuantumCircuit` is an opaque payload string); `dict(pairs)` inserts left to right and a later equal key overwrites
the value of the earlier one (`pyDict`, the key equality is a parameter where keys are individuals).
JSON objects with duplicate keys are outside the model.
-/

namespace QVerif.Codec
open QVerif.Genome (Gate Layer totalParams)
open QVerif.Jssp (Operation Job Instance SchedOp Schedule)

/-- a Python number as JSON distinguishes them: `int`, or `float` (opaque, identified by its `repr`) -/
inductive Num where
  | int (i : Int)
  | float (repr : String)
  deriving DecidableEq, Repr, Inhabited

/-- JSON trees -/
inductive J where
  | null
  | bool (b : Bool)
  | num (n : Num)
  | str (s : String)
  | arr (l : List J)
  | obj (kvs : List (String × J))
  deriving Repr, Inhabited

/-! ## Typed objects -/

/-- `EVQEIndividual` with JSON-level parameter values -/
structure CIndiv where
  nQubits : Nat
  layers : List Layer
  params : List Num
  deriving DecidableEq, Repr, Inhabited

/-- `EVQEIndividual.is_valid` (checked in `__post_init__`) -/
def CIndiv.isValid (x : CIndiv) : Bool :=
  !x.layers.isEmpty && x.layers.all (fun l => l.isValid && l.nQubits == x.nQubits) &&
    x.params.length == totalParams x.layers

/-- `EVQEPopulation`; the two dicts as association lists in insertion order -/
structure Pop where
  individuals : List CIndiv
  reps : Option (List CIndiv)
  members : Option (List (CIndiv × List Int))
  membership : Option (List (Int × CIndiv))
  deriving DecidableEq, Repr, Inhabited

/-- a real or complex value -/
inductive Scalar where
  | real (n : Num)
  | complex (re im : Num)
  deriving DecidableEq, Repr, Inhabited

/-- `QuasiDistribution` -/
structure Quasi where
  data : List (Int × Num)
  shots : Option Num
  stddev : Option Num
  deriving DecidableEq, Repr, Inhabited

/-- `BasePopulationEvaluationResult` -/
structure EvalRes where
  pop : Pop
  values : List (Option Num)
  best : CIndiv
  bestValue : Num
  deriving DecidableEq, Repr, Inhabited

inductive Aux where
  | none
  | list (l : List Scalar)
  | dict (l : List (String × Scalar))
  deriving DecidableEq, Repr, Inhabited

/-- `EvolvingAnsatzMinimumEigensolverResult` (every field may be `None`) -/
structure Result where
  eigenvalue : Option Scalar
  aux : Aux
  eigenstate : Option Quasi
  best : Option CIndiv
  evals : Option (List Int)
  generations : Option Int
  history : Option (List EvalRes)
  init : Option String            -- qpy payload of the initial-state circuit
  deriving DecidableEq, Repr, Inhabited

/-! ## The dynamically typed universe of decoded values -/

inductive V where
  | none
  | bool (b : Bool)
  | num (n : Num)
  | str (s : String)
  | list (l : List V)
  | tuple (l : List V)
  | dict (kvs : List (String × V))          -- a JSON object a hook passed through unchanged
  | pydict (kvs : List (V × V))              -- `dict(pairs)` built by the JSSP hook
  | gate (g : Gate)
  | layer (l : Layer)
  | indiv (x : CIndiv)
  | pop (p : Pop)
  | complex (re im : Num)
  | quasi (q : Quasi)
  | circuit (qpy : String)
  | evalres (e : EvalRes)
  | result (r : Result)
  | machine (m : String)
  | op (o : Operation)
  | job (j : Job)
  | inst (i : Instance)
  | psched (s : SchedOp)
  | jresult (i : Instance) (s : Schedule)
  deriving Repr, Inhabited

inductive Err where
  | keyError (k : String)
  | unknownGate
  | layerInvalid
  | individualInvalid
  | jssp (e : QVerif.Jssp.Err)
  | illTyped (what : String)
  deriving DecidableEq, Repr

/-! ## `json.loads(text, object_hook=hook)` -/

abbrev Hook := List (String × V) → Except Err V

mutual
def dec (hook : Hook) : J → Except Err V
  | .null => .ok .none
  | .bool b => .ok (.bool b)
  | .num n => .ok (.num n)
  | .str s => .ok (.str s)
  | .arr l =>
    match decList hook l with
    | .error e => .error e
    | .ok vs => .ok (.list vs)
  | .obj kvs =>
    match decFields hook kvs with
    | .error e => .error e
    | .ok fs => hook fs
def decList (hook : Hook) : List J → Except Err (List V)
  | [] => .ok []
  | j :: t =>
    match dec hook j with
    | .error e => .error e
    | .ok v =>
      match decList hook t with
      | .error e => .error e
      | .ok vs => .ok (v :: vs)
def decFields (hook : Hook) : List (String × J) → Except Err (List (String × V))
  | [] => .ok []
  | (k, j) :: t =>
    match dec hook j with
    | .error e => .error e
    | .ok v =>
      match decFields hook t with
      | .error e => .error e
      | .ok vs => .ok ((k, v) :: vs)
end

/-- `key in object_dict` -/
def has (d : List (String × V)) (k : String) : Bool := d.any (fun p => p.1 == k)

/-- `object_dict[key]` -/
def get (d : List (String × V)) (k : String) : Except Err V :=
  match d.lookup k with
  | some v => .ok v
  | none => .error (.keyError k)

/-- `any(key in keys for key in object_dict.keys())` -/
def hasAny (d : List (String × V)) (keys : List String) : Bool := d.any (fun p => keys.contains p.1)

def mapE {α β} (f : α → Except Err β) : List α → Except Err (List β)
  | [] => .ok []
  | a :: t =>
    match f a with
    | .error e => .error e
    | .ok b =>
      match mapE f t with
      | .error e => .error e
      | .ok bs => .ok (b :: bs)

/-! ### `dict(pairs)` -/

def dictInsert {α β} (keq : α → α → Bool) (d : List (α × β)) (k : α) (v : β) : List (α × β) :=
  if d.any (fun p => keq p.1 k) then d.map (fun p => if keq p.1 k then (p.1, v) else p) else d ++ [(k, v)]

def pyDictFrom {α β} (keq : α → α → Bool) (acc : List (α × β)) (l : List (α × β)) : List (α × β) :=
  l.foldl (fun d p => dictInsert keq d p.1 p.2) acc

def pyDict {α β} (keq : α → α → Bool) (l : List (α × β)) : List (α × β) := pyDictFrom keq [] l

/-- the keys of a real `dict` are pairwise different -/
def DistinctKeys {α β} (keq : α → α → Bool) (l : List (α × β)) : Prop :=
  l.Pairwise (fun a b => keq a.1 b.1 = false)

/-! ### casts (the Python type a hook relies on) -/

def asNat : V → Except Err Nat
  | .num (.int i) => if 0 ≤ i then .ok i.toNat else .error (.illTyped "nat")
  | _ => .error (.illTyped "nat")

def asInt : V → Except Err Int
  | .num (.int i) => .ok i
  | _ => .error (.illTyped "int")

def asNum : V → Except Err Num
  | .num n => .ok n
  | _ => .error (.illTyped "number")

def asStr : V → Except Err String
  | .str s => .ok s
  | _ => .error (.illTyped "str")

/-- `tuple(x)` / iteration over a decoded JSON array or tuple -/
def asSeq : V → Except Err (List V)
  | .list l => .ok l
  | .tuple l => .ok l
  | _ => .error (.illTyped "sequence")

def asList : V → Except Err (List V)
  | .list l => .ok l
  | _ => .error (.illTyped "list")

def asTuple : V → Except Err (List V)
  | .tuple l => .ok l
  | _ => .error (.illTyped "tuple")

def asGate : V → Except Err Gate
  | .gate g => .ok g
  | _ => .error (.illTyped "gate")

def asLayer : V → Except Err Layer
  | .layer l => .ok l
  | _ => .error (.illTyped "layer")

def asIndiv : V → Except Err CIndiv
  | .indiv x => .ok x
  | _ => .error (.illTyped "individual")

/-- an optional value: `None` or something `f` accepts -/
def asOpt {α} (f : V → Except Err α) : V → Except Err (Option α)
  | .none => .ok none
  | v => match f v with
    | .error e => .error e
    | .ok a => .ok (some a)

/-- a two-element sequence -/
def asPair : V → Except Err (V × V)
  | .list [a, b] => .ok (a, b)
  | .tuple [a, b] => .ok (a, b)
  | _ => .error (.illTyped "pair")

/-! ## `EVQECircuitLayerEncoder` / `EVQECircuitLayerDecoder` -/

def jnat (n : Nat) : J := .num (.int n)

def encGate : Gate → J
  | .id q => .obj [("evqe_gate_type", .str "identity"), ("evqe_qubit_index", jnat q)]
  | .rot q => .obj [("evqe_gate_type", .str "rotation"), ("evqe_qubit_index", jnat q)]
  | .ctrl q c => .obj [("evqe_gate_type", .str "control"), ("evqe_qubit_index", jnat q), ("evqe_controlled_qubit_index", jnat c)]
  | .crot q c => .obj [("evqe_gate_type", .str "controlled_rotation"), ("evqe_qubit_index", jnat q), ("evqe_control_qubit_index", jnat c)]

def encLayer (l : Layer) : J :=
  .obj [("evqe_circuit_layer_n_qubits", jnat l.nQubits), ("evqe_circuit_layer_gates", .arr (l.gates.map encGate))]

def layerKeys : List String :=
  ["evqe_circuit_layer_n_qubits", "evqe_circuit_layer_gates", "evqe_gate_type", "evqe_qubit_index",
   "evqe_controlled_qubit_index", "evqe_control_qubit_index"]

def getNat (d : List (String × V)) (k : String) : Except Err Nat :=
  match get d k with
  | .error e => .error e
  | .ok v => asNat v

/-- `parse_evqe_gate` -/
def parseGate (d : List (String × V)) : Except Err V :=
  match get d "evqe_gate_type" with
  | .error e => .error e
  | .ok (.str "identity") =>
    (match getNat d "evqe_qubit_index" with
     | .error e => .error e
     | .ok q => .ok (.gate (.id q)))
  | .ok (.str "rotation") =>
    (match getNat d "evqe_qubit_index" with
     | .error e => .error e
     | .ok q => .ok (.gate (.rot q)))
  | .ok (.str "control") =>
    (match getNat d "evqe_qubit_index" with
     | .error e => .error e
     | .ok q =>
       match getNat d "evqe_controlled_qubit_index" with
       | .error e => .error e
       | .ok c => .ok (.gate (.ctrl q c)))
  | .ok (.str "controlled_rotation") =>
    (match getNat d "evqe_qubit_index" with
     | .error e => .error e
     | .ok q =>
       match getNat d "evqe_control_qubit_index" with
       | .error e => .error e
       | .ok c => .ok (.gate (.crot q c)))
  | .ok _ => .error .unknownGate

/-- `EVQECircuitLayer(n_qubits=…, gates=…)` with the validity check of `__post_init__` -/
def mkLayer (n : Nat) (gates : List Gate) : Except Err V :=
  let l : Layer := { nQubits := n, gates := gates }
  if l.isValid then .ok (.layer l) else .error .layerInvalid

/-- `parse_circuit_layer` -/
def parseLayer (d : List (String × V)) : Except Err V :=
  match getNat d "evqe_circuit_layer_n_qubits" with
  | .error e => .error e
  | .ok n =>
    match get d "evqe_circuit_layer_gates" with
    | .error e => .error e
    | .ok gs =>
      match asSeq gs with
      | .error e => .error e
      | .ok l =>
        match mapE asGate l with
        | .error e => .error e
        | .ok gates => mkLayer n gates

/-- `EVQECircuitLayerDecoder.object_hook` (a dict it does not recognise becomes `None`) -/
def hookLayer : Hook := fun d =>
  if has d "evqe_circuit_layer_n_qubits" || has d "evqe_circuit_layer_gates" then parseLayer d
  else if has d "evqe_gate_type" || has d "evqe_qubit_index" then parseGate d
  else .ok .none

/-! ## `EVQEPopulationJSONEncoder` / `EVQEPopulationJSONDecoder` -/

def jint (i : Int) : J := .num (.int i)

def encIndiv (x : CIndiv) : J :=
  .obj [("evqe_individual_n_qubits", jnat x.nQubits), ("evqe_individual_layers", .arr (x.layers.map encLayer)),
        ("evqe_individual_parameter_values", .arr (x.params.map J.num))]

def encOpt {α} (f : α → J) : Option α → J
  | none => .null
  | some a => f a

def encPop (p : Pop) : J :=
  .obj [("evqe_population_individuals", .arr (p.individuals.map encIndiv)),
        ("evqe_population_species_representatives", encOpt (fun r => .arr (r.map encIndiv)) p.reps),
        ("evqe_population_species_members",
          encOpt (fun m => .arr (m.map (fun e => .arr [encIndiv e.1, .arr (e.2.map jint)]))) p.members),
        ("evqe_population_species_membership",
          encOpt (fun m => .arr (m.map (fun e => .arr [jint e.1, encIndiv e.2]))) p.membership)]

def indivKeys : List String :=
  ["evqe_individual_n_qubits", "evqe_individual_layers", "evqe_individual_parameter_values"]

def popOnlyKeys : List String :=
  ["evqe_population_individuals", "evqe_population_species_representatives", "evqe_population_species_members",
   "evqe_population_species_membership"]

/-- `EVQEPopulationJSONDecoder.identifying_keys()` -/
def popKeys : List String := indivKeys ++ popOnlyKeys ++ layerKeys

def mkIndiv (n : Nat) (layers : List Layer) (params : List Num) : Except Err V :=
  let x : CIndiv := { nQubits := n, layers := layers, params := params }
  if x.isValid then .ok (.indiv x) else .error .individualInvalid

/-- `parse_individual` -/
def parseIndiv (d : List (String × V)) : Except Err V :=
  match getNat d "evqe_individual_n_qubits" with
  | .error e => .error e
  | .ok n =>
    match get d "evqe_individual_layers" with
    | .error e => .error e
    | .ok ls =>
      match asSeq ls with
      | .error e => .error e
      | .ok ls =>
        match mapE asLayer ls with
        | .error e => .error e
        | .ok layers =>
          match get d "evqe_individual_parameter_values" with
          | .error e => .error e
          | .ok ps =>
            match asSeq ps with
            | .error e => .error e
            | .ok ps =>
              match mapE asNum ps with
              | .error e => .error e
              | .ok params => mkIndiv n layers params

def asMemberEntry (v : V) : Except Err (CIndiv × List Int) :=
  match asPair v with
  | .error e => .error e
  | .ok (k, ms) =>
    match asIndiv k with
    | .error e => .error e
    | .ok x =>
      match asList ms with
      | .error e => .error e
      | .ok l =>
        match mapE asInt l with
        | .error e => .error e
        | .ok is => .ok (x, is)

def asMembershipEntry (v : V) : Except Err (Int × CIndiv) :=
  match asPair v with
  | .error e => .error e
  | .ok (k, r) =>
    match asInt k with
    | .error e => .error e
    | .ok i =>
      match asIndiv r with
      | .error e => .error e
      | .ok x => .ok (i, x)

def seqOf {α} (f : V → Except Err α) (v : V) : Except Err (List α) :=
  match asSeq v with
  | .error e => .error e
  | .ok l => mapE f l

def listOf {α} (f : V → Except Err α) (v : V) : Except Err (List α) :=
  match asList v with
  | .error e => .error e
  | .ok l => mapE f l

/-- `parse_population`; `keq` is the key equality of `EVQEIndividual` (`__eq__`/`__hash__`) -/
def parsePop (keq : CIndiv → CIndiv → Bool) (d : List (String × V)) : Except Err V :=
  match get d "evqe_population_individuals" with
  | .error e => .error e
  | .ok is =>
    match seqOf asIndiv is with
    | .error e => .error e
    | .ok individuals =>
      match get d "evqe_population_species_representatives" with
      | .error e => .error e
      | .ok rs =>
        match asOpt (listOf asIndiv) rs with
        | .error e => .error e
        | .ok reps =>
          match get d "evqe_population_species_members" with
          | .error e => .error e
          | .ok ms =>
            match asOpt (seqOf asMemberEntry) ms with
            | .error e => .error e
            | .ok members =>
              match get d "evqe_population_species_membership" with
              | .error e => .error e
              | .ok mb =>
                match asOpt (seqOf asMembershipEntry) mb with
                | .error e => .error e
                | .ok membership =>
                  .ok (.pop { individuals := individuals, reps := reps, members := members.map (pyDict keq),
                              membership := membership.map (pyDict (· == ·)) })

/-- `EVQEPopulationJSONDecoder.object_hook` -/
def hookPop (keq : CIndiv → CIndiv → Bool) : Hook := fun d =>
  if hasAny d layerKeys then hookLayer d
  else if has d "evqe_individual_n_qubits" || has d "evqe_individual_layers" || has d "evqe_individual_parameter_values" then
    parseIndiv d
  else if has d "evqe_population_individuals" || has d "evqe_population_species_representatives" ||
      has d "evqe_population_species_members" || has d "evqe_population_species_membership" then
    parsePop keq d
  else .ok .none

/-! ## `EvolvingAnsatzMinimumEigensolverResultJSONEncoder` / `…Decoder` -/

def encScalar : Scalar → J
  | .real n => .num n
  | .complex re im => .obj [("complex_number_real_value", .num re), ("complex_number_imaginary_value", .num im)]

def encQuasi (q : Quasi) : J :=
  .obj [("quasidistribution_data", .arr (q.data.map (fun e => .arr [jint e.1, .num e.2]))),
        ("quasidistribution_shots", encOpt J.num q.shots), ("quasidistribution_stdev_bound", encOpt J.num q.stddev)]

def encCircuit (qpy : String) : J := .obj [("qiskit_quantum_circuit", .str qpy)]

def encEvalRes (e : EvalRes) : J :=
  .obj [("base_population_evaluation_population", encPop e.pop),
        ("base_population_evaluation_expectation_values", .arr (e.values.map (encOpt J.num))),
        ("base_population_evaluation_best_individual", encIndiv e.best),
        ("base_population_evaluation_best_expectation_value", .num e.bestValue)]

def encAux : Aux → J
  | .none => .null
  | .list l => .obj [("type", .str "list"), ("values", .arr (l.map encScalar))]
  | .dict l => .obj [("type", .str "dict"), ("values", .arr (l.map (fun e => .arr [.str e.1, encScalar e.2])))]

def encResult (r : Result) : J :=
  .obj [("evolving_ansatz_result_eigenvalue", encOpt encScalar r.eigenvalue),
        ("evolving_ansatz_result_aux_operators_evaluated", encAux r.aux),
        ("evolving_ansatz_result_eigenstate", encOpt encQuasi r.eigenstate),
        ("evolving_ansatz_result_best_individual", encOpt encIndiv r.best),
        ("evolving_ansatz_result_circuit_evaluations", encOpt (fun l => .arr (l.map jint)) r.evals),
        ("evolving_ansatz_result_generations", encOpt jint r.generations),
        ("evolving_ansatz_population_evaluation_results", encOpt (fun l => .arr (l.map encEvalRes)) r.history),
        ("evolving_ansatz_population_initial_state_circuit", encOpt encCircuit r.init)]

def evalKeys : List String :=
  ["base_population_evaluation_population", "base_population_evaluation_expectation_values",
   "base_population_evaluation_best_individual", "base_population_evaluation_best_expectation_value"]

def resultKeys : List String :=
  ["evolving_ansatz_result_eigenvalue", "evolving_ansatz_result_aux_operators_evaluated",
   "evolving_ansatz_result_eigenstate", "evolving_ansatz_result_best_individual",
   "evolving_ansatz_result_circuit_evaluations", "evolving_ansatz_result_generations",
   "evolving_ansatz_population_evaluation_results", "evolving_ansatz_population_initial_state_circuit"]

/-- `parse_complex_number` -/
def parseComplex (d : List (String × V)) : Except Err V :=
  match get d "complex_number_real_value" with
  | .error e => .error e
  | .ok re =>
    match get d "complex_number_imaginary_value" with
    | .error e => .error e
    | .ok im =>
      match asNum re with
      | .error e => .error e
      | .ok re =>
        match asNum im with
        | .error e => .error e
        | .ok im => .ok (.complex re im)

def asQuasiEntry (v : V) : Except Err (Int × Num) :=
  match asPair v with
  | .error e => .error e
  | .ok (k, x) =>
    match asInt k with
    | .error e => .error e
    | .ok i =>
      match asNum x with
      | .error e => .error e
      | .ok n => .ok (i, n)

/-- `parse_quasidistribution` -/
def parseQuasi (d : List (String × V)) : Except Err V :=
  match get d "quasidistribution_data" with
  | .error e => .error e
  | .ok dat =>
    match seqOf asQuasiEntry dat with
    | .error e => .error e
    | .ok data =>
      match get d "quasidistribution_shots" with
      | .error e => .error e
      | .ok sh =>
        match asOpt asNum sh with
        | .error e => .error e
        | .ok shots =>
          match get d "quasidistribution_stdev_bound" with
          | .error e => .error e
          | .ok sd =>
            match asOpt asNum sd with
            | .error e => .error e
            | .ok stddev => .ok (.quasi { data := pyDict (· == ·) data, shots := shots, stddev := stddev })

/-- `parse_quantum_circuit` (qpy ∘ base64 is trusted to invert the encoder's payload) -/
def parseCircuit (d : List (String × V)) : Except Err V :=
  match get d "qiskit_quantum_circuit" with
  | .error e => .error e
  | .ok v =>
    match asStr v with
    | .error e => .error e
    | .ok s => .ok (.circuit s)

def asPop : V → Except Err Pop
  | .pop p => .ok p
  | _ => .error (.illTyped "population")

/-- `parse_base_population_evaluation` -/
def parseEvalRes (d : List (String × V)) : Except Err V :=
  match get d "base_population_evaluation_population" with
  | .error e => .error e
  | .ok p =>
    match get d "base_population_evaluation_expectation_values" with
    | .error e => .error e
    | .ok vs =>
      match get d "base_population_evaluation_best_individual" with
      | .error e => .error e
      | .ok b =>
        match get d "base_population_evaluation_best_expectation_value" with
        | .error e => .error e
        | .ok bv =>
          match asPop p with
          | .error e => .error e
          | .ok pop =>
            match seqOf (asOpt asNum) vs with
            | .error e => .error e
            | .ok values =>
              match asIndiv b with
              | .error e => .error e
              | .ok best =>
                match asNum bv with
                | .error e => .error e
                | .ok bestValue => .ok (.evalres { pop := pop, values := values, best := best, bestValue := bestValue })

def asScalar : V → Except Err Scalar
  | .num n => .ok (.real n)
  | .complex re im => .ok (.complex re im)
  | _ => .error (.illTyped "scalar")

def asAuxEntry (v : V) : Except Err (String × Scalar) :=
  match asPair v with
  | .error e => .error e
  | .ok (k, x) =>
    match asStr k with
    | .error e => .error e
    | .ok s =>
      match asScalar x with
      | .error e => .error e
      | .ok n => .ok (s, n)

/-- the `aux_operators_evaluated` branch of `parse_evolving_ansatz_result` -/
def parseAux : V → Except Err Aux
  | .dict a =>
    (match get a "type" with
     | .error e => .error e
     | .ok (.str "list") =>
       (match get a "values" with
        | .error e => .error e
        | .ok vs =>
          match listOf asScalar vs with
          | .error e => .error e
          | .ok l => .ok (.list l))
     | .ok (.str "dict") =>
       (match get a "values" with
        | .error e => .error e
        | .ok vs =>
          match seqOf asAuxEntry vs with
          | .error e => .error e
          | .ok l => .ok (.dict (pyDict (· == ·) l)))
     | .ok _ => .ok .none)
  | _ => .ok .none

def asQuasi : V → Except Err Quasi
  | .quasi q => .ok q
  | _ => .error (.illTyped "quasi distribution")

def asEvalRes : V → Except Err EvalRes
  | .evalres e => .ok e
  | _ => .error (.illTyped "evaluation result")

def asCircuit : V → Except Err String
  | .circuit c => .ok c
  | _ => .error (.illTyped "circuit")

/-- `parse_evolving_ansatz_result` -/
def parseResult (d : List (String × V)) : Except Err V :=
  match get d "evolving_ansatz_result_eigenvalue" with
  | .error e => .error e
  | .ok ev =>
    match get d "evolving_ansatz_result_aux_operators_evaluated" with
    | .error e => .error e
    | .ok ax =>
      match parseAux ax with
      | .error e => .error e
      | .ok aux =>
        match get d "evolving_ansatz_result_eigenstate" with
        | .error e => .error e
        | .ok es =>
          match get d "evolving_ansatz_result_best_individual" with
          | .error e => .error e
          | .ok bi =>
            match get d "evolving_ansatz_result_circuit_evaluations" with
            | .error e => .error e
            | .ok ce =>
              match get d "evolving_ansatz_result_generations" with
              | .error e => .error e
              | .ok gn =>
                match get d "evolving_ansatz_population_evaluation_results" with
                | .error e => .error e
                | .ok pe =>
                  match get d "evolving_ansatz_population_initial_state_circuit" with
                  | .error e => .error e
                  | .ok ic =>
                    match asOpt asScalar ev, asOpt asQuasi es, asOpt asIndiv bi, asOpt (listOf asInt) ce,
                          asOpt asInt gn, asOpt (listOf asEvalRes) pe, asOpt asCircuit ic with
                    | .ok eigenvalue, .ok eigenstate, .ok best, .ok evals, .ok generations, .ok history, .ok init =>
                      .ok (.result { eigenvalue := eigenvalue, aux := aux, eigenstate := eigenstate, best := best,
                                     evals := evals, generations := generations, history := history, init := init })
                    | _, _, _, _, _, _, _ => .error (.illTyped "result field")

/-- `EvolvingAnsatzMinimumEigensolverResultJSONDecoder.object_hook` (an unrecognised dict is passed through) -/
def hookBase (keq : CIndiv → CIndiv → Bool) : Hook := fun d =>
  if hasAny d popKeys then hookPop keq d
  else if has d "complex_number_real_value" || has d "complex_number_imaginary_value" then parseComplex d
  else if has d "quasidistribution_data" || has d "quasidistribution_shots" || has d "quasidistribution_stdev_bound" then
    parseQuasi d
  else if has d "qiskit_quantum_circuit" then parseCircuit d
  else if hasAny d evalKeys then parseEvalRes d
  else if hasAny d resultKeys then parseResult d
  else .ok (.dict d)

/-! ## `JSSPJSONEncoder` / `JSSPJSONDecoder` -/

def encTuple (l : List J) : J := .obj [("tuple", .arr l)]

def encMachine (m : String) : J := .obj [("machine_name", .str m)]

def encOp (o : Operation) : J :=
  .obj [("operation_name", .str o.name), ("operation_job_name", .str o.jobName), ("operation_machine", encMachine o.machine),
        ("operation_processing_duration", jint o.dur)]

def encJob (j : Job) : J := .obj [("job_name", .str j.name), ("job_operations", encTuple (j.ops.map encOp))]

def encInst (i : Instance) : J :=
  .obj [("jssp_instance_name", .str i.name), ("jssp_instance_machines", encTuple (i.machines.map encMachine)),
        ("jssp_instance_jobs", encTuple (i.jobs.map encJob))]

def encPsched (s : SchedOp) : J :=
  match s.start with
  | none => .obj [("unscheduled_operation", encOp s.op)]
  | some t => .obj [("scheduled_operation", encOp s.op), ("scheduled_start_time", jint t)]

/-- `self.default(o.schedule)`: `{"dict": [ {"tuple": [job, {"tuple": row}]}, … ]}` -/
def encSchedule (s : Schedule) : J :=
  .obj [("dict", .arr (s.map (fun e => encTuple [encJob e.1, encTuple (e.2.map encPsched)])))]

def encJResult (i : Instance) (s : Schedule) : J :=
  .obj [("jssp_result_problem_instance", encInst i), ("jssp_result_schedule", encSchedule s)]

def liftJ {α} (r : Except QVerif.Jssp.Err Unit) (v : α) : Except Err α :=
  match r with
  | .ok () => .ok v
  | .error e => .error (.jssp e)

def asMachine : V → Except Err String
  | .machine m => .ok m
  | _ => .error (.illTyped "machine")

def asOp : V → Except Err Operation
  | .op o => .ok o
  | _ => .error (.illTyped "operation")

def asJob : V → Except Err Job
  | .job j => .ok j
  | _ => .error (.illTyped "job")

def asInst : V → Except Err Instance
  | .inst i => .ok i
  | _ => .error (.illTyped "instance")

def asPsched : V → Except Err SchedOp
  | .psched s => .ok s
  | _ => .error (.illTyped "scheduled operation")

def tupleOf {α} (f : V → Except Err α) (v : V) : Except Err (List α) :=
  match asTuple v with
  | .error e => .error e
  | .ok l => mapE f l

def asScheduleEntry (p : V × V) : Except Err (Job × List SchedOp) :=
  match asJob p.1 with
  | .error e => .error e
  | .ok j =>
    match tupleOf asPsched p.2 with
    | .error e => .error e
    | .ok row => .ok (j, row)

def asSchedule : V → Except Err Schedule
  | .pydict kvs =>
    (match mapE asScheduleEntry kvs with
     | .error e => .error e
     | .ok l => .ok (pyDict (· == ·) l))
  | _ => .error (.illTyped "schedule dict")

def parseOperation (d : List (String × V)) : Except Err V :=
  match get d "operation_name" with
  | .error e => .error e
  | .ok n =>
    match get d "operation_job_name" with
    | .error e => .error e
    | .ok jn =>
      match get d "operation_machine" with
      | .error e => .error e
      | .ok m =>
        match get d "operation_processing_duration" with
        | .error e => .error e
        | .ok du =>
          match asStr n, asStr jn, asMachine m, asInt du with
          | .ok name, .ok jobName, .ok machine, .ok dur =>
            let o : Operation := { name := name, jobName := jobName, machine := machine, dur := dur }
            liftJ (QVerif.Jssp.checkOperation o) (.op o)
          | _, _, _, _ => .error (.illTyped "operation field")

def parseJob (d : List (String × V)) : Except Err V :=
  match get d "job_name" with
  | .error e => .error e
  | .ok n =>
    match get d "job_operations" with
    | .error e => .error e
    | .ok os =>
      match asStr n, tupleOf asOp os with
      | .ok name, .ok ops =>
        let j : Job := { name := name, ops := ops }
        liftJ (QVerif.Jssp.checkJob j) (.job j)
      | _, _ => .error (.illTyped "job field")

def parseInst (d : List (String × V)) : Except Err V :=
  match get d "jssp_instance_name" with
  | .error e => .error e
  | .ok n =>
    match get d "jssp_instance_machines" with
    | .error e => .error e
    | .ok ms =>
      match get d "jssp_instance_jobs" with
      | .error e => .error e
      | .ok js =>
        match asStr n, tupleOf asMachine ms, tupleOf asJob js with
        | .ok name, .ok machines, .ok jobs =>
          let i : Instance := { name := name, machines := machines, jobs := jobs }
          liftJ (QVerif.Jssp.checkInstance i) (.inst i)
        | _, _, _ => .error (.illTyped "instance field")

def parseScheduled (d : List (String × V)) : Except Err V :=
  match get d "scheduled_operation" with
  | .error e => .error e
  | .ok o =>
    match get d "scheduled_start_time" with
    | .error e => .error e
    | .ok t =>
      match asOp o, asInt t with
      | .ok op, .ok start => .ok (.psched { op := op, start := some start })
      | _, _ => .error (.illTyped "scheduled operation field")

def parseJResult (d : List (String × V)) : Except Err V :=
  match get d "jssp_result_problem_instance" with
  | .error e => .error e
  | .ok i =>
    match get d "jssp_result_schedule" with
    | .error e => .error e
    | .ok s =>
      match asInst i, asSchedule s with
      | .ok inst, .ok sched => liftJ (QVerif.Jssp.checkResult inst sched) (.jresult inst sched)
      | _, _ => .error (.illTyped "result field")

/-- `JSSPJSONDecoder.object_hook` (a dict it does not recognise becomes `None`) -/
def hookJssp : Hook := fun d =>
  if has d "tuple" && d.length == 1 then
    (match get d "tuple" with
     | .error e => .error e
     | .ok v => match asSeq v with
       | .error e => .error e
       | .ok l => .ok (.tuple l))
  else if has d "dict" && d.length == 1 then
    (match get d "dict" with
     | .error e => .error e
     | .ok v => match seqOf asPair v with
       | .error e => .error e
       | .ok l => .ok (.pydict l))
  else if has d "machine_name" then
    (match get d "machine_name" with
     | .error e => .error e
     | .ok v => match asStr v with
       | .error e => .error e
       | .ok m => liftJ (QVerif.Jssp.checkMachine m) (.machine m))
  else if has d "operation_name" || has d "operation_job_name" || has d "operation_machine" ||
      has d "operation_processing_duration" then parseOperation d
  else if has d "job_name" || has d "job_operations" then parseJob d
  else if has d "jssp_instance_name" || has d "jssp_instance_machines" || has d "jssp_instance_jobs" then parseInst d
  else if has d "unscheduled_operation" then
    (match get d "unscheduled_operation" with
     | .error e => .error e
     | .ok v => match asOp v with
       | .error e => .error e
       | .ok o => .ok (.psched { op := o, start := none }))
  else if has d "scheduled_operation" || has d "scheduled_start_time" then parseScheduled d
  else if has d "jssp_result_problem_instance" || has d "jssp_result_schedule" then parseJResult d
  else .ok .none

end QVerif.Codec
