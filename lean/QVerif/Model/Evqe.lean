import QVerif.Model.Genome

/-!
# Model of the EVQE operators: `speciation.py`, `selection.py`, `mutation.py`, `population.py`

Individuals are `Genome.Indiv` (structural equality; Python's `__eq__`/dict keys use the hash of the same fields —
assumed collision free).  Dicts are insertion-ordered association lists.  Every random draw, every evaluator result
and every optimiser result is an oracle input, so the theorems hold for every seed, evaluator, optimiser and worker
completion order (results are collected positionally by the code, which the model mirrors).
-/

namespace QVerif.Evqe
open QVerif.Genome

structure Pop where
  inds : List Indiv
  reps : Option (List Indiv)
  members : Option (List (Indiv × List Nat))
  membership : Option (List (Nat × Indiv))
  deriving Repr, DecidableEq

inductive Event where
  | count (n : Nat)
  | result (pop : Pop) (values : List Rat) (best : Nat)
  deriving Repr

inductive OpErr where
  | selectionWithoutSpeciation
  | genome (e : Genome.Err)
  | oracleExhausted
  deriving Repr, DecidableEq

/-! ## Equality of individuals as Python sees it

`EVQEIndividual.__eq__` is *hash* equality and `__hash__` hashes `(n_qubits, layers, parameter_values)`; the
dataclass hash of a gate hashes its field tuple only, not its class.  So two individuals compare equal (and are the
same `dict` key) iff their field tuples agree when the gate classes are ignored — e.g. a layer and its mirror image
(`ControlledRotationGate(0, 1), ControlGate(1, 0)` vs `ControlGate(0, 1), ControlledRotationGate(1, 0)`) collide, and so do
individuals whose parameter values differ only by hash-equal floats (`valHash`).
Assumed: Python's tuple hashing is injective on the (class-free, value-hashed) keys that occur in a run. -/

def gateKey : Gate → List Nat
  | .id q | .rot q => [q]
  | .ctrl q c | .crot q c => [q, c]

/-- hash class of a parameter value: the harness numbers the floats of a run such that `token / 1024` coincides for two
floats exactly when CPython hashes them alike (`hash(-1.0) == hash(-2.0)`, `x` vs `x + k·(2^61 − 1)`), so value collisions are
part of the model, too -/
def valHash (v : Val) : Val := v / 1024

def indivKey (x : Indiv) : Nat × List (Nat × List (List Nat)) × List Val :=
  (x.nQubits, x.layers.map (fun l => (l.nQubits, l.gates.map gateKey)), x.values.map valHash)

/-- `individual == other` / same dict key -/
def pyEq (a b : Indiv) : Bool := indivKey a == indivKey b

/-! ## Speciation -/

/-- `species_members[representative].append(i)` -/
def appendMember (ms : List (Indiv × List Nat)) (rep : Indiv) (i : Nat) : List (Indiv × List Nat) :=
  ms.map (fun (r, l) => if pyEq r rep then (r, l ++ [i]) else (r, l))

/-- dict item assignment `d[k] = v` (overwrite the value of an equal key in place, or append) -/
def dictSet {ν} (d : List (Indiv × ν)) (k : Indiv) (v : ν) : List (Indiv × ν) :=
  if d.any (fun p => pyEq p.1 k) then d.map (fun p => if pyEq p.1 k then (p.1, v) else p) else d ++ [(k, v)]

/-- phase 1: assign every individual to the first representative that is close enough (or equal), else found a
new species -/
def assign (thr : Int) : List (Indiv × Nat) → List Indiv → List (Indiv × List Nat) → List Indiv × List (Indiv × List Nat)
  | [], reps, ms => (reps, ms)
  | (x, i) :: rest, reps, ms =>
    match reps.find? (fun r => decide (geneticDistance x r < thr) || pyEq x r) with
    | some r => assign thr rest reps (appendMember ms r i)
    | none => assign thr rest (reps ++ [x]) (dictSet ms x [i])

/-- phase 2: draw a new representative for every non-empty species (`choice(members)` from the oracle) and merge
species whose new representatives coincide -/
def redraw (inds : List Indiv) : List (List Nat) → List Nat → List (Indiv × List Nat) → Except OpErr (List (Indiv × List Nat) × List Nat)
  | [], ch, acc => .ok (acc, ch)
  | ms :: rest, ch, acc =>
    if ms.length ≤ 0 then redraw inds rest ch acc
    else
      match ch with
      | [] => .error .oracleExhausted
      | c :: ch' =>
        let rep := inds.getD c default
        match acc.find? (fun p => pyEq p.1 rep) with
        | none => redraw inds rest ch' (acc ++ [(rep, ms)])
        | some _ => redraw inds rest ch' (acc.map (fun p => if pyEq p.1 rep then (p.1, p.2 ++ ms) else p))

/-- `species_representatives` of the input (`[]` if there is no species information) -/
def reps0Of (pop : Pop) : List Indiv := match pop.reps with | none => [] | some r => r

/-- `{representative: [] for representative in species_representatives}` (duplicate keys collapse) -/
def initDict (reps0 : List Indiv) : List (Indiv × List Nat) := reps0.foldl (fun d r => dictSet d r []) []

/-- the member lists after phase 1 -/
def phase1 (thr : Int) (pop : Pop) : List (Indiv × List Nat) :=
  (assign thr pop.inds.zipIdx (reps0Of pop) (initDict (reps0Of pop))).2

/-- `EVQESpeciation.apply_operator` -/
def speciate (thr : Int) (choices : List Nat) (pop : Pop) : Except OpErr (Pop × List Nat) :=
  match redraw pop.inds ((phase1 thr pop).map Prod.snd) choices [] with
  | .error e => .error e
  | .ok (newMs, ch) =>
    .ok ({ inds := pop.inds, reps := some (newMs.map Prod.fst), members := some newMs,
           membership := some (newMs.flatMap (fun (r, l) => l.map (fun m => (m, r)))) }, ch)

/-! ## Selection -/

/-- `numpy.argmin`: index of the first minimum -/
def argminFrom : List Rat → Nat → Nat → Rat → Nat
  | [], _, bi, _ => bi
  | v :: t, i, bi, bv => if v < bv then argminFrom t (i + 1) i v else argminFrom t (i + 1) bi bv

def argmin (l : List Rat) : Nat :=
  match l with
  | [] => 0
  | v :: t => argminFrom t 1 0 v

/-- the tournament loop body: first strictly smallest fitness among the drawn indices -/
def tournamentWinner (fitness : List Rat) : List Nat → Option (Nat × Rat) → Option Nat
  | [], best => best.map Prod.fst
  | i :: rest, best =>
    let f := fitness.getD i 0
    match best with
    | none => tournamentWinner fitness rest (some (i, f))
    | some (_, bf) => if f < bf then tournamentWinner fitness rest (some (i, f)) else tournamentWinner fitness rest best

def speciesSize (pop : Pop) (i : Nat) : Nat :=
  match pop.membership, pop.members with
  | some mship, some ms =>
    (match mship.lookup i with
     | some rep => (match ms.find? (fun p => pyEq p.1 rep) with | some p => p.2.length | none => 0)
     | none => 0)
  | _, _ => 0

inductive SelMode where
  | roulette (selected : List Nat)                  -- indices of `choices(individuals, weights, k=n)` (oracle)
  | tournament (draws : List (List Nat))            -- successive `choices(range(n), k=size)` (oracle)
  deriving Repr

/-- `EVQESelection.apply_operator`; `evals[i]` is the evaluator's value for individual `i` -/
def select (alpha beta : Rat) (mode : SelMode) (evals : List Rat) (pop : Pop) : Except OpErr Pop × List Event :=
  let n := pop.inds.length
  let ev1 := [Event.count n]
  if pop.reps.isNone || pop.members.isNone || pop.membership.isNone then (.error .selectionWithoutSpeciation, ev1)
  else
    let best := argmin evals
    let ev2 := ev1 ++ [Event.result pop evals best]
    let selected : List Indiv :=
      match mode with
      | .roulette sel => sel.map (fun i => pop.inds.getD i default)
      | .tournament draws =>
        let fitness := (pop.inds.zipIdx.map (fun (x, i) =>
          (evals.getD i 0 + alpha * (x.layers.length : Rat) + beta * (((x.layers.map Layer.nControlled).sum : Nat) : Rat)) *
            ((speciesSize pop i : Nat) : Rat)))
        (draws.take n).filterMap (fun d => (tournamentWinner fitness d none).map (fun i => pop.inds.getD i default))
    (.ok { inds := selected, reps := pop.reps, members := none, membership := none }, ev2)

/-! ## Mutation -/

/-- what the mutation function did to one individual (oracle-supplied optimiser / RNG outcomes) -/
inductive MutStep where
  | optimizeLayers (steps : List (Int × List Val × Nat))   -- successive `optimize_layer_of_individual(layer, x*, nfev)`
  | addLayer (o : Oracle)                                   -- `add_random_layers(ind, 1, False, seed)`
  | removeLayers (k : Nat)                                  -- `randrange(1, len(layers))`
  deriving Repr

/-- `optimize_layer_of_individual`: a layer without parameters is left alone with 0 evaluations -/
def optimizeLayer (x : Indiv) (layerId : Int) (vals : List Val) (nfev : Nat) : Except Genome.Err (Indiv × Nat) :=
  let i := normIdx layerId x.layers.length
  if (x.layers.getD i default).nParams = 0 then .ok (x, 0)
  else
    match changeLayerParameterValues x layerId vals with
    | .error e => .error e
    | .ok y => .ok (y, nfev)

def applyMutStep (x : Indiv) : MutStep → Except Genome.Err (Indiv × Nat)
  | .optimizeLayers steps =>
    steps.foldl (fun acc (l, vals, nfev) =>
      match acc with
      | .error e => .error e
      | .ok (y, n) =>
        match optimizeLayer y l vals nfev with
        | .error e => .error e
        | .ok (z, m) => .ok (z, n + m)) (.ok (x, 0))
  | .addLayer o =>
    match addRandomLayers x 1 o (fun n => List.replicate n 0) with
    | .error e => .error e
    | .ok y => .ok (y, 0)
  | .removeLayers k =>
    if x.layers.length = 1 then .ok (x, 0)
    else match removeLayers x k with
      | .error e => .error e
      | .ok y => .ok (y, 0)

/-- `BaseEVQEMutationOperator.apply_operator`: `plan[i] = none` if the coin said "do not mutate" -/
def mutateFrom : List Indiv → List (Option MutStep) → Except OpErr (List Indiv × Nat)
  | [], _ => .ok ([], 0)
  | x :: rest, [] => match mutateFrom rest [] with
    | .error e => .error e
    | .ok (l, n) => .ok (x :: l, n)
  | x :: rest, none :: plan => match mutateFrom rest plan with
    | .error e => .error e
    | .ok (l, n) => .ok (x :: l, n)
  | x :: rest, some st :: plan =>
    match applyMutStep x st with
    | .error e => .error (.genome e)
    | .ok (y, m) => match mutateFrom rest plan with
      | .error e => .error e
      | .ok (l, n) => .ok (y :: l, m + n)

def mutate (plan : List (Option MutStep)) (pop : Pop) : Except OpErr Pop × List Event :=
  match mutateFrom pop.inds plan with
  | .error e => (.error e, [])
  | .ok (l, n) => (.ok { inds := l, reps := pop.reps, members := none, membership := none }, [Event.count n])

end QVerif.Evqe
