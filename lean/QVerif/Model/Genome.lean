/-!
# Model of the EVQE genome: `quantum_gate.py`, `circuit_layer.py`, `individual.py`

* gates / layers / individuals with the validity checks of the code,
* the structural operations (`change_parameter_values`, `change_layer_parameter_values`, `add_random_layers`,
  `remove_layers`, `get_genetic_distance`, `get_layer_parameter_values`),
* `random_layer` / `random_individual` / `add_random_layers` with every random draw supplied by an oracle
  (`choice([ROTATION, CONTROLLED_ROTATION])` → `Bool` (`true` = rotation), `sample(qubits, 2)` → a pair,
  `new_random_seed` is irrelevant for the structure),
* the parameter slots of a circuit, their names as Qiskit sees them, and the bound-gate sequences produced by the
  different circuit views (C04).

Parameter values are opaque tokens (`Val := Int`, `0` = the float `0`): the genome code only moves them around.
-/

namespace QVerif.Genome

abbrev Val := Int

/-- `EVQEGate` subclasses; the first field is `qubit_index`. `ctrl q c`: control on `q` for the rotation on `c`
(`controlled_qubit_index = c`); `crot q c`: controlled rotation on `q` with control qubit `c`. -/
inductive Gate where
  | id (q : Nat)
  | rot (q : Nat)
  | ctrl (q c : Nat)
  | crot (q c : Nat)
  deriving DecidableEq, Repr, Inhabited

def Gate.qubit : Gate → Nat
  | .id q | .rot q | .ctrl q _ | .crot q _ => q

def Gate.nParams : Gate → Nat
  | .rot _ | .crot _ _ => 3
  | _ => 0

def Gate.isControlled : Gate → Bool
  | .crot _ _ => true
  | _ => false

structure Layer where
  nQubits : Nat
  gates : List Gate
  deriving DecidableEq, Repr, Inhabited

def Layer.nParams (l : Layer) : Nat := (l.gates.map Gate.nParams).sum

def Layer.nControlled (l : Layer) : Nat := (l.gates.filter Gate.isControlled).length

/-- one iteration of the loop in `EVQECircuitLayer.is_valid` -/
def gateOk (gates : List Gate) (i : Nat) (g : Gate) : Bool :=
  g.qubit == i &&
  (match g with
   | .crot _ c => (match gates[c]? with | some (.ctrl _ c') => c' == i | _ => false)
   | .ctrl _ c => (match gates[c]? with | some (.crot _ c') => c' == i | _ => false)
   | _ => true)

/-- `EVQECircuitLayer.is_valid` -/
def Layer.isValid (l : Layer) : Bool :=
  l.gates.length == l.nQubits && (l.gates.zipIdx.all (fun (g, i) => gateOk l.gates i g))

structure Indiv where
  nQubits : Nat
  layers : List Layer
  values : List Val
  deriving DecidableEq, Repr, Inhabited

def totalParams (ls : List Layer) : Nat := (ls.map Layer.nParams).sum

/-- `EVQEIndividual.is_valid` -/
def Indiv.isValid (x : Indiv) : Bool :=
  !x.layers.isEmpty && x.layers.all (fun l => l.isValid && l.nQubits == x.nQubits) &&
    x.values.length == totalParams x.layers

inductive Err where
  | layerInvalid | individualInvalid | wrongValueCount | nLayersTooSmall | removedTooMany | qubitMismatch | fewerThanOneQubit
  | oracleExhausted
  deriving DecidableEq, Repr

def Err.toString : Err → String
  | .layerInvalid => "layerInvalid" | .individualInvalid => "individualInvalid"
  | .wrongValueCount => "wrongValueCount" | .nLayersTooSmall => "nLayersTooSmall"
  | .removedTooMany => "removedTooMany" | .qubitMismatch => "qubitMismatch"
  | .fewerThanOneQubit => "fewerThanOneQubit" | .oracleExhausted => "oracleExhausted"

def mkLayer (n : Nat) (gates : List Gate) : Except Err Layer :=
  let l : Layer := { nQubits := n, gates := gates }
  if l.isValid then .ok l else .error .layerInvalid

def mkIndiv (n : Nat) (layers : List Layer) (values : List Val) : Except Err Indiv :=
  let x : Indiv := { nQubits := n, layers := layers, values := values }
  if x.isValid then .ok x else .error .individualInvalid

/-- start offset of layer `i` in the flat value tuple (`layer_parameter_indices[i][0]`) -/
def offset (ls : List Layer) (i : Nat) : Nat := totalParams (ls.take i)

/-- `get_layer_parameter_values` for a (non-negative, in range) layer index -/
def layerValues (x : Indiv) (i : Nat) : List Val :=
  (x.values.drop (offset x.layers i)).take ((x.layers.getD i default).nParams)

/-- Python `layer_id % len(layers)` -/
def normIdx (layerId : Int) (n : Nat) : Nat := (layerId % (n : Int)).toNat

/-- `change_parameter_values` -/
def changeParameterValues (x : Indiv) (vals : List Val) : Except Err Indiv :=
  if vals.length ≠ totalParams x.layers then .error .wrongValueCount
  else mkIndiv x.nQubits x.layers vals

/-- `change_layer_parameter_values` -/
def changeLayerParameterValues (x : Indiv) (layerId : Int) (vals : List Val) : Except Err Indiv :=
  let i := normIdx layerId x.layers.length
  if vals.length ≠ (x.layers.getD i default).nParams then .error .wrongValueCount
  else
    let perLayer := (List.range x.layers.length).map (fun j => if j ≠ i then layerValues x j else vals)
    mkIndiv x.nQubits x.layers perLayer.flatten

/-- `remove_layers` -/
def removeLayers (x : Indiv) (k : Int) : Except Err Indiv :=
  if ¬ (0 < k) then .error .nLayersTooSmall
  else if ¬ (k < x.layers.length) then .error .removedTooMany
  else
    let layers := x.layers.take (x.layers.length - k.toNat)
    mkIndiv x.nQubits layers (x.values.take (totalParams layers))

/-- `get_genetic_distance` -/
def geneticDistance (a b : Indiv) : Int :=
  let n1 := a.layers.length
  let n2 := b.layers.length
  let nAll : Nat := (n1 + n2 + 1) / 2
  let shared := ((a.layers.zip b.layers).filter (fun (x, y) => x == y)).length
  (nAll : Int) - shared

/-! ## random layer generation with an oracle -/

structure Oracle where
  coins : List Bool            -- successive `choice([ROTATION, CONTROLLED_ROTATION])`, `true` = ROTATION
  pairs : List (Nat × Nat)     -- successive `sample(controlled_rotation_qubits, 2)` = (rotation_qubit, control_qubit)
  deriving Repr

def prevGate (prev : Option Layer) (q : Nat) : Option Gate :=
  match prev with
  | none => none
  | some p => p.gates[q]?

/-- the first loop: per qubit either place a rotation or mark the qubit for a controlled rotation -/
def markLoop (prev : Option Layer) : List Nat → List Bool → List Gate → List Nat → Except Err (List Gate × List Nat × List Bool)
  | [], coins, gates, crq => .ok (gates, crq, coins)
  | q :: qs, coins, gates, crq =>
    match prevGate prev q with
    | some (.rot _) | some (.id _) => markLoop prev qs coins gates (crq ++ [q])
    | _ =>
      match coins with
      | [] => .error .oracleExhausted
      | c :: coins' =>
        if c then markLoop prev qs coins' (gates.set q (.rot q)) crq
        else markLoop prev qs coins' gates (crq ++ [q])

def inPrev (prev : Option Layer) (g : Gate) : Bool :=
  match prev with
  | none => false
  | some p => p.gates.contains g

/-- the `while len(controlled_rotation_qubits) >= 2` loop; one oracle pair per iteration -/
def pairLoop (prev : Option Layer) : List (Nat × Nat) → List Gate → List Nat → Except Err (List Gate × List Nat × List (Nat × Nat))
  | pairs, gates, crq =>
    if crq.length < 2 then .ok (gates, crq, pairs)
    else
      match pairs with
      | [] => .error .oracleExhausted
      | (r, c) :: rest =>
        if prev.isNone || (!inPrev prev (.crot r c) && !inPrev prev (.ctrl c r)) then
          pairLoop prev rest ((gates.set c (.ctrl c r)).set r (.crot r c)) ((crq.erase r).erase c)
        else pairLoop prev rest gates crq
termination_by pairs => pairs.length

/-- the last remaining qubit: a rotation if possible, otherwise an identity -/
def finalStep (prev : Option Layer) (gates : List Gate) (crq : List Nat) : List Gate :=
  match crq with
  | [q] =>
    (match prevGate prev q with
     | some (.rot _) => gates.set q (.id q)
     | _ => gates.set q (.rot q))
  | _ => gates

/-- `previous_layer is not None and previous_layer.n_qubits != n_qubits` -/
def qubitMismatch (prev : Option Layer) (n : Nat) : Bool :=
  match prev with
  | some p => decide (p.nQubits ≠ n)
  | none => false

/-- `EVQECircuitLayer.random_layer` (also returns the unused part of the oracle) -/
def randomLayer (n : Nat) (prev : Option Layer) (o : Oracle) : Except Err (Layer × Oracle) :=
  if n < 1 then .error .fewerThanOneQubit
  else if qubitMismatch prev n then .error .qubitMismatch
  else
    match markLoop prev (List.range n) o.coins ((List.range n).map Gate.id) [] with
    | .error e => .error e
    | .ok (g1, crq1, coins) =>
      match pairLoop prev o.pairs g1 crq1 with
      | .error e => .error e
      | .ok (g2, crq2, pairs) =>
        match mkLayer n (finalStep prev g2 crq2) with
        | .error e => .error e
        | .ok l => .ok (l, { coins := coins, pairs := pairs })

/-- the layer loop shared by `random_individual` (prev = none) and `add_random_layers` (prev = last layer):
each new layer is generated against the layer directly before it -/
def randomLayers (n : Nat) : Nat → Option Layer → Oracle → Except Err (List Layer × Oracle)
  | 0, _, o => .ok ([], o)
  | k + 1, prev, o =>
    match randomLayer n prev o with
    | .error e => .error e
    | .ok (l, o') =>
      match randomLayers n k (some l) o' with
      | .error e => .error e
      | .ok (ls, o'') => .ok (l :: ls, o'')

/-- `random_individual`; `vals` are the drawn parameter values (or zeros) -/
def randomIndividual (n nLayers : Nat) (o : Oracle) (vals : Nat → List Val) : Except Err Indiv :=
  match randomLayers n nLayers none o with
  | .error e => .error e
  | .ok (ls, _) => mkIndiv n ls (vals (totalParams ls))

/-- `add_random_layers` -/
def addRandomLayers (x : Indiv) (nLayers : Int) (o : Oracle) (vals : Nat → List Val) : Except Err Indiv :=
  if nLayers < 1 then .error .nLayersTooSmall
  else
    match randomLayers ((x.layers.headD default).nQubits) nLayers.toNat x.layers.getLast? o with
    | .error e => .error e
    | .ok (ls, _) => mkIndiv x.nQubits (x.layers ++ ls) (x.values ++ vals (totalParams ls))

/-! ## circuit views (C04) -/

/-- kind of a gate parameter; Qiskit orders the names alphabetically: `lambda < phi < theta` -/
inductive PKind | theta | phi | lam
  deriving DecidableEq, Repr

/-- a parameter slot of the circuit: layer, qubit, kind -/
structure Slot where
  layer : Nat
  qubit : Nat
  kind : PKind
  deriving DecidableEq, Repr

/-- the slots of one layer in the order in which the code *creates* the parameters (gate order; theta, phi, lambda) -/
def layerSlots (i : Nat) (l : Layer) : List Slot :=
  l.gates.flatMap (fun g => if g.nParams = 3 then [⟨i, g.qubit, .theta⟩, ⟨i, g.qubit, .phi⟩, ⟨i, g.qubit, .lam⟩] else [])

/-- character codes -/
def decimalDigits (n : Nat) : List Nat := (Nat.toDigits 10 n).map Char.toNat

/-- `w` decimal digits of `n`, most significant first — what `f"{n:0{w}d}"` prints when `n < 10^w` -/
def padDigits : Nat → Nat → List Nat
  | 0, _ => []
  | w + 1, n => (48 + n / 10 ^ w) :: padDigits w (n % 10 ^ w)

def kindName : PKind → List Nat
  | .theta => "theta".toList.map Char.toNat
  | .phi => "phi".toList.map Char.toNat
  | .lam => "lambda".toList.map Char.toNat

/-- the parameter name `layer{layer:09d}_q{qubit}_{kind}` as a list of character codes -/
def Slot.name (s : Slot) : List Nat :=
  ("layer".toList.map Char.toNat) ++ padDigits 9 s.layer ++ ("_q".toList.map Char.toNat) ++
    decimalDigits s.qubit ++ [95] ++ kindName s.kind

/-- `circuit.parameters`: the slots sorted by name (lexicographic order of the character codes — how Qiskit
sorts plain `Parameter`s) -/
def sortSlots (l : List Slot) : List Slot := l.mergeSort (fun s t => decide (s.name ≤ t.name))

/-- an assignment of values to slots -/
abbrev Binding := List (Slot × Val)

/-- positional `assign_parameters(values)` on a circuit whose parameters are `slots` -/
def bindPositional (slots : List Slot) (vals : List Val) : Binding := (sortSlots slots).zip vals

def allSlots (x : Indiv) : List Slot :=
  (List.range x.layers.length).flatMap (fun i => layerSlots i (x.layers.getD i default))

/-- `get_quantum_circuit()`: the fully parameterised circuit bound positionally with all values -/
def bindFull (x : Indiv) : Binding := bindPositional (allSlots x) x.values

/-- `get_partially_parameterized_quantum_circuit(S)` followed by positional binding of the remaining parameters
with the concatenated per-layer values of the symbolic layers (ascending layer order): non-symbolic layers are
bound layer-locally by `get_layer_gate`. -/
def bindPartial (x : Indiv) (symbolic : List Nat) : Binding :=
  let idxs := List.range x.layers.length
  let fixed := idxs.filter (fun i => !symbolic.contains i)
  let sym := idxs.filter (fun i => symbolic.contains i)
  let fixedB := fixed.flatMap (fun i => bindPositional (layerSlots i (x.layers.getD i default)) (layerValues x i))
  let symSlots := sym.flatMap (fun i => layerSlots i (x.layers.getD i default))
  let symVals := sym.flatMap (fun i => layerValues x i)
  fixedB ++ bindPositional symSlots symVals

def lookupSlot (b : Binding) (s : Slot) : Option Val := (b.find? (fun p => p.1 == s)).map Prod.snd

end QVerif.Genome
