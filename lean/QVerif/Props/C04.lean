import QVerif.Lemmas.GenomeSort
import QVerif.Props.C16

/-!
# C04 — all circuit views of an individual denote the same unitary

A *binding* assigns a value to every parameter slot `(layer, qubit, kind)`.  Which value a gate receives is all
that distinguishes the circuit views (they apply the same gates in the same order), so two views with the same
binding are the same bound gate sequence — equal unitaries for *every* gate semantics, not only up to global phase.

Hypotheses: the individual is valid, has at most 10⁹ layers (the width of the zero-padded layer id in the
parameter names) and its parameter names are pairwise different (`NamesInjective`; Qiskit refuses to build a
circuit with two parameters of the same name, so this holds for every circuit the library can produce).
Trusted about Qiskit: `circuit.parameters` is sorted by name; positional `assign_parameters` follows that order.
-/

namespace QVerif.Genome

def NamesInjective (x : Indiv) : Prop :=
  ∀ s ∈ allSlots x, ∀ t ∈ allSlots x, s.name = t.name → s = t

/-- layer `i` bound on its own with its own values (`get_layer_gate`) -/
def localBinding (x : Indiv) (i : Nat) : Binding :=
  bindPositional (layerSlots i (x.layers.getD i default)) (layerValues x i)

theorem layerSlots_length (i : Nat) (l : Layer) : (layerSlots i l).length = l.nParams := by
  unfold layerSlots Layer.nParams
  induction l.gates with
  | nil => rfl
  | cons g t ih =>
    simp only [List.flatMap_cons, List.length_append, List.map_cons, List.sum_cons, ih]
    cases g <;> simp [Gate.nParams]

theorem layerValues_length (x : Indiv) (hv : x.isValid = true) (i : Nat) (hi : i < x.layers.length) :
    (layerValues x i).length = (x.layers.getD i default).nParams := by
  obtain ⟨_, _, hxlen⟩ := (isValid_iff x).mp hv
  unfold layerValues
  simp only [List.length_take, List.length_drop]
  have h1 : offset x.layers (i + 1) ≤ x.values.length := by rw [hxlen]; exact totalParams_take_le _ _
  have h2 := offset_succ x.layers i hi
  omega

theorem values_eq_flatMap (x : Indiv) (hv : x.isValid = true) :
    (List.range x.layers.length).flatMap (layerValues x) = x.values := by
  obtain ⟨_, _, hxlen⟩ := (isValid_iff x).mp hv
  have key : ∀ n, n ≤ x.layers.length → (List.range n).flatMap (layerValues x) = x.values.take (offset x.layers n) := by
    intro n
    induction n with
    | zero => intro _; simp [offset, totalParams]
    | succ k ih =>
      intro hk
      rw [List.range_succ, List.flatMap_append, ih (by omega)]
      simp only [List.flatMap_cons, List.flatMap_nil, List.append_nil]
      rw [offset_succ x.layers k (by omega)]
      unfold layerValues
      rw [List.take_add]
  rw [key _ (Nat.le_refl _)]
  apply List.take_of_length_le
  unfold offset
  rw [List.take_length, hxlen]
  exact Nat.le_refl _

theorem subset_allSlots (x : Indiv) (is : List Nat) (his : ∀ i ∈ is, i < x.layers.length) :
    ∀ s ∈ is.flatMap (fun i => layerSlots i (x.layers.getD i default)), s ∈ allSlots x := by
  intro s hs
  simp only [List.mem_flatMap] at hs
  obtain ⟨i, hi, hsi⟩ := hs
  simp only [allSlots, List.mem_flatMap, List.mem_range]
  exact ⟨i, his i hi, hsi⟩

/-- positional binding of any increasing selection of layers = those layers bound one by one -/
theorem bind_selection (x : Indiv) (hv : x.isValid = true) (hlen : x.layers.length ≤ 10 ^ 9) (hinj : NamesInjective x)
    (is : List Nat) (hinc : is.Pairwise (· < ·)) (his : ∀ i ∈ is, i < x.layers.length) :
    bindPositional (is.flatMap (fun i => layerSlots i (x.layers.getD i default))) (is.flatMap (layerValues x)) =
      is.flatMap (localBinding x) := by
  unfold bindPositional
  rw [sort_concat (fun i => x.layers.getD i default) is hinc (fun i hi => by have := his i hi; omega)
    (fun s hs t ht => hinj s (subset_allSlots x is his s hs) t (subset_allSlots x is his t ht))]
  rw [zip_flatMap]
  · rfl
  · intro i hi
    rw [length_sortSlots, layerSlots_length, layerValues_length x hv i (his i hi)]

theorem range_pairwise_lt (n : Nat) : (List.range n).Pairwise (· < ·) := by
  induction n with
  | zero => simp
  | succ k ih =>
    rw [List.range_succ, List.pairwise_append]
    refine ⟨ih, by simp, ?_⟩
    intro a ha b hb
    simp only [List.mem_range] at ha
    simp only [List.mem_singleton] at hb
    omega

/-- **the fully parameterised circuit bound positionally with all values = every layer bound on its own**
(`get_quantum_circuit()` versus `get_partially_parameterized_quantum_circuit(set())`) -/
theorem full_eq_layerwise (x : Indiv) (hv : x.isValid = true) (hlen : x.layers.length ≤ 10 ^ 9) (hinj : NamesInjective x) :
    bindFull x = (List.range x.layers.length).flatMap (localBinding x) := by
  unfold bindFull allSlots
  have := bind_selection x hv hlen hinj (List.range x.layers.length) (range_pairwise_lt _)
    (fun i hi => List.mem_range.mp hi)
  rw [values_eq_flatMap x hv] at this
  exact this

/-- **views agree**: for every set `S` of layers left symbolic, binding the non-symbolic layers layer-locally and
the symbolic ones positionally with their concatenated per-layer values assigns exactly the same value to every
parameter slot as the fully bound circuit (the bindings are permutations of each other and every slot occurs
once) -/
theorem views_agree (x : Indiv) (S : List Nat) (hv : x.isValid = true) (hlen : x.layers.length ≤ 10 ^ 9)
    (hinj : NamesInjective x) : (bindPartial x S).Perm (bindFull x) := by
  rw [full_eq_layerwise x hv hlen hinj]
  unfold bindPartial
  simp only
  have hsym := bind_selection x hv hlen hinj ((List.range x.layers.length).filter (fun i => S.contains i))
    ((range_pairwise_lt _).filter _) (fun i hi => List.mem_range.mp (List.mem_filter.mp hi).1)
  rw [hsym]
  have : ((List.range x.layers.length).filter (fun i => !S.contains i)).flatMap
      (fun i => bindPositional (layerSlots i (x.layers.getD i default)) (layerValues x i)) =
      ((List.range x.layers.length).filter (fun i => !S.contains i)).flatMap (localBinding x) := rfl
  rw [this, ← List.flatMap_append]
  apply List.Perm.flatMap_right
  have h := List.filter_append_perm (fun i => S.contains i) (List.range x.layers.length)
  exact (List.perm_append_comm.trans h)

/-- every slot is bound exactly once in the fully bound circuit (so a `Perm` of bindings is the same function) -/
theorem full_binds_each_slot_once (x : Indiv) (hv : x.isValid = true) :
    (bindFull x).map Prod.fst = sortSlots (allSlots x) := by
  obtain ⟨_, _, hxlen⟩ := (isValid_iff x).mp hv
  unfold bindFull bindPositional
  rw [List.map_fst_zip]
  rw [length_sortSlots, hxlen]
  unfold allSlots totalParams
  have : ∀ n, n ≤ x.layers.length → ((List.range n).flatMap (fun i => layerSlots i (x.layers.getD i default))).length =
      offset x.layers n := by
    intro n
    induction n with
    | zero => intro _; simp [offset, totalParams]
    | succ k ih =>
      intro hk
      rw [List.range_succ, List.flatMap_append, List.length_append, ih (by omega), offset_succ x.layers k (by omega)]
      simp [layerSlots_length]
  have h := this x.layers.length (Nat.le_refl _)
  unfold offset totalParams at h
  rw [List.take_length] at h
  omega

/-- **replacing one layer's values** changes the binding exactly as binding the new values into that layer of the
partially parameterised circuit does, and leaves every other layer's binding untouched -/
theorem change_layer_exact (x y : Indiv) (layerId : Int) (vals : List Val) (hv : x.isValid = true)
    (hlen : x.layers.length ≤ 10 ^ 9) (hinj : NamesInjective x)
    (h : changeLayerParameterValues x layerId vals = .ok y) :
    bindFull y = (List.range x.layers.length).flatMap (fun i =>
      bindPositional (layerSlots i (x.layers.getD i default))
        (if i = normIdx layerId x.layers.length then vals else layerValues x i)) := by
  obtain ⟨hn, hl, hi, hother⟩ := change_layer_only_values x y layerId vals hv h
  have hvy : y.isValid = true := (results_valid x y).2.1 layerId vals h
  have hinjy : NamesInjective y := by
    unfold NamesInjective allSlots at *
    rw [hl]; exact hinj
  rw [full_eq_layerwise y hvy (by rw [hl]; exact hlen) hinjy, hl]
  have : ∀ (l : List Nat), (∀ i ∈ l, i < x.layers.length) →
      l.flatMap (localBinding y) = l.flatMap (fun i => bindPositional (layerSlots i (x.layers.getD i default))
        (if i = normIdx layerId x.layers.length then vals else layerValues x i)) := by
    intro l
    induction l with
    | nil => intro _; rfl
    | cons a t ih =>
      intro hl'
      simp only [List.flatMap_cons]
      rw [ih (fun i hi => hl' i (List.mem_cons_of_mem _ hi))]
      congr 1
      unfold localBinding
      rw [hl]
      by_cases ha : a = normIdx layerId x.layers.length
      · simp only [ha, ↓reduceIte]; rw [hi]
      · simp only [ha, ↓reduceIte]; rw [hother a (hl' a (by simp)) ha]
  exact this _ (fun i hi => List.mem_range.mp hi)

/-! ## Non-vacuity: 2 qubits, 12 layers (more than ten: the case the un-padded names got wrong) -/

def exLayer : Layer := ⟨2, [.rot 0, .rot 1]⟩
def exIndiv : Indiv := ⟨2, List.replicate 12 exLayer, (List.range 72).map (fun n => Int.ofNat n + 1)⟩

#guard exIndiv.isValid
-- names pairwise different
#guard ((allSlots exIndiv).map Slot.name).eraseDups.length = (allSlots exIndiv).length
-- layer 10's parameters come after layer 2's and before layer 11's
#guard (sortSlots (allSlots exIndiv)).map (·.layer) = (List.range 12).flatMap (fun i => List.replicate 6 i)
-- the views agree
#guard (bindPartial exIndiv [0, 5, 10]).all (fun p => lookupSlot (bindFull exIndiv) p.1 == some p.2)
#guard (bindPartial exIndiv [0, 5, 10]).length = 72

end QVerif.Genome
