import QVerif.Lemmas.Codec

/-!
# C18 — JSON round trips preserve every serialisable object

`dec hook (enc x) = .ok (embedding of x)` for every object `x` of every serialisable class, for each of the four
encoder / decoder pairs.  `dec hook` is `json.loads(·, object_hook=hook)` on the tree `json.dumps(·, cls=Encoder)` wrote.
-/

namespace QVerif.Codec
open QVerif.Genome (Gate Layer)
open QVerif.Jssp (Operation Job Instance SchedOp Schedule)

/-! ## `EVQECircuitLayerEncoder` / `EVQECircuitLayerDecoder` -/

theorem gate_roundtrip_layerCodec (g : Gate) : dec hookLayer (encGate g) = .ok (.gate g) := by
  cases g <;> simp [encGate, dec, decFields, jnat, hookLayer, has, parseGate, get, getNat, asNat, List.lookup]

theorem layer_roundtrip_layerCodec (l : Layer) (hv : l.isValid = true) : dec hookLayer (encLayer l) = .ok (.layer l) := by
  have hg := decList_map hookLayer encGate V.gate l.gates (fun g _ => gate_roundtrip_layerCodec g)
  have hm := mapE_map asGate V.gate (fun _ => rfl) l.gates
  simp [encLayer, dec, decFields, jnat, hookLayer, has, parseLayer, get, getNat, asNat, List.lookup, hg, asSeq, hm, mkLayer, hv]

/-! ## `EVQEPopulationJSONEncoder` / `EVQEPopulationJSONDecoder` -/

section pop
variable (keq : CIndiv → CIndiv → Bool)

theorem gate_roundtrip_popCodec (g : Gate) : dec (hookPop keq) (encGate g) = .ok (.gate g) := by
  cases g <;> simp [encGate, dec, decFields, jnat, hookPop, hasAny, layerKeys, hookLayer, has, parseGate, get, getNat, asNat,
    List.lookup]

theorem layer_roundtrip_popCodec (l : Layer) (hv : l.isValid = true) : dec (hookPop keq) (encLayer l) = .ok (.layer l) := by
  have hg := decList_map (hookPop keq) encGate V.gate l.gates (fun g _ => gate_roundtrip_popCodec keq g)
  have hm := mapE_map asGate V.gate (fun _ => rfl) l.gates
  simp [encLayer, dec, decFields, jnat, hookPop, hasAny, layerKeys, hookLayer, has, parseLayer, get, getNat, asNat, List.lookup,
    hg, asSeq, hm, mkLayer, hv]

theorem decList_nums (hook : Hook) (l : List Num) : decList hook (l.map J.num) = .ok (l.map V.num) :=
  decList_map hook J.num V.num l (fun _ _ => by simp [dec])

/-- the layers of a valid individual are valid -/
theorem CIndiv.layers_valid (x : CIndiv) (hv : x.isValid = true) : ∀ l ∈ x.layers, l.isValid = true := by
  intro l hl
  simp only [CIndiv.isValid, Bool.and_eq_true, List.all_eq_true] at hv
  exact (hv.1.2 l hl).1

theorem indiv_roundtrip_popCodec (x : CIndiv) (hv : x.isValid = true) : dec (hookPop keq) (encIndiv x) = .ok (.indiv x) := by
  have hl := decList_map (hookPop keq) encLayer V.layer x.layers
    (fun l hl => layer_roundtrip_popCodec keq l (CIndiv.layers_valid x hv l hl))
  have hp := decList_nums (hookPop keq) x.params
  have hm1 := mapE_map asLayer V.layer (fun _ => rfl) x.layers
  have hm2 := mapE_map asNum V.num (fun _ => rfl) x.params
  simp [encIndiv, dec, decFields, jnat, hookPop, hasAny, layerKeys, has, parseIndiv, get, getNat, asNat, List.lookup,
    hl, hp, asSeq, hm1, hm2, mkIndiv, hv]

/-- what every existing `EVQEPopulation` satisfies: its individuals passed their constructor's validity check, and the
two dicts have pairwise different keys -/
structure Pop.WF (p : Pop) : Prop where
  individuals : ∀ x ∈ p.individuals, x.isValid = true
  reps : ∀ r, p.reps = some r → ∀ x ∈ r, x.isValid = true
  members : ∀ m, p.members = some m → (∀ e ∈ m, e.1.isValid = true) ∧ DistinctKeys keq m
  membership : ∀ m, p.membership = some m → (∀ e ∈ m, e.2.isValid = true) ∧ DistinctKeys (· == ·) m

theorem decList_ints (hook : Hook) (l : List Int) : decList hook (l.map jint) = .ok (l.map (fun i => V.num (.int i))) :=
  decList_map hook jint _ l (fun _ _ => by simp [dec, jint])

theorem mapE_ints (l : List Int) : mapE asInt (l.map (fun i => V.num (.int i))) = .ok l :=
  mapE_map asInt _ (fun _ => rfl) l

theorem indivs_dec (hook : Hook) (hI : ∀ x : CIndiv, x.isValid = true → dec hook (encIndiv x) = .ok (.indiv x))
    (l : List CIndiv) (h : ∀ x ∈ l, x.isValid = true) : decList hook (l.map encIndiv) = .ok (l.map V.indiv) :=
  decList_map hook encIndiv V.indiv l (fun x hx => hI x (h x hx))

theorem members_dec (hook : Hook) (hI : ∀ x : CIndiv, x.isValid = true → dec hook (encIndiv x) = .ok (.indiv x))
    (m : List (CIndiv × List Int)) (h : ∀ e ∈ m, e.1.isValid = true) :
    decList hook (m.map (fun e => J.arr [encIndiv e.1, .arr (e.2.map jint)])) =
      .ok (m.map (fun e => V.list [.indiv e.1, .list (e.2.map (fun i => V.num (.int i)))])) :=
  decList_map hook _ _ m (fun e he => by simp [dec, decList, hI e.1 (h e he), decList_ints])

theorem members_cast (m : List (CIndiv × List Int)) :
    mapE asMemberEntry (m.map (fun e => V.list [.indiv e.1, .list (e.2.map (fun i => V.num (.int i)))])) = .ok m := by
  have := mapE_map' asMemberEntry (fun e : CIndiv × List Int => V.list [.indiv e.1, .list (e.2.map (fun i => V.num (.int i)))])
    id m (fun e _ => by simp [asMemberEntry, asPair, asIndiv, asList, mapE_ints])
  simpa using this

theorem membership_dec (hook : Hook) (hI : ∀ x : CIndiv, x.isValid = true → dec hook (encIndiv x) = .ok (.indiv x))
    (m : List (Int × CIndiv)) (h : ∀ e ∈ m, e.2.isValid = true) :
    decList hook (m.map (fun e => J.arr [jint e.1, encIndiv e.2])) =
      .ok (m.map (fun e => V.list [.num (.int e.1), .indiv e.2])) :=
  decList_map hook _ _ m (fun e he => by simp [dec, decList, hI e.2 (h e he), jint])

theorem membership_cast (m : List (Int × CIndiv)) :
    mapE asMembershipEntry (m.map (fun e => V.list [.num (.int e.1), .indiv e.2])) = .ok m := by
  have := mapE_map' asMembershipEntry (fun e : Int × CIndiv => V.list [.num (.int e.1), .indiv e.2])
    id m (fun e _ => by simp [asMembershipEntry, asPair, asIndiv, asInt])
  simpa using this

def optList {α} (f : α → V) : Option (List α) → V
  | none => .none
  | some l => .list (l.map f)

/-- the population part shared by the population codec and the result codec: any hook that decodes individuals and
treats a population dict as `parsePop` does -/
theorem pop_roundtrip_of (hook : Hook) (hI : ∀ x : CIndiv, x.isValid = true → dec hook (encIndiv x) = .ok (.indiv x))
    (hP : ∀ d, has d "evqe_population_individuals" = true → hasAny d layerKeys = false → hasAny d indivKeys = false →
      hook d = parsePop keq d)
    (p : Pop) (hw : p.WF keq) : dec hook (encPop p) = .ok (.pop p) := by
  obtain ⟨individuals, reps, members, membership⟩ := p
  have h1 := indivs_dec hook hI individuals hw.individuals
  have c1 := mapE_map asIndiv V.indiv (fun _ => rfl) individuals
  -- decode the four fields
  have hreps : dec hook (encOpt (fun r => .arr (r.map encIndiv)) reps) =
      .ok (optList V.indiv reps) := by
    cases reps with
    | none => simp [encOpt, dec, optList]
    | some r => simp [encOpt, dec, optList, indivs_dec hook hI r (hw.reps r rfl)]
  have hmem : dec hook (encOpt (fun m => .arr (m.map (fun e => .arr [encIndiv e.1, .arr (e.2.map jint)]))) members) =
      .ok (optList (fun e => V.list [.indiv e.1, .list (e.2.map (fun i => V.num (.int i)))]) members) := by
    cases members with
    | none => simp [encOpt, dec, optList]
    | some m => simp [encOpt, dec, optList, members_dec hook hI m (hw.members m rfl).1]
  have hms : dec hook (encOpt (fun m => .arr (m.map (fun e => .arr [jint e.1, encIndiv e.2]))) membership) =
      .ok (optList (fun e => V.list [.num (.int e.1), .indiv e.2]) membership) := by
    cases membership with
    | none => simp [encOpt, dec, optList]
    | some m => simp [encOpt, dec, optList, membership_dec hook hI m (hw.membership m rfl).1]
  simp only [encPop, dec, decFields, h1, hreps, hmem, hms]
  rw [hP _ (by simp [has]) (by simp [hasAny, layerKeys]) (by simp [hasAny, indivKeys])]
  simp only [parsePop, get, List.lookup, seqOf, asSeq, optList]
  cases reps with
  | none =>
    cases members with
    | none =>
      cases membership with
      | none => simp [c1, asOpt]
      | some ms =>
        simp [c1, asOpt, seqOf, asSeq, membership_cast, pyDict_distinct _ ms (hw.membership ms rfl).2]
    | some m =>
      cases membership with
      | none => simp [c1, asOpt, seqOf, asSeq, members_cast, pyDict_distinct _ m (hw.members m rfl).2]
      | some ms =>
        simp [c1, asOpt, seqOf, asSeq, members_cast, membership_cast, pyDict_distinct _ m (hw.members m rfl).2,
          pyDict_distinct _ ms (hw.membership ms rfl).2]
  | some r =>
    have c2 := mapE_map asIndiv V.indiv (fun _ => rfl) r
    cases members with
    | none =>
      cases membership with
      | none => simp [c1, asOpt, listOf, asList, c2]
      | some ms =>
        simp [c1, asOpt, listOf, asList, c2, seqOf, asSeq, membership_cast, pyDict_distinct _ ms (hw.membership ms rfl).2]
    | some m =>
      cases membership with
      | none => simp [c1, asOpt, listOf, asList, c2, seqOf, asSeq, members_cast, pyDict_distinct _ m (hw.members m rfl).2]
      | some ms =>
        simp [c1, asOpt, listOf, asList, c2, seqOf, asSeq, members_cast, membership_cast,
          pyDict_distinct _ m (hw.members m rfl).2, pyDict_distinct _ ms (hw.membership ms rfl).2]

theorem hookPop_pop (d : List (String × V)) (h1 : has d "evqe_population_individuals" = true)
    (h2 : hasAny d layerKeys = false) (h3 : hasAny d indivKeys = false) : hookPop keq d = parsePop keq d := by
  have hi : ∀ k ∈ indivKeys, has d k = false := by
    intro k hk
    simp only [hasAny, List.any_eq_false, List.contains_eq_mem, decide_eq_true_eq] at h3
    simp only [has, List.any_eq_false, beq_iff_eq]
    intro p hp hpk
    exact h3 p hp (hpk ▸ hk)
  simp [hookPop, h2, h1, hi "evqe_individual_n_qubits" (by simp [indivKeys]), hi "evqe_individual_layers" (by simp [indivKeys]),
    hi "evqe_individual_parameter_values" (by simp [indivKeys])]

theorem pop_roundtrip_popCodec (p : Pop) (hw : p.WF keq) : dec (hookPop keq) (encPop p) = .ok (.pop p) :=
  pop_roundtrip_of keq (hookPop keq) (indiv_roundtrip_popCodec keq) (hookPop_pop keq) p hw

/-! ## `EvolvingAnsatzMinimumEigensolverResultJSONEncoder` / `…Decoder` -/

theorem gate_roundtrip (g : Gate) : dec (hookBase keq) (encGate g) = .ok (.gate g) := by
  cases g <;> simp [encGate, dec, decFields, jnat, hookBase, popKeys, indivKeys, popOnlyKeys, hookPop, hasAny, layerKeys,
    hookLayer, has, parseGate, get, getNat, asNat, List.lookup]

theorem layer_roundtrip (l : Layer) (hv : l.isValid = true) : dec (hookBase keq) (encLayer l) = .ok (.layer l) := by
  have hg := decList_map (hookBase keq) encGate V.gate l.gates (fun g _ => gate_roundtrip keq g)
  have hm := mapE_map asGate V.gate (fun _ => rfl) l.gates
  simp [encLayer, dec, decFields, jnat, hookBase, popKeys, indivKeys, popOnlyKeys, hookPop, hasAny, layerKeys, hookLayer, has,
    parseLayer, get, getNat, asNat, List.lookup, hg, asSeq, hm, mkLayer, hv]

theorem indiv_roundtrip (x : CIndiv) (hv : x.isValid = true) : dec (hookBase keq) (encIndiv x) = .ok (.indiv x) := by
  have hl := decList_map (hookBase keq) encLayer V.layer x.layers
    (fun l hl => layer_roundtrip keq l (CIndiv.layers_valid x hv l hl))
  have hp := decList_nums (hookBase keq) x.params
  have hm1 := mapE_map asLayer V.layer (fun _ => rfl) x.layers
  have hm2 := mapE_map asNum V.num (fun _ => rfl) x.params
  simp [encIndiv, dec, decFields, jnat, hookBase, popKeys, indivKeys, popOnlyKeys, hookPop, hasAny, layerKeys, has, parseIndiv,
    get, getNat, asNat, List.lookup, hl, hp, asSeq, hm1, hm2, mkIndiv, hv]

theorem hookBase_pop (d : List (String × V)) (h1 : has d "evqe_population_individuals" = true)
    (h2 : hasAny d layerKeys = false) (h3 : hasAny d indivKeys = false) : hookBase keq d = parsePop keq d := by
  have : hasAny d popKeys = true := by
    simp only [has, List.any_eq_true, beq_iff_eq] at h1
    obtain ⟨p, hp, hk⟩ := h1
    simp only [hasAny, List.any_eq_true, List.contains_eq_mem, decide_eq_true_eq]
    exact ⟨p, hp, by rw [hk]; simp [popKeys, popOnlyKeys]⟩
  simp only [hookBase, this, ↓reduceIte]
  exact hookPop_pop keq d h1 h2 h3

theorem pop_roundtrip (p : Pop) (hw : p.WF keq) : dec (hookBase keq) (encPop p) = .ok (.pop p) :=
  pop_roundtrip_of keq (hookBase keq) (indiv_roundtrip keq) (hookBase_pop keq) p hw

def Scalar.toV : Scalar → V
  | .real n => .num n
  | .complex re im => .complex re im

theorem scalar_roundtrip (s : Scalar) : dec (hookBase keq) (encScalar s) = .ok s.toV := by
  cases s <;> simp [encScalar, dec, decFields, hookBase, hasAny, popKeys, indivKeys, popOnlyKeys, layerKeys, has, parseComplex,
    get, List.lookup, asNum, Scalar.toV]

theorem asScalar_toV (s : Scalar) : asScalar s.toV = .ok s := by cases s <;> rfl

theorem optNum_dec (hook : Hook) (o : Option Num) :
    dec hook (encOpt J.num o) = .ok (match o with | none => V.none | some n => V.num n) := by
  cases o <;> simp [encOpt, dec]

theorem asOpt_num (o : Option Num) : asOpt asNum (match o with | none => V.none | some n => V.num n) = .ok o := by
  cases o <;> simp [asOpt, asNum]

/-- `QuasiDistribution`: the outcome keys of a distribution are pairwise different -/
theorem quasi_roundtrip (q : Quasi) (hd : DistinctKeys (· == ·) q.data) : dec (hookBase keq) (encQuasi q) = .ok (.quasi q) := by
  obtain ⟨data, shots, stddev⟩ := q
  have h1 : decList (hookBase keq) (data.map (fun e => J.arr [jint e.1, .num e.2])) =
      .ok (data.map (fun e => V.list [.num (.int e.1), .num e.2])) :=
    decList_map _ _ _ data (fun e _ => by simp [dec, decList, jint])
  have c1 : mapE asQuasiEntry (data.map (fun e => V.list [.num (.int e.1), .num e.2])) = .ok data := by
    have := mapE_map' asQuasiEntry (fun e : Int × Num => V.list [.num (.int e.1), .num e.2]) id data
      (fun e _ => by simp [asQuasiEntry, asPair, asInt, asNum])
    simpa using this
  simp only [encQuasi, dec, decFields, h1, optNum_dec]
  simp [hookBase, hasAny, popKeys, indivKeys, popOnlyKeys, layerKeys, has, parseQuasi, get, List.lookup, seqOf, asSeq, c1,
    asOpt_num, pyDict_distinct _ data hd]

theorem circuit_roundtrip (c : String) : dec (hookBase keq) (encCircuit c) = .ok (.circuit c) := by
  simp [encCircuit, dec, decFields, hookBase, hasAny, popKeys, indivKeys, popOnlyKeys, layerKeys, has, parseCircuit, get,
    List.lookup, asStr]

structure EvalRes.WF (e : EvalRes) : Prop where
  pop : e.pop.WF keq
  best : e.best.isValid = true

theorem evalres_roundtrip (e : EvalRes) (hw : e.WF keq) : dec (hookBase keq) (encEvalRes e) = .ok (.evalres e) := by
  obtain ⟨pop, values, best, bestValue⟩ := e
  have h1 := pop_roundtrip keq pop hw.pop
  have h2 : decList (hookBase keq) (values.map (encOpt J.num)) =
      .ok (values.map (fun o => match o with | none => V.none | some n => V.num n)) :=
    decList_map _ _ _ values (fun o _ => optNum_dec _ o)
  have c2 : mapE (asOpt asNum) (values.map (fun o => match o with | none => V.none | some n => V.num n)) = .ok values := by
    have := mapE_map' (asOpt asNum) (fun o : Option Num => match o with | none => V.none | some n => V.num n) id values
      (fun o _ => asOpt_num o)
    simpa using this
  have h3 := indiv_roundtrip keq best hw.best
  simp only [encEvalRes, dec, decFields, h1, h2, h3]
  simp [hookBase, hasAny, popKeys, indivKeys, popOnlyKeys, layerKeys, evalKeys, has, parseEvalRes, get, List.lookup, asPop, seqOf,
    asSeq, c2, asIndiv, asNum]

/-- what every existing solver result satisfies -/
structure Result.WF (r : Result) : Prop where
  best : ∀ x, r.best = some x → x.isValid = true
  eigenstate : ∀ q, r.eigenstate = some q → DistinctKeys (· == ·) q.data
  history : ∀ h, r.history = some h → ∀ e ∈ h, e.WF keq
  aux : ∀ l, r.aux = .dict l → DistinctKeys (· == ·) l

def Aux.toV : Aux → V
  | .none => .none
  | .list l => .dict [("type", .str "list"), ("values", .list (l.map Scalar.toV))]
  | .dict l => .dict [("type", .str "dict"), ("values", .list (l.map (fun e => V.list [.str e.1, e.2.toV])))]

theorem aux_dec (a : Aux) : dec (hookBase keq) (encAux a) = .ok a.toV := by
  cases a with
  | none => simp [encAux, dec, Aux.toV]
  | list l =>
    have h := decList_map (hookBase keq) encScalar Scalar.toV l (fun s _ => scalar_roundtrip keq s)
    simp [encAux, dec, decFields, h, hookBase, hasAny, popKeys, indivKeys, popOnlyKeys, layerKeys, evalKeys, resultKeys, has, Aux.toV]
  | dict l =>
    have h : decList (hookBase keq) (l.map (fun e => J.arr [.str e.1, encScalar e.2])) =
        .ok (l.map (fun e => V.list [.str e.1, e.2.toV])) :=
      decList_map _ _ _ l (fun e _ => by simp [dec, decList, scalar_roundtrip])
    simp [encAux, dec, decFields, h, hookBase, hasAny, popKeys, indivKeys, popOnlyKeys, layerKeys, evalKeys, resultKeys, has, Aux.toV]

theorem aux_parse (a : Aux) (hd : ∀ l, a = .dict l → DistinctKeys (· == ·) l) : parseAux a.toV = .ok a := by
  cases a with
  | none => rfl
  | list l =>
    have c := mapE_map' asScalar Scalar.toV id l (fun s _ => asScalar_toV s)
    simp at c
    simp [Aux.toV, parseAux, get, List.lookup, listOf, asList, c]
  | dict l =>
    have c := mapE_map' asAuxEntry (fun e : String × Scalar => V.list [.str e.1, e.2.toV]) id l
      (fun e _ => by simp [asAuxEntry, asPair, asStr, asScalar_toV])
    simp at c
    simp [Aux.toV, parseAux, get, List.lookup, seqOf, asSeq, c, pyDict_distinct _ l (hd l rfl)]

def optV {α} (f : α → V) : Option α → V
  | none => .none
  | some a => f a

theorem opt_dec {α} (hook : Hook) (enc : α → J) (f : α → V) (o : Option α) (h : ∀ a, o = some a → dec hook (enc a) = .ok (f a)) :
    dec hook (encOpt enc o) = .ok (optV f o) := by
  cases o with
  | none => simp [encOpt, dec, optV]
  | some a => simpa [encOpt, optV] using h a rfl

theorem asOpt_optV {α} (cast : V → Except Err α) (f : α → V) (o : Option α) (h : ∀ a, cast (f a) = .ok a)
    (hn : ∀ a, f a ≠ V.none) : asOpt cast (optV f o) = .ok o := by
  cases o with
  | none => rfl
  | some a =>
    simp only [optV]
    have hne := hn a
    have hc := h a
    cases hfa : f a <;> first | exact absurd hfa hne | (rw [hfa] at hc; simp [asOpt, hc])

theorem Scalar.toV_ne_none (s : Scalar) : s.toV ≠ V.none := by cases s <;> simp [Scalar.toV]

/-- **Complete solver result** -/
theorem result_roundtrip (r : Result) (hw : r.WF keq) : dec (hookBase keq) (encResult r) = .ok (.result r) := by
  obtain ⟨eigenvalue, aux, eigenstate, best, evals, generations, history, init⟩ := r
  have h1 := opt_dec (hookBase keq) encScalar Scalar.toV eigenvalue (fun s _ => scalar_roundtrip keq s)
  have h2 := aux_dec keq aux
  have h3 := opt_dec (hookBase keq) encQuasi V.quasi eigenstate (fun q hq => quasi_roundtrip keq q (hw.eigenstate q hq))
  have h4 := opt_dec (hookBase keq) encIndiv V.indiv best (fun x hx => indiv_roundtrip keq x (hw.best x hx))
  have h5 := opt_dec (hookBase keq) (fun l : List Int => J.arr (l.map jint)) (fun l => V.list (l.map (fun i => V.num (.int i)))) evals
    (fun l _ => by simp [dec, decList_ints])
  have h6 := opt_dec (hookBase keq) jint (fun i => V.num (.int i)) generations (fun i _ => by simp [dec, jint])
  have h7 := opt_dec (hookBase keq) (fun l : List EvalRes => J.arr (l.map encEvalRes)) (fun l => V.list (l.map V.evalres)) history
    (fun l hl => by
      have := decList_map (hookBase keq) encEvalRes V.evalres l (fun e he => evalres_roundtrip keq e (hw.history l hl e he))
      simp [dec, this])
  have h8 := opt_dec (hookBase keq) encCircuit V.circuit init (fun c _ => circuit_roundtrip keq c)
  simp only [encResult, dec, decFields, h1, h2, h3, h4, h5, h6, h7, h8]
  have c1 := asOpt_optV asScalar Scalar.toV eigenvalue asScalar_toV Scalar.toV_ne_none
  have c2 := aux_parse aux hw.aux
  have c3 := asOpt_optV asQuasi V.quasi eigenstate (fun _ => rfl) (fun _ => by simp)
  have c4 := asOpt_optV asIndiv V.indiv best (fun _ => rfl) (fun _ => by simp)
  have c5 := asOpt_optV (listOf asInt) (fun l : List Int => V.list (l.map (fun i => V.num (.int i)))) evals
    (fun l => by simp [listOf, asList, mapE_ints]) (fun _ => by simp)
  have c6 := asOpt_optV asInt (fun i => V.num (.int i)) generations (fun _ => rfl) (fun _ => by simp)
  have c7 := asOpt_optV (listOf asEvalRes) (fun l : List EvalRes => V.list (l.map V.evalres)) history
    (fun l => by simp [listOf, asList, mapE_map asEvalRes V.evalres (fun _ => rfl) l]) (fun _ => by simp)
  have c8 := asOpt_optV asCircuit V.circuit init (fun _ => rfl) (fun _ => by simp)
  have hk : ∀ v1 v2 v3 v4 v5 v6 v7 v8 : V, hookBase keq
      [("evolving_ansatz_result_eigenvalue", v1), ("evolving_ansatz_result_aux_operators_evaluated", v2),
       ("evolving_ansatz_result_eigenstate", v3), ("evolving_ansatz_result_best_individual", v4),
       ("evolving_ansatz_result_circuit_evaluations", v5), ("evolving_ansatz_result_generations", v6),
       ("evolving_ansatz_population_evaluation_results", v7), ("evolving_ansatz_population_initial_state_circuit", v8)] =
      parseResult
      [("evolving_ansatz_result_eigenvalue", v1), ("evolving_ansatz_result_aux_operators_evaluated", v2),
       ("evolving_ansatz_result_eigenstate", v3), ("evolving_ansatz_result_best_individual", v4),
       ("evolving_ansatz_result_circuit_evaluations", v5), ("evolving_ansatz_result_generations", v6),
       ("evolving_ansatz_population_evaluation_results", v7), ("evolving_ansatz_population_initial_state_circuit", v8)] := by
    intros
    simp [hookBase, hasAny, popKeys, indivKeys, popOnlyKeys, layerKeys, evalKeys, resultKeys, has]
  rw [hk]
  simp [parseResult, get, List.lookup, c1, c2, c3, c4, c5, c6, c7, c8]

end pop

/-! ## `JSSPJSONEncoder` / `JSSPJSONDecoder`

Existing objects passed their constructors' checks (`Model/Jssp.lean`, C19); the decoder runs the same constructors. -/

open QVerif.Jssp (checkMachine checkOperation checkJob checkInstance checkResult)

def OpWF (o : Operation) : Prop := checkMachine o.machine = .ok () ∧ checkOperation o = .ok ()

def JobWF (j : Job) : Prop := (∀ o ∈ j.ops, OpWF o) ∧ checkJob j = .ok ()

def InstWF (i : Instance) : Prop :=
  (∀ m ∈ i.machines, checkMachine m = .ok ()) ∧ (∀ j ∈ i.jobs, JobWF j) ∧ checkInstance i = .ok ()

theorem machine_roundtrip (m : String) (h : checkMachine m = .ok ()) : dec hookJssp (encMachine m) = .ok (.machine m) := by
  simp [encMachine, dec, decFields, hookJssp, has, get, List.lookup, asStr, h, liftJ]

theorem op_roundtrip (o : Operation) (h : OpWF o) : dec hookJssp (encOp o) = .ok (.op o) := by
  have hm := machine_roundtrip o.machine h.1
  simp [encOp, dec, decFields, hm, jint, hookJssp, has, get, List.lookup, parseOperation, asStr, asMachine, asInt, h.2, liftJ]

theorem tuple_dec {α} (enc : α → J) (f : α → V) (l : List α) (h : ∀ a ∈ l, dec hookJssp (enc a) = .ok (f a)) :
    dec hookJssp (encTuple (l.map enc)) = .ok (.tuple (l.map f)) := by
  have := decList_map hookJssp enc f l h
  simp [encTuple, dec, decFields, this, hookJssp, has, get, List.lookup, asSeq]

theorem job_roundtrip (j : Job) (h : JobWF j) : dec hookJssp (encJob j) = .ok (.job j) := by
  have ht := tuple_dec encOp V.op j.ops (fun o ho => op_roundtrip o (h.1 o ho))
  have c := mapE_map asOp V.op (fun _ => rfl) j.ops
  simp [encJob, dec, decFields, ht, hookJssp, has, get, List.lookup, parseJob, asStr, tupleOf, asTuple, c, h.2, liftJ]

/-- **Every job-shop instance** -/
theorem instance_roundtrip (i : Instance) (h : InstWF i) : dec hookJssp (encInst i) = .ok (.inst i) := by
  have h1 := tuple_dec encMachine V.machine i.machines (fun m hm => machine_roundtrip m (h.1 m hm))
  have h2 := tuple_dec encJob V.job i.jobs (fun j hj => job_roundtrip j (h.2.1 j hj))
  have c1 := mapE_map asMachine V.machine (fun _ => rfl) i.machines
  have c2 := mapE_map asJob V.job (fun _ => rfl) i.jobs
  simp [encInst, dec, decFields, h1, h2, hookJssp, has, get, List.lookup, parseInst, asStr, tupleOf, asTuple, c1, c2, h.2.2, liftJ]

theorem psched_roundtrip (s : SchedOp) (h : OpWF s.op) : dec hookJssp (encPsched s) = .ok (.psched s) := by
  have ho := op_roundtrip s.op h
  obtain ⟨op, start⟩ := s
  cases start with
  | none => simp [encPsched, dec, decFields, ho, hookJssp, has, get, List.lookup, asOp]
  | some t => simp [encPsched, dec, decFields, ho, jint, hookJssp, has, get, List.lookup, parseScheduled, asOp, asInt]

/-- what every existing `JobShopSchedulingResult` satisfies -/
structure JResultWF (i : Instance) (s : Schedule) : Prop where
  inst : InstWF i
  keys : ∀ e ∈ s, JobWF e.1
  rows : ∀ e ∈ s, ∀ p ∈ e.2, OpWF p.op
  distinct : DistinctKeys (· == ·) s
  consistent : checkResult i s = .ok ()

/-- **Every scheduling result** (valid, invalid, with unscheduled operations) -/
theorem jresult_roundtrip (i : Instance) (s : Schedule) (h : JResultWF i s) :
    dec hookJssp (encJResult i s) = .ok (.jresult i s) := by
  have h1 := instance_roundtrip i h.inst
  have hrow : ∀ e ∈ s, dec hookJssp (encTuple [encJob e.1, encTuple (e.2.map encPsched)]) =
      .ok (.tuple [.job e.1, .tuple (e.2.map V.psched)]) := by
    intro e he
    have a := job_roundtrip e.1 (h.keys e he)
    have b := tuple_dec encPsched V.psched e.2 (fun p hp => psched_roundtrip p (h.rows e he p hp))
    simp [encTuple, dec, decFields, decList, a, hookJssp, has, get, asSeq] at b ⊢
    simp [b]
  have h2 := decList_map hookJssp (fun e : Job × List SchedOp => encTuple [encJob e.1, encTuple (e.2.map encPsched)])
    (fun e => V.tuple [.job e.1, .tuple (e.2.map V.psched)]) s hrow
  have c1 : mapE asPair (s.map (fun e => V.tuple [.job e.1, .tuple (e.2.map V.psched)])) =
      .ok (s.map (fun e => (V.job e.1, V.tuple (e.2.map V.psched)))) :=
    mapE_map' asPair _ _ s (fun _ _ => rfl)
  have c2 : mapE asScheduleEntry (s.map (fun e => (V.job e.1, V.tuple (e.2.map V.psched)))) = .ok s := by
    have := mapE_map' asScheduleEntry (fun e : Job × List SchedOp => (V.job e.1, V.tuple (e.2.map V.psched))) id s
      (fun e _ => by simp [asScheduleEntry, asJob, tupleOf, asTuple, mapE_map asPsched V.psched (fun _ => rfl) e.2])
    simpa using this
  have hs : dec hookJssp (encSchedule s) = .ok (.pydict (s.map (fun e => (V.job e.1, V.tuple (e.2.map V.psched))))) := by
    simp [encSchedule, dec, decFields, h2, hookJssp, has, get, List.lookup, seqOf, asSeq, c1]
  simp [encJResult, dec, decFields, h1, hs, hookJssp, has, get, List.lookup, parseJResult, asInst, asSchedule, c2,
    pyDict_distinct _ s h.distinct, h.consistent, liftJ]

/-! ## Non-vacuity: concrete objects that satisfy the hypotheses -/

def exLayer : Layer := { nQubits := 2, gates := [.ctrl 0 1, .crot 1 0] }
def exIndiv : CIndiv := { nQubits := 2, layers := [exLayer], params := [.float "0.5", .int 1, .float "-0.0"] }
def exIndiv2 : CIndiv := { nQubits := 2, layers := [{ nQubits := 2, gates := [.rot 0, .id 1] }], params := [.float "1.0", .float "2.5", .int 0] }
def exPop : Pop := { individuals := [exIndiv, exIndiv2, exIndiv], reps := some [exIndiv, exIndiv2],
                     members := some [(exIndiv, [0, 2]), (exIndiv2, [1])], membership := some [(0, exIndiv), (1, exIndiv2), (2, exIndiv)] }
def exResult : Result :=
  { eigenvalue := some (.complex (.float "-1.5") (.float "0.0")), aux := .dict [("a", .real (.float "1.0")), ("", .complex (.float "0.0") (.float "2.0"))],
    eigenstate := some { data := [(0, .float "0.25"), (3, .float "0.75")], shots := some (.int 64), stddev := none },
    best := some exIndiv, evals := some [4, 0], generations := some 1,
    history := some [{ pop := exPop, values := [some (.float "-1.5"), none, some (.int 2)], best := exIndiv, bestValue := .float "-1.5" }],
    init := some "UUlTS0lU" }

theorem exPop_wf : exPop.WF (· == ·) := by
  refine ⟨by decide, ?_, ?_, ?_⟩
  · intro r h; cases h; decide
  · intro m h; cases h; exact ⟨by decide, by unfold DistinctKeys; decide⟩
  · intro m h; cases h; exact ⟨by decide, by unfold DistinctKeys; decide⟩

theorem exResult_wf : exResult.WF (· == ·) := by
  refine ⟨?_, ?_, ?_, ?_⟩
  · intro x h; cases h; decide
  · intro q h; cases h; unfold DistinctKeys; decide
  · intro l h; cases h
    intro e he
    simp only [List.mem_singleton] at he
    subst he
    exact ⟨exPop_wf, by decide⟩
  · intro l h; cases h; unfold DistinctKeys; decide

example : dec (hookBase (· == ·)) (encResult exResult) = .ok (.result exResult) := result_roundtrip _ _ exResult_wf

instance : DecidableEq (Except QVerif.Jssp.Err Unit) := fun a b =>
  match a, b with
  | .ok (), .ok () => isTrue rfl
  | .error e, .error f => if h : e = f then isTrue (by rw [h]) else isFalse (fun c => h (by cases c; rfl))
  | .ok (), .error _ => isFalse (fun c => by cases c)
  | .error _, .ok () => isFalse (fun c => by cases c)

def exOp1 : Operation := { name := "o1", jobName := "tuple", machine := "dict", dur := 2 }
def exOp2 : Operation := { name := "o2", jobName := "tuple", machine := "m 2", dur := 1 }
def exJob : Job := { name := "tuple", ops := [exOp1, exOp2] }
def exInst : Instance := { name := "i", machines := ["dict", "m 2"], jobs := [exJob] }
def exSched : Schedule := [(exJob, [{ op := exOp1, start := some 0 }, { op := exOp2, start := none }])]

theorem exJob_wf : JobWF exJob := by
  refine ⟨?_, by decide⟩
  intro o ho
  simp only [exJob, List.mem_cons, List.not_mem_nil, or_false] at ho
  rcases ho with rfl | rfl <;> exact ⟨by decide, by decide⟩

example : dec hookJssp (encJResult exInst exSched) = .ok (.jresult exInst exSched) := by
  apply jresult_roundtrip
  refine ⟨⟨by decide, ?_, by decide⟩, ?_, ?_, by unfold DistinctKeys; decide, by decide⟩
  · intro j hj
    simp only [exInst, List.mem_singleton] at hj
    subst hj
    exact exJob_wf
  · intro e he
    simp only [exSched, List.mem_singleton] at he
    subst he
    exact exJob_wf
  · intro e he p hp
    simp only [exSched, List.mem_singleton] at he
    subst he
    simp only [List.mem_cons, List.not_mem_nil, or_false] at hp
    rcases hp with rfl | rfl <;> exact ⟨by decide, by decide⟩

/-! ## Why the result decoder must pass unrecognised dicts through

The population decoder turns a dict it does not recognise into `None`; on the auxiliary-value wrapper
`{"type": …, "values": …}` that would lose the values (this was defect F12, repaired in `37705bd`). -/

example (keq : CIndiv → CIndiv → Bool) : dec (hookPop keq) (encAux (.list [.real (.int 1)])) = .ok .none := by
  simp [encAux, dec, decFields, decList, encScalar, hookPop, hasAny, layerKeys, has]

end QVerif.Codec
