import QVerif.Model.Genome

/-!
# C20 — random genome generation yields valid, redundancy-free structures

Every random draw is an oracle input, so the theorems hold for every seed.
-/

namespace QVerif.Genome

/-- a layer `l` placed directly after `p` introduces no redundant parameters: on no qubit a rotation directly
follows a rotation, and no controlled rotation repeats the same (target, control) pair -/
def NonRedundant (p l : Layer) : Prop :=
  ∀ q : Nat, (∀ a b, l.gates[q]? = some (Gate.rot a) → p.gates[q]? ≠ some (Gate.rot b)) ∧
       (∀ a c, l.gates[q]? = some (Gate.crot a c) → p.gates[q]? ≠ some (Gate.crot a c))

theorem noRot_ctrl (P : Prop) {a b c : Nat} (h : Gate.ctrl a b = Gate.rot c) : P := by cases h
theorem noRot_id (P : Prop) {a c : Nat} (h : Gate.id a = Gate.rot c) : P := by cases h
theorem noRot_crot (P : Prop) {a b c : Nat} (h : Gate.crot a b = Gate.rot c) : P := by cases h
theorem noCrot_ctrl (P : Prop) {a b c d : Nat} (h : Gate.ctrl a b = Gate.crot c d) : P := by cases h
theorem noCrot_id (P : Prop) {a c d : Nat} (h : Gate.id a = Gate.crot c d) : P := by cases h
theorem noCrot_rot (P : Prop) {a c d : Nat} (h : Gate.rot a = Gate.crot c d) : P := by cases h

/-- invariant of the gate buffer while `random_layer` runs against previous layer `p` -/
def Good (p : Layer) (gates : List Gate) : Prop :=
  ∀ (i : Nat) (g : Gate), gates[i]? = some g →
    (∀ a, g = Gate.rot a → ∀ b, p.gates[i]? ≠ some (Gate.rot b)) ∧
    (∀ a c, g = Gate.crot a c → Gate.crot a c ∉ p.gates)

theorem good_set {p : Layer} {gates : List Gate} (h : Good p gates) (q : Nat) (g : Gate)
    (hg : (∀ a, g = Gate.rot a → ∀ b, p.gates[q]? ≠ some (Gate.rot b)) ∧ (∀ a c, g = Gate.crot a c → Gate.crot a c ∉ p.gates)) :
    Good p (gates.set q g) := by
  unfold Good at *
  intro i g' hi
  rw [List.getElem?_set] at hi
  split at hi
  · rename_i hqi
    split at hi
    · cases hi; subst hqi; exact hg
    · cases hi
  · exact h i g' hi

theorem good_init (p : Layer) (n : Nat) : Good p ((List.range n).map Gate.id) := by
  unfold Good
  intro i g hi
  simp only [List.getElem?_map, Option.map_eq_some_iff] at hi
  obtain ⟨a, _, rfl⟩ := hi
  exact ⟨fun _ h => noRot_id _ h, fun _ _ h => noCrot_id _ h⟩

theorem markLoop_good (p : Layer) : ∀ (qs : List Nat) (coins : List Bool) (gates : List Gate) (crq : List Nat)
    (gates' : List Gate) (crq' : List Nat) (coins' : List Bool),
    Good p gates → markLoop (some p) qs coins gates crq = .ok (gates', crq', coins') → Good p gates'
  | [], coins, gates, crq, gates', crq', coins', hg, h => by
      simp only [markLoop] at h; cases h; exact hg
  | q :: qs, coins, gates, crq, gates', crq', coins', hg, h => by
      unfold markLoop at h
      split at h
      · exact markLoop_good p qs coins gates _ _ _ _ hg h
      · exact markLoop_good p qs coins gates _ _ _ _ hg h
      · rename_i hnr hni
        split at h
        · cases h
        · rename_i c coins''
          split at h
          · refine markLoop_good p qs coins'' _ _ _ _ _ (good_set hg q (Gate.rot q) ⟨?_, fun _ _ h => noCrot_rot _ h⟩) h
            intro a _ b hb
            exact hnr b (by simpa [prevGate] using hb)
          · exact markLoop_good p qs coins'' gates _ _ _ _ hg h

theorem pairLoop_good (p : Layer) (pairs : List (Nat × Nat)) (gates : List Gate) (crq : List Nat)
    (gates' : List Gate) (crq' : List Nat) (pairs' : List (Nat × Nat))
    (hg : Good p gates) (h : pairLoop (some p) pairs gates crq = .ok (gates', crq', pairs')) : Good p gates' := by
  induction pairs generalizing gates crq with
  | nil =>
    unfold pairLoop at h
    split at h
    · cases h; exact hg
    · cases h
  | cons pr rest ih =>
    obtain ⟨r, c⟩ := pr
    unfold pairLoop at h
    split at h
    · cases h; exact hg
    · simp only at h
      split at h
      · rename_i hacc
        refine ih _ _ (good_set (good_set hg c (Gate.ctrl c r) ⟨fun _ h => noRot_ctrl _ h, fun _ _ h => noCrot_ctrl _ h⟩) r (Gate.crot r c)
          ⟨fun _ h => noRot_crot _ h, ?_⟩) h
        intro a c' heq
        cases heq
        simp only [Option.isNone_some, Bool.false_or, Bool.and_eq_true, Bool.not_eq_eq_eq_not, Bool.not_true] at hacc
        have := hacc.1
        simpa [inPrev] using this
      · exact ih _ _ hg h

/-- **`random_layer` is redundancy free** against a previous layer, for every qubit count, every previous layer
and every outcome of the random draws -/
theorem finalStep_good (p : Layer) (g2 : List Gate) (crq2 : List Nat) (hg2 : Good p g2) :
    Good p (finalStep (some p) g2 crq2) := by
  unfold finalStep
  split
  · rename_i q
    split
    · exact good_set hg2 q (Gate.id q) ⟨fun _ h => noRot_id _ h, fun _ _ h => noCrot_id _ h⟩
    · rename_i hnr
      refine good_set hg2 q (Gate.rot q) ⟨?_, fun _ _ h => noCrot_rot _ h⟩
      intro a _ b hb
      exact hnr b (by simpa [prevGate] using hb)
  · exact hg2

theorem randomLayer_nonredundant (n : Nat) (p : Layer) (o o' : Oracle) (l : Layer)
    (h : randomLayer n (some p) o = .ok (l, o')) : NonRedundant p l := by
  unfold randomLayer at h
  split at h
  · cases h
  · split at h
    · cases h
    · split at h
      · cases h
      · rename_i g1 crq1 coins1 hm
        have hg1 := markLoop_good p _ _ _ _ _ _ _ (good_init p n) hm
        split at h
        · cases h
        · rename_i g2 crq2 pairs2 hp
          have hg3 := finalStep_good p g2 crq2 (pairLoop_good p _ _ _ _ _ _ hg1 hp)
          split at h
          · cases h
          · rename_i l' hk
            cases h
            unfold mkLayer at hk
            simp only at hk
            split at hk
            · cases hk
              intro q
              refine ⟨fun a b hl => ((hg3 q (Gate.rot a) hl).1 a rfl) b, fun a c hl hpq => ?_⟩
              exact ((hg3 q (Gate.crot a c) hl).2 a c rfl) (List.mem_of_getElem? hpq)
            · cases hk

/-- every layer returned by `random_layer` is valid -/
theorem randomLayer_valid (n : Nat) (prev : Option Layer) (o o' : Oracle) (l : Layer)
    (h : randomLayer n prev o = .ok (l, o')) : l.isValid = true ∧ l.nQubits = n := by
  unfold randomLayer at h
  split at h
  · cases h
  · split at h
    · cases h
    · split at h
      · cases h
      · split at h
        · cases h
        · split at h
          · cases h
          · rename_i l' hk
            cases h
            unfold mkLayer at hk
            simp only at hk
            split at hk
            · rename_i hv; cases hk; exact ⟨hv, rfl⟩
            · cases hk

/-- consecutive layers of a chain -/
def ChainNonRedundant : Option Layer → List Layer → Prop
  | _, [] => True
  | none, l :: ls => ChainNonRedundant (some l) ls
  | some p, l :: ls => NonRedundant p l ∧ ChainNonRedundant (some l) ls

/-- **chains are redundancy free**: in `random_individual` and in `add_random_layers` (any number of layers) every
generated layer is redundancy free against the layer directly before it — including the first appended layer
against the individual's last layer -/
theorem randomLayers_chain (n : Nat) : ∀ (k : Nat) (prev : Option Layer) (o o' : Oracle) (ls : List Layer),
    randomLayers n k prev o = .ok (ls, o') → ChainNonRedundant prev ls ∧ ∀ l ∈ ls, l.isValid = true ∧ l.nQubits = n
  | 0, prev, o, o', ls, h => by
      simp only [randomLayers] at h; cases h
      exact ⟨by cases prev <;> trivial, fun _ hl => by cases hl⟩
  | k + 1, prev, o, o', ls, h => by
      simp only [randomLayers] at h
      split at h
      · cases h
      · rename_i l o1 hl
        split at h
        · cases h
        · rename_i ls' o2 hrec
          cases h
          obtain ⟨hc, hv⟩ := randomLayers_chain n k (some l) o1 _ ls' hrec
          have hlv := randomLayer_valid n prev o o1 l hl
          refine ⟨?_, ?_⟩
          · cases prev with
            | none => exact hc
            | some p => exact ⟨randomLayer_nonredundant n p o o1 l hl, hc⟩
          · intro l' hl'
            rcases List.mem_cons.mp hl' with rfl | hl'
            · exact hlv
            · exact hv l' hl'

/-- `add_random_layers`: the appended layers form a redundancy-free chain starting at the old last layer -/
theorem add_chain_nonredundant (x y : Indiv) (k : Int) (o : Oracle) (vals : Nat → List Val)
    (h : addRandomLayers x k o vals = .ok y) :
    ∃ ls, y.layers = x.layers ++ ls ∧ ChainNonRedundant x.layers.getLast? ls := by
  unfold addRandomLayers at h
  split at h
  · cases h
  · split at h
    · cases h
    · rename_i ls o' hr
      unfold mkIndiv at h
      simp only at h
      split at h
      · cases h
        exact ⟨ls, rfl, (randomLayers_chain _ _ _ _ _ _ hr).1⟩
      · cases h

/-- `random_individual`: all layers valid, parameter count matches the gates, consecutive layers redundancy free -/
theorem individual_chain_nonredundant (n k : Nat) (o : Oracle) (vals : Nat → List Val) (y : Indiv)
    (h : randomIndividual n k o vals = .ok y) :
    y.isValid = true ∧ y.values.length = totalParams y.layers ∧ ChainNonRedundant none y.layers := by
  unfold randomIndividual at h
  split at h
  · cases h
  · rename_i ls o' hr
    unfold mkIndiv at h
    simp only at h
    split at h
    · rename_i hv
      cases h
      refine ⟨hv, ?_, (randomLayers_chain _ _ _ _ _ _ hr).1⟩
      simp only [Indiv.isValid, Bool.and_eq_true, beq_iff_eq] at hv
      exact hv.2
    · cases h

/-- **a retry is always possible**: for a valid previous layer and two distinct qubits, at most one of the two
orientations of the pair is rejected by the redundancy test, so the `while` loop can always make progress (each
draw is accepted with probability ≥ 1/2; termination for a concrete Mersenne-Twister seed is not a theorem) -/
theorem retry_always_possible (p : Layer) (hv : p.isValid = true) (a b : Nat) (hab : a ≠ b) :
    ¬ ((inPrev (some p) (.crot a b) || inPrev (some p) (.ctrl b a)) = true ∧
       (inPrev (some p) (.crot b a) || inPrev (some p) (.ctrl a b)) = true) := by
  -- in a valid layer a gate sits at the position of its own qubit index
  have hpos : ∀ g ∈ p.gates, p.gates[g.qubit]? = some g ∧ gateOk p.gates g.qubit g = true := by
    intro g hg
    simp only [Layer.isValid, Bool.and_eq_true, beq_iff_eq, List.all_eq_true] at hv
    obtain ⟨i, hi, rfl⟩ := List.getElem_of_mem hg
    have := hv.2 (p.gates[i], i) (by
      rw [List.mem_zipIdx_iff_getElem?]; simp [List.getElem?_eq_getElem hi])
    simp only at this
    have hq : p.gates[i].qubit = i := by
      simp only [gateOk, Bool.and_eq_true, beq_iff_eq] at this; exact this.1
    rw [hq]
    exact ⟨List.getElem?_eq_getElem hi, this⟩
  simp only [inPrev, Bool.or_eq_true, List.contains_eq_mem, decide_eq_true_eq]
  rintro ⟨h1, h2⟩
  -- position a holds crot a b or ctrl a b; position b holds ctrl b a or crot b a
  have ha : p.gates[a]? = some (.crot a b) ∨ p.gates[a]? = some (.ctrl a b) ∨ True := Or.inr (Or.inr trivial)
  rcases h1 with h1 | h1 <;> rcases h2 with h2 | h2
  · -- crot a b at a, crot b a at b: position b should be ctrl b a
    have := (hpos _ h1).2
    have e2 := (hpos _ h2).1
    simp only [gateOk, Gate.qubit, beq_self_eq_true, Bool.true_and] at this e2
    rw [e2] at this
    simp at this
  · -- crot a b at a and ctrl a b at a
    have e1 := (hpos _ h1).1
    have e2 := (hpos _ h2).1
    simp only [Gate.qubit] at e1 e2
    rw [e1] at e2; cases e2
  · -- ctrl b a at b and crot b a at b
    have e1 := (hpos _ h1).1
    have e2 := (hpos _ h2).1
    simp only [Gate.qubit] at e1 e2
    rw [e1] at e2; cases e2
  · -- ctrl b a at b, ctrl a b at a: position a should be crot a b
    have := (hpos _ h1).2
    have e2 := (hpos _ h2).1
    simp only [gateOk, Gate.qubit, beq_self_eq_true, Bool.true_and] at this e2
    rw [e2] at this
    simp at this

/-! ## Non-vacuity -/

/-- 3 qubits, previous layer `[rot, crot 1←2, ctrl]`; coins for qubits 1 and 2 say "controlled"; the sampled pair
(1,2) repeats the previous controlled rotation and is rejected, (2,1) is accepted -/
example : (randomLayer 3 (some ⟨3, [.rot 0, .crot 1 2, .ctrl 2 1]⟩) ⟨[false, false], [(1, 2), (2, 1), (0, 1)]⟩).toOption.map
    (fun r => r.1.gates) = some [.id 0, .ctrl 1 2, .crot 2 1] := by decide +kernel

end QVerif.Genome
