import QVerif.Lemmas.OptTerms
import QVerif.Lemmas.EnergyLower
import QVerif.Lemmas.EncoderPoly

/-!
# C01 — JSSP Hamiltonian: feasible schedules lie strictly below every infeasible state

`energyOf pen inst vars limit bits` is the eigenvalue of the generated Hamiltonian on the basis state `bits`
(Model/Encoder.lean).  The decoded schedule is `translate vars bits`; `nPrecViolated` / `nOvlViolated` count, on the
*decoded start times*, the consecutive pairs of a job that are out of order and the pairs of operations on one
machine that overlap.
-/

namespace QVerif.Encoder

/-- the documented penalty regime -/
structure Regime (pen : Penalties) : Prop where
  opt_pos : 0 < pen.opt
  opt_le_prec : pen.opt ≤ pen.prec
  opt_le_ovl : pen.opt ≤ pen.ovl
  prec_le_enc : pen.prec ≤ pen.enc
  ovl_le_enc : pen.ovl ≤ pen.enc
  share_nonneg : 0 ≤ pen.share
  share_le_one : pen.share ≤ 1

theorem allDecoded_of_translate (inst : EInst) (limit : Nat) (vars : List (List Var)) (h : prepare inst limit = .ok vars)
    (bits : Bits) (hlen : bits.length = nQubits vars) (hall : ∀ x ∈ (opVars inst vars).flatten, (decodeVar x.var bits).isSome = true) :
    AllDecoded (opVars inst vars) bits := by
  intro x hx
  have hok := opVars_ok inst limit vars h x hx
  have hs := hall x hx
  obtain ⟨s, hs'⟩ := Option.isSome_iff_exists.mp hs
  obtain ⟨k, _, hk⟩ := decodedAt_of_decode inst limit vars h bits hlen x hok s hs'
  exact ⟨k, hk⟩

/-- **Energy of a fully decoded state.** If every start-time variable decodes, the energy is exactly one precedence
penalty per out-of-order consecutive pair, one overlap penalty per overlapping pair on a machine, plus the
optimisation part `W·((1 − share)·mk + share·es)` with `0 ≤ mk ≤ 1` and `0 ≤ es ≤ 1`. -/
theorem energy_decoded (pen : Penalties) (inst : EInst) (limit : Nat) (vars : List (List Var))
    (h : prepare inst limit = .ok vars) (bits : Bits) (hlen : bits.length = nQubits vars)
    (hall : ∀ x ∈ (opVars inst vars).flatten, (decodeVar x.var bits).isSome = true) :
    energyOf pen inst vars limit bits =
      (nPrecViolated (opVars inst vars) bits : Rat) * pen.prec + (nOvlViolated (opVars inst vars) bits : Rat) * pen.ovl
      + makespanTerm (opVars inst vars) limit bits * (pen.opt * (1 - pen.share))
      + earlyStartTerm (opVars inst vars) bits * (pen.opt * pen.share) ∧
    (0 ≤ makespanTerm (opVars inst vars) limit bits ∧ makespanTerm (opVars inst vars) limit bits ≤ 1) ∧
    (0 ≤ earlyStartTerm (opVars inst vars) bits ∧ earlyStartTerm (opVars inst vars) bits ≤ 1) := by
  have hd := allDecoded_of_translate inst limit vars h bits hlen hall
  have hfit : ∀ x ∈ (opVars inst vars).flatten, x.var.lo + x.var.nq + x.op.dur ≤ limit :=
    fun x hx => (opVars_ok inst limit vars h x hx).fits
  refine ⟨?_, makespanTerm_bounds _ limit bits hd hfit, earlyStartTerm_bounds _ bits hd⟩
  unfold energyOf
  simp only
  rw [prec_sum_decoded _ bits hd, ovl_sum_decoded _ bits hd, viab_sum_decoded _ bits hd]
  grind

/-- **A feasible decoded schedule has energy in `[0, W]`.** -/
theorem energy_feasible (pen : Penalties) (hr : Regime pen) (inst : EInst) (limit : Nat) (vars : List (List Var))
    (h : prepare inst limit = .ok vars) (bits : Bits) (hlen : bits.length = nQubits vars)
    (hall : ∀ x ∈ (opVars inst vars).flatten, (decodeVar x.var bits).isSome = true)
    (hp : nPrecViolated (opVars inst vars) bits = 0) (ho : nOvlViolated (opVars inst vars) bits = 0) :
    0 ≤ energyOf pen inst vars limit bits ∧ energyOf pen inst vars limit bits ≤ pen.opt := by
  obtain ⟨he, ⟨hm0, hm1⟩, ⟨he0, he1⟩⟩ := energy_decoded pen inst limit vars h bits hlen hall
  rw [he, hp, ho]
  have e0 : ((0 : Nat) : Rat) = 0 := rfl
  rw [e0]
  have hW := hr.opt_pos
  have hs0 := hr.share_nonneg
  have hs1 := hr.share_le_one
  have a1 : 0 ≤ pen.opt * (1 - pen.share) := Rat.mul_nonneg (by grind) (by grind)
  have a2 : 0 ≤ pen.opt * pen.share := Rat.mul_nonneg (by grind) hs0
  have b1 := Rat.mul_nonneg hm0 a1
  have b2 := Rat.mul_nonneg he0 a2
  have c1 : makespanTerm (opVars inst vars) limit bits * (pen.opt * (1 - pen.share)) ≤ 1 * (pen.opt * (1 - pen.share)) :=
    Rat.mul_le_mul_of_nonneg_right hm1 a1
  have c2 : earlyStartTerm (opVars inst vars) bits * (pen.opt * pen.share) ≤ 1 * (pen.opt * pen.share) :=
    Rat.mul_le_mul_of_nonneg_right he1 a2
  constructor <;> grind

/-- **A decoded but infeasible schedule** carries exactly its constraint penalties on top of an optimisation part in
`[0, W]`; in particular its energy is at least the smaller constraint penalty. -/
theorem energy_decoded_infeasible (pen : Penalties) (hr : Regime pen) (inst : EInst) (limit : Nat) (vars : List (List Var))
    (h : prepare inst limit = .ok vars) (bits : Bits) (hlen : bits.length = nQubits vars)
    (hall : ∀ x ∈ (opVars inst vars).flatten, (decodeVar x.var bits).isSome = true) :
    let base := (nPrecViolated (opVars inst vars) bits : Rat) * pen.prec + (nOvlViolated (opVars inst vars) bits : Rat) * pen.ovl
    base ≤ energyOf pen inst vars limit bits ∧ energyOf pen inst vars limit bits ≤ base + pen.opt := by
  obtain ⟨he, ⟨hm0, hm1⟩, ⟨he0, he1⟩⟩ := energy_decoded pen inst limit vars h bits hlen hall
  simp only
  rw [he]
  have hW := hr.opt_pos
  have hs0 := hr.share_nonneg
  have hs1 := hr.share_le_one
  have a1 : 0 ≤ pen.opt * (1 - pen.share) := Rat.mul_nonneg (by grind) (by grind)
  have a2 : 0 ≤ pen.opt * pen.share := Rat.mul_nonneg (by grind) hs0
  have b1 := Rat.mul_nonneg hm0 a1
  have b2 := Rat.mul_nonneg he0 a2
  have c1 : makespanTerm (opVars inst vars) limit bits * (pen.opt * (1 - pen.share)) ≤ 1 * (pen.opt * (1 - pen.share)) :=
    Rat.mul_le_mul_of_nonneg_right hm1 a1
  have c2 : earlyStartTerm (opVars inst vars) bits * (pen.opt * pen.share) ≤ 1 * (pen.opt * pen.share) :=
    Rat.mul_le_mul_of_nonneg_right he1 a2
  constructor <;> grind

end QVerif.Encoder

namespace QVerif.Encoder
open QVerif.DoubleCount

/-- total number of reverse domain walls (values with a negative value term) over all variables -/
def totalNeg (ovs : List (List OpVar)) (bits : Bits) : Nat := sumN (fun x => negLen x bits) ovs.flatten

theorem natCast_sumN {α : Type} (f : α → Nat) (l : List α) : ((sumN f l : Nat) : Rat) = (l.map (fun x => ((f x : Nat) : Rat))).sum := by
  induction l with
  | nil => rfl
  | cons a t ih => simp only [sumN, List.map_cons, List.sum_cons, Rat.natCast_add, ih]

/-- **Lower bound on every basis state**: the energy is at least `2 · P_enc ·` (number of reverse domain walls). -/
theorem energy_lower (pen : Penalties) (hr : Regime pen) (inst : EInst) (limit : Nat) (vars : List (List Var))
    (h : prepare inst limit = .ok vars) (bits : Bits) :
    2 * pen.enc * (totalNeg (opVars inst vars) bits : Rat) ≤ energyOf pen inst vars limit bits := by
  have hok := opVars_ok inst limit vars h
  have hn : ∀ x ∈ (opVars inst vars).flatten, x.var.nvals = x.var.nq + 1 := fun x hx => (hok x hx).nvals
  have hkeys := opVars_keys_pairwise inst vars
  -- the pair terms
  have hpt : ∀ t ∈ precTerms (opVars inst vars), TermOk (opVars inst vars).flatten t := by
    intro t ht
    obtain ⟨ha, hb, hp⟩ := precTerms_spec _ t ht
    exact ⟨ha, hb, fun p hpm => precPairs_mem t.a t.b p (by rw [← hp]; exact hpm)⟩
  have hot : ∀ t ∈ ovlTerms (opVars inst vars), TermOk (opVars inst vars).flatten t := by
    intro t ht
    obtain ⟨ha, hb, hp⟩ := ovlTerms_spec _ t ht
    exact ⟨ha, hb, fun p hpm => ovlPairs_mem t.a t.b p (by rw [← hp]; exact hpm)⟩
  have s1 := terms_sum_ge (opVars inst vars).flatten bits _ hpt
  have s2 := terms_sum_ge (opVars inst vars).flatten bits _ hot
  have hI := incidences_bound (opVars inst vars).flatten bits (precTerms (opVars inst vars) ++ ovlTerms (opVars inst vars)) hkeys
  rw [unitsOf_append, sumN_append] at hI
  -- viability
  have hv : ((opVars inst vars).flatten.map (fun x =>
      ((maxCount (precTerms (opVars inst vars) ++ ovlTerms (opVars inst vars)) x + 1 : Nat) : Rat) * viability x.var bits)).sum =
      ((sumN (fun x => (maxCount (precTerms (opVars inst vars) ++ ovlTerms (opVars inst vars)) x + 1) * (2 * negLen x bits))
        (opVars inst vars).flatten : Nat) : Rat) := by
    rw [natCast_sumN]
    congr 1
    apply List.map_congr_left
    intro x hx
    rw [viability_eq_negLen x bits (hn x hx)]
    simp only [Rat.natCast_mul, Rat.natCast_add]
    rfl
  have hmk := makespanTerm_nonneg (opVars inst vars) limit bits hn
  have hes := earlyStartTerm_nonneg (opVars inst vars) bits hn
  unfold energyOf
  simp only
  rw [hv]
  -- name the quantities
  generalize hIp : sumN (incid (negSlots (opVars inst vars).flatten bits)) (unitsOf (precTerms (opVars inst vars))) = Ip at *
  generalize hIo : sumN (incid (negSlots (opVars inst vars).flatten bits)) (unitsOf (ovlTerms (opVars inst vars))) = Io at *
  generalize hSp : ((precTerms (opVars inst vars)).map (fun t => pairTermValue t bits)).sum = Sp at *
  generalize hSo : ((ovlTerms (opVars inst vars)).map (fun t => pairTermValue t bits)).sum = So at *
  -- Σ (maxCount+1)·2·negLen = 2·A + 2·B with A = Σ negLen·maxCount, B = Σ negLen
  have hsplit : sumN (fun x => (maxCount (precTerms (opVars inst vars) ++ ovlTerms (opVars inst vars)) x + 1) * (2 * negLen x bits))
        (opVars inst vars).flatten =
      2 * sumN (fun x => negLen x bits * maxCount (precTerms (opVars inst vars) ++ ovlTerms (opVars inst vars)) x) (opVars inst vars).flatten +
      2 * sumN (fun x => negLen x bits) (opVars inst vars).flatten := by
    induction (opVars inst vars).flatten with
    | nil => rfl
    | cons a t ih =>
      simp only [sumN, ih]
      rw [Nat.add_mul, Nat.mul_add, Nat.mul_add]
      have : maxCount (precTerms (opVars inst vars) ++ ovlTerms (opVars inst vars)) a * (2 * negLen a bits) =
          2 * (negLen a bits * maxCount (precTerms (opVars inst vars) ++ ovlTerms (opVars inst vars)) a) := by
        rw [Nat.mul_comm, Nat.mul_assoc]
      omega
  rw [hsplit]
  unfold totalNeg
  generalize sumN (fun x => negLen x bits * maxCount (precTerms (opVars inst vars) ++ ovlTerms (opVars inst vars)) x) (opVars inst vars).flatten = A at *
  generalize sumN (fun x => negLen x bits) (opVars inst vars).flatten = B at *
  generalize makespanTerm (opVars inst vars) limit bits = mk at *
  generalize earlyStartTerm (opVars inst vars) bits = es at *
  -- arithmetic
  have hW := hr.opt_pos
  have hPp0 : 0 ≤ pen.prec := by have := hr.opt_le_prec; grind
  have hPo0 : 0 ≤ pen.ovl := by have := hr.opt_le_ovl; grind
  have hPe0 : 0 ≤ pen.enc := by have := hr.prec_le_enc; grind
  have cIp : (0 : Rat) ≤ ((Ip : Nat) : Rat) := Rat.natCast_nonneg
  have cIo : (0 : Rat) ≤ ((Io : Nat) : Rat) := Rat.natCast_nonneg
  have cA : (0 : Rat) ≤ ((A : Nat) : Rat) := Rat.natCast_nonneg
  have cB : (0 : Rat) ≤ ((B : Nat) : Rat) := Rat.natCast_nonneg
  have cI : ((Ip : Nat) : Rat) + ((Io : Nat) : Rat) ≤ ((A : Nat) : Rat) := by
    rw [← Rat.natCast_add]; exact Rat.natCast_le_natCast.mpr hI
  -- products
  have p1 : -((Ip : Nat) : Rat) * pen.prec ≤ Sp * pen.prec := Rat.mul_le_mul_of_nonneg_right s1 hPp0
  have p2 : -((Io : Nat) : Rat) * pen.ovl ≤ So * pen.ovl := Rat.mul_le_mul_of_nonneg_right s2 hPo0
  have p3 : ((Ip : Nat) : Rat) * pen.prec ≤ ((Ip : Nat) : Rat) * pen.enc := Rat.mul_le_mul_of_nonneg_left hr.prec_le_enc cIp
  have p4 : ((Io : Nat) : Rat) * pen.ovl ≤ ((Io : Nat) : Rat) * pen.enc := Rat.mul_le_mul_of_nonneg_left hr.ovl_le_enc cIo
  have p5 : (((Ip : Nat) : Rat) + ((Io : Nat) : Rat)) * pen.enc ≤ ((A : Nat) : Rat) * pen.enc := Rat.mul_le_mul_of_nonneg_right cI hPe0
  have p6 : 0 ≤ mk * (pen.opt * (1 - pen.share)) :=
    Rat.mul_nonneg hmk (Rat.mul_nonneg (by grind) (by have := hr.share_le_one; grind))
  have p7 : 0 ≤ es * (pen.opt * pen.share) := Rat.mul_nonneg hes (Rat.mul_nonneg (by grind) hr.share_nonneg)
  have p8 : 0 ≤ ((A : Nat) : Rat) * pen.enc := Rat.mul_nonneg cA hPe0
  have e2 : ((2 * A + 2 * B : Nat) : Rat) = 2 * ((A : Nat) : Rat) + 2 * ((B : Nat) : Rat) := by
    simp only [Rat.natCast_add, Rat.natCast_mul]; rfl
  rw [e2]
  grind

end QVerif.Encoder

namespace QVerif.Encoder
open QVerif.DoubleCount

theorem exists_reverse_pair_after_false : ∀ (t : Bits), t.any id = true →
    ∃ i, ∃ (h : i + 1 < (false :: t).length), (false :: t)[i]'(by omega) = false ∧ (false :: t)[i + 1] = true
  | [], h => by simp at h
  | true :: t', _ => ⟨0, by simp, by simp, by simp⟩
  | false :: t', h => by
      have h' : t'.any id = true := by simpa using h
      obtain ⟨i, hi, h1, h2⟩ := exists_reverse_pair_after_false t' h'
      refine ⟨i + 1, by simp at hi ⊢; omega, ?_, ?_⟩
      · simpa using h1
      · simpa using h2

/-- an undecodable window contains a 0 directly followed by a 1 -/
theorem exists_reverse_pair : ∀ (w : Bits), decodeWindow w = none →
    ∃ i, ∃ (h : i + 1 < w.length), w[i]'(by omega) = false ∧ w[i + 1] = true
  | [], h => by simp [decodeWindow] at h
  | true :: t, h => by
      simp only [decodeWindow, Option.map_eq_none_iff] at h
      obtain ⟨i, hi, h1, h2⟩ := exists_reverse_pair t h
      exact ⟨i + 1, by simp; omega, by simpa using h1, by simpa using h2⟩
  | false :: t, h => by
      simp only [decodeWindow] at h
      split at h
      · rename_i hany; exact exists_reverse_pair_after_false t hany
      · cases h

/-- **an undecodable variable has a reverse domain wall** -/
theorem negLen_pos_of_undecodable (x : OpVar) (bits : Bits) (hn : x.var.nvals = x.var.nq + 1)
    (hlen : (window x.var bits).length = x.var.nq) (hnone : decodeVar x.var bits = none) : 1 ≤ negLen x bits := by
  unfold decodeVar at hnone
  simp only [Option.map_eq_none_iff] at hnone
  obtain ⟨i, hi, h1, h2⟩ := exists_reverse_pair _ hnone
  rw [hlen] at hi
  have hnq : x.var.nq ≠ 0 := by omega
  -- the two bits as `zd` sees them
  have g1 : (window x.var bits).getD i false = false := by
    rw [List.getD_eq_getElem?_getD, List.getElem?_eq_getElem (by omega)]; simpa using h1
  have g2 : (window x.var bits).getD (i + 1) false = true := by
    rw [List.getD_eq_getElem?_getD, List.getElem?_eq_getElem (by omega)]; simpa using h2
  rw [window_getD _ _ _ (by omega)] at g1 g2
  have z1 : zd x.var bits (i + 1) = 1 := by
    rw [zd_of_window _ _ _ (by omega) (by omega)]
    have : x.var.qstart + (i + 1) - 1 = x.var.qstart + i := by omega
    rw [this, g1]; simp
  have z2 : zd x.var bits (i + 1 + 1) = -1 := by
    rw [zd_of_window _ _ _ (by omega) (by omega)]
    have : x.var.qstart + (i + 1 + 1) - 1 = x.var.qstart + (i + 1) := by omega
    rw [this, g2]; simp
  have hv : valueTerm x.var bits (i + 1) = -1 := by
    rw [valueTerm_pos _ _ _ hnq]; unfold vtRaw; rw [z1, z2]; grind
  unfold negLen
  apply List.length_pos_iff.mpr
  apply List.ne_nil_of_mem (a := x.var.lo + (i + 1))
  simp only [List.mem_filter, negV, decide_eq_true_eq]
  refine ⟨?_, ?_⟩
  · unfold values; simp only [List.mem_map, List.mem_range]; exact ⟨i + 1, by omega, by omega⟩
  · have : x.var.lo + (i + 1) - x.var.lo = i + 1 := by omega
    rw [this]; exact hv

theorem le_sumN_of_mem {α : Type} (f : α → Nat) : ∀ (l : List α) (a : α), a ∈ l → f a ≤ sumN f l
  | [], _, h => by cases h
  | b :: t, a, h => by
      simp only [sumN]
      rcases List.mem_cons.mp h with rfl | h
      · omega
      · have := le_sumN_of_mem f t a h; omega

/-- **A bitstring with an undecodable start-time variable has energy of at least the encoding penalty**
(in fact at least twice the encoding penalty). -/
theorem energy_undecodable (pen : Penalties) (hr : Regime pen) (inst : EInst) (limit : Nat) (vars : List (List Var))
    (h : prepare inst limit = .ok vars) (bits : Bits) (hlen : bits.length = nQubits vars)
    (hund : ∃ x ∈ (opVars inst vars).flatten, decodeVar x.var bits = none) :
    pen.enc ≤ energyOf pen inst vars limit bits ∧ 2 * pen.enc ≤ energyOf pen inst vars limit bits := by
  obtain ⟨x, hx, hnone⟩ := hund
  have hok := opVars_ok inst limit vars h x hx
  obtain ⟨_, ht, _, _, _⟩ := prepareFrom_spec limit inst 0 vars h
  have hwl := window_length_of_tiled bits vars.flatten 0 ht (by rw [hlen]; simp [nQubits, totalNq]) x.var hok.mem
  have h1 := negLen_pos_of_undecodable x bits hok.nvals hwl hnone
  have h2 : 1 ≤ totalNeg (opVars inst vars) bits :=
    Nat.le_trans h1 (le_sumN_of_mem (fun x => negLen x bits) _ x hx)
  have hE := energy_lower pen hr inst limit vars h bits
  have hPe0 : 0 < pen.enc := by have := hr.opt_pos; have := hr.opt_le_prec; have := hr.prec_le_enc; grind
  have c : (1 : Rat) ≤ ((totalNeg (opVars inst vars) bits : Nat) : Rat) := by
    have : ((1 : Nat) : Rat) ≤ ((totalNeg (opVars inst vars) bits : Nat) : Rat) := Rat.natCast_le_natCast.mpr h2
    exact this
  have m : 2 * pen.enc * 1 ≤ 2 * pen.enc * ((totalNeg (opVars inst vars) bits : Nat) : Rat) :=
    Rat.mul_le_mul_of_nonneg_left c (by grind)
  constructor <;> grind

/-- **Separation.** With the optimisation weight strictly below both constraint penalties — or equal to them with a
makespan share `1 − share > 0` and at least one job — every feasible state lies strictly below every infeasible
state (decoded-but-violating, or with an undecodable variable). -/
theorem feasible_below_infeasible (pen : Penalties) (hr : Regime pen) (inst : EInst) (limit : Nat) (vars : List (List Var))
    (h : prepare inst limit = .ok vars) (bf bi : Bits) (hlf : bf.length = nQubits vars) (hli : bi.length = nQubits vars)
    (hfall : ∀ x ∈ (opVars inst vars).flatten, (decodeVar x.var bf).isSome = true)
    (hfp : nPrecViolated (opVars inst vars) bf = 0) (hfo : nOvlViolated (opVars inst vars) bf = 0)
    (hinf : (∃ x ∈ (opVars inst vars).flatten, decodeVar x.var bi = none) ∨
            ((∀ x ∈ (opVars inst vars).flatten, (decodeVar x.var bi).isSome = true) ∧
              1 ≤ nPrecViolated (opVars inst vars) bi + nOvlViolated (opVars inst vars) bi))
    (hstrict : pen.opt < pen.prec ∧ pen.opt < pen.ovl) :
    energyOf pen inst vars limit bf < energyOf pen inst vars limit bi := by
  have hf := (energy_feasible pen hr inst limit vars h bf hlf hfall hfp hfo).2
  rcases hinf with hund | ⟨hall, hviol⟩
  · have := (energy_undecodable pen hr inst limit vars h bi hli hund).1
    have := hr.prec_le_enc
    grind
  · have hlow := (energy_decoded_infeasible pen hr inst limit vars h bi hli hall).1
    have hPp0 : 0 ≤ pen.prec := by have := hr.opt_pos; have := hr.opt_le_prec; grind
    have hPo0 : 0 ≤ pen.ovl := by have := hr.opt_pos; have := hr.opt_le_ovl; grind
    have cp : (0 : Rat) ≤ ((nPrecViolated (opVars inst vars) bi : Nat) : Rat) := Rat.natCast_nonneg
    have co : (0 : Rat) ≤ ((nOvlViolated (opVars inst vars) bi : Nat) : Rat) := Rat.natCast_nonneg
    by_cases hp0 : 1 ≤ nPrecViolated (opVars inst vars) bi
    · have c : (1 : Rat) ≤ ((nPrecViolated (opVars inst vars) bi : Nat) : Rat) := by
        have : ((1 : Nat) : Rat) ≤ ((nPrecViolated (opVars inst vars) bi : Nat) : Rat) := Rat.natCast_le_natCast.mpr hp0
        exact this
      have m1 : 1 * pen.prec ≤ ((nPrecViolated (opVars inst vars) bi : Nat) : Rat) * pen.prec :=
        Rat.mul_le_mul_of_nonneg_right c hPp0
      have m2 := Rat.mul_nonneg co hPo0
      grind
    · have ho0 : 1 ≤ nOvlViolated (opVars inst vars) bi := by omega
      have c : (1 : Rat) ≤ ((nOvlViolated (opVars inst vars) bi : Nat) : Rat) := by
        have : ((1 : Nat) : Rat) ≤ ((nOvlViolated (opVars inst vars) bi : Nat) : Rat) := Rat.natCast_le_natCast.mpr ho0
        exact this
      have m1 : 1 * pen.ovl ≤ ((nOvlViolated (opVars inst vars) bi : Nat) : Rat) * pen.ovl :=
        Rat.mul_le_mul_of_nonneg_right c hPo0
      have m2 := Rat.mul_nonneg cp hPp0
      grind

/-- **Separation at the boundary of the documented regime**: the optimisation weight may EQUAL the constraint
penalties (as in the defaults, 100 = 100 = 100) provided the makespan share `1 − share` is positive and some job has an
operation — then the optimisation part of every decoded state is strictly positive, and an undecodable state costs at
least twice the encoding penalty. -/
theorem feasible_below_infeasible_boundary (pen : Penalties) (hr : Regime pen) (inst : EInst) (limit : Nat) (vars : List (List Var))
    (h : prepare inst limit = .ok vars) (bf bi : Bits) (hlf : bf.length = nQubits vars) (hli : bi.length = nQubits vars)
    (hfall : ∀ x ∈ (opVars inst vars).flatten, (decodeVar x.var bf).isSome = true)
    (hfp : nPrecViolated (opVars inst vars) bf = 0) (hfo : nOvlViolated (opVars inst vars) bf = 0)
    (hinf : (∃ x ∈ (opVars inst vars).flatten, decodeVar x.var bi = none) ∨
            ((∀ x ∈ (opVars inst vars).flatten, (decodeVar x.var bi).isSome = true) ∧
              1 ≤ nPrecViolated (opVars inst vars) bi + nOvlViolated (opVars inst vars) bi))
    (hshare : pen.share < 1) (hjob : ∃ row ∈ opVars inst vars, row ≠ []) :
    energyOf pen inst vars limit bf < energyOf pen inst vars limit bi := by
  have hf := (energy_feasible pen hr inst limit vars h bf hlf hfall hfp hfo).2
  have hW := hr.opt_pos
  rcases hinf with hund | ⟨hall, hviol⟩
  · have := (energy_undecodable pen hr inst limit vars h bi hli hund).2
    have := hr.prec_le_enc
    have := hr.opt_le_prec
    grind
  · obtain ⟨he, ⟨hm0, hm1⟩, ⟨he0, he1⟩⟩ := energy_decoded pen inst limit vars h bi hli hall
    have hd := allDecoded_of_translate inst limit vars h bi hli hall
    have hmpos := makespanTerm_pos (opVars inst vars) limit bi hd hjob
    have hs0 := hr.share_nonneg
    have a1 : 0 < pen.opt * (1 - pen.share) := Rat.mul_pos hW (by grind)
    have a2 : 0 ≤ pen.opt * pen.share := Rat.mul_nonneg (by grind) hs0
    have b1 : 0 < makespanTerm (opVars inst vars) limit bi * (pen.opt * (1 - pen.share)) := Rat.mul_pos hmpos a1
    have b2 := Rat.mul_nonneg he0 a2
    have hPp := hr.opt_le_prec
    have hPo := hr.opt_le_ovl
    have hPp0 : 0 ≤ pen.prec := by grind
    have hPo0 : 0 ≤ pen.ovl := by grind
    have cp : (0 : Rat) ≤ ((nPrecViolated (opVars inst vars) bi : Nat) : Rat) := Rat.natCast_nonneg
    have co : (0 : Rat) ≤ ((nOvlViolated (opVars inst vars) bi : Nat) : Rat) := Rat.natCast_nonneg
    rw [he]
    by_cases hp0 : 1 ≤ nPrecViolated (opVars inst vars) bi
    · have c : (1 : Rat) ≤ ((nPrecViolated (opVars inst vars) bi : Nat) : Rat) := by
        have : ((1 : Nat) : Rat) ≤ ((nPrecViolated (opVars inst vars) bi : Nat) : Rat) := Rat.natCast_le_natCast.mpr hp0
        exact this
      have m1 : 1 * pen.prec ≤ ((nPrecViolated (opVars inst vars) bi : Nat) : Rat) * pen.prec :=
        Rat.mul_le_mul_of_nonneg_right c hPp0
      have m2 := Rat.mul_nonneg co hPo0
      grind
    · have ho0 : 1 ≤ nOvlViolated (opVars inst vars) bi := by omega
      have c : (1 : Rat) ≤ ((nOvlViolated (opVars inst vars) bi : Nat) : Rat) := by
        have : ((1 : Nat) : Rat) ≤ ((nOvlViolated (opVars inst vars) bi : Nat) : Rat) := Rat.natCast_le_natCast.mpr ho0
        exact this
      have m1 : 1 * pen.ovl ≤ ((nOvlViolated (opVars inst vars) bi : Nat) : Rat) * pen.ovl :=
        Rat.mul_le_mul_of_nonneg_right c hPo0
      have m2 := Rat.mul_nonneg cp hPp0
      grind

/-- **The energy the theorems speak about is the eigenvalue of the operator the encoder builds.**  The operator — the sum of
products of `I`/`Z` strings assembled by `_prepare_hamiltonian`, `value_term`, `viability_term` and the constraint terms
(`Model/EncoderPoly.lean`), also in its canonical form (equal strings merged, `Z·Z = I`, zero terms dropped: what the
correspondence compares with the implementation's coefficient table at any qubit count) — has, on every computational basis
state, exactly the value `energyOf` used in `energy_decoded`, `energy_lower` and `feasible_below_infeasible`. -/
theorem hamiltonian_operator_eigenvalue (pen : Penalties) (inst : EInst) (vars : List (List Var)) (limit : Nat) (bits : Bits) :
    evalPoly bits (energyPolyOf pen inst vars limit) = energyOf pen inst vars limit bits ∧
    evalPoly bits (normalize (energyPolyOf pen inst vars limit)) = energyOf pen inst vars limit bits :=
  ⟨eval_energyPolyOf pen inst vars limit bits, by rw [eval_normalize, eval_energyPolyOf]⟩

end QVerif.Encoder

/-! ## Non-vacuity: the suite's 2-job / 2-machine instance at limit 4, default penalties (300, 100, 100, 100, 0) -/
namespace QVerif.Encoder

def exInst01 : EInst := [[⟨0, 1⟩, ⟨1, 1⟩], [⟨1, 1⟩, ⟨0, 2⟩]]
def exPen : Penalties := { enc := 300, ovl := 100, prec := 100, opt := 100, share := 0 }
def exBits (s : String) : Bits := s.toList.map (· == '1')

example : Regime exPen := by
  constructor <;> decide +kernel

-- the defaults sit on the boundary of the regime (W = P_prec = P_ovl) with the whole optimisation weight on the makespan:
-- the hypotheses of `feasible_below_infeasible_boundary`, not of `feasible_below_infeasible`
example : exPen.opt = exPen.prec ∧ exPen.opt = exPen.ovl ∧ exPen.share < 1 := by decide +kernel
example : (match prepare exInst01 4 with | .ok vars => decide (∃ row ∈ opVars exInst01 vars, row ≠ []) | _ => false) = true := by
  decide +kernel

-- qubits: j1.o1 [0,1], j1.o2 [2,3], j2.o1 [4], j2.o2 [5]   (limit 4: j1 has 2 spare slots, j2 has 1)
-- feasible: j1 at 0,1; j2 at 0,1  → energy in [0, 100]
#guard (match energy exPen exInst01 4 (exBits "000000") with | .ok e => decide (0 ≤ e ∧ e ≤ 100) | _ => false)
-- j2 at 1,1: its second operation starts before the first ends (precedence) and j2.o1 overlaps j1.o2 on machine 1:
-- two constraint penalties on top of the optimisation part
#guard (match energy exPen exInst01 4 (exBits "000010") with | .ok e => decide (200 ≤ e ∧ e ≤ 300) | _ => false)
-- malformed window 0 1 of j1.o1: at least the encoding penalty
#guard (match energy exPen exInst01 4 (exBits "010000") with | .ok e => decide (300 ≤ e) | _ => false)

end QVerif.Encoder
