import QVerif.Props.C01

/-!
# C02 — shorter makespan means lower energy; the ground state is optimal

Pure makespan objective (`share = 0`).  `lastEnds` are the end times of the last operation of every job of the
decoded schedule; the makespan of a feasible schedule is their maximum.
-/

namespace QVerif.Encoder

/-- end times of the jobs' last operations in the decoded schedule -/
def lastEnds (ovs : List (List OpVar)) (bits : Bits) : List Nat :=
  ovs.filterMap (fun row => row.getLast?.map (fun x => startOf x bits + x.op.dur))

/-- makespan of the decoded schedule: the latest end of a job's last operation -/
def makespanOf (ovs : List (List OpVar)) (bits : Bits) : Nat := (lastEnds ovs bits).foldl max 0

theorem endSum_eq (ovs : List (List OpVar)) (bits : Bits) :
    endSum ovs bits = ((lastEnds ovs bits).map (fun e => (ovs.length + 1) ^ e)).sum := by
  unfold endSum lastEnds
  generalize ovs.length = n
  induction ovs with
  | nil => rfl
  | cons r t ih =>
    simp only [List.map_cons, List.sum_cons, List.filterMap_cons]
    cases r.getLast? with
    | none => simp only [Option.map_none]; rw [ih]; omega
    | some x => simp only [Option.map_some, List.map_cons, List.sum_cons, ih]

theorem lastEnds_length_le (ovs : List (List OpVar)) (bits : Bits) : (lastEnds ovs bits).length ≤ ovs.length := by
  unfold lastEnds; exact List.length_filterMap_le _ _

theorem foldl_max_spec (l : List Nat) (init : Nat) :
    (∀ x ∈ l, x ≤ l.foldl max init) ∧ init ≤ l.foldl max init ∧ (l.foldl max init = init ∨ l.foldl max init ∈ l) := by
  induction l generalizing init with
  | nil => simp
  | cons a t ih =>
    simp only [List.foldl_cons, List.mem_cons, forall_eq_or_imp]
    obtain ⟨h1, h2, h3⟩ := ih (max init a)
    refine ⟨⟨by omega, h1⟩, by omega, ?_⟩
    rcases h3 with h | h
    · rw [h]
      by_cases hia : init ≤ a
      · right; left; omega
      · left; omega
    · right; right; exact h

/-- a sum of powers with all exponents ≤ m and at most n terms is below (n+1)^(m+1) -/
theorem pow_sum_lt (n m : Nat) (hn : 1 ≤ n) : ∀ (es : List Nat), es.length ≤ n → (∀ e ∈ es, e ≤ m) →
    (es.map (fun e => (n + 1) ^ e)).sum < (n + 1) ^ (m + 1) := by
  intro es hlen hle
  have h1 : (es.map (fun e => (n + 1) ^ e)).sum ≤ es.length * (n + 1) ^ m := by
    clear hlen
    induction es with
    | nil => simp
    | cons a t ih =>
      simp only [List.map_cons, List.sum_cons, List.length_cons]
      have := ih (fun e he => hle e (List.mem_cons_of_mem _ he))
      have : (n + 1) ^ a ≤ (n + 1) ^ m := Nat.pow_le_pow_right (by omega) (hle a (by simp))
      rw [Nat.add_mul]; omega
  have h2 : es.length * (n + 1) ^ m ≤ n * (n + 1) ^ m := Nat.mul_le_mul_right _ hlen
  have h3 : n * (n + 1) ^ m < (n + 1) ^ (m + 1) := by
    rw [Nat.pow_succ, Nat.mul_comm ((n + 1) ^ m) (n + 1)]
    have : 0 < (n + 1) ^ m := Nat.pow_pos (by omega)
    exact Nat.mul_lt_mul_of_pos_right (by omega) this
  omega

theorem le_sum_of_mem (f : Nat → Nat) : ∀ (l : List Nat) (a : Nat), a ∈ l → f a ≤ (l.map f).sum
  | [], _, h => by cases h
  | b :: t, a, h => by
      simp only [List.map_cons, List.sum_cons]
      rcases List.mem_cons.mp h with rfl | h
      · omega
      · have := le_sum_of_mem f t a h; omega

/-- **the sum of job-end powers orders schedules by makespan** -/
theorem endSum_lt_of_makespan_lt (ovs : List (List OpVar)) (ba bb : Bits) (hn : 1 ≤ ovs.length)
    (hlt : makespanOf ovs ba < makespanOf ovs bb) : endSum ovs ba < endSum ovs bb := by
  rw [endSum_eq, endSum_eq]
  unfold makespanOf at hlt
  obtain ⟨ha1, _, _⟩ := foldl_max_spec (lastEnds ovs ba) 0
  obtain ⟨_, _, hb3⟩ := foldl_max_spec (lastEnds ovs bb) 0
  have h1 := pow_sum_lt ovs.length ((lastEnds ovs ba).foldl max 0) hn (lastEnds ovs ba) (lastEnds_length_le ovs ba) ha1
  rcases hb3 with h | h
  · omega
  · have h2 := le_sum_of_mem (fun e => (ovs.length + 1) ^ e) (lastEnds ovs bb) _ h
    have h3 : (ovs.length + 1) ^ ((lastEnds ovs ba).foldl max 0 + 1) ≤ (ovs.length + 1) ^ ((lastEnds ovs bb).foldl max 0) :=
      Nat.pow_le_pow_right (by omega) (by omega)
    omega

/-- a decoded feasible state: every variable decodes and no constraint is violated -/
structure FeasibleAt (inst : EInst) (vars : List (List Var)) (bits : Bits) : Prop where
  len : bits.length = nQubits vars
  dec : ∀ x ∈ (opVars inst vars).flatten, (decodeVar x.var bits).isSome = true
  noPrec : nPrecViolated (opVars inst vars) bits = 0
  noOvl : nOvlViolated (opVars inst vars) bits = 0

/-- energy of a feasible state under the pure makespan objective -/
theorem energy_feasible_makespan (pen : Penalties) (hs : pen.share = 0) (inst : EInst) (limit : Nat) (vars : List (List Var))
    (h : prepare inst limit = .ok vars) (bits : Bits) (hf : FeasibleAt inst vars bits) :
    energyOf pen inst vars limit bits =
      pen.opt * ((1 / ((maxOptNat (opVars inst vars) limit : Nat) : Rat)) * ((endSum (opVars inst vars) bits : Nat) : Rat)) := by
  obtain ⟨he, _, _⟩ := energy_decoded pen inst limit vars h bits hf.len hf.dec
  have hd := allDecoded_of_translate inst limit vars h bits hf.len hf.dec
  rw [he, hf.noPrec, hf.noOvl, hs, makespanTerm_decoded _ limit bits hd]
  have e0 : ((0 : Nat) : Rat) = 0 := rfl
  rw [e0]
  grind

/-- **Shorter makespan means strictly lower energy** (pure makespan objective, at least one job). -/
theorem makespan_orders_energy (pen : Penalties) (hr : Regime pen) (hs : pen.share = 0) (inst : EInst) (limit : Nat)
    (vars : List (List Var)) (h : prepare inst limit = .ok vars) (ba bb : Bits)
    (hfa : FeasibleAt inst vars ba) (hfb : FeasibleAt inst vars bb) (hn : 1 ≤ (opVars inst vars).length)
    (hlt : makespanOf (opVars inst vars) ba < makespanOf (opVars inst vars) bb) :
    energyOf pen inst vars limit ba < energyOf pen inst vars limit bb := by
  rw [energy_feasible_makespan pen hs inst limit vars h ba hfa, energy_feasible_makespan pen hs inst limit vars h bb hfb]
  have hlt' := endSum_lt_of_makespan_lt (opVars inst vars) ba bb hn hlt
  have c : ((endSum (opVars inst vars) ba : Nat) : Rat) < ((endSum (opVars inst vars) bb : Nat) : Rat) :=
    Rat.natCast_lt_natCast.mpr hlt'
  have hM : 0 < maxOptNat (opVars inst vars) limit := by
    unfold maxOptNat
    exact Nat.mul_pos (by omega) (Nat.pow_pos (by omega))
  have hMr : (0 : Rat) < ((maxOptNat (opVars inst vars) limit : Nat) : Rat) := Rat.natCast_pos.mpr hM
  have hinv : (0 : Rat) < 1 / ((maxOptNat (opVars inst vars) limit : Nat) : Rat) := by
    rw [Rat.div_def, Rat.one_mul]; exact Rat.inv_pos.mpr hMr
  have m1 := Rat.mul_lt_mul_of_pos_left c hinv
  exact Rat.mul_lt_mul_of_pos_left m1 hr.opt_pos

/-- **The ground state is an optimal schedule.** If some feasible state exists, every minimum-energy bitstring (of
the right length) decodes to a feasible schedule whose makespan is no larger than that of any feasible state.
(With `decode_complete_vars` / `feasible_in_window` of C15 — every feasible schedule within the limit is decoded
from some bitstring — this is the optimum of the job-shop instance.) -/
theorem ground_state_optimal (pen : Penalties) (hr : Regime pen) (hs : pen.share = 0)
    (hstrict : pen.opt < pen.prec ∧ pen.opt < pen.ovl) (inst : EInst) (limit : Nat)
    (vars : List (List Var)) (h : prepare inst limit = .ok vars) (hn : 1 ≤ (opVars inst vars).length)
    (g : Bits) (hg : g.length = nQubits vars)
    (hmin : ∀ b : Bits, b.length = nQubits vars → energyOf pen inst vars limit g ≤ energyOf pen inst vars limit b)
    (hex : ∃ b, FeasibleAt inst vars b) :
    FeasibleAt inst vars g ∧ ∀ b, FeasibleAt inst vars b → makespanOf (opVars inst vars) g ≤ makespanOf (opVars inst vars) b := by
  obtain ⟨b0, hb0⟩ := hex
  have hfeas : FeasibleAt inst vars g := by
    -- otherwise g would be infeasible and hence strictly above b0
    by_cases hdec : ∀ x ∈ (opVars inst vars).flatten, (decodeVar x.var g).isSome = true
    · by_cases hv : nPrecViolated (opVars inst vars) g + nOvlViolated (opVars inst vars) g = 0
      · exact ⟨hg, hdec, by omega, by omega⟩
      · exfalso
        have := feasible_below_infeasible pen hr inst limit vars h b0 g hb0.len hg hb0.dec hb0.noPrec hb0.noOvl
          (Or.inr ⟨hdec, by omega⟩) hstrict
        have := hmin b0 hb0.len
        grind
    · exfalso
      have hund : ∃ x ∈ (opVars inst vars).flatten, decodeVar x.var g = none := by
        false_or_by_contra
        rename_i hno
        apply hdec
        intro x hx
        cases hd : decodeVar x.var g with
        | some s => rfl
        | none => exact absurd ⟨x, hx, hd⟩ hno
      have := feasible_below_infeasible pen hr inst limit vars h b0 g hb0.len hg hb0.dec hb0.noPrec hb0.noOvl
        (Or.inl hund) hstrict
      have := hmin b0 hb0.len
      grind
  refine ⟨hfeas, ?_⟩
  intro b hb
  false_or_by_contra
  rename_i hlt
  have := makespan_orders_energy pen hr hs inst limit vars h b g hb hfeas hn (by omega)
  have := hmin b hb.len
  grind

end QVerif.Encoder
