import QVerif.Model.Pipeline
import QVerif.Lemmas.PipelineStates
import QVerif.Lemmas.Cvar
import QVerif.Props.C14

/-!
# C03 — circuit evaluators return the true objective through every primitive wrapper

* `stack_pointwise`: any stack of transpiling / mutex / batching wrappers around an ideal primitive is an ideal
  primitive with the same answers, provided every rewriting in the stack preserves the answer of a pub
  (for a batching wrapper: whatever the other callers put into the batch, before or after).
* `sampler_evaluate_spec`, `estimator_evaluate_spec`: value `i` is the objective of (initial state ∘ circuit `i`) bound
  with parameter vector `i` — every position of a batch.
* `layout_invariance` (+ `op_…`, `mix_…`): re-laying-out a Pauli observable with the FINAL index layout of the
  transpiled circuit preserves its value on every computational-basis state and every mixture of them, for every
  injective layout with ancillas — so the estimator's transpiling wrapper is sound on this fragment.
* `initial_layout_is_wrong`, `no_layout_is_wrong`: kernel-checked witnesses that using the initial layout only, or not
  re-laying-out at all, changes the value.
-/

namespace QVerif.Pipeline

/-! ## Wrapper stacks -/

theorem slice_map {π ρ} (ans : π → ρ) (before pubs after : List π) :
    (((before ++ pubs ++ after).map ans).drop before.length).take pubs.length = pubs.map ans := by
  simp [List.map_append]

theorem stack_pointwise {π ρ} (ans : π → ρ) (P : Prim π ρ) (hP : Pointwise P ans) :
    ∀ s : Stack π, s.Sound ans → Pointwise (s.wrap P) ans
  | .plain, _ => hP
  | .transpiling tr s, h => by
      intro pubs
      simp only [Stack.wrap]
      rw [stack_pointwise ans P hP s h.2 (pubs.map tr), List.map_map]
      apply List.map_congr_left
      intro p _
      exact h.1 p
  | .mutex s, h => stack_pointwise ans P hP s h
  | .batching before after s, h => by
      intro pubs
      simp only [Stack.wrap]
      rw [stack_pointwise ans P hP s h (before ++ pubs ++ after)]
      exact slice_map ans before pubs after

/-! ## Evaluators -/

/-- the objective of one prepared circuit as the ideal sampler sees it -/
def SamplerEval.objective {Circ Par} (e : SamplerEval Circ Par) (ideal : Circ × Par → Counts) (c : Circ) (p : Par) : Rat :=
  QVerif.Cvar.getExpectation (quasi e.f e.shots (ideal (e.prep c, p))) e.alpha

theorem sampler_evaluate_spec {Circ Par} (e : SamplerEval Circ Par) (ideal : Circ × Par → Counts)
    (P : Prim (Circ × Par) Counts) (hP : Pointwise P ideal) (s : Stack (Circ × Par)) (hs : s.Sound ideal)
    (circuits : List Circ) (params : List Par) :
    e.evaluate (s.wrap P) circuits params = (circuits.zip params).map (fun cp => e.objective ideal cp.1 cp.2) := by
  unfold SamplerEval.evaluate SamplerEval.objective
  simp only []
  rw [stack_pointwise ideal P hP s hs]
  simp [List.zip_map_left, List.map_map]

/-- **every position in a batch** -/
theorem sampler_evaluate_at {Circ Par} (e : SamplerEval Circ Par) (ideal : Circ × Par → Counts)
    (P : Prim (Circ × Par) Counts) (hP : Pointwise P ideal) (s : Stack (Circ × Par)) (hs : s.Sound ideal)
    (circuits : List Circ) (params : List Par) (i : Nat) (h1 : i < circuits.length) (h2 : i < params.length) :
    (e.evaluate (s.wrap P) circuits params)[i]? = some (e.objective ideal circuits[i] params[i]) := by
  rw [sampler_evaluate_spec e ideal P hP s hs]
  have hz : (circuits.zip params)[i]? = some (circuits[i], params[i]) :=
    List.getElem?_zip_eq_some.mpr ⟨List.getElem?_eq_getElem h1, List.getElem?_eq_getElem h2⟩
  simp [List.getElem?_map, hz]

theorem estimator_evaluate_spec {Circ Obs Par} (e : EstimatorEval Circ Obs) (ideal : Circ × Obs × Par → Rat)
    (P : Prim (Circ × Obs × Par) Rat) (hP : Pointwise P ideal) (s : Stack (Circ × Obs × Par)) (hs : s.Sound ideal)
    (circuits : List Circ) (params : List Par) :
    e.evaluate (s.wrap P) circuits params = (circuits.zip params).map (fun cp => ideal (e.prep cp.1, e.op, cp.2)) := by
  unfold EstimatorEval.evaluate
  rw [stack_pointwise ideal P hP s hs]
  simp [List.zip_map_left, List.map_map]

theorem estimator_evaluate_at {Circ Obs Par} (e : EstimatorEval Circ Obs) (ideal : Circ × Obs × Par → Rat)
    (P : Prim (Circ × Obs × Par) Rat) (hP : Pointwise P ideal) (s : Stack (Circ × Obs × Par)) (hs : s.Sound ideal)
    (circuits : List Circ) (params : List Par) (i : Nat) (h1 : i < circuits.length) (h2 : i < params.length) :
    (e.evaluate (s.wrap P) circuits params)[i]? = some (ideal (e.prep circuits[i], e.op, params[i])) := by
  rw [estimator_evaluate_spec e ideal P hP s hs]
  have hz : (circuits.zip params)[i]? = some (circuits[i], params[i]) :=
    List.getElem?_zip_eq_some.mpr ⟨List.getElem?_eq_getElem h1, List.getElem?_eq_getElem h2⟩
  simp [List.getElem?_map, hz]

/-! ### Shot counts travel with the pubs: the distribution handed to the aggregation is a probability distribution -/

theorem quasi_nonneg (f : Bits → Rat) (shots : Nat) (c : Counts) : QVerif.Cvar.NonnegProbs (quasi f shots c) := by
  intro x hx
  simp only [quasi, List.mem_map] at hx
  obtain ⟨e, _, rfl⟩ := hx
  simp only
  rw [Rat.div_def]
  have h1 : (0 : Rat) ≤ ((e.2 : Nat) : Rat) := by exact_mod_cast Nat.zero_le _
  have h2 : (0 : Rat) ≤ ((shots : Nat) : Rat)⁻¹ := by
    rcases Nat.eq_zero_or_pos shots with h | h
    · subst h; simp
    · exact Rat.le_of_lt (Rat.inv_pos.mpr (by exact_mod_cast h))
  exact Rat.mul_nonneg h1 h2

theorem quasi_mass_eq (f : Bits → Rat) (shots : Nat) : ∀ c : Counts,
    QVerif.Cvar.mass (quasi f shots c) = ((countsTotal c : Nat) : Rat) / (shots : Rat)
  | [] => by simp [quasi, QVerif.Cvar.mass, countsTotal, Rat.div_def]
  | e :: c => by
      have ih := quasi_mass_eq f shots c
      simp only [quasi, List.map_cons, QVerif.Cvar.mass, countsTotal, List.sum_cons] at ih ⊢
      rw [ih]
      push_cast
      rw [Rat.div_def, Rat.div_def, Rat.div_def, Rat.add_mul]

/-- counts that add up to the divisor give total probability one -/
theorem quasi_mass_one (f : Bits → Rat) (shots : Nat) (c : Counts) (h : countsTotal c = shots) (h0 : 0 < shots) :
    QVerif.Cvar.mass (quasi f shots c) = 1 := by
  rw [quasi_mass_eq, h]
  have : ((shots : Nat) : Rat) ≠ 0 := by exact_mod_cast Nat.pos_iff_ne_zero.mp h0
  rw [Rat.div_def]
  exact Rat.mul_inv_cancel _ this

/-- **Through every stack of wrappers that hands each pub on with its own shot count, value `i` is the aggregation of a
probability distribution** (non-negative, total mass one — the hypotheses of the C14 theorems): the counts of pub `i` as
an ideal sampler that honours the pub's shots returns them, divided by the evaluator's shots.  Holds whatever other
callers, with whatever shot counts, share the batch. -/
theorem sampler_evaluateS_spec {Circ Par} (e : SamplerEval Circ Par) (ideal : SPub Circ Par → Counts)
    (hshots : ∀ p, countsTotal (ideal p) = p.2.2) (h0 : 0 < e.shots)
    (P : Prim (SPub Circ Par) Counts) (hP : Pointwise P ideal) (s : Stack (SPub Circ Par)) (hs : s.Sound ideal)
    (circuits : List Circ) (params : List Par) :
    e.evaluateS (s.wrap P) circuits params =
      (circuits.zip params).map (fun cp => QVerif.Cvar.getExpectation (quasi e.f e.shots (ideal (e.prep cp.1, cp.2, e.shots))) e.alpha) ∧
    ∀ cp ∈ circuits.zip params,
      QVerif.Cvar.NonnegProbs (quasi e.f e.shots (ideal (e.prep cp.1, cp.2, e.shots))) ∧
      QVerif.Cvar.mass (quasi e.f e.shots (ideal (e.prep cp.1, cp.2, e.shots))) = 1 := by
  constructor
  · unfold SamplerEval.evaluateS
    simp only []
    rw [stack_pointwise ideal P hP s hs]
    simp [List.zip_map_left, List.map_map]
  · intro cp _
    exact ⟨quasi_nonneg _ _ _, quasi_mass_one _ _ _ (hshots _) h0⟩

/-- **The value an evaluator returns is the CVaR of the measured distribution, up to the aggregation's resolution** — C03's
glue and C14's aggregation theorems composed: through every sound wrapper stack and at every batch position `i`, for a tail
fraction not within `isclose` of 1, the returned value is within `(1e-8 + 1e-5·α)·max|f| / α` of the exact CVaR ("mean of the
objective over the lowest `α` of the probability mass", `cvar_is_min`) of the distribution `counts / shots` of circuit `i` behind
the initial state, which is a probability distribution. -/
theorem sampler_value_is_cvar {Circ Par} (e : SamplerEval Circ Par) (ideal : SPub Circ Par → Counts)
    (hshots : ∀ p, countsTotal (ideal p) = p.2.2) (h0 : 0 < e.shots)
    (P : Prim (SPub Circ Par) Counts) (hP : Pointwise P ideal) (s : Stack (SPub Circ Par)) (hs : s.Sound ideal)
    (circuits : List Circ) (params : List Par) (M : Rat) (hM0 : 0 ≤ M) (hM : ∀ b, QVerif.Cvar.rabs (e.f b) ≤ M)
    (ha0 : 0 < e.alpha) (hfar : QVerif.Cvar.isclose e.alpha 1 = false)
    (i : Nat) (h1 : i < circuits.length) (h2 : i < params.length) :
    ∃ v, (e.evaluateS (s.wrap P) circuits params)[i]? = some v ∧
      QVerif.Cvar.NonnegProbs (quasi e.f e.shots (ideal (e.prep circuits[i], params[i], e.shots))) ∧
      QVerif.Cvar.mass (quasi e.f e.shots (ideal (e.prep circuits[i], params[i], e.shots))) = 1 ∧
      QVerif.Cvar.rabs (v - QVerif.Cvar.cvarExact (quasi e.f e.shots (ideal (e.prep circuits[i], params[i], e.shots))) e.alpha)
        ≤ (QVerif.Cvar.atol + QVerif.Cvar.rtol * QVerif.Cvar.rabs e.alpha) * M / e.alpha := by
  obtain ⟨hspec, _⟩ := sampler_evaluateS_spec e ideal hshots h0 P hP s hs circuits params
  have hz : (circuits.zip params)[i]? = some (circuits[i], params[i]) :=
    List.getElem?_zip_eq_some.mpr ⟨List.getElem?_eq_getElem h1, List.getElem?_eq_getElem h2⟩
  refine ⟨QVerif.Cvar.getExpectation (quasi e.f e.shots (ideal (e.prep circuits[i], params[i], e.shots))) e.alpha, ?_,
    quasi_nonneg _ _ _, quasi_mass_one _ _ _ (hshots _) h0, ?_⟩
  · rw [hspec]; simp [List.getElem?_map, hz]
  refine (QVerif.Cvar.tolerance_bound _ e.alpha M (quasi_nonneg _ _ _) hM0 ?_ ha0 hfar).1
  intro x hx
  simp only [quasi, List.mem_map] at hx
  obtain ⟨c, _, rfl⟩ := hx
  exact hM c.1

/-- the coerced-pub transpiling wrapper keeps parameter values and shots: sound when the pass manager preserves the
measured statistics -/
theorem transpileSPub_sound {Circ Par} (pm : Circ → Circ) (ideal : SPub Circ Par → Counts)
    (hpm : ∀ c p n, ideal (pm c, p, n) = ideal (c, p, n)) : ∀ p, ideal (transpileSPub pm p) = ideal p :=
  fun p => hpm p.1 p.2.1 p.2.2

/-- witness (seeded change C03e): handing a batch on with ONE shot count is not a sound rewriting for a sampler that
honours shots — a pub of an evaluator with 4 shots answered with 8 counts yields total "probability" 2 -/
theorem override_shots_is_wrong :
    let ideal : SPub Unit Unit → Counts := fun p => [([false], p.2.2)]
    (∀ p, countsTotal (ideal p) = p.2.2) ∧
    QVerif.Cvar.mass (quasi (fun _ => 1) 4 (ideal (overrideShots 8 ((), (), 4)))) = 2 := by
  constructor
  · intro p; simp [countsTotal]
  · decide +kernel

/-- the transpiling sampler wrapper is sound when the pass manager preserves the measured statistics -/
theorem transpileSampler_sound {Circ Par} (pm : Circ → Circ) (ideal : Circ × Par → Counts)
    (hpm : ∀ c p, ideal (pm c, p) = ideal (c, p)) : ∀ p, ideal (transpileSamplerPub pm p) = ideal p :=
  fun p => hpm p.1 p.2

/-- the transpiling estimator wrapper is sound when re-laying-out the observable compensates the layout of the
transpiled circuit -/
theorem transpileEstimator_sound {Circ Obs Par} (pm : Circ → Circ) (relayout : Circ → Obs → Obs)
    (ideal : Circ × Obs × Par → Rat) (h : ∀ c o p, ideal (pm c, relayout (pm c) o, p) = ideal (c, o, p)) :
    ∀ p, ideal (transpileEstimatorPub pm relayout p) = ideal p :=
  fun p => h p.1 p.2.1 p.2.2

/-! ## Layout invariance on the classical fragment -/

theorem factor_I (b : Bool) : factor .I b = 1 := rfl

theorem stringVal_set : ∀ (L : List Pauli) (B : Bits) (k : Nat) (p : Pauli) (b : Bool), L.length = B.length →
    L[k]? = some .I → stringVal (L.set k p) (B.set k b) = stringVal L B * factor p b
  | [], _, k, _, _, _, h => by simp at h
  | q :: L, [], _, _, _, hl, _ => by simp at hl
  | q :: L, c :: B, 0, p, b, _, h => by
      simp only [List.getElem?_cons_zero, Option.some.injEq] at h
      subst h
      simp only [List.set_cons_zero, stringVal, factor_I]
      grind
  | q :: L, c :: B, k + 1, p, b, hl, h => by
      simp only [List.getElem?_cons_succ] at h
      simp only [List.set_cons_succ, stringVal]
      rw [stringVal_set L B k p b (by simpa using hl) h]
      grind

theorem stringVal_replicate : ∀ m : Nat, stringVal (List.replicate m .I) (List.replicate m false) = 1
  | 0 => rfl
  | m + 1 => by simp [List.replicate_succ, stringVal, factor_I, stringVal_replicate m]

theorem scatter_val : ∀ (ps : List Pauli) (b : Bits) (final : List Nat) (acc : List Pauli) (accB : Bits),
    ps.length = final.length → b.length = final.length → acc.length = accB.length → final.Nodup →
    (∀ k ∈ final, acc[k]? = some .I) →
    stringVal (scatter ps final acc) (scatter b final accB) = stringVal acc accB * stringVal ps b
  | [], b, final, acc, accB, h1, h2, _, _, _ => by
      have hf : final = [] := by simpa using h1.symm
      subst hf
      have hb : b = [] := by simpa using h2
      subst hb
      simp [scatter, stringVal]
  | p :: ps, [], final, _, _, h1, h2, _, _, _ => by
      have hf : final = [] := by simpa using h2.symm
      subst hf
      simp at h1
  | p :: ps, c :: bs, [], _, _, h1, _, _, _, _ => by simp at h1
  | p :: ps, c :: bs, k :: ks, acc, accB, h1, h2, h3, hn, hI => by
      simp only [scatter]
      have hnd := List.nodup_cons.mp hn
      rw [scatter_val ps bs ks (acc.set k p) (accB.set k c) (by simpa using h1) (by simpa using h2) (by simpa using h3) hnd.2]
      · rw [stringVal_set acc accB k p c h3 (hI k (by simp))]
        simp only [stringVal]
        grind
      · intro k' hk'
        have hne : k ≠ k' := fun h => hnd.1 (h ▸ hk')
        rw [List.getElem?_set_ne hne]
        exact hI k' (by simp [hk'])

/-- **Layout invariance**: on a basis state moved to the physical qubits by the final layout, the re-laid-out Pauli
string has the value of the original string on the original state. -/
theorem layout_invariance (ps : List Pauli) (b : Bits) (final : List Nat) (n m : Nat) (hl : LayoutOk final n m)
    (hp : ps.length = n) (hb : b.length = n) :
    stringVal (applyLayout ps final m) (place b final m) = stringVal ps b := by
  unfold applyLayout place
  rw [scatter_val ps b final _ _ (by rw [hp, hl.len]) (by rw [hb, hl.len]) (by simp) hl.nodup]
  · rw [stringVal_replicate]; grind
  · intro k hk
    simp [hl.lt k hk]

theorem op_layout_invariance (o : PauliOp) (b : Bits) (final : List Nat) (n m : Nat) (hl : LayoutOk final n m)
    (hp : ∀ t ∈ o, t.2.length = n) (hb : b.length = n) :
    opVal (opApplyLayout o final m) (place b final m) = opVal o b := by
  unfold opVal opApplyLayout
  rw [List.map_map]
  congr 1
  apply List.map_congr_left
  intro t ht
  simp only [Function.comp]
  rw [layout_invariance t.2 b final n m hl (hp t ht) hb]

/-- … and on every mixture of basis states (all a diagonal observable sees of any state) -/
theorem mix_layout_invariance (o : PauliOp) (μ : Mixture) (final : List Nat) (n m : Nat) (hl : LayoutOk final n m)
    (hp : ∀ t ∈ o, t.2.length = n) (hb : ∀ e ∈ μ, e.2.length = n) :
    mixVal (opApplyLayout o final m) (mixPlace μ final m) = mixVal o μ := by
  unfold mixVal mixPlace
  rw [List.map_map]
  congr 1
  apply List.map_congr_left
  intro e he
  simp only [Function.comp]
  rw [op_layout_invariance o e.2 final n m hl hp (hb e he)]

/-! ## Layout invariance on pure states (superpositions, arbitrary Pauli observables) -/

theorem phase_layout (ps : List Pauli) (b : Bits) (final : List Nat) (n m : Nat) (hl : LayoutOk final n m)
    (hp : ps.length = n) (hb : b.length = n) : phase (applyLayout ps final m) (place b final m) = phase ps b := by
  unfold applyLayout place
  rw [scatter_phase ps b final _ _ (by rw [hp, hl.len]) (by rw [hb, hl.len]) (by simp) hl.nodup
    (fun k hk => by simp [hl.lt k hk]), phase_replicate]
  omega

theorem flip_layout (ps : List Pauli) (b : Bits) (final : List Nat) (n m : Nat) (hl : LayoutOk final n m)
    (hp : ps.length = n) (hb : b.length = n) :
    flip (applyLayout ps final m) (place b final m) = place (flip ps b) final m := by
  unfold applyLayout place
  rw [scatter_flip ps b final _ _ (by rw [hp, hl.len]) (by rw [hb, hl.len]) (by simp) hl.nodup
    (fun k hk => by simp [hl.lt k hk]), flip_replicate]

/-- the amplitude of a placed basis state in the placed state is the amplitude of the original one -/
theorem amp_place (ψ : State) (final : List Nat) (n m : Nat) (hl : LayoutOk final n m) (hψ : ∀ e ∈ ψ, e.1.length = n)
    (b : Bits) (hb : b.length = n) : amp (statePlace ψ final m) (place b final m) = amp ψ b := by
  unfold amp statePlace
  congr 1
  rw [List.filter_map, List.map_map]
  have : ψ.filter ((fun e : Bits × GRat => decide (e.1 = place b final m)) ∘ fun e => (place e.1 final m, e.2)) =
      ψ.filter (fun e => decide (e.1 = b)) := by
    apply List.filter_congr
    intro e he
    simp only [Function.comp]
    by_cases h : e.1 = b
    · simp [h]
    · have : place e.1 final m ≠ place b final m := fun hh => h (place_injective final n m hl e.1 b (hψ e he) hb hh)
      simp [h, this]
  rw [this]
  simp [Function.comp]

/-- **Layout invariance for every pure state and every Pauli string**: ⟨ψ'| P' |ψ'⟩ = ⟨ψ| P |ψ⟩ where `P'` is `P`
re-laid-out with the final index layout and `ψ'` is `ψ` on the physical qubits (ancillas in `|0⟩`). -/
theorem expval_layout_invariance (ps : List Pauli) (ψ : State) (final : List Nat) (n m : Nat) (hl : LayoutOk final n m)
    (hp : ps.length = n) (hψ : ∀ e ∈ ψ, e.1.length = n) :
    expval (applyLayout ps final m) (statePlace ψ final m) = expval ps ψ := by
  unfold expval
  congr 1
  unfold statePlace
  rw [List.map_map]
  apply List.map_congr_left
  intro e he
  simp only [Function.comp]
  rw [phase_layout ps e.1 final n m hl hp (hψ e he), flip_layout ps e.1 final n m hl hp (hψ e he)]
  have := amp_place ψ final n m hl hψ (flip ps e.1) (by rw [flip_length]; exact hψ e he)
  unfold statePlace at this
  rw [this]

/-- … and for every `SparsePauliOp` -/
theorem opExpval_layout_invariance (o : PauliOp) (ψ : State) (final : List Nat) (n m : Nat) (hl : LayoutOk final n m)
    (hp : ∀ t ∈ o, t.2.length = n) (hψ : ∀ e ∈ ψ, e.1.length = n) :
    opExpval (opApplyLayout o final m) (statePlace ψ final m) = opExpval o ψ := by
  unfold opExpval opApplyLayout
  rw [List.map_map]
  congr 1
  apply List.map_congr_left
  intro t ht
  simp only [Function.comp]
  rw [expval_layout_invariance t.2 ψ final n m hl (hp t ht) hψ]

/-- on a basis state `expval` is the classical value of the first part -/
example : expval [.Z, .I] [([true, false], ⟨1, 0⟩)] = ⟨-1, 0⟩ := by decide +kernel

-- the (unnormalised) Bell state |00⟩ + |11⟩: ⟨XX⟩ = 2, ⟨YY⟩ = −2, ⟨ZZ⟩ = 2, ⟨ZI⟩ = 0 — before and after a routed layout
def bell : State := [([false, false], ⟨1, 0⟩), ([true, true], ⟨1, 0⟩)]
example : expval [.X, .X] bell = ⟨2, 0⟩ ∧ expval [.Y, .Y] bell = ⟨-2, 0⟩ ∧ expval [.Z, .Z] bell = ⟨2, 0⟩ ∧ expval [.Z, .I] bell = ⟨0, 0⟩ := by
  decide +kernel
example : expval (applyLayout [.Y, .Y] [2, 1] 3) (statePlace bell [2, 1] 3) = ⟨-2, 0⟩ := by decide +kernel
-- |0⟩ + i|1⟩ : ⟨Y⟩ = 2
example : expval [.Y] [([false], ⟨1, 0⟩), ([true], ⟨0, 1⟩)] = ⟨2, 0⟩ := by decide +kernel

/-! ## What goes wrong otherwise (kernel-checked witnesses)

Two virtual qubits on a three-qubit device; routing leaves virtual qubit 0 on physical qubit 2 although it started on
physical qubit 0 (`initial = [0, 1]`, `final = [2, 1]`); state `|q0 q1⟩ = |1 0⟩`, observable `Z ⊗ I`. -/

example : LayoutOk [2, 1] 2 3 := ⟨rfl, by decide, by decide⟩

/-- using only the initial layout (the seeded change of C03) measures the wrong physical qubit -/
theorem initial_layout_is_wrong :
    stringVal (applyLayout [.Z, .I] [0, 1] 3) (place [true, false] [2, 1] 3) ≠ stringVal [.Z, .I] [true, false] := by
  decide +kernel

/-- not re-laying-out at all (defect F1 of the pinned tree, repaired in `fd67aba`) -/
theorem no_layout_is_wrong :
    stringVal [.Z, .I] (place [true, false] [2, 1] 3) ≠ stringVal [.Z, .I] [true, false] := by
  decide +kernel

example : stringVal (applyLayout [.Z, .I] [2, 1] 3) (place [true, false] [2, 1] 3) = -1 := by decide +kernel

end QVerif.Pipeline
