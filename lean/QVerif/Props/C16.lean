import QVerif.Model.Genome

/-!
# C16 — structural mutations obey their algebra and keep the denoted state
-/

namespace QVerif.Genome

/-! ## helper lemmas -/

theorem mkIndiv_ok {n : Nat} {ls : List Layer} {vs : List Val} {y : Indiv} (h : mkIndiv n ls vs = .ok y) :
    y = { nQubits := n, layers := ls, values := vs } ∧ y.isValid = true := by
  unfold mkIndiv at h
  simp only at h
  split at h
  · rename_i hv; cases h; exact ⟨rfl, hv⟩
  · cases h

theorem mkIndiv_of_valid {n : Nat} {ls : List Layer} {vs : List Val}
    (h : ({ nQubits := n, layers := ls, values := vs } : Indiv).isValid = true) :
    mkIndiv n ls vs = .ok { nQubits := n, layers := ls, values := vs } := by
  unfold mkIndiv; simp [h]

theorem totalParams_append (a b : List Layer) : totalParams (a ++ b) = totalParams a + totalParams b := by
  simp [totalParams]

theorem totalParams_take_le (ls : List Layer) (m : Nat) : totalParams (ls.take m) ≤ totalParams ls := by
  have := totalParams_append (ls.take m) (ls.drop m)
  rw [List.take_append_drop] at this
  omega

theorem offset_succ (ls : List Layer) (j : Nat) (hj : j < ls.length) :
    offset ls (j + 1) = offset ls j + (ls.getD j default).nParams := by
  unfold offset
  rw [List.take_add_one, totalParams_append]
  simp [List.getElem?_eq_getElem hj, totalParams, List.getD_eq_getElem?_getD]

theorem isValid_iff (x : Indiv) : x.isValid = true ↔
    x.layers ≠ [] ∧ (∀ l ∈ x.layers, l.isValid = true ∧ l.nQubits = x.nQubits) ∧ x.values.length = totalParams x.layers := by
  unfold Indiv.isValid
  simp only [Bool.and_eq_true, Bool.not_eq_eq_eq_not, Bool.not_true, List.isEmpty_eq_false_iff, ne_eq, List.all_eq_true,
    beq_iff_eq, and_assoc]

theorem randomLayers_length (n : Nat) : ∀ (k : Nat) (prev : Option Layer) (o : Oracle) (ls : List Layer) (o' : Oracle),
    randomLayers n k prev o = .ok (ls, o') → ls.length = k
  | 0, _, _, ls, o', h => by simp only [randomLayers] at h; cases h; rfl
  | k + 1, prev, o, ls, o', h => by
      simp only [randomLayers] at h
      split at h
      · cases h
      · rename_i l o1 _
        split at h
        · cases h
        · rename_i ls' o2 hrec
          cases h
          simp [randomLayers_length n k _ _ _ _ hrec]

/-- reading the chunk `j` back out of a flattened list of chunks -/
theorem chunk_get {α} : ∀ (cs : List (List α)) (j : Nat) (hj : j < cs.length),
    (cs.flatten.drop ((cs.take j).map List.length).sum).take (cs[j]).length = cs[j]
  | [], j, hj => by simp at hj
  | c :: cs, 0, _ => by simp
  | c :: cs, j + 1, hj => by
      simp only [List.take_succ_cons, List.map_cons, List.sum_cons, List.flatten_cons, List.getElem_cons_succ]
      rw [List.drop_append]
      have : c.drop (c.length + ((cs.take j).map List.length).sum) = [] := by
        apply List.drop_eq_nil_of_le; omega
      rw [this, List.nil_append]
      have e : c.length + ((cs.take j).map List.length).sum - c.length = ((cs.take j).map List.length).sum := by omega
      rw [e]
      exact chunk_get cs j (by simpa using hj)

/-! ## property theorems -/

/-- every operation that returns an individual returns a *valid* one -/
theorem results_valid (x y : Indiv) :
    (∀ vals, changeParameterValues x vals = .ok y → y.isValid = true) ∧
    (∀ i vals, changeLayerParameterValues x i vals = .ok y → y.isValid = true) ∧
    (∀ k, removeLayers x k = .ok y → y.isValid = true) ∧
    (∀ k o vals, addRandomLayers x k o vals = .ok y → y.isValid = true) := by
  refine ⟨?_, ?_, ?_, ?_⟩
  · intro vals h; unfold changeParameterValues at h; split at h
    · cases h
    · exact (mkIndiv_ok h).2
  · intro i vals h; unfold changeLayerParameterValues at h; simp only at h; split at h
    · cases h
    · exact (mkIndiv_ok h).2
  · intro k h; unfold removeLayers at h; split at h
    · cases h
    · split at h
      · cases h
      · exact (mkIndiv_ok h).2
  · intro k o vals h; unfold addRandomLayers at h; split at h
    · cases h
    · split at h
      · cases h
      · exact (mkIndiv_ok h).2

/-- the only errors of the value/structure operations are the documented ones (wrong number of values,
out-of-range layer counts) or — never for valid inputs, see `remove_total` — the validity check -/
theorem documented_errors (x : Indiv) (e : Err) :
    (∀ vals, changeParameterValues x vals = .error e → e = .wrongValueCount ∨ e = .individualInvalid) ∧
    (∀ i vals, changeLayerParameterValues x i vals = .error e → e = .wrongValueCount ∨ e = .individualInvalid) ∧
    (∀ k, removeLayers x k = .error e → e = .nLayersTooSmall ∨ e = .removedTooMany ∨ e = .individualInvalid) := by
  refine ⟨?_, ?_, ?_⟩
  · intro vals h; unfold changeParameterValues at h; split at h
    · cases h; exact Or.inl rfl
    · unfold mkIndiv at h; simp only at h; split at h
      · cases h
      · cases h; exact Or.inr rfl
  · intro i vals h; unfold changeLayerParameterValues at h; simp only at h; split at h
    · cases h; exact Or.inl rfl
    · unfold mkIndiv at h; simp only at h; split at h
      · cases h
      · cases h; exact Or.inr rfl
  · intro k h; unfold removeLayers at h; split at h
    · cases h; exact Or.inl rfl
    · split at h
      · cases h; exact Or.inr (Or.inl rfl)
      · unfold mkIndiv at h; simp only at h; split at h
        · cases h
        · cases h; exact Or.inr (Or.inr rfl)

/-- **append keeps a prefix**: all existing layers and parameter values are a prefix of the result, and exactly
`k` layers are appended -/
theorem add_prefix (x y : Indiv) (k : Int) (o : Oracle) (vals : Nat → List Val)
    (h : addRandomLayers x k o vals = .ok y) :
    ∃ ls, ls.length = k.toNat ∧ 1 ≤ k ∧ y.nQubits = x.nQubits ∧ y.layers = x.layers ++ ls ∧
      y.values = x.values ++ vals (totalParams ls) := by
  unfold addRandomLayers at h
  split at h
  · cases h
  · rename_i hk
    split at h
    · cases h
    · rename_i ls o' hr
      obtain ⟨rfl, _⟩ := mkIndiv_ok h
      exact ⟨ls, randomLayers_length _ _ _ _ _ _ hr, by omega, rfl, rfl, rfl⟩

/-- **removal is total on its documented domain**: for every valid individual and `0 < k < #layers` it succeeds,
keeps the first `#layers − k` layers and exactly their parameter values -/
theorem remove_total (x : Indiv) (k : Int) (hv : x.isValid = true) (h0 : 0 < k) (h1 : k < x.layers.length) :
    ∃ y, removeLayers x k = .ok y ∧ y.nQubits = x.nQubits ∧
      y.layers = x.layers.take (x.layers.length - k.toNat) ∧
      y.values = x.values.take (totalParams (x.layers.take (x.layers.length - k.toNat))) := by
  obtain ⟨hne, hall, hlen⟩ := (isValid_iff x).mp hv
  unfold removeLayers
  have hk0 : ¬ ¬ (0 < k) := by omega
  have hk1 : ¬ ¬ (k < x.layers.length) := by omega
  simp only [hk0, hk1, ↓reduceIte]
  refine ⟨_, mkIndiv_of_valid ?_, rfl, rfl, rfl⟩
  rw [isValid_iff]
  refine ⟨?_, ?_, ?_⟩
  · intro hnil
    have := congrArg List.length hnil
    simp only [List.length_take, List.length_nil] at this
    omega
  · intro l hl; exact hall l (List.mem_of_mem_take hl)
  · simp only [List.length_take]
    have := totalParams_take_le x.layers (x.layers.length - k.toNat)
    omega

/-- **remove undoes append** -/
theorem remove_add_inverse (x y : Indiv) (k : Int) (o : Oracle) (vals : Nat → List Val) (hv : x.isValid = true)
    (h : addRandomLayers x k o vals = .ok y) : removeLayers y k = .ok x := by
  obtain ⟨ls, hlen, hk, hn, hl, hvals⟩ := add_prefix x y k o vals h
  obtain ⟨_, _, hxlen⟩ := (isValid_iff x).mp hv
  unfold removeLayers
  have hk0 : ¬ ¬ (0 < k) := by omega
  have hk1 : ¬ ¬ (k < y.layers.length) := by
    rw [hl]; simp only [List.length_append]
    have : x.layers.length ≠ 0 := by
      intro h0; exact ((isValid_iff x).mp hv).1 (List.eq_nil_of_length_eq_zero h0)
    omega
  simp only [hk0, hk1, ↓reduceIte]
  have e1 : y.layers.take (y.layers.length - k.toNat) = x.layers := by
    rw [hl, List.length_append, hlen]
    have : x.layers.length + k.toNat - k.toNat = x.layers.length := by omega
    rw [this, List.take_left']
    rfl
  rw [e1]
  have e2 : y.values.take (totalParams x.layers) = x.values := by
    rw [hvals, ← hxlen, List.take_left']
    rfl
  rw [e2, hn]
  exact mkIndiv_of_valid hv

/-- **changing all values changes nothing else** -/
theorem change_all_only_values (x y : Indiv) (vals : List Val) (h : changeParameterValues x vals = .ok y) :
    y.nQubits = x.nQubits ∧ y.layers = x.layers ∧ y.values = vals := by
  unfold changeParameterValues at h
  split at h
  · cases h
  · obtain ⟨rfl, _⟩ := mkIndiv_ok h; exact ⟨rfl, rfl, rfl⟩

/-- **changing one layer's values changes nothing but those values** (for any layer id, negative ids counting
from the end as in Python): the structure is unchanged, the addressed layer reads back the new values and every
other layer reads back its old values -/
theorem change_layer_only_values (x y : Indiv) (layerId : Int) (vals : List Val) (hv : x.isValid = true)
    (h : changeLayerParameterValues x layerId vals = .ok y) :
    y.nQubits = x.nQubits ∧ y.layers = x.layers ∧
    layerValues y (normIdx layerId x.layers.length) = vals ∧
    ∀ j, j < x.layers.length → j ≠ normIdx layerId x.layers.length → layerValues y j = layerValues x j := by
  obtain ⟨hne, _, hxlen⟩ := (isValid_iff x).mp hv
  unfold changeLayerParameterValues at h
  simp only at h
  split at h
  · cases h
  · rename_i hcnt
    have hcnt : vals.length = (x.layers.getD (normIdx layerId x.layers.length) default).nParams := by omega
    obtain ⟨rfl, _⟩ := mkIndiv_ok h
    -- the chunks
    let i := normIdx layerId x.layers.length
    let cs := (List.range x.layers.length).map (fun j => if j ≠ i then layerValues x j else vals)
    have hcslen : cs.length = x.layers.length := by simp [cs]
    -- every chunk has the length of its layer's parameter count
    have hoff : ∀ j, j ≤ x.layers.length → offset x.layers j ≤ x.values.length := by
      intro j _; rw [hxlen]; exact totalParams_take_le _ _
    have hlv : ∀ j, j < x.layers.length → (layerValues x j).length = (x.layers.getD j default).nParams := by
      intro j hj
      unfold layerValues
      simp only [List.length_take, List.length_drop]
      have h1 : offset x.layers (j + 1) ≤ x.values.length := hoff (j + 1) (by omega)
      have h2 := offset_succ x.layers j hj
      omega
    have hchunk : ∀ j (hj : j < cs.length), (cs[j]).length = (x.layers.getD j default).nParams := by
      intro j hj
      have hj' : j < x.layers.length := by omega
      simp only [cs, List.getElem_map, List.getElem_range]
      split
      · exact hlv j hj'
      · rename_i hji; have : j = i := by omega
        rw [this]; exact hcnt
    have hsum : ∀ j, j ≤ cs.length → ((cs.take j).map List.length).sum = offset x.layers j := by
      intro j
      induction j with
      | zero => intro _; simp [offset, totalParams]
      | succ m ih =>
        intro hm
        have hm' : m < cs.length := by omega
        have hm'' : m < x.layers.length := by omega
        rw [List.take_add_one, List.map_append, List.sum_append, ih (by omega)]
        simp only [List.getElem?_eq_getElem hm', Option.toList_some, List.map_cons, List.map_nil, List.sum_cons,
          List.sum_nil, Nat.add_zero]
        rw [hchunk m hm', offset_succ x.layers m hm'']
    have hread : ∀ j (hj : j < cs.length),
        layerValues { nQubits := x.nQubits, layers := x.layers, values := cs.flatten } j = cs[j] := by
      intro j hj
      unfold layerValues
      simp only
      rw [← hsum j (by omega), ← hchunk j hj]
      exact chunk_get cs j hj
    have hi : i < x.layers.length := by
      have hpos : 0 < x.layers.length := List.length_pos_iff.mpr hne
      show normIdx layerId x.layers.length < x.layers.length
      unfold normIdx
      have h1 : 0 ≤ layerId % (x.layers.length : Int) := Int.emod_nonneg _ (by omega)
      have h2 : layerId % (x.layers.length : Int) < x.layers.length := Int.emod_lt_of_pos _ (by omega)
      omega
    refine ⟨rfl, rfl, ?_, ?_⟩
    · have := hread i (by omega)
      rw [this]
      simp [cs]
    · intro j hj hne'
      have := hread j (by omega)
      rw [this]
      simp only [cs, List.getElem_map, List.getElem_range]
      have : j ≠ i := hne'
      simp [this]

/-! ## denotation: appended zero layers contribute the identity -/

/-- a bound gate: kind/qubits and the three angle tokens looked up for it (`none` for gates without parameters) -/
structure BoundGate where
  gate : Gate
  angles : Option (Val × Val × Val)
  deriving DecidableEq, Repr

/-- gates of layer `i` bound layer-locally with `vals` (`get_layer_gate`): parameter `m` of the sorted parameter
list of the layer receives `vals[m]` -/
def layerBound (i : Nat) (l : Layer) (vals : List Val) : List BoundGate :=
  let b := bindPositional (layerSlots i l) vals
  l.gates.map (fun g =>
    if g.nParams = 3 then
      { gate := g, angles := some ((lookupSlot b ⟨i, g.qubit, .theta⟩).getD 0, (lookupSlot b ⟨i, g.qubit, .phi⟩).getD 0,
                                    (lookupSlot b ⟨i, g.qubit, .lam⟩).getD 0) }
    else { gate := g, angles := none })

/-- meaning of an individual for an arbitrary gate semantics into an arbitrary monoid-like structure
(`mul`, `one`): product over layers and gates, every layer bound with its own values
(`get_partially_parameterized_quantum_circuit(set())`) -/
def denote {M} (mul : M → M → M) (one : M) (sem : BoundGate → M) (x : Indiv) : M :=
  ((List.range x.layers.length).flatMap (fun i => layerBound i (x.layers.getD i default) (layerValues x i))).foldl
    (fun acc g => mul acc (sem g)) one

theorem lookup_zip_zero (slots : List Slot) (n : Nat) (s : Slot) :
    (lookupSlot (slots.zip (List.replicate n 0)) s).getD 0 = 0 := by
  unfold lookupSlot
  cases hf : (slots.zip (List.replicate n (0 : Val))).find? (fun p => p.1 == s) with
  | none => simp
  | some p =>
    have hm := List.mem_of_find?_eq_some hf
    have := (List.of_mem_zip hm).2
    simp only [List.mem_replicate] at this
    simp [this.2]

/-- a layer bound with zeros only carries zero angles -/
theorem layerBound_zero (i : Nat) (l : Layer) (n : Nat) :
    ∀ g ∈ layerBound i l (List.replicate n 0), g.angles = none ∨ g.angles = some (0, 0, 0) := by
  intro g hg
  simp only [layerBound, bindPositional, List.mem_map] at hg
  obtain ⟨g0, _, rfl⟩ := hg
  split
  · right; simp only [lookup_zip_zero]
  · left; rfl


theorem foldl_one {M} (mul : M → M → M) (one : M) (sem : BoundGate → M) (hone : ∀ a, mul a one = a) :
    ∀ (gs : List BoundGate) (acc : M), (∀ g ∈ gs, sem g = one) → gs.foldl (fun a g => mul a (sem g)) acc = acc
  | [], _, _ => rfl
  | g :: gs, acc, h => by
      simp only [List.foldl_cons]
      rw [h g (by simp), hone]
      exact foldl_one mul one sem hone gs acc (fun g' hg' => h g' (List.mem_cons_of_mem _ hg'))

theorem range_add (a b : Nat) : List.range (a + b) = List.range a ++ (List.range b).map (· + a) := by
  induction b with
  | zero => simp
  | succ n ih =>
    rw [← Nat.add_assoc, List.range_succ, ih, List.range_succ]
    simp [Nat.add_comm]

/-- **zero-initialised appended layers keep the denoted state**: for every gate semantics `sem` into any structure
with a right-neutral `one`, such that gates without parameters (identity, control marker) and gates whose three
angles are zero denote `one` (true of Qiskit's `id`, `U(0,0,0)`, `CU3(0,0,0)`), the individual returned by
`add_random_layers(..., randomize_parameter_values=False)` denotes the same as the original. -/
theorem add_zero_keeps_denotation {M} (mul : M → M → M) (one : M) (sem : BoundGate → M) (hone : ∀ a, mul a one = a)
    (hsem : ∀ g : BoundGate, (g.angles = none ∨ g.angles = some (0, 0, 0)) → sem g = one)
    (x y : Indiv) (k : Int) (o : Oracle) (hv : x.isValid = true)
    (h : addRandomLayers x k o (fun n => List.replicate n 0) = .ok y) :
    denote mul one sem y = denote mul one sem x := by
  obtain ⟨ls, hlen, hk, hn, hl, hvals⟩ := add_prefix x y k o _ h
  obtain ⟨_, _, hxlen⟩ := (isValid_iff x).mp hv
  unfold denote
  rw [hl, List.length_append, range_add, List.flatMap_append, List.foldl_append]
  -- old layers: same layers, same values
  have hold : ∀ i, i < x.layers.length →
      layerBound i ((x.layers ++ ls).getD i default) (layerValues y i) =
      layerBound i (x.layers.getD i default) (layerValues x i) := by
    intro i hi
    have e1 : (x.layers ++ ls).getD i default = x.layers.getD i default := by
      simp [List.getD_eq_getElem?_getD, List.getElem?_append_left hi]
    rw [e1]
    congr 1
    unfold layerValues
    rw [hl, e1, hvals]
    have e2 : offset (x.layers ++ ls) i = offset x.layers i := by
      unfold offset; rw [List.take_append_of_le_length (by omega)]
    rw [e2]
    have h1 : offset x.layers (i + 1) ≤ x.values.length := by rw [hxlen]; exact totalParams_take_le _ _
    have h2 := offset_succ x.layers i hi
    rw [List.drop_append_of_le_length (by omega), List.take_append_of_le_length (by
      simp only [List.length_drop, List.getD_eq_getElem?_getD] at *; omega)]
  have e3 : (List.range x.layers.length).flatMap
        (fun i => layerBound i ((x.layers ++ ls).getD i default) (layerValues y i)) =
      (List.range x.layers.length).flatMap (fun i => layerBound i (x.layers.getD i default) (layerValues x i)) := by
    have : ∀ (l : List Nat), (∀ i ∈ l, i < x.layers.length) →
        l.flatMap (fun i => layerBound i ((x.layers ++ ls).getD i default) (layerValues y i)) =
        l.flatMap (fun i => layerBound i (x.layers.getD i default) (layerValues x i)) := by
      intro l
      induction l with
      | nil => intro _; rfl
      | cons a t ih =>
        intro hl'
        simp only [List.flatMap_cons]
        rw [hold a (hl' a (by simp)), ih (fun i hi => hl' i (List.mem_cons_of_mem _ hi))]
    exact this _ (fun i hi => List.mem_range.mp hi)
  rw [e3]
  -- new layers: all angles zero
  apply foldl_one mul one sem hone
  intro g hg
  simp only [List.mem_flatMap, List.mem_map, List.mem_range] at hg
  obtain ⟨i, ⟨j, _, rfl⟩, hg⟩ := hg
  apply hsem
  have hz : ∃ n, layerValues y (j + x.layers.length) = List.replicate n 0 := by
    unfold layerValues
    rw [hvals, hl]
    have hge : x.values.length ≤ offset (x.layers ++ ls) (j + x.layers.length) := by
      unfold offset
      have : (x.layers ++ ls).take (j + x.layers.length) = x.layers ++ ls.take j := by
        rw [List.take_append]
        have : x.layers.take (j + x.layers.length) = x.layers := List.take_of_length_le (by omega)
        rw [this]
        congr 2
        omega
      rw [this, totalParams_append, hxlen]
      omega
    rw [List.drop_append]
    have : x.values.drop (offset (x.layers ++ ls) (j + x.layers.length)) = [] := List.drop_eq_nil_of_le hge
    rw [this, List.nil_append, List.drop_replicate, List.take_replicate]
    exact ⟨_, rfl⟩
  obtain ⟨n, hn'⟩ := hz
  rw [hn'] at hg
  exact layerBound_zero _ _ n g hg

end QVerif.Genome
