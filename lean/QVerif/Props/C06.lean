import QVerif.Lemmas.RunnerData

/-!
# C06 — batching wrapper: every caller gets exactly the results of its own pubs

Model: `Model/Runner.lean` (transition system of `BatchingMutexPrimitiveJobRunner.run`, any number of threads,
calls and pubs, `f`'s outcome chosen by the environment).  Invariants `CInv` (`Lemmas/RunnerInv.lean`) and `DInv`
(`Lemmas/RunnerData.lean`) are inductive over all reachable states.
-/

namespace Runner

/-- **C06 (own results).** A call that is about to return holds exactly the outcome of ONE logged call of `f`, and
the batch handed to `f` in that call contains this call's pubs, in order, at positions `[idx, idx + n)` — so the
slice the wrapper cuts out (`result[idx : idx + n]`) is the result for the caller's own pubs and for no others. -/
theorem C06_returned_is_own (th0 : List TS) (h0 : ∀ x ∈ th0, x.loc = .idle) {s : St} (hr : Reachable th0 s)
    (t : Nat) (ht : (s.get t).loc = .r) :
    ∃ b o, (b, o) ∈ s.flog ∧ (s.get t).loc_res = some o ∧ sliceOk b (s.get t).pubs (s.get t).idx :=
  returned_is_own th0 h0 hr t ht

/-- **C06 (positional results).** Every logged successful outcome is the positional result list of its batch. -/
theorem C06_log_entries_positional (th0 : List TS) (h0 : ∀ x ∈ th0, x.loc = .idle) {s : St} (hr : Reachable th0 s) :
    ∀ b o, (b, o) ∈ s.flog → o = .ok b ∨ ∃ e, o = .exc e :=
  log_entries_positional th0 h0 hr

/-- consequence: a normally returning call receives, at its slice, exactly its own pubs' results -/
theorem C06_slice_is_own_results (th0 : List TS) (h0 : ∀ x ∈ th0, x.loc = .idle) {s : St} (hr : Reachable th0 s)
    (t : Nat) (ht : (s.get t).loc = .r) (rs : List Nat) (hok : (s.get t).loc_res = some (.ok rs)) :
    (rs.drop (s.get t).idx).take (s.get t).pubs.length = (s.get t).pubs := by
  obtain ⟨b, o, hmem, hres, hslice⟩ := returned_is_own th0 h0 hr t ht
  rw [hok] at hres
  have ho : o = .ok rs := (Option.some.inj hres).symm
  subst ho
  rcases log_entries_positional th0 h0 hr b _ hmem with h | ⟨e, h⟩
  · have : rs = b := by injection h
    subst this; exact hslice
  · cases h

end Runner
