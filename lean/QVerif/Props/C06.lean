import QVerif.Lemmas.RunnerData
import QVerif.Lemmas.RunnerOnce

/-!
# C06 — batching wrapper: every caller gets exactly the results of its own pubs

Model: `Model/Runner.lean` (transition system of `BatchingMutexPrimitiveJobRunner.run`, any number of threads,
calls and pubs, `f`'s outcome chosen by the environment).  Invariants `CInv` (`Lemmas/RunnerInv.lean`) and `DInv`
(`Lemmas/RunnerData.lean`) are inductive over all reachable states.
-/

namespace Runner

/-- **C06 (own results).** A call that is about to return holds exactly the outcome of ONE logged call of `f`, and
the batch handed to `f` in that call contains this call's pubs, in order, at positions `[idx, idx + n)` — so the
slice the wrapper cuts out (`result[idx : idx + n]`) is the result for the caller's own pubs and for no others. -/
theorem C06_returned_is_own (th0 : List TS) (h0 : ∀ x ∈ th0, x.loc = .idle) {s : St} (hr : Reachable th0 s)
    (t : Nat) (ht : (s.get t).loc = .r) :
    ∃ b o, (b, o) ∈ s.flog ∧ (s.get t).loc_res = some o ∧ sliceOk b (s.get t).pubs (s.get t).idx :=
  returned_is_own th0 h0 hr t ht

/-- **C06 (positional results).** Every logged successful outcome is the positional result list of its batch. -/
theorem C06_log_entries_positional (th0 : List TS) (h0 : ∀ x ∈ th0, x.loc = .idle) {s : St} (hr : Reachable th0 s) :
    ∀ b o, (b, o) ∈ s.flog → o = .ok b ∨ ∃ e, o = .exc e :=
  log_entries_positional th0 h0 hr

/-- consequence: a normally returning call receives, at its slice, exactly its own pubs' results -/
theorem C06_slice_is_own_results (th0 : List TS) (h0 : ∀ x ∈ th0, x.loc = .idle) {s : St} (hr : Reachable th0 s)
    (t : Nat) (ht : (s.get t).loc = .r) (rs : List Nat) (hok : (s.get t).loc_res = some (.ok rs)) :
    (rs.drop (s.get t).idx).take (s.get t).pubs.length = (s.get t).pubs := by
  obtain ⟨b, o, hmem, hres, hslice⟩ := returned_is_own th0 h0 hr t ht
  rw [hok] at hres
  have ho : o = .ok rs := (Option.some.inj hres).symm
  subst ho
  rcases log_entries_positional th0 h0 hr b _ hmem with h | ⟨e, h⟩
  · have : rs = b := by injection h
    subst this; exact hslice
  · cases h

/-- all pubs of all calls the threads will ever make -/
def submitted (th0 : List TS) : List Nat := th0.flatMap (fun x => x.todo.flatten)

/-- **C06 (never more than once).** At every moment of every execution, each pub has been handed to `f` at most as often
as it was submitted (for pairwise different pubs: at most once). -/
theorem C06_handed_at_most_once (th0 : List TS) (h0 : ∀ x ∈ th0, x.loc = .idle) {s : St} (hr : Reachable th0 s) (a : Nat) :
    s.handed.count a ≤ (submitted th0).count a := by
  have hp := account_reachable th0 h0 hr
  unfold submitted
  rw [← hp.count_eq a]
  simp only [St.account, List.count_append]
  omega

/-- **C06 (exactly once).** When all calls have returned, the pubs handed to `f` over all its invocations are, as a
multiset, exactly the pubs submitted: every submitted pub was handed to the wrapped primitive exactly once. -/
theorem C06_each_pub_once (th0 : List TS) (h0 : ∀ x ∈ th0, x.loc = .idle) {s : St} (hr : Reachable th0 s)
    (hdone : ∀ t, (s.get t).loc = .idle ∧ (s.get t).todo = []) :
    s.handed.Perm (submitted th0) := by
  have hp := account_reachable th0 h0 hr
  obtain ⟨_, _, _, _, _, _, _, _, hb, hres, hexn⟩ := quiescent_reset th0 h0 hr (fun t => (hdone t).1)
  have hpend : s.th.flatMap TS.pending = [] := by
    rw [List.flatMap_eq_nil_iff]
    intro x hx
    obtain ⟨i, hi, rfl⟩ := List.mem_iff_getElem.mp hx
    have hd := hdone i
    rw [get_eq_getElem s i hi] at hd
    simp [TS.pending, hd.1, hd.2, Loc.preAppend]
  have hopen : s.openBatch = [] := by simp [St.openBatch, hb]
  simpa [St.account, hpend, hopen, submitted] using hp

/-! ### Non-vacuity: a complete execution (two threads, three calls, one batch of two callers) -/

theorem reachable_run (th0 : List TS) : ∀ (acts : List Act) (s s' : St), Reachable th0 s → runActs s acts = some s' → Reachable th0 s'
  | [], s, s', hr, h => by simp only [runActs, Option.some.injEq] at h; exact h ▸ hr
  | a :: t, s, s', hr, h => by
      simp only [runActs] at h
      cases hs : step s a with
      | none => rw [hs] at h; simp at h
      | some s1 => rw [hs] at h; exact reachable_run th0 t s1 s' (Reachable.next a hr hs) h

def exTh : List TS := [{ todo := [[1, 2], [5]] }, { todo := [[3]] }]

/-- thread 0 and thread 1 enter the same batch (thread 1 executes it), then thread 0 makes its second call alone -/
def exActs : List Act :=
  [.step 0, .step 0, .step 0, .step 0, .step 0,            -- t0: idle→a0→a1→a2→a3→a4  (appended [1,2])
   .step 1, .step 1, .step 1, .step 1, .step 1,            -- t1: …                     (appended [3])
   .step 0, .step 0, .step 0, .step 0, .step 0,            -- t0: a4→b0→b1→c0 (not last)→c1→c2 (waits)
   .step 1, .step 1, .step 1, .step 1,                      -- t1: a4→b0→b1→b2→b3 (executor)
   .fret 1 false, .step 1,                                  -- f returns; b4→d0
   .step 1, .step 1, .step 1,                               -- t1: d0→d1 (notify)→d2→g0
   .step 0, .step 0, .step 0, .step 0, .step 0,            -- t0: c2→d0→d1→d2→r→idle
   .step 1, .step 1, .step 1, .step 1, .step 1, .step 1,   -- t1: g0→g4→g5→g6→g7→r→idle
   .step 0, .step 0, .step 0, .step 0, .step 0, .step 0, .step 0, .step 0, .step 0,   -- t0 second call, alone: …→b3
   .fret 0 false,
   .step 0, .step 0, .step 0, .step 0, .step 0, .step 0, .step 0, .step 0, .step 0, .step 0]

example : (match runActs { th := exTh } exActs with
    | some s => decide (((s.get 0).loc = .idle ∧ (s.get 0).todo = [] ∧ (s.get 1).loc = .idle ∧ (s.get 1).todo = []) ∧ s.handed = [1, 2, 3, 5] ∧
                        (s.get 0).outs = [(.ok [1, 2, 3], 0), (.ok [5], 0)] ∧ (s.get 1).outs = [(.ok [1, 2, 3], 2)])
    | none => false) = true := by decide +kernel

end Runner
