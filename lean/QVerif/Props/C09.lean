import QVerif.Lemmas.RunnerLive

/-!
# C09 — a failed job reaches its callers; the wrapper stays usable
-/

namespace Runner

/-- **C09 (delivery).** A call about to return holds the outcome of the one `f` call whose batch contained its pubs:
it raises `e` iff that `f` call raised `e`, and returns normally iff that call returned (`returned_is_own`); callers of
other batches hold the outcomes of *their* `f` calls. -/
theorem C09_failure_reaches_members (th0 : List TS) (h0 : ∀ x ∈ th0, x.loc = .idle) {s : St} (hr : Reachable th0 s)
    (t : Nat) (ht : (s.get t).loc = .r) :
    ∃ b o, (b, o) ∈ s.flog ∧ (s.get t).loc_res = some o ∧ sliceOk b (s.get t).pubs (s.get t).idx :=
  returned_is_own th0 h0 hr t ht

/-- **C09 (reset).** In every quiescent reachable state all shared fields have their initial values, whatever
failed before; so the next batch is served exactly like the first. -/
theorem C09_reset_after_failure (th0 : List TS) (h0 : ∀ x ∈ th0, x.loc = .idle) {s : St} (hr : Reachable th0 s)
    (hq : ∀ t, (s.get t).loc = .idle) :
    s.E = none ∧ s.V = none ∧ s.icw = [] ∧ s.ecw = [] ∧ s.tc = 0 ∧ s.ec = 0 ∧ s.g = 0 ∧ s.blen = 0 ∧ s.batch = [] ∧
    s.result = none ∧ s.exn = none :=
  quiescent_reset th0 h0 hr hq

/-- **C09 (nobody hangs).** `can_always_complete` quantifies over failing outcomes too. -/
theorem C09_no_hang_after_failure (th0 : List TS) (h0 : ∀ x ∈ th0, x.loc = .idle) {s : St} (hr : Reachable th0 s) :
    ∃ s', Run s s' ∧ Quiescent s' :=
  can_always_complete th0 h0 hr

end Runner
