import QVerif.Model.Evqe
import QVerif.Props.C16

/-!
# C10 — evolutionary operators preserve population invariants
-/

namespace QVerif.Evqe
open QVerif.Genome

/-! ## speciation: the species partition the population -/

def flatIdx (ms : List (Indiv × List Nat)) : List Nat := ms.flatMap Prod.snd

/-- keys of a dict are pairwise different for Python (`pyEq`) -/
def KeysDistinct (ms : List (Indiv × List Nat)) : Prop := ms.Pairwise (fun a b => pyEq a.1 b.1 = false)

theorem pyEq_refl (a : Indiv) : pyEq a a = true := by simp [pyEq]
theorem pyEq_symm {a b : Indiv} (h : pyEq a b = true) : pyEq b a = true := by
  simp only [pyEq, beq_iff_eq] at h ⊢; exact h.symm
theorem pyEq_trans {a b c : Indiv} (h1 : pyEq a b = true) (h2 : pyEq b c = true) : pyEq a c = true := by
  simp only [pyEq, beq_iff_eq] at *; exact h1.trans h2

/-- appending to the entry of an existing key adds the index exactly once (as a multiset) -/
theorem flatIdx_appendMember (ms : List (Indiv × List Nat)) (rep : Indiv) (i : Nat) (hk : KeysDistinct ms)
    (hex : ∃ p ∈ ms, pyEq p.1 rep = true) : (flatIdx (appendMember ms rep i)).Perm (i :: flatIdx ms) := by
  induction ms with
  | nil => obtain ⟨p, hp, _⟩ := hex; cases hp
  | cons a t ih =>
    obtain ⟨r, l⟩ := a
    have hk' := List.pairwise_cons.mp hk
    simp only [appendMember, List.map_cons, flatIdx, List.flatMap_cons]
    by_cases h : pyEq r rep = true
    · simp only [h, ↓reduceIte]
      -- no later key matches
      have hnone : t.map (fun (x : Indiv × List Nat) => if pyEq x.1 rep then (x.1, x.2 ++ [i]) else (x.1, x.2)) = t := by
        refine (List.map_congr_left (g := id) ?_).trans (List.map_id _)
        intro x hx
        have := hk'.1 x hx
        have hne : pyEq x.1 rep = false := by
          cases hxr : pyEq x.1 rep with
          | false => rfl
          | true =>
            have := pyEq_trans h (pyEq_symm hxr)
            simp_all
        simp [hne]
      rw [hnone]
      simp only [List.append_assoc]
      refine List.Perm.trans ?_ (List.perm_middle (a := i) (l₁ := l) (l₂ := t.flatMap Prod.snd))
      simp
    · have hf : pyEq r rep = false := by simpa using h
      simp only [hf, Bool.false_eq_true, ↓reduceIte]
      obtain ⟨p, hp, hpr⟩ := hex
      have hp' : p ∈ t := by
        rcases List.mem_cons.mp hp with rfl | hp'
        · simp_all
        · exact hp'
      have := ih hk'.2 ⟨p, hp', hpr⟩
      simp only [appendMember, flatIdx] at this
      refine List.Perm.trans (List.Perm.append_left l this) ?_
      exact List.perm_middle (a := i) (l₁ := l) (l₂ := t.flatMap Prod.snd)

theorem keys_appendMember (ms : List (Indiv × List Nat)) (rep : Indiv) (i : Nat) :
    (appendMember ms rep i).map Prod.fst = ms.map Prod.fst := by
  simp only [appendMember, List.map_map]
  apply List.map_congr_left
  intro a _
  obtain ⟨r, l⟩ := a
  simp only [Function.comp]
  split <;> rfl

theorem keysDistinct_of_keys_eq {a b : List (Indiv × List Nat)} (h : a.map Prod.fst = b.map Prod.fst)
    (hb : KeysDistinct b) : KeysDistinct a := by
  unfold KeysDistinct at *
  have hb' : (b.map Prod.fst).Pairwise (fun x y => pyEq x y = false) := by rw [List.pairwise_map]; exact hb
  rw [← h, List.pairwise_map] at hb'
  exact hb'

/-- adding a fresh key -/
theorem dictSet_fresh {ν} (d : List (Indiv × ν)) (k : Indiv) (v : ν) (h : ∀ p ∈ d, pyEq p.1 k = false) :
    dictSet d k v = d ++ [(k, v)] := by
  unfold dictSet
  have : d.any (fun p => pyEq p.1 k) = false := by
    rw [List.any_eq_false]; intro p hp; simp [h p hp]
  simp [this]

/-- invariant of phase 1: keys and representatives coincide up to `pyEq`, keys are distinct -/
structure P1 (reps : List Indiv) (ms : List (Indiv × List Nat)) : Prop where
  keys : KeysDistinct ms
  repKey : ∀ r ∈ reps, ∃ p ∈ ms, pyEq p.1 r = true
  keyRep : ∀ p ∈ ms, ∃ r ∈ reps, pyEq p.1 r = true

theorem assign_spec (thr : Int) : ∀ (todo : List (Indiv × Nat)) (reps : List Indiv) (ms : List (Indiv × List Nat)),
    P1 reps ms →
    P1 (assign thr todo reps ms).1 (assign thr todo reps ms).2 ∧
    (flatIdx (assign thr todo reps ms).2).Perm (todo.map Prod.snd ++ flatIdx ms)
  | [], reps, ms, h => by simp [assign, h]
  | (x, i) :: rest, reps, ms, h => by
      simp only [assign]
      cases hf : reps.find? (fun r => decide (geneticDistance x r < thr) || pyEq x r) with
      | some r =>
        simp only
        have hr : r ∈ reps := List.mem_of_find?_eq_some hf
        obtain ⟨p, hp, hpr⟩ := h.repKey r hr
        have hperm := flatIdx_appendMember ms r i h.keys ⟨p, hp, hpr⟩
        have hkeys := keys_appendMember ms r i
        have h' : P1 reps (appendMember ms r i) := by
          refine ⟨keysDistinct_of_keys_eq hkeys h.keys, ?_, ?_⟩
          · intro r' hr'
            obtain ⟨q, hq, hqr⟩ := h.repKey r' hr'
            have : q.1 ∈ (appendMember ms r i).map Prod.fst := by rw [hkeys]; exact List.mem_map_of_mem hq
            obtain ⟨q', hq', he⟩ := List.mem_map.mp this
            exact ⟨q', hq', by rw [he]; exact hqr⟩
          · intro q hq
            have : q.1 ∈ ms.map Prod.fst := by rw [← hkeys]; exact List.mem_map_of_mem hq
            obtain ⟨q', hq', he⟩ := List.mem_map.mp this
            obtain ⟨r', hr', hqr⟩ := h.keyRep q' hq'
            exact ⟨r', hr', by rw [← he]; exact hqr⟩
        obtain ⟨g1, g2⟩ := assign_spec thr rest reps (appendMember ms r i) h'
        refine ⟨g1, g2.trans ?_⟩
        simp only [List.map_cons, List.cons_append]
        exact (List.Perm.append_left _ hperm).trans List.perm_middle
      | none =>
        simp only
        have hno : ∀ r ∈ reps, pyEq x r = false := by
          intro r hr
          have := List.find?_eq_none.mp hf r hr
          simp only [Bool.or_eq_true, decide_eq_true_eq, not_or, Bool.not_eq_true] at this
          exact this.2
        have hfresh : ∀ p ∈ ms, pyEq p.1 x = false := by
          intro p hp
          obtain ⟨r, hr, hpr⟩ := h.keyRep p hp
          cases hpx : pyEq p.1 x with
          | false => rfl
          | true =>
            have := pyEq_trans (pyEq_symm hpx) hpr
            have := hno r hr
            simp_all
        rw [dictSet_fresh ms x [i] hfresh]
        have h' : P1 (reps ++ [x]) (ms ++ [(x, [i])]) := by
          refine ⟨?_, ?_, ?_⟩
          · unfold KeysDistinct
            rw [List.pairwise_append]
            refine ⟨h.keys, by simp, ?_⟩
            intro a ha b hb
            simp only [List.mem_singleton] at hb
            subst hb
            exact hfresh a ha
          · intro r hr
            rcases List.mem_append.mp hr with hr | hr
            · obtain ⟨p, hp, hpr⟩ := h.repKey r hr
              exact ⟨p, List.mem_append_left _ hp, hpr⟩
            · simp only [List.mem_singleton] at hr; subst hr
              exact ⟨(r, [i]), by simp, pyEq_refl _⟩
          · intro p hp
            rcases List.mem_append.mp hp with hp | hp
            · obtain ⟨r, hr, hpr⟩ := h.keyRep p hp
              exact ⟨r, List.mem_append_left _ hr, hpr⟩
            · simp only [List.mem_singleton] at hp; subst hp
              exact ⟨x, by simp, pyEq_refl _⟩
        obtain ⟨g1, g2⟩ := assign_spec thr rest (reps ++ [x]) (ms ++ [(x, [i])]) h'
        refine ⟨g1, g2.trans ?_⟩
        simp only [flatIdx, List.flatMap_append, List.flatMap_cons, List.flatMap_nil, List.append_nil, List.map_cons,
          List.cons_append]
        have : ((List.map Prod.snd rest ++ (List.flatMap Prod.snd ms ++ [i]))).Perm
            (i :: (List.map Prod.snd rest ++ List.flatMap Prod.snd ms)) := by
          rw [← List.append_assoc]
          exact List.perm_append_singleton _ _
        exact this

/-- the oracle's `choice(members)` really is a member of the list it was drawn from -/
def ChoicesLegit : List (List Nat) → List Nat → Prop
  | [], _ => True
  | ms :: rest, ch =>
    if ms.length ≤ 0 then ChoicesLegit rest ch
    else match ch with
      | [] => True
      | c :: ch' => c ∈ ms ∧ ChoicesLegit rest ch'

/-- invariant of phase 2 -/
structure P2 (inds : List Indiv) (acc : List (Indiv × List Nat)) : Prop where
  keys : KeysDistinct acc
  repMember : ∀ p ∈ acc, ∃ j ∈ p.2, inds[j]? = some p.1

theorem flatIdx_merge (acc : List (Indiv × List Nat)) (rep : Indiv) (ms : List Nat) (hk : KeysDistinct acc)
    (hex : ∃ p ∈ acc, pyEq p.1 rep = true) :
    (flatIdx (acc.map (fun p => if pyEq p.1 rep then (p.1, p.2 ++ ms) else p))).Perm (flatIdx acc ++ ms) := by
  induction acc with
  | nil => obtain ⟨p, hp, _⟩ := hex; cases hp
  | cons a t ih =>
    obtain ⟨r, l⟩ := a
    have hk' := List.pairwise_cons.mp hk
    simp only [List.map_cons, flatIdx, List.flatMap_cons]
    by_cases h : pyEq r rep = true
    · simp only [h, ↓reduceIte]
      have hnone : t.map (fun (p : Indiv × List Nat) => if pyEq p.1 rep then (p.1, p.2 ++ ms) else p) = t := by
        refine (List.map_congr_left (g := id) ?_).trans (List.map_id _)
        intro x hx
        have := hk'.1 x hx
        have hne : pyEq x.1 rep = false := by
          cases hxr : pyEq x.1 rep with
          | false => rfl
          | true => have := pyEq_trans h (pyEq_symm hxr); simp_all
        simp [hne]
      rw [hnone]
      simp only [List.append_assoc]
      exact List.Perm.append_left l List.perm_append_comm
    · have hf : pyEq r rep = false := by simpa using h
      simp only [hf, Bool.false_eq_true, ↓reduceIte]
      obtain ⟨p, hp, hpr⟩ := hex
      have hp' : p ∈ t := by
        rcases List.mem_cons.mp hp with rfl | hp'
        · simp_all
        · exact hp'
      have := ih hk'.2 ⟨p, hp', hpr⟩
      simp only [flatIdx] at this
      simp only [List.append_assoc]
      exact List.Perm.append_left l this

theorem redraw_spec (inds : List Indiv) : ∀ (lists : List (List Nat)) (ch : List Nat) (acc : List (Indiv × List Nat))
    (res : List (Indiv × List Nat)) (ch' : List Nat),
    P2 inds acc → ChoicesLegit lists ch → (∀ l ∈ lists, ∀ j ∈ l, j < inds.length) →
    redraw inds lists ch acc = .ok (res, ch') →
    P2 inds res ∧ (flatIdx res).Perm (flatIdx acc ++ lists.flatten)
  | [], ch, acc, res, ch', h, _, _, hr => by
      simp only [redraw] at hr; cases hr
      exact ⟨h, by simp⟩
  | ms :: rest, ch, acc, res, ch', h, hc, hb, hr => by
      simp only [redraw] at hr
      simp only [ChoicesLegit] at hc
      split at hr
      · rename_i hempty
        simp only [hempty, ↓reduceIte] at hc
        have hnil : ms = [] := List.eq_nil_of_length_eq_zero (by omega)
        obtain ⟨g1, g2⟩ := redraw_spec inds rest ch acc res ch' h hc (fun l hl => hb l (List.mem_cons_of_mem _ hl)) hr
        exact ⟨g1, by simpa [hnil] using g2⟩
      · rename_i hne
        simp only [hne, ↓reduceIte] at hc
        cases ch with
        | nil => simp at hr
        | cons c chs =>
          simp only at hr hc
          obtain ⟨hcm, hcrest⟩ := hc
          have hclt : c < inds.length := hb ms (by simp) c hcm
          have hget : inds[c]? = some (inds.getD c default) := by
            simp [List.getD_eq_getElem?_getD, List.getElem?_eq_getElem hclt]
          split at hr
          · -- new species
            rename_i hfind
            have hfresh : ∀ p ∈ acc, pyEq p.1 (inds.getD c default) = false := by
              intro p hp
              have := List.find?_eq_none.mp hfind p hp
              simpa using this
            have h' : P2 inds (acc ++ [(inds.getD c default, ms)]) := by
              refine ⟨?_, ?_⟩
              · unfold KeysDistinct
                rw [List.pairwise_append]
                refine ⟨h.keys, by simp, ?_⟩
                intro a ha b hb'
                simp only [List.mem_singleton] at hb'; subst hb'
                exact hfresh a ha
              · intro p hp
                rcases List.mem_append.mp hp with hp | hp
                · exact h.repMember p hp
                · simp only [List.mem_singleton] at hp; subst hp
                  exact ⟨c, hcm, hget⟩
            obtain ⟨g1, g2⟩ := redraw_spec inds rest chs _ res ch' h' hcrest (fun l hl => hb l (List.mem_cons_of_mem _ hl)) hr
            refine ⟨g1, g2.trans ?_⟩
            simp [flatIdx, List.flatMap_append]
          · -- merge into an existing species
            rename_i q hfind
            have hq := List.mem_of_find?_eq_some hfind
            have hqeq : pyEq q.1 (inds.getD c default) = true := by
              have := List.find?_some hfind; simpa using this
            have hkeys : (acc.map (fun p => if pyEq p.1 (inds.getD c default) then (p.1, p.2 ++ ms) else p)).map Prod.fst = acc.map Prod.fst := by
              simp only [List.map_map]
              apply List.map_congr_left
              intro a _; simp only [Function.comp]; split <;> rfl
            have h' : P2 inds (acc.map (fun p => if pyEq p.1 (inds.getD c default) then (p.1, p.2 ++ ms) else p)) := by
              refine ⟨keysDistinct_of_keys_eq hkeys h.keys, ?_⟩
              intro p hp
              simp only [List.mem_map] at hp
              obtain ⟨p0, hp0, rfl⟩ := hp
              obtain ⟨j, hj, hjj⟩ := h.repMember p0 hp0
              split
              · exact ⟨j, List.mem_append_left _ hj, hjj⟩
              · exact ⟨j, hj, hjj⟩
            obtain ⟨g1, g2⟩ := redraw_spec inds rest chs _ res ch' h' hcrest (fun l hl => hb l (List.mem_cons_of_mem _ hl)) hr
            refine ⟨g1, g2.trans ?_⟩
            have := flatIdx_merge acc (inds.getD c default) ms h.keys ⟨q, hq, hqeq⟩
            simp only [List.flatten_cons]
            rw [← List.append_assoc]
            exact List.Perm.append_right _ this

end QVerif.Evqe

namespace QVerif.Evqe
open QVerif.Genome

theorem dictSet_nil_spec (done : List Indiv) (d : List (Indiv × List Nat)) (r : Indiv) (h : P1 done d)
    (hempty : flatIdx d = []) : P1 (done ++ [r]) (dictSet d r []) ∧ flatIdx (dictSet d r []) = [] := by
  by_cases hany : ∃ p ∈ d, pyEq p.1 r = true
  · have hmap : dictSet d r [] = d.map (fun p => if pyEq p.1 r then (p.1, ([] : List Nat)) else p) := by
      unfold dictSet
      have : d.any (fun p => pyEq p.1 r) = true := by
        rw [List.any_eq_true]; obtain ⟨p, hp, hpr⟩ := hany; exact ⟨p, hp, hpr⟩
      simp [this]
    have hkeys : (dictSet d r []).map Prod.fst = d.map Prod.fst := by
      rw [hmap, List.map_map]
      apply List.map_congr_left
      intro a _; simp only [Function.comp]; split <;> rfl
    refine ⟨⟨keysDistinct_of_keys_eq hkeys h.keys, ?_, ?_⟩, ?_⟩
    · intro r' hr'
      have hsrc : ∃ q ∈ d, pyEq q.1 r' = true := by
        rcases List.mem_append.mp hr' with hr' | hr'
        · exact h.repKey r' hr'
        · simp only [List.mem_singleton] at hr'; subst hr'; exact hany
      obtain ⟨q, hq, hqr⟩ := hsrc
      have : q.1 ∈ (dictSet d r []).map Prod.fst := by rw [hkeys]; exact List.mem_map_of_mem hq
      obtain ⟨q', hq', he⟩ := List.mem_map.mp this
      exact ⟨q', hq', by rw [he]; exact hqr⟩
    · intro q hq
      have : q.1 ∈ d.map Prod.fst := by rw [← hkeys]; exact List.mem_map_of_mem hq
      obtain ⟨q', hq', he⟩ := List.mem_map.mp this
      obtain ⟨r', hr', hqr⟩ := h.keyRep q' hq'
      exact ⟨r', List.mem_append_left _ hr', by rw [← he]; exact hqr⟩
    · rw [hmap]
      unfold flatIdx at *
      rw [List.flatMap_eq_nil_iff] at hempty ⊢
      intro p hp
      simp only [List.mem_map] at hp
      obtain ⟨p0, hp0, rfl⟩ := hp
      split
      · rfl
      · exact hempty p0 hp0
  · have hfresh : ∀ p ∈ d, pyEq p.1 r = false := by
      intro p hp
      cases hpr : pyEq p.1 r with
      | false => rfl
      | true => exact absurd ⟨p, hp, hpr⟩ hany
    rw [dictSet_fresh d r [] hfresh]
    refine ⟨⟨?_, ?_, ?_⟩, ?_⟩
    · unfold KeysDistinct
      rw [List.pairwise_append]
      refine ⟨h.keys, by simp, ?_⟩
      intro a ha b hb
      simp only [List.mem_singleton] at hb; subst hb
      exact hfresh a ha
    · intro r' hr'
      rcases List.mem_append.mp hr' with hr' | hr'
      · obtain ⟨p, hp, hpr⟩ := h.repKey r' hr'
        exact ⟨p, List.mem_append_left _ hp, hpr⟩
      · simp only [List.mem_singleton] at hr'; subst hr'
        exact ⟨(r', []), by simp, pyEq_refl _⟩
    · intro p hp
      rcases List.mem_append.mp hp with hp | hp
      · obtain ⟨r', hr', hpr⟩ := h.keyRep p hp
        exact ⟨r', List.mem_append_left _ hr', hpr⟩
      · simp only [List.mem_singleton] at hp; subst hp
        exact ⟨r, by simp, pyEq_refl _⟩
    · simp [flatIdx, List.flatMap_append] at hempty ⊢; exact hempty

theorem init_dict_spec : ∀ (todo done : List Indiv) (d : List (Indiv × List Nat)), P1 done d → flatIdx d = [] →
    P1 (done ++ todo) (todo.foldl (fun d r => dictSet d r []) d) ∧ flatIdx (todo.foldl (fun d r => dictSet d r []) d) = []
  | [], done, d, h, he => by simpa using ⟨h, he⟩
  | r :: rest, done, d, h, he => by
      obtain ⟨h1, h2⟩ := dictSet_nil_spec done d r h he
      have := init_dict_spec rest (done ++ [r]) (dictSet d r []) h1 h2
      simpa [List.append_assoc] using this

/-- the oracle's choices are members of the lists they are drawn from (what `random.choice` guarantees) -/
def LegitFor (thr : Int) (pop : Pop) (choices : List Nat) : Prop :=
  ChoicesLegit ((phase1 thr pop).map Prod.snd) choices

theorem zipIdx_map_snd_range {α} (l : List α) : l.zipIdx.map Prod.snd = List.range l.length := by
  rw [List.zipIdx_map_snd, List.range_eq_range']

theorem phase1_spec (thr : Int) (pop : Pop) :
    KeysDistinct (phase1 thr pop) ∧ (flatIdx (phase1 thr pop)).Perm (List.range pop.inds.length) := by
  unfold phase1 initDict
  obtain ⟨hP1, hE⟩ := init_dict_spec (reps0Of pop) [] [] ⟨List.Pairwise.nil, by simp, by simp⟩ rfl
  simp only [List.nil_append] at hP1
  obtain ⟨hA1, hA2⟩ := assign_spec thr pop.inds.zipIdx (reps0Of pop) _ hP1
  rw [hE, List.append_nil, zipIdx_map_snd_range] at hA2
  exact ⟨hA1.keys, hA2⟩

/-- **After speciation the species partition the population**: the individuals are unchanged; every index occurs in
exactly one member list (the member lists together are a permutation of `0 … n−1`); every representative is
`individuals[j]` for some `j` of its own member list; the representative list is the key list of the member map and
the membership map is exactly its inverse; no two species have Python-equal representatives. -/
theorem speciation_partition (thr : Int) (choices : List Nat) (pop p' : Pop) (rest : List Nat)
    (h : speciate thr choices pop = .ok (p', rest)) (hleg : LegitFor thr pop choices) :
    p'.inds = pop.inds ∧ ∃ ms, p'.members = some ms ∧ p'.reps = some (ms.map Prod.fst) ∧
      p'.membership = some (ms.flatMap (fun (r, l) => l.map (fun m => (m, r)))) ∧
      KeysDistinct ms ∧ (flatIdx ms).Perm (List.range pop.inds.length) ∧
      ∀ p ∈ ms, ∃ j ∈ p.2, pop.inds[j]? = some p.1 := by
  unfold speciate at h
  unfold LegitFor at hleg
  obtain ⟨_, hA2⟩ := phase1_spec thr pop
  generalize phase1 thr pop = ms at h hleg hA2
  cases hr : redraw pop.inds (ms.map Prod.snd) choices [] with
  | error e => rw [hr] at h; cases h
  | ok v =>
    obtain ⟨newMs, ch⟩ := v
    rw [hr] at h
    simp only [Except.ok.injEq, Prod.mk.injEq] at h
    obtain ⟨rfl, _⟩ := h
    have hbound : ∀ l ∈ ms.map Prod.snd, ∀ j ∈ l, j < pop.inds.length := by
      intro l hl j hj
      have : j ∈ flatIdx ms := by
        simp only [flatIdx, List.mem_flatMap]
        obtain ⟨p, hp, rfl⟩ := List.mem_map.mp hl
        exact ⟨p, hp, hj⟩
      have := hA2.mem_iff.mp this
      simpa using this
    obtain ⟨g1, g2⟩ := redraw_spec pop.inds (ms.map Prod.snd) choices [] newMs ch
      ⟨List.Pairwise.nil, by simp⟩ hleg hbound hr
    refine ⟨rfl, newMs, rfl, rfl, rfl, g1.keys, ?_, g1.repMember⟩
    have : (ms.map Prod.snd).flatten = flatIdx ms := by simp [flatIdx, List.flatMap]
    simp only [flatIdx, List.flatMap_nil, List.nil_append] at g2
    rw [this] at g2
    exact g2.trans hA2

/-! ## selection -/

theorem argminFrom_spec : ∀ (l : List Rat) (i bi : Nat) (bv : Rat), bi < i →
    (argminFrom l i bi bv = bi ∨ (i ≤ argminFrom l i bi bv ∧ argminFrom l i bi bv < i + l.length))
  | [], _, _, _, _ => Or.inl rfl
  | v :: t, i, bi, bv, h => by
      simp only [argminFrom]
      split
      · rcases argminFrom_spec t (i + 1) i v (by omega) with h1 | h1
        · right; rw [h1]; simp only [List.length_cons]; omega
        · right; simp only [List.length_cons]; omega
      · rcases argminFrom_spec t (i + 1) bi bv (by omega) with h1 | h1
        · left; exact h1
        · right; simp only [List.length_cons]; omega

theorem argmin_lt (l : List Rat) (h : l ≠ []) : argmin l < l.length := by
  cases l with
  | nil => exact absurd rfl h
  | cons v t =>
    simp only [argmin, List.length_cons]
    rcases argminFrom_spec t 1 0 v (by omega) with h1 | h1 <;> omega

/-- **Selection**: reports one evaluation per individual; without species information it raises after that; otherwise
it reports exactly one evaluation result — for the population it was given, with the expectation value at index `i`
being the evaluator's value for individual `i` (results are collected positionally, whatever the completion order)
and the best entry their first minimum — and returns only individuals of its input, keeping the representatives. -/
theorem selection_spec (alpha beta : Rat) (mode : SelMode) (evals : List Rat) (pop : Pop) :
    ((pop.reps.isNone || pop.members.isNone || pop.membership.isNone) = true →
        (select alpha beta mode evals pop).1 = .error .selectionWithoutSpeciation ∧
        (select alpha beta mode evals pop).2 = [Event.count pop.inds.length]) ∧
    ((pop.reps.isNone || pop.members.isNone || pop.membership.isNone) = false →
        (select alpha beta mode evals pop).2 = [Event.count pop.inds.length, Event.result pop evals (argmin evals)] ∧
        ∃ p', (select alpha beta mode evals pop).1 = .ok p' ∧ p'.reps = pop.reps ∧ p'.members = none ∧ p'.membership = none ∧
          ∀ x ∈ p'.inds, x ∈ pop.inds ∨ x = default) := by
  constructor
  · intro hs
    unfold select
    simp only [hs, ↓reduceIte, and_self]
  · intro hs
    unfold select
    simp only [hs, Bool.false_eq_true, ↓reduceIte, List.cons_append, List.nil_append, true_and]
    refine ⟨_, rfl, rfl, rfl, rfl, ?_⟩
    intro x hx
    cases mode with
    | roulette sel =>
      simp only [List.mem_map] at hx
      obtain ⟨i, _, rfl⟩ := hx
      by_cases hi : i < pop.inds.length
      · left; simp [List.getD_eq_getElem?_getD, List.getElem?_eq_getElem hi]
      · right; simp [List.getD_eq_getElem?_getD, List.getElem?_eq_none (by omega : pop.inds.length ≤ i)]
    | tournament draws =>
      simp only [List.mem_filterMap, Option.map_eq_some_iff] at hx
      obtain ⟨d, _, i, _, rfl⟩ := hx
      by_cases hi : i < pop.inds.length
      · left; simp [List.getD_eq_getElem?_getD, List.getElem?_eq_getElem hi]
      · right; simp [List.getD_eq_getElem?_getD, List.getElem?_eq_none (by omega : pop.inds.length ≤ i)]

/-- roulette selection with `k = n` draws keeps the population size -/
theorem selection_size_roulette (alpha beta : Rat) (sel : List Nat) (evals : List Rat) (pop p' : Pop)
    (hlen : sel.length = pop.inds.length) (h : (select alpha beta (.roulette sel) evals pop).1 = .ok p') :
    p'.inds.length = pop.inds.length := by
  unfold select at h
  simp only at h
  split at h
  · cases h
  · simp only [Except.ok.injEq] at h
    subst h
    simp [hlen]

/-! ## mutation -/

theorem optimizeLayer_keeps_structure (x y : Indiv) (l : Int) (vals : List Val) (nfev n : Nat)
    (h : optimizeLayer x l vals nfev = .ok (y, n)) : y.nQubits = x.nQubits ∧ y.layers = x.layers ∧
      (x.isValid = true → y.isValid = true) := by
  unfold optimizeLayer at h
  simp only at h
  split at h
  · cases h; exact ⟨rfl, rfl, id⟩
  · split at h
    · cases h
    · rename_i y' hy
      cases h
      unfold changeLayerParameterValues at hy
      simp only at hy
      split at hy
      · cases hy
      · obtain ⟨rfl, hv⟩ := mkIndiv_ok hy
        exact ⟨rfl, rfl, fun _ => hv⟩

/-- **what each mutation does to one individual**: parameter search keeps the structure; topological search appends
exactly one layer and keeps all layers and values as a prefix; layer removal leaves single-layer individuals
unchanged and otherwise drops a non-empty proper suffix of layers; valid individuals stay valid. -/
theorem applyMutStep_spec (x y : Indiv) (n : Nat) (st : MutStep) (h : applyMutStep x st = .ok (y, n)) :
    (x.isValid = true → y.isValid = true) ∧ y.nQubits = x.nQubits ∧
    (match st with
     | .optimizeLayers _ => y.layers = x.layers
     | .addLayer _ => ∃ l, y.layers = x.layers ++ [l] ∧ ∃ zs, y.values = x.values ++ zs
     | .removeLayers k => (x.layers.length = 1 ∧ y = x) ∨
         (1 ≤ k ∧ k < x.layers.length ∧ y.layers = x.layers.take (x.layers.length - k))) := by
  cases st with
  | optimizeLayers steps =>
    simp only [applyMutStep] at h
    have key : ∀ (steps : List (Int × List Val × Nat)) (x0 : Indiv) (n0 : Nat) (y : Indiv) (n : Nat),
        steps.foldl (fun acc (s : Int × List Val × Nat) =>
          match acc with
          | .error e => .error e
          | .ok (y, n) =>
            match optimizeLayer y s.1 s.2.1 s.2.2 with
            | .error e => .error e
            | .ok (z, m) => .ok (z, n + m)) (Except.ok (x0, n0) : Except Genome.Err (Indiv × Nat)) = .ok (y, n) →
        (x0.isValid = true → y.isValid = true) ∧ y.nQubits = x0.nQubits ∧ y.layers = x0.layers := by
      intro steps
      induction steps with
      | nil => intro x0 n0 y n h; simp only [List.foldl_nil, Except.ok.injEq, Prod.mk.injEq] at h; obtain ⟨rfl, _⟩ := h; exact ⟨id, rfl, rfl⟩
      | cons s t ih =>
        intro x0 n0 y n h
        simp only [List.foldl_cons] at h
        cases ho : optimizeLayer x0 s.1 s.2.1 s.2.2 with
        | error e =>
          simp only [ho] at h
          have : ∀ (t : List (Int × List Val × Nat)), t.foldl (fun acc (s : Int × List Val × Nat) =>
              match acc with
              | .error e => .error e
              | .ok (y, n) =>
                match optimizeLayer y s.1 s.2.1 s.2.2 with
                | .error e => .error e
                | .ok (z, m) => .ok (z, n + m)) (Except.error e : Except Genome.Err (Indiv × Nat)) = .error e := by
            intro t; induction t with
            | nil => rfl
            | cons _ _ ih2 => simp only [List.foldl_cons]; exact ih2
          rw [this] at h; cases h
        | ok v =>
          obtain ⟨z, m⟩ := v
          simp only [ho] at h
          obtain ⟨a1, a2, a3⟩ := optimizeLayer_keeps_structure x0 z s.1 s.2.1 s.2.2 m ho
          obtain ⟨b1, b2, b3⟩ := ih z (n0 + m) y n h
          exact ⟨fun hv => b1 (a3 hv), by rw [b2, a1], by rw [b3, a2]⟩
    obtain ⟨k1, k2, k3⟩ := key steps x 0 y n h
    exact ⟨k1, k2, k3⟩
  | addLayer o =>
    simp only [applyMutStep] at h
    split at h
    · cases h
    · rename_i y' hy
      cases h
      obtain ⟨ls, hlen, _, hn, hl, hv⟩ := add_prefix x y 1 o _ hy
      refine ⟨fun _ => (results_valid x y).2.2.2 1 o _ hy, hn, ?_⟩
      simp only
      have : ls.length = 1 := by simpa using hlen
      match ls, this with
      | [l], _ => exact ⟨l, hl, _, hv⟩
  | removeLayers k =>
    simp only [applyMutStep] at h
    split at h
    · rename_i h1; cases h; exact ⟨id, rfl, Or.inl ⟨h1, rfl⟩⟩
    · split at h
      · cases h
      · rename_i y' hy
        cases h
        refine ⟨fun _ => (results_valid x y).2.2.1 k hy, ?_, ?_⟩
        · unfold removeLayers at hy
          split at hy
          · cases hy
          · split at hy
            · cases hy
            · exact ((mkIndiv_ok hy).1 ▸ rfl)
        · simp only
          right
          unfold removeLayers at hy
          split at hy
          · cases hy
          · rename_i hk0
            split at hy
            · cases hy
            · rename_i hk1
              obtain ⟨rfl, _⟩ := mkIndiv_ok hy
              refine ⟨by omega, by omega, ?_⟩
              simp

/-- **mutation keeps the population size, reports one evaluation count and changes each individual only as its
step documents** (individuals without a step are passed on unchanged) -/
theorem mutateFrom_spec : ∀ (inds : List Indiv) (plan : List (Option MutStep)) (out : List Indiv) (n : Nat),
    mutateFrom inds plan = .ok (out, n) →
    out.length = inds.length ∧
    ∀ i (h1 : i < inds.length) (h2 : i < out.length),
      (plan.getD i none = none → out[i] = inds[i]) ∧
      (∀ st, plan.getD i none = some st → ∃ m, applyMutStep inds[i] st = .ok (out[i], m))
  | [], plan, out, n, h => by
      simp only [mutateFrom, Except.ok.injEq, Prod.mk.injEq] at h
      obtain ⟨rfl, _⟩ := h
      exact ⟨rfl, fun i h1 => by simp at h1⟩
  | x :: rest, [], out, n, h => by
      simp only [mutateFrom] at h
      cases hrec : mutateFrom rest [] with
      | error e => rw [hrec] at h; cases h
      | ok v =>
        obtain ⟨l, m⟩ := v
        rw [hrec] at h
        simp only [Except.ok.injEq, Prod.mk.injEq] at h
        obtain ⟨rfl, rfl⟩ := h
        obtain ⟨g1, g2⟩ := mutateFrom_spec rest [] l m hrec
        refine ⟨by simp [g1], ?_⟩
        intro i h1 h2
        cases i with
        | zero => simp
        | succ j =>
          have := g2 j (by simpa using h1) (by simpa using h2)
          simpa using this
  | x :: rest, none :: plan, out, n, h => by
      simp only [mutateFrom] at h
      cases hrec : mutateFrom rest plan with
      | error e => rw [hrec] at h; cases h
      | ok v =>
        obtain ⟨l, m⟩ := v
        rw [hrec] at h
        simp only [Except.ok.injEq, Prod.mk.injEq] at h
        obtain ⟨rfl, rfl⟩ := h
        obtain ⟨g1, g2⟩ := mutateFrom_spec rest plan l m hrec
        refine ⟨by simp [g1], ?_⟩
        intro i h1 h2
        cases i with
        | zero => simp
        | succ j =>
          have := g2 j (by simpa using h1) (by simpa using h2)
          simpa using this
  | x :: rest, some st :: plan, out, n, h => by
      simp only [mutateFrom] at h
      cases hy : applyMutStep x st with
      | error e => rw [hy] at h; cases h
      | ok v0 =>
        obtain ⟨y, m0⟩ := v0
        rw [hy] at h
        simp only at h
        cases hrec : mutateFrom rest plan with
        | error e => rw [hrec] at h; cases h
        | ok v =>
          obtain ⟨l, m⟩ := v
          rw [hrec] at h
          simp only [Except.ok.injEq, Prod.mk.injEq] at h
          obtain ⟨rfl, rfl⟩ := h
          obtain ⟨g1, g2⟩ := mutateFrom_spec rest plan l m hrec
          refine ⟨by simp [g1], ?_⟩
          intro i h1 h2
          cases i with
          | zero => simp; exact ⟨m0, hy⟩
          | succ j =>
            have := g2 j (by simpa using h1) (by simpa using h2)
            simpa using this

theorem mutation_spec (plan : List (Option MutStep)) (pop p' : Pop) (evs : List Event)
    (h : mutate plan pop = (.ok p', evs)) :
    p'.inds.length = pop.inds.length ∧ p'.reps = pop.reps ∧ p'.members = none ∧ p'.membership = none ∧
    ∃ n, evs = [Event.count n] := by
  unfold mutate at h
  split at h
  · simp at h
  · rename_i l n hm
    simp only [Prod.mk.injEq, Except.ok.injEq] at h
    obtain ⟨rfl, rfl⟩ := h
    exact ⟨(mutateFrom_spec _ _ _ _ hm).1, rfl, rfl, rfl, n, rfl⟩

/-! ## Non-vacuity -/

def exA : Indiv := ⟨2, [⟨2, [.crot 0 1, .ctrl 1 0]⟩], [1, 2, 3]⟩
def exB : Indiv := ⟨2, [⟨2, [.ctrl 0 1, .crot 1 0]⟩], [1, 2, 3]⟩   -- the mirror image: Python-equal to exA
def exC : Indiv := ⟨2, [⟨2, [.rot 0, .rot 1]⟩], [0, 0, 0, 0, 0, 0]⟩
def exPop : Pop := ⟨[exA, exC, exB, exA], none, none, none⟩

example : pyEq exA exB = true ∧ (exA == exB) = false := by decide
-- threshold 0: only Python-equal individuals share a species; exA, exB, exA end up together
example : (speciate 0 [0, 1] exPop).toOption.map (fun r => r.1.members.map (fun m => m.map Prod.snd)) =
    some (some [[0, 2, 3], [1]]) := by decide +kernel

end QVerif.Evqe
