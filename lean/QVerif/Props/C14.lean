import QVerif.Lemmas.Cvar

/-!
# C14 — expectation and CVaR aggregation match their definition

`CVaR_α(d)` is defined independently of the code as the minimum, over all ways `q` of picking mass `α` out of
the distribution (`0 ≤ qᵢ ≤ pᵢ`, `Σ qᵢ = α`), of `Σ qᵢ·vᵢ / α` — "the mean of the objective over the lowest-valued
α fraction of the probability mass".  `IsFillValue l α x` says `x = Σ qᵢ·vᵢ` for such a `q`; it does not depend on
the order of `l` (`isFillValue_perm`).
-/

namespace QVerif.Cvar

/-- **The exact aggregation is the definition.** For a distribution with non-negative probabilities and
`0 ≤ α ≤ total mass`, the greedy fill of the value-sorted distribution (a) is a feasible way of picking mass `α`
and (b) is no more expensive than any other — so `cvarExact l α` is the minimum the definition asks for, whatever
the dict order and however ties are ordered. -/
theorem cvar_is_min (l : Dist) (alpha : Rat) (hn : NonnegProbs l) (h0 : 0 ≤ alpha) (h1 : alpha ≤ mass l) :
    IsFillValue l alpha (greedy (sortByValue l) alpha) ∧
    ∀ x, IsFillValue l alpha x → greedy (sortByValue l) alpha ≤ x := by
  have hperm := sortByValue_perm l
  have hn' : NonnegProbs (sortByValue l) := nonneg_perm hperm.symm hn
  have hm' : mass (sortByValue l) = mass l := mass_perm hperm
  constructor
  · apply isFillValue_perm hperm
    exact ⟨greedyFill (sortByValue l) alpha, greedyFill_feas _ _ hn' h0,
      greedyFill_sum _ _ hn' h0 (by rw [hm']; exact h1), greedyFill_val _ _⟩
  · intro x hx
    obtain ⟨qs, hf, hs, hv⟩ := isFillValue_perm hperm.symm alpha x hx
    have := greedy_le_fill (sortByValue l) qs (sortByValue_sorted l hn) hf
    rw [hs, hv] at this
    exact this

/-- tie order and dict order are irrelevant: any value-sorted arrangement of the same outcomes gives the
same exact aggregate -/
theorem cvar_order_irrelevant (l l' : Dist) (alpha : Rat) (hp : l.Perm l') (hn : NonnegProbs l)
    (h0 : 0 ≤ alpha) (h1 : alpha ≤ mass l) :
    greedy (sortByValue l') alpha = greedy (sortByValue l) alpha := by
  have hn' := nonneg_perm hp hn
  have hm : mass l' = mass l := (mass_perm hp).symm
  obtain ⟨a1, a2⟩ := cvar_is_min l alpha hn h0 h1
  obtain ⟨b1, b2⟩ := cvar_is_min l' alpha hn' h0 (by rw [hm]; exact h1)
  have h12 := a2 _ (isFillValue_perm hp.symm _ _ b1)
  have h21 := b2 _ (isFillValue_perm hp _ _ a1)
  grind

/-- `α = 1` (the whole mass): the plain expectation -/
theorem cvar_one (l : Dist) (hn : NonnegProbs l) (hmass : mass l = 1) :
    cvarExact l 1 = plainExpectation l := by
  unfold cvarExact
  have hperm := sortByValue_perm l
  rw [greedy_full _ 1 (nonneg_perm hperm.symm hn) (by rw [mass_perm hperm, hmass]; grind),
    plainExpectation_perm hperm]
  grind

/-- the aggregate is non-decreasing in `α` -/
theorem cvar_mono (l : Dist) (alpha beta : Rat) (hn : NonnegProbs l) (h0 : 0 < alpha) (hab : alpha ≤ beta)
    (h1 : beta ≤ mass l) : cvarExact l alpha ≤ cvarExact l beta := by
  unfold cvarExact
  have hb0 : 0 < beta := by grind
  obtain ⟨⟨qs, hf, hs, hv⟩, _⟩ := cvar_is_min l beta hn (by grind) h1
  obtain ⟨_, hmin⟩ := cvar_is_min l alpha hn (by grind) (by grind)
  -- scale the optimal fill for β down to mass α
  let c := alpha / beta
  have hbne : beta ≠ 0 := by grind
  have hc0 : 0 ≤ c := by
    show 0 ≤ alpha / beta
    rw [Rat.div_def]
    exact Rat.mul_nonneg (by grind) (by have := Rat.inv_pos.mpr hb0; grind)
  have hcb : c * beta = alpha := by
    show alpha / beta * beta = alpha
    rw [Rat.div_mul_cancel hbne]
  have hc1 : c ≤ 1 := by
    by_cases hle : c ≤ 1
    · exact hle
    · exfalso
      have : 1 * beta < c * beta := Rat.mul_lt_mul_of_pos_right (by grind) hb0
      grind
  have hx : IsFillValue l alpha (c * greedy (sortByValue l) beta) :=
    ⟨qs.map (c * ·), feas_scale c hc0 hc1 l qs hf, by rw [qsum_scale, hs, hcb], by rw [fillVal_scale, hv]⟩
  have hle := hmin _ hx
  -- greedy α ≤ (α/β)·greedy β  ⇒  greedy α / α ≤ greedy β / β
  have hane : alpha ≠ 0 := by grind
  have e1 : c * greedy (sortByValue l) beta / alpha = greedy (sortByValue l) beta / beta := by
    show alpha / beta * greedy (sortByValue l) beta / alpha = greedy (sortByValue l) beta / beta
    rw [Rat.div_def, Rat.div_def, Rat.div_def]
    have := Rat.mul_inv_cancel alpha hane
    grind
  rw [← e1]
  rw [Rat.div_def, Rat.div_def]
  exact Rat.mul_le_mul_of_nonneg_right hle (by
    have := Rat.inv_pos.mpr h0
    grind)

/-- lower bound: never below the smallest sampled objective value -/
theorem cvar_ge_min (l : Dist) (alpha m : Rat) (hn : NonnegProbs l) (h0 : 0 < alpha) (h1 : alpha ≤ mass l)
    (hm : ∀ x ∈ l, m ≤ x.2) : m ≤ cvarExact l alpha := by
  unfold cvarExact
  obtain ⟨⟨qs, hf, hs, hv⟩, _⟩ := cvar_is_min l alpha hn (by grind) h1
  have := fillVal_ge m l qs hm hf
  rw [hs, hv] at this
  have hane : alpha ≠ 0 := by grind
  have hinv := Rat.inv_pos.mpr h0
  have h2 : alpha * m * alpha⁻¹ ≤ greedy (sortByValue l) alpha * alpha⁻¹ :=
    Rat.mul_le_mul_of_nonneg_right this (by grind)
  have h3 : alpha * m * alpha⁻¹ = m := by
    have := Rat.mul_inv_cancel alpha hane
    grind
  rw [Rat.div_def]
  grind

/-- upper bound: never above the plain expectation -/
theorem cvar_le_expectation (l : Dist) (alpha : Rat) (hn : NonnegProbs l) (hmass : mass l = 1)
    (h0 : 0 < alpha) (h1 : alpha ≤ 1) : cvarExact l alpha ≤ plainExpectation l := by
  rw [← cvar_one l hn hmass]
  exact cvar_mono l alpha 1 hn h0 h1 (by rw [hmass]; grind)

/-! ## the code's loop versus the exact greedy fill -/

theorem rabs_nonneg (x : Rat) : 0 ≤ rabs x := by unfold rabs; split <;> grind

theorem rabs_add_le (x y : Rat) : rabs (x + y) ≤ rabs x + rabs y := by
  unfold rabs; split <;> split <;> split <;> grind

theorem rabs_neg (x : Rat) : rabs (-x) = rabs x := by unfold rabs; split <;> split <;> grind

theorem rabs_mul_nonneg (q v : Rat) (hq : 0 ≤ q) : rabs (q * v) = q * rabs v := by
  by_cases hv : v < 0
  · have h1 : 0 ≤ q * (-v) := Rat.mul_nonneg hq (by grind)
    rw [Rat.mul_neg] at h1
    unfold rabs
    simp only [hv, ↓reduceIte]
    split
    · rw [Rat.mul_neg]
    · rw [Rat.mul_neg]; grind
  · have h1 : 0 ≤ q * v := Rat.mul_nonneg hq (by grind)
    unfold rabs
    simp only [hv, ↓reduceIte]
    split <;> grind

theorem tol_nonneg (alpha : Rat) : 0 ≤ atol + rtol * rabs alpha := by
  have h1 : (0 : Rat) ≤ atol := by decide +kernel
  have h2 : (0 : Rat) ≤ rtol := by decide +kernel
  have := Rat.mul_nonneg h2 (rabs_nonneg alpha)
  grind

theorem greedy_abs_le (M : Rat) : ∀ (l : Dist) (a : Rat), NonnegProbs l → (∀ x ∈ l, rabs x.2 ≤ M) → 0 ≤ a →
    0 ≤ M → rabs (greedy l a) ≤ a * M
  | [], a, _, _, ha, hM0 => by
      have := Rat.mul_nonneg ha hM0
      simp only [greedy]
      have : rabs 0 = 0 := by unfold rabs; split <;> grind
      grind
  | (p, v) :: t, a, hn, hM, ha, hM0 => by
      have hp : 0 ≤ p := hn (p, v) (by simp)
      have hv : rabs v ≤ M := hM (p, v) (by simp)
      have ih := greedy_abs_le M t (a - min a p) (fun x hx => hn x (List.mem_cons_of_mem _ hx))
        (fun x hx => hM x (List.mem_cons_of_mem _ hx)) (by grind) hM0
      simp only [greedy]
      have hq0 : 0 ≤ min a p := by grind
      have h1 : rabs (min a p * v) ≤ min a p * M := by
        rw [rabs_mul_nonneg _ _ hq0]
        exact Rat.mul_le_mul_of_nonneg_left hv hq0
      have h2 := rabs_add_le (min a p * v) (greedy t (a - min a p))
      grind

/-- **The loop with its early exit stays within the `isclose` tolerance of the exact fill.** -/
theorem loop_close_to_greedy (alpha M : Rat) (hM : 0 ≤ M) : ∀ (l : Dist) (g e : Rat), NonnegProbs l →
    (∀ x ∈ l, rabs x.2 ≤ M) → g ≤ alpha →
    rabs (loop alpha l g e - (e + greedy l (alpha - g))) ≤ (atol + rtol * rabs alpha) * M
  | [], g, e, _, _, _ => by
      have htol : 0 ≤ (atol + rtol * rabs alpha) * M := Rat.mul_nonneg (tol_nonneg alpha) hM
      simp only [loop, greedy]
      have : e - (e + 0) = 0 := by grind
      rw [this]
      have : rabs 0 = 0 := by unfold rabs; split <;> grind
      grind
  | (p, v) :: t, g, e, hn, hv, hg => by
      have hp : 0 ≤ p := hn (p, v) (by simp)
      have hnt : NonnegProbs t := fun x hx => hn x (List.mem_cons_of_mem _ hx)
      have hvt : ∀ x ∈ t, rabs x.2 ≤ M := fun x hx => hv x (List.mem_cons_of_mem _ hx)
      simp only [loop, greedy]
      have hq : min (alpha - g) p ≤ alpha - g := by grind
      split
      · rename_i hc
        simp only [isclose, decide_eq_true_eq] at hc
        -- remaining mass r = alpha - g' is within the tolerance; the skipped greedy part is ≤ r·M
        have hr0 : 0 ≤ alpha - g - min (alpha - g) p := by grind
        have hb := greedy_abs_le M t (alpha - g - min (alpha - g) p) hnt hvt hr0 hM
        have hr : alpha - g - min (alpha - g) p ≤ atol + rtol * rabs alpha := by
          have : rabs (g + min (alpha - g) p - alpha) = alpha - g - min (alpha - g) p := by
            unfold rabs; split <;> grind
          grind
        have hmul : (alpha - g - min (alpha - g) p) * M ≤ (atol + rtol * rabs alpha) * M :=
          Rat.mul_le_mul_of_nonneg_right hr hM
        have e1 : e + min (alpha - g) p * v - (e + (min (alpha - g) p * v + greedy t (alpha - g - min (alpha - g) p)))
            = - greedy t (alpha - g - min (alpha - g) p) := by grind
        rw [e1, rabs_neg]
        grind
      · have ih := loop_close_to_greedy alpha M hM t (g + min (alpha - g) p) (e + min (alpha - g) p * v) hnt hvt (by grind)
        have e2 : alpha - (g + min (alpha - g) p) = alpha - g - min (alpha - g) p := by grind
        rw [e2] at ih
        have e3 : e + min (alpha - g) p * v + greedy t (alpha - g - min (alpha - g) p)
            = e + (min (alpha - g) p * v + greedy t (alpha - g - min (alpha - g) p)) := by grind
        rw [e3] at ih
        exact ih

/-- **Tolerance bound (sorted path)**: for `α` not within `isclose` of 1, both public functions return a value
within `(1e-8 + 1e-5·α)·max|v| / α` of the exact CVaR. -/
theorem tolerance_bound (l : Dist) (alpha M : Rat) (hn : NonnegProbs l) (hM0 : 0 ≤ M) (hM : ∀ x ∈ l, rabs x.2 ≤ M)
    (h0 : 0 < alpha) (hfar : isclose alpha 1 = false) :
    rabs (getExpectation l alpha - cvarExact l alpha) ≤ (atol + rtol * rabs alpha) * M / alpha ∧
    getExpectation (sortByValue l) alpha = getExpectation l alpha := by
  constructor
  · unfold getExpectation cvarExact
    simp only [hfar, Bool.not_false, ↓reduceIte]
    have hperm := sortByValue_perm l
    have hn' := nonneg_perm hperm.symm hn
    have hM' : ∀ x ∈ sortByValue l, rabs x.2 ≤ M := fun x hx => hM x (hperm.mem_iff.mp hx)
    have h := loop_close_to_greedy alpha M hM0 (sortByValue l) 0 0 hn' hM' (by grind)
    have e1 : (0 : Rat) + greedy (sortByValue l) (alpha - 0) = greedy (sortByValue l) alpha := by
      have : alpha - 0 = alpha := by grind
      rw [this]; grind
    rw [e1] at h
    have hinv := Rat.inv_pos.mpr h0
    have e2 : loop alpha (sortByValue l) 0 0 / alpha - greedy (sortByValue l) alpha / alpha
        = alpha⁻¹ * (loop alpha (sortByValue l) 0 0 - greedy (sortByValue l) alpha) := by
      rw [Rat.div_def, Rat.div_def]; grind
    rw [e2, Rat.div_def, rabs_mul_nonneg _ _ (by grind)]
    have := Rat.mul_le_mul_of_nonneg_left h (by grind : 0 ≤ alpha⁻¹)
    grind
  · unfold getExpectation
    simp only [hfar, Bool.not_false, ↓reduceIte, sortByValue_idem]

/-- **operator-based = bitstring-function-based** aggregation when the function is the operator's diagonal
(`α` not within `isclose` of 1: exactly equal) -/
theorem operator_eq_bitstring (l : Dist) (alpha : Rat) (hfar : isclose alpha 1 = false) :
    expectationWithOperator l alpha = expectationWithBitstrings l alpha := by
  unfold expectationWithOperator expectationWithBitstrings
  split
  · rfl
  · simp only [hfar, Bool.false_eq_true, ↓reduceIte]
    unfold getExpectation
    simp only [hfar, Bool.not_false, ↓reduceIte, sortByValue_idem]

/-- out-of-range `α` is rejected by both functions, everything else is accepted -/
theorem alpha_range (l : Dist) (alpha : Rat) :
    (expectationWithOperator l alpha = .error .alphaOutOfRange ↔ (alpha ≤ 0 ∨ 1 < alpha)) ∧
    (expectationWithBitstrings l alpha = .error .alphaOutOfRange ↔ (alpha ≤ 0 ∨ 1 < alpha)) := by
  unfold expectationWithOperator expectationWithBitstrings
  constructor <;> (split <;> simp_all <;> split <;> simp)

/-! ## The branch `isclose(alpha, 1)` (α = 1 and α within 1e-5 of 1) -/

/-- the greedy fill is Lipschitz in the mass: `|greedy l b − greedy l a| ≤ (b − a)·max|v|` -/
theorem greedy_lipschitz (M : Rat) (hM0 : 0 ≤ M) : ∀ (l : Dist) (a b : Rat), NonnegProbs l → (∀ x ∈ l, rabs x.2 ≤ M) →
    0 ≤ a → a ≤ b → rabs (greedy l b - greedy l a) ≤ (b - a) * M
  | [], a, b, _, _, _, hab => by
      simp only [greedy]
      have h0 : rabs (0 - 0) = 0 := by unfold rabs; split <;> grind
      have := Rat.mul_nonneg (by grind : 0 ≤ b - a) hM0
      grind
  | (p, v) :: t, a, b, hn, hM, ha, hab => by
      have hp : 0 ≤ p := hn (p, v) (by simp)
      have hnt : NonnegProbs t := fun x hx => hn x (List.mem_cons_of_mem _ hx)
      have hMt : ∀ x ∈ t, rabs x.2 ≤ M := fun x hx => hM x (List.mem_cons_of_mem _ hx)
      have hv : rabs v ≤ M := hM (p, v) (by simp)
      simp only [greedy]
      have hq : min a p ≤ min b p := by grind
      have hra : 0 ≤ a - min a p := by grind
      have hrab : a - min a p ≤ b - min b p := by grind
      have ih := greedy_lipschitz M hM0 t (a - min a p) (b - min b p) hnt hMt hra hrab
      have e : min b p * v + greedy t (b - min b p) - (min a p * v + greedy t (a - min a p)) =
          (min b p - min a p) * v + (greedy t (b - min b p) - greedy t (a - min a p)) := by grind
      rw [e]
      have t1 := rabs_add_le ((min b p - min a p) * v) (greedy t (b - min b p) - greedy t (a - min a p))
      have t2 := rabs_mul_nonneg (min b p - min a p) v (by grind)
      have t3 : (min b p - min a p) * rabs v ≤ (min b p - min a p) * M := Rat.mul_le_mul_of_nonneg_left hv (by grind)
      grind

/-- **α = 1, operator path**: the plain expectation, exactly -/
theorem operator_alpha_one (l : Dist) : expectationWithOperator l 1 = .ok (plainExpectation l) := by
  unfold expectationWithOperator
  have h1 : ((1 : Rat) ≤ 0 ∨ (1 : Rat) < 1) = False := by
    apply propext; constructor
    · intro h; revert h; decide +kernel
    · intro h; exact h.elim
  have h2 : isclose 1 1 = true := by decide +kernel
  simp only [h1, h2, ↓reduceIte]

/-- **α = 1, bitstring-function path**: the loop runs in dictionary order and stops once the gathered mass is within
`isclose` of 1; the result is within `(1e-8 + 1e-5)·max|v|` of the plain expectation -/
theorem bitstring_alpha_one (l : Dist) (M : Rat) (hn : NonnegProbs l) (hmass : mass l = 1) (hM0 : 0 ≤ M)
    (hM : ∀ x ∈ l, rabs x.2 ≤ M) : rabs (getExpectation l 1 - plainExpectation l) ≤ (atol + rtol) * M := by
  unfold getExpectation
  have h2 : isclose 1 1 = true := by decide +kernel
  simp only [h2, Bool.not_true, Bool.false_eq_true, ↓reduceIte]
  have h := loop_close_to_greedy 1 M hM0 l 0 0 hn hM (by decide +kernel)
  have e1 : (0 : Rat) + greedy l (1 - 0) = plainExpectation l := by
    have : (1 : Rat) - 0 = 1 := by grind
    rw [this, greedy_full l 1 hn (by rw [hmass]; exact Rat.le_refl)]
    grind
  rw [e1] at h
  have e2 : rabs (1 : Rat) = 1 := by decide +kernel
  rw [e2] at h
  have e3 : loop 1 l 0 0 / 1 = loop 1 l 0 0 := by rw [Rat.div_def]; have : (1 : Rat)⁻¹ = 1 := by decide +kernel
                                                  rw [this]; grind
  rw [e3]
  grind

/-- **α within `isclose` of 1, operator path**: the plain expectation is returned; it differs from the exact CVaR at α
by at most `2·(1 − α)·max|v|` (≤ 2.002e-5·max|v|) -/
theorem near_one_operator (l : Dist) (alpha M : Rat) (hn : NonnegProbs l) (hmass : mass l = 1) (hM0 : 0 ≤ M)
    (hM : ∀ x ∈ l, rabs x.2 ≤ M) (h0 : 0 < alpha) (h1 : alpha ≤ 1) (hclose : isclose alpha 1 = true) :
    expectationWithOperator l alpha = .ok (plainExpectation l) ∧
    rabs (plainExpectation l - cvarExact l alpha) ≤ 2 * (1 - alpha) * M := by
  constructor
  · unfold expectationWithOperator
    have : ¬ (alpha ≤ 0 ∨ 1 < alpha) := by grind
    simp [this, hclose]
  · unfold cvarExact
    have hperm := sortByValue_perm l
    have hn' := nonneg_perm hperm.symm hn
    have hM' : ∀ x ∈ sortByValue l, rabs x.2 ≤ M := fun x hx => hM x (hperm.mem_iff.mp hx)
    have hG1 : greedy (sortByValue l) 1 = plainExpectation l := by
      rw [greedy_full _ 1 hn' (by rw [mass_perm hperm, hmass]; exact Rat.le_refl), plainExpectation_perm hperm]
    have hlip := greedy_lipschitz M hM0 (sortByValue l) alpha 1 hn' hM' (by grind) h1
    rw [hG1] at hlip
    have habs := greedy_abs_le M (sortByValue l) alpha hn' hM' (by grind) hM0
    generalize greedy (sortByValue l) alpha = Ga at hlip habs ⊢
    generalize plainExpectation l = P at hlip ⊢
    -- P − Ga/α = c·(α·(P − Ga) − (1 − α)·Ga) with c = 1/α
    have hc : 0 < alpha⁻¹ := Rat.inv_pos.mpr h0
    have hca : alpha * alpha⁻¹ = 1 := Rat.mul_inv_cancel _ (by grind)
    rw [Rat.div_def]
    have e : P - Ga * alpha⁻¹ = alpha⁻¹ * (alpha * (P - Ga) + (-(1 - alpha)) * Ga) := by grind
    rw [e, rabs_mul_nonneg _ _ (by grind)]
    have t1 := rabs_add_le (alpha * (P - Ga)) ((-(1 - alpha)) * Ga)
    have t2 := rabs_mul_nonneg alpha (P - Ga) (by grind)
    have t3 : rabs ((-(1 - alpha)) * Ga) = (1 - alpha) * rabs Ga := by
      have : (-(1 - alpha)) * Ga = -((1 - alpha) * Ga) := by grind
      rw [this, rabs_neg, rabs_mul_nonneg _ _ (by grind)]
    have t4 : alpha * rabs (P - Ga) ≤ alpha * ((1 - alpha) * M) := Rat.mul_le_mul_of_nonneg_left hlip (by grind)
    have t5 : (1 - alpha) * rabs Ga ≤ (1 - alpha) * (alpha * M) := Rat.mul_le_mul_of_nonneg_left habs (by grind)
    have t6 : rabs (alpha * (P - Ga) + (-(1 - alpha)) * Ga) ≤ alpha * (2 * (1 - alpha) * M) := by grind
    have t7 := Rat.mul_le_mul_of_nonneg_left t6 (by grind : 0 ≤ alpha⁻¹)
    have e2 : alpha⁻¹ * (alpha * (2 * (1 - alpha) * M)) = 2 * (1 - alpha) * M := by
      have : alpha⁻¹ * (alpha * (2 * (1 - alpha) * M)) = (alpha * alpha⁻¹) * (2 * (1 - alpha) * M) := by grind
      rw [this, hca]; grind
    rw [e2] at t7
    exact t7

/-- **α within `isclose` of 1 (α < 1 allowed), bitstring-function path**: the list is *not* sorted (line 17 of the source), the
loop gathers mass `α` in dictionary order and stops within `isclose` of `α`.  Because at most `1 − α` of the mass is left out
whatever the order, the returned value is still within `((1e-8 + 1e-5·α) + 2·(1 − α))·max|v| / α` of the exact CVaR — with
`1 − α ≤ 1.00001e-5` that is a relative resolution of about 3e-5·max|v|.  This closes the last branch of the two public
functions (the other three are `tolerance_bound`, `near_one_operator`, `bitstring_alpha_one`). -/
theorem near_one_bitstring (l : Dist) (alpha M : Rat) (hn : NonnegProbs l) (hmass : mass l = 1) (hM0 : 0 ≤ M)
    (hM : ∀ x ∈ l, rabs x.2 ≤ M) (h0 : 0 < alpha) (h1 : alpha ≤ 1) (hclose : isclose alpha 1 = true) :
    expectationWithBitstrings l alpha = .ok (getExpectation l alpha) ∧
    rabs (getExpectation l alpha - cvarExact l alpha) ≤ ((atol + rtol * rabs alpha) + 2 * (1 - alpha)) * M / alpha := by
  constructor
  · unfold expectationWithBitstrings
    have : ¬ (alpha ≤ 0 ∨ 1 < alpha) := by grind
    simp [this]
  · unfold getExpectation cvarExact
    simp only [hclose, Bool.not_true, Bool.false_eq_true, ↓reduceIte]
    have hperm := sortByValue_perm l
    have hn' := nonneg_perm hperm.symm hn
    have hM' : ∀ x ∈ sortByValue l, rabs x.2 ≤ M := fun x hx => hM x (hperm.mem_iff.mp hx)
    -- (1) the loop in dictionary order vs the greedy fill in dictionary order
    have hL := loop_close_to_greedy alpha M hM0 l 0 0 hn hM (by grind)
    have e1 : (0 : Rat) + greedy l (alpha - 0) = greedy l alpha := by
      have : alpha - 0 = alpha := by grind
      rw [this]; grind
    rw [e1] at hL
    -- (2) both greedy fills are within (1 − α)·M of the plain expectation
    have hG1 : greedy l 1 = plainExpectation l := greedy_full l 1 hn (by rw [hmass]; exact Rat.le_refl)
    have hGs1 : greedy (sortByValue l) 1 = plainExpectation l := by
      rw [greedy_full _ 1 hn' (by rw [mass_perm hperm, hmass]; exact Rat.le_refl), plainExpectation_perm hperm]
    have hlip := greedy_lipschitz M hM0 l alpha 1 hn hM (by grind) h1
    have hlips := greedy_lipschitz M hM0 (sortByValue l) alpha 1 hn' hM' (by grind) h1
    rw [hG1] at hlip
    rw [hGs1] at hlips
    generalize loop alpha l 0 0 = L at hL ⊢
    generalize greedy l alpha = G at hL hlip
    generalize greedy (sortByValue l) alpha = Gs at hlips ⊢
    generalize plainExpectation l = P at hlip hlips
    generalize atol + rtol * rabs alpha = tol at hL ⊢
    have hc : 0 < alpha⁻¹ := Rat.inv_pos.mpr h0
    rw [Rat.div_def, Rat.div_def, Rat.div_def]
    have e : L * alpha⁻¹ - Gs * alpha⁻¹ = alpha⁻¹ * ((L - G) + ((G - P) + (P - Gs))) := by grind
    rw [e, rabs_mul_nonneg _ _ (by grind)]
    have t1 := rabs_add_le (L - G) ((G - P) + (P - Gs))
    have t2 := rabs_add_le (G - P) (P - Gs)
    have t3 : rabs (G - P) = rabs (P - G) := by
      have : G - P = -(P - G) := by grind
      rw [this, rabs_neg]
    have t6 : rabs ((L - G) + ((G - P) + (P - Gs))) ≤ (tol + 2 * (1 - alpha)) * M := by grind
    have t7 := Rat.mul_le_mul_of_nonneg_left t6 (by grind : 0 ≤ alpha⁻¹)
    grind

/-! ## Non-vacuity -/

/-- 4 shots: values −2 (1 shot), 0 (2 shots), 3 (1 shot) -/
def exDist : Dist := [(1/2, 0), (1/4, 3), (1/4, -2)]

-- evaluated (`List.mergeSort` is defined by well-founded recursion and does not reduce in the kernel)
#guard exDist.all (fun x => decide (0 ≤ x.1)) && decide (mass exDist = 1)
#guard cvarExact exDist (1/2) = -1          -- (¼·(−2) + ¼·0) / ½
#guard cvarExact exDist (1/4) = -2          -- mass exactly at the boundary
#guard cvarExact exDist 1 = 1/4
#guard (match expectationWithBitstrings exDist (1/2) with | .ok v => decide (v = -1) | _ => false)
#guard (match expectationWithOperator exDist (1/2) with | .ok v => decide (v = -1) | _ => false)
#guard (match expectationWithOperator exDist 1 with | .ok v => decide (v = 1/4) | _ => false)
#guard isclose (999999/1000000) 1 && decide ((999999/1000000 : Rat) < 1)   -- an α strictly inside (1 − 1e-5, 1) meets `near_one_*`
#guard (match expectationWithBitstrings exDist (999999/1000000) with | .ok v => decide (rabs (v - cvarExact exDist (999999/1000000)) ≤ 1/100000) | _ => false)
#guard (match expectationWithOperator exDist 0 with | .error .alphaOutOfRange => true | _ => false)

end QVerif.Cvar
