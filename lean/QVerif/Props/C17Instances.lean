import Std.Data.String.ToNat
import QVerif.Model.RandomInstance
import QVerif.Props.C19

/-!
# C17 / C19 — the random job-shop instance constructor

The constructor is modelled with every use of its generator as an input (`Model/RandomInstance.lean`); the harness replays
the draws recorded from `random.Random(seed)`.  Theorems, for every sequence of draws (hence for every seed):

* `randomInstance_accepted`: whatever it returns is accepted by the problem-instance validators — it is well-formed
  (`QVerif.Jssp.WFInstance`: non-empty names, positive durations, unique operations, no machine visited twice by a job, only
  declared machines);
* `randomInstance_total`: for valid arguments (distributions summing to one with positive durations, amounts that give between
  one operation and one per machine) and draws that are what `sample` / `shuffle` / `choices` can deliver (distinct machines
  below `n_machines`, a permutation of them, indices into the distributions), the constructor does not raise.
-/

namespace QVerif.RandInst

open QVerif.Jssp

/-! ### names -/

theorem machineName_ne (i : Nat) : machineName i ≠ "" := by
  intro h; have := congrArg String.length h; simp [machineName] at this
theorem jobName_ne (i : Nat) : jobName i ≠ "" := by
  intro h; have := congrArg String.length h; simp [jobName] at this
theorem opName_ne (i : Nat) : opName i ≠ "" := by
  intro h; have := congrArg String.length h; simp [opName] at this

theorem machineName_inj {a b : Nat} (h : machineName a = machineName b) : a = b :=
  Nat.repr_injective ((String.append_right_inj "m").mp h)
theorem jobName_inj {a b : Nat} (h : jobName a = jobName b) : a = b :=
  Nat.repr_injective ((String.append_right_inj "job").mp h)
theorem opName_inj {a b : Nat} (h : opName a = opName b) : a = b :=
  Nat.repr_injective ((String.append_right_inj "op").mp h)

theorem nodup_map_of_inj {α β} (f : α → β) (hf : ∀ a b, f a = f b → a = b) : ∀ l : List α, l.Nodup → (l.map f).Nodup
  | [], _ => List.nodup_nil
  | a :: l, h => by
      have h' := List.nodup_cons.mp h
      refine List.nodup_cons.mpr ⟨?_, nodup_map_of_inj f hf l h'.2⟩
      intro hm
      obtain ⟨b, hb, hab⟩ := List.mem_map.mp hm
      exact h'.1 (hf _ _ hab.symm ▸ hb)

/-! ### structure of the generated operations -/

theorem mkOps_spec (i : Nat) (dur : VD Int) : ∀ (ms : List Nat) (ds : List (Option Nat)) (j : Nat) (ops : List Operation),
    mkOps i dur ms ds j = .ok ops →
      ops.map Operation.machine = ms.map machineName ∧
      ops.map Operation.name = (List.range' j ms.length).map opName ∧
      (∀ o ∈ ops, o.jobName = jobName i ∧ checkOperation o = .ok ())
  | [], ds, j, ops, h => by
      simp only [mkOps, Except.ok.injEq] at h; subst h; simp
  | m :: ms, ds, j, ops, h => by
      simp only [mkOps] at h
      split at h
      · cases h
      · rename_i d hd
        split at h
        · cases h
        · rename_i hc
          split at h
          · cases h
          · rename_i rest hrest
            simp only [Except.ok.injEq] at h
            subst h
            obtain ⟨h1, h2, h3⟩ := mkOps_spec i dur ms ds.tail (j + 1) rest hrest
            refine ⟨by simp [h1], by simp [h2, List.range'_succ], ?_⟩
            intro o ho
            rcases List.mem_cons.mp ho with rfl | ho
            · exact ⟨rfl, hc⟩
            · exact h3 o ho

theorem mkJob_spec (nMachines : Nat) (amount : VD Rat) (dur : VD Int) (i : Nat) (d : JobDraws) (j : Job)
    (h : mkJob nMachines amount dur i d = .ok j) :
    ∃ ops, mkOps i dur d.shuffled d.durs 0 = .ok ops ∧ j = { name := jobName i, ops := ops } ∧ checkJob j = .ok () := by
  unfold mkJob at h
  cases hgv : getValue amount d.amount with
  | error e => simp only [hgv] at h; cases h
  | ok a =>
    simp only [hgv] at h
    split at h
    · cases h
    · split at h
      · cases h
      · cases hops : mkOps i dur d.shuffled d.durs 0 with
        | error e => simp only [hops] at h; cases h
        | ok ops =>
          simp only [hops] at h
          split at h
          · cases h
          · cases hcj : checkJob { name := jobName i, ops := ops } with
            | error e => simp only [hcj] at h; cases h
            | ok u =>
              simp only [hcj, Except.ok.injEq] at h
              exact ⟨ops, rfl, h.symm, by rw [← h]; exact hcj⟩

theorem mkJobs_wf (nMachines : Nat) (amount : VD Rat) (dur : VD Int) : ∀ (ds : List JobDraws) (i : Nat) (js : List Job),
    mkJobs nMachines amount dur ds i = .ok js →
      ∀ j ∈ js, (∀ o ∈ j.ops, o.machine ≠ "" ∧ WFOperation o) ∧ WFJob j
  | [], i, js, h => by simp only [mkJobs, Except.ok.injEq] at h; subst h; intro j hj; cases hj
  | d :: ds, i, js, h => by
      simp only [mkJobs] at h
      cases hj0 : mkJob nMachines amount dur i d with
      | error e => simp only [hj0] at h; cases h
      | ok j0 =>
        simp only [hj0] at h
        cases hrest : mkJobs nMachines amount dur ds (i + 1) with
        | error e => simp only [hrest] at h; cases h
        | ok rest =>
          simp only [hrest, Except.ok.injEq] at h
          subst h
          intro j hjm
          rcases List.mem_cons.mp hjm with rfl | hjm
          · obtain ⟨ops, hops, rfl, hcj⟩ := mkJob_spec nMachines amount dur i d _ hj0
            obtain ⟨hm, _, hall⟩ := mkOps_spec i dur _ _ 0 ops hops
            refine ⟨?_, (checkJob_ok_iff _).mp hcj⟩
            intro o ho
            refine ⟨?_, (checkOperation_ok_iff o).mp (hall o ho).2⟩
            have : o.machine ∈ ops.map Operation.machine := List.mem_map.mpr ⟨o, ho, rfl⟩
            rw [hm] at this
            obtain ⟨k, _, hk⟩ := List.mem_map.mp this
            rw [← hk]; exact machineName_ne k
          · exact mkJobs_wf nMachines amount dur ds (i + 1) rest hrest j hjm

/-- **whatever the constructor returns is well-formed** (accepted by the validators of `problem_instances.py`) -/
theorem randomInstance_accepted (name : String) (nMachines : Nat) (amount : VD Rat) (dur : VD Int) (draws : List JobDraws)
    (inst : Instance) (h : randomInstance name nMachines amount dur draws = .ok inst) : buildInstance inst = .ok () := by
  unfold randomInstance at h
  cases hjobs : mkJobs nMachines amount dur draws 0 with
  | error e => simp only [hjobs] at h; cases h
  | ok jobs =>
    simp only [hjobs] at h
    cases hci : checkInstance { name := name, machines := (List.range nMachines).map machineName, jobs := jobs } with
    | error e => simp only [hci] at h; cases h
    | ok u =>
      simp only [hci, Except.ok.injEq] at h
      subst h
      rw [accepted_iff_wellformed]
      refine ⟨?_, mkJobs_wf nMachines amount dur draws 0 jobs hjobs, (checkInstance_ok_iff _).mp hci⟩
      intro m hm
      obtain ⟨k, _, hk⟩ := List.mem_map.mp hm
      rw [← hk]; exact machineName_ne k

/-! ### totality for valid arguments and genuine draws -/

/-- the values a `_get_value` call can return -/
def vals {α} : VD α → List α
  | .val x => [x]
  | .dist ks _ => ks

/-- a distribution argument is valid: its probabilities add up to one -/
def DistOk {α} : VD α → Prop
  | .val _ => True
  | .dist _ ws => sumsToOne ws = true

/-- a draw fits a `_get_value` call: an index into the keys when a distribution is given -/
def DrawFits {α} : VD α → Option Nat → Prop
  | .val _, _ => True
  | .dist ks _, x => ∃ i, x = some i ∧ i < ks.length

theorem getValue_ok {α} (v : VD α) (x : Option Nat) (hd : DistOk v) (hx : DrawFits v x) :
    ∃ a, getValue v x = .ok a ∧ a ∈ vals v := by
  cases v with
  | val a => exact ⟨a, rfl, by simp [vals]⟩
  | dist ks ws =>
    obtain ⟨i, rfl, hi⟩ := hx
    simp only [DistOk] at hd
    refine ⟨ks[i], ?_, by simp [vals]⟩
    simp [getValue, hd, List.getElem?_eq_getElem hi]

structure ArgsOk (nMachines : Nat) (amount : VD Rat) (dur : VD Int) : Prop where
  amountDist : DistOk amount
  durDist : DistOk dur
  /-- every possible amount gives between one operation and one per machine -/
  amountRange : ∀ a ∈ vals amount, 1 ≤ pyRound (a * (nMachines : Rat)) ∧ pyRound (a * (nMachines : Rat)) ≤ (nMachines : Int)
  durPos : ∀ d ∈ vals dur, 0 < d

/-- the draws of one job are what `choices` / `sample` / `shuffle` can deliver -/
structure DrawsOk (nMachines : Nat) (amount : VD Rat) (dur : VD Int) (d : JobDraws) : Prop where
  amountFits : DrawFits amount d.amount
  sampleLen : ∀ a, getValue amount d.amount = .ok a → d.sample.length = (pyRound (a * (nMachines : Rat))).toNat
  sampleNodup : d.sample.Nodup
  sampleLt : ∀ m ∈ d.sample, m < nMachines
  shuffledPerm : d.shuffled.Perm d.sample
  dursLen : d.durs.length = d.shuffled.length
  dursFit : ∀ x ∈ d.durs, DrawFits dur x

theorem mkOps_total (i : Nat) (dur : VD Int) (hd : DistOk dur) (hpos : ∀ d ∈ vals dur, 0 < d) :
    ∀ (ms : List Nat) (ds : List (Option Nat)) (j : Nat), ds.length = ms.length → (∀ x ∈ ds, DrawFits dur x) →
      ∃ ops, mkOps i dur ms ds j = .ok ops
  | [], ds, j, _, _ => ⟨[], rfl⟩
  | m :: ms, [], j, hl, _ => by simp at hl
  | m :: ms, x :: ds, j, hl, hf => by
      obtain ⟨d, hgd, hdm⟩ := getValue_ok dur x hd (hf x (by simp))
      obtain ⟨rest, hrest⟩ := mkOps_total i dur hd hpos ms ds (j + 1) (by simpa using hl) (fun y hy => hf y (by simp [hy]))
      have hco : checkOperation { name := opName j, jobName := jobName i, machine := machineName m, dur := d } = .ok () := by
        rw [checkOperation_ok_iff]
        exact ⟨opName_ne j, jobName_ne i, hpos d hdm⟩
      refine ⟨{ name := opName j, jobName := jobName i, machine := machineName m, dur := d } :: rest, ?_⟩
      simp only [mkOps, List.headD_cons, hgd, hco, List.tail_cons, hrest]

theorem mkJob_total (nMachines : Nat) (amount : VD Rat) (dur : VD Int) (ha : ArgsOk nMachines amount dur) (i : Nat) (d : JobDraws)
    (hd : DrawsOk nMachines amount dur d) : ∃ j, mkJob nMachines amount dur i d = .ok j := by
  obtain ⟨a, hga, ham⟩ := getValue_ok amount d.amount ha.amountDist hd.amountFits
  obtain ⟨hk1, hk2⟩ := ha.amountRange a ham
  have hsl := hd.sampleLen a hga
  have hshl : d.shuffled.length = d.sample.length := hd.shuffledPerm.length_eq
  obtain ⟨ops, hops⟩ := mkOps_total i dur ha.durDist ha.durPos d.shuffled d.durs 0 hd.dursLen hd.dursFit
  obtain ⟨hm, hn, hall⟩ := mkOps_spec i dur _ _ 0 ops hops
  have hlen : ops.length = d.shuffled.length := by
    have := congrArg List.length hm; simpa using this
  have hpos : ops.length ≠ 0 := by rw [hlen, hshl, hsl]; omega
  have hwf : WFJob { name := jobName i, ops := ops } := by
    refine ⟨jobName_ne i, ?_, ?_, fun o ho => (hall o ho).1, ?_⟩
    · intro h0; apply hpos; simp only at h0; simp [h0]
    · -- identifiers: job name ++ "_" ++ operation name, operation names are op0, op1, …
      have hid : ops.map Operation.ident = (ops.map Operation.name).map (fun n => jobName i ++ "_" ++ n) := by
        rw [List.map_map]
        apply List.map_congr_left
        intro o ho
        simp only [Operation.ident, Function.comp, (hall o ho).1]
      rw [hid, hn]
      apply nodup_map_of_inj _ (fun x y hxy => (String.append_right_inj _).mp hxy)
      apply nodup_map_of_inj _ (fun x y hxy => opName_inj hxy)
      exact List.nodup_range'
    · rw [hm]
      exact nodup_map_of_inj _ (fun x y hxy => machineName_inj hxy) _ (hd.shuffledPerm.nodup_iff.mpr hd.sampleNodup)
  have hcj := (checkJob_ok_iff _).mpr hwf
  refine ⟨{ name := jobName i, ops := ops }, ?_⟩
  unfold mkJob
  simp only [hga]
  rw [if_neg (by omega), if_neg (by omega)]
  simp only [hops]
  rw [if_neg hpos]
  simp only [hcj]

theorem mkJobs_total (nMachines : Nat) (amount : VD Rat) (dur : VD Int) (ha : ArgsOk nMachines amount dur) :
    ∀ (ds : List JobDraws) (i : Nat), (∀ d ∈ ds, DrawsOk nMachines amount dur d) →
      ∃ js, mkJobs nMachines amount dur ds i = .ok js ∧ js.map Job.name = (List.range' i ds.length).map jobName ∧
        ∀ j ∈ js, ∀ o ∈ j.ops, o.machine ∈ (List.range nMachines).map machineName
  | [], i, _ => ⟨[], rfl, by simp, by intro j hj; cases hj⟩
  | d :: ds, i, h => by
      obtain ⟨j0, hj0⟩ := mkJob_total nMachines amount dur ha i d (h d (by simp))
      obtain ⟨rest, hrest, hnames, hmach⟩ := mkJobs_total nMachines amount dur ha ds (i + 1) (fun x hx => h x (by simp [hx]))
      obtain ⟨ops, hops, rfl, _⟩ := mkJob_spec nMachines amount dur i d _ hj0
      obtain ⟨hm, _, _⟩ := mkOps_spec i dur _ _ 0 ops hops
      refine ⟨{ name := jobName i, ops := ops } :: rest, by simp only [mkJobs, hj0, hrest], by simp [hnames, List.range'_succ], ?_⟩
      intro j hj o ho
      rcases List.mem_cons.mp hj with rfl | hj
      · have : o.machine ∈ ops.map Operation.machine := List.mem_map.mpr ⟨o, ho, rfl⟩
        rw [hm] at this
        obtain ⟨k, hk, hke⟩ := List.mem_map.mp this
        have hlt := (h d (by simp)).sampleLt k (((h d (by simp)).shuffledPerm.mem_iff).mp hk)
        rw [← hke]
        exact List.mem_map.mpr ⟨k, List.mem_range.mpr hlt, rfl⟩
      · exact hmach j hj o ho

/-- **for valid arguments the constructor never raises, whatever the seed**: with distributions that add up to one, positive
durations, amounts that give between one operation and one per machine, and draws that `choices` / `sample` / `shuffle` can
deliver, an instance is returned (job identifiers never collide, no machine is visited twice, all machines are declared) — and
by `randomInstance_accepted` it is well-formed -/
theorem randomInstance_total (name : String) (hname : name ≠ "") (nMachines : Nat) (amount : VD Rat) (dur : VD Int)
    (ha : ArgsOk nMachines amount dur) (draws : List JobDraws) (hd : ∀ d ∈ draws, DrawsOk nMachines amount dur d) :
    ∃ inst, randomInstance name nMachines amount dur draws = .ok inst ∧ buildInstance inst = .ok () := by
  obtain ⟨jobs, hjobs, hnames, hmach⟩ := mkJobs_total nMachines amount dur ha draws 0 hd
  have hci : checkInstance { name := name, machines := (List.range nMachines).map machineName, jobs := jobs } = .ok () := by
    rw [checkInstance_ok_iff]
    refine ⟨hname, ?_, ?_, hmach⟩
    · exact nodup_map_of_inj _ (fun x y hxy => machineName_inj hxy) _ List.nodup_range
    · simp only
      rw [hnames]
      exact nodup_map_of_inj _ (fun x y hxy => jobName_inj hxy) _ List.nodup_range'
  have hr : randomInstance name nMachines amount dur draws =
      .ok { name := name, machines := (List.range nMachines).map machineName, jobs := jobs } := by
    unfold randomInstance
    simp only [hjobs, hci]
  exact ⟨_, hr, randomInstance_accepted _ _ _ _ _ _ hr⟩

/-! ### non-vacuity -/

-- 2 jobs on 3 machines, amount distribution {1/3: ½, 1: ½} (1 resp. 3 operations), durations {1: ½, 2: ½}
def exAmount : VD Rat := .dist [1 / 3, 1] [1 / 2, 1 / 2]
def exDur : VD Int := .dist [1, 2] [1 / 2, 1 / 2]
def exDraws : List JobDraws :=
  [{ amount := some 1, sample := [2, 0, 1], shuffled := [0, 2, 1], durs := [some 0, some 1, some 0] },
   { amount := some 0, sample := [1], shuffled := [1], durs := [some 1] }]
example : (match randomInstance "i" 3 exAmount exDur exDraws with
    | .ok inst => decide (inst.jobs.map (fun j => j.ops.map (fun o => (o.machine, o.dur))) =
        [[("m0", 1), ("m2", 2), ("m1", 1)], [("m1", 2)]])
    | .error _ => false) = true := by decide +kernel
-- half to even: 0.5 · 3 = 1.5 → 2 operations, 2.5 → 2
example : pyRound (3 / 2) = 2 ∧ pyRound (5 / 2) = 2 ∧ pyRound (7 / 2) = 4 ∧ pyRound (102 / 100) = 1 := by decide +kernel
-- more operations than machines: the documented failure of `sample`
example : (match randomInstance "i" 2 (.val 2) (.val 1) [{ sample := [], shuffled := [] }] with
    | .error .sampleError => true | _ => false) = true := by decide +kernel

end QVerif.RandInst
