import QVerif.Props.C10

/-!
# C11 — operators never modify their input population or recorded history

A purely functional model makes this property vacuous, so the operators are lifted to a **heap**: the mutable
containers the Python code creates (`species_representatives` list, `species_members` dict with its member lists,
`species_membership` dict) are heap cells; a population holds *references*; tuples and frozen dataclasses
(individuals) are values.  Each lifted operator returns the references it wrote to.

* speciation works on a **copy** of the input's representative list (`list(population.species_representatives)`, a
  fresh cell) and on fresh dicts/lists, and returns a population of fresh cells;
* selection and the mutation operators create no mutable container: they hand the *reference* of the input's
  representative list on (`species_representatives=population.species_representatives`) and write nothing.

`Legacy.hSpeciate` is the pre-repair variant (the working list *is* the input's cell), kept to document finding F7.
-/

namespace QVerif.Evqe
open QVerif.Genome

inductive Cell where
  | indList (l : List Indiv)
  | members (d : List (Indiv × List Nat))
  | membership (d : List (Nat × Indiv))
  deriving Repr, DecidableEq

abbrev Heap := List Cell

/-- a population as Python holds it: immutable tuple of individuals + references to mutable containers -/
structure HPop where
  inds : List Indiv
  reps : Option Nat
  members : Option Nat
  membership : Option Nat
  deriving Repr, DecidableEq

def derefList (h : Heap) (r : Option Nat) : Option (List Indiv) :=
  r.bind (fun i => match h[i]? with | some (.indList l) => some l | _ => none)
def derefMembers (h : Heap) (r : Option Nat) : Option (List (Indiv × List Nat)) :=
  r.bind (fun i => match h[i]? with | some (.members d) => some d | _ => none)
def derefMembership (h : Heap) (r : Option Nat) : Option (List (Nat × Indiv)) :=
  r.bind (fun i => match h[i]? with | some (.membership d) => some d | _ => none)

/-- the observable value of a population in a heap -/
def deref (h : Heap) (p : HPop) : Pop :=
  { inds := p.inds, reps := derefList h p.reps, members := derefMembers h p.members,
    membership := derefMembership h p.membership }

/-- all references of a population point into the heap -/
def HPop.WithIn (p : HPop) (n : Nat) : Prop :=
  (∀ r, p.reps = some r → r < n) ∧ (∀ r, p.members = some r → r < n) ∧ (∀ r, p.membership = some r → r < n)

/-- result of a lifted operator: new heap, output population, references written to -/
structure HResult where
  heap : Heap
  out : HPop
  writes : List Nat

def optCell {α} (o : Option α) (mk : α → Cell) : Cell := match o with | some a => mk a | none => .indList []

/-- lifted speciation: the working copy of the representative list and the three result containers are fresh cells;
all writes go to them -/
def hSpeciate (thr : Int) (choices : List Nat) (h : Heap) (p : HPop) : Except OpErr HResult :=
  match speciate thr choices (deref h p) with
  | .error e => .error e
  | .ok (q, _) =>
    let n := h.length
    -- cell n: the working copy `list(population.species_representatives)` (appended to during phase 1)
    let work : Cell := .indList (reps0Of (deref h p))
    let h' := h ++ [work, optCell q.reps .indList, optCell q.members .members, optCell q.membership .membership]
    .ok { heap := h', out := { inds := q.inds, reps := some (n + 1), members := some (n + 2), membership := some (n + 3) },
          writes := [n, n + 1, n + 2, n + 3] }

/-- lifted selection: no new mutable container; the representative list reference is handed on -/
def hSelect (alpha beta : Rat) (mode : SelMode) (evals : List Rat) (h : Heap) (p : HPop) : Except OpErr HResult :=
  match (select alpha beta mode evals (deref h p)).1 with
  | .error e => .error e
  | .ok q => .ok { heap := h, out := { inds := q.inds, reps := p.reps, members := none, membership := none }, writes := [] }

/-- lifted mutation operators -/
def hMutate (plan : List (Option MutStep)) (h : Heap) (p : HPop) : Except OpErr HResult :=
  match (mutate plan (deref h p)).1 with
  | .error e => .error e
  | .ok q => .ok { heap := h, out := { inds := q.inds, reps := p.reps, members := none, membership := none }, writes := [] }

inductive Op where
  | speciate (thr : Int) (choices : List Nat)
  | select (alpha beta : Rat) (mode : SelMode) (evals : List Rat)
  | mutate (plan : List (Option MutStep))

def applyOp : Op → Heap → HPop → Except OpErr HResult
  | .speciate thr ch, h, p => hSpeciate thr ch h p
  | .select a b m e, h, p => hSelect a b m e h p
  | .mutate plan, h, p => hMutate plan h p

/-- a heap extends another: same cells at all old references -/
def Extends (h' h : Heap) : Prop := ∃ ext, h' = h ++ ext

theorem deref_extends {h h' : Heap} (he : Extends h' h) (p : HPop) (hp : p.WithIn h.length) : deref h' p = deref h p := by
  obtain ⟨ext, rfl⟩ := he
  obtain ⟨h1, h2, h3⟩ := hp
  unfold deref derefList derefMembers derefMembership
  congr 1
  · cases hr : p.reps with
    | none => rfl
    | some r => simp only [Option.bind_some]; rw [List.getElem?_append_left (h1 r hr)]
  · cases hr : p.members with
    | none => rfl
    | some r => simp only [Option.bind_some]; rw [List.getElem?_append_left (h2 r hr)]
  · cases hr : p.membership with
    | none => rfl
    | some r => simp only [Option.bind_some]; rw [List.getElem?_append_left (h3 r hr)]

/-- **every write of an operator targets a cell allocated during that application; old cells are untouched; the
output's references lie in the new heap** -/
theorem operators_write_only_fresh (op : Op) (h : Heap) (p : HPop) (hp : p.WithIn h.length) (r : HResult)
    (hr : applyOp op h p = .ok r) :
    Extends r.heap h ∧ (∀ w ∈ r.writes, h.length ≤ w) ∧ r.out.WithIn r.heap.length := by
  cases op with
  | speciate thr ch =>
    simp only [applyOp, hSpeciate] at hr
    split at hr
    · cases hr
    · cases hr
      refine ⟨⟨_, rfl⟩, ?_, ?_⟩
      · intro w hw; simp only [List.mem_cons, List.not_mem_nil, or_false] at hw; omega
      · simp only [HPop.WithIn, Option.some.injEq, List.length_append, List.length_cons, List.length_nil]
        refine ⟨?_, ?_, ?_⟩ <;> (intro r hr; omega)
  | select a b m e =>
    simp only [applyOp, hSelect] at hr
    split at hr
    · cases hr
    · cases hr
      refine ⟨⟨[], by simp⟩, by simp, ?_⟩
      exact ⟨hp.1, by simp, by simp⟩
  | mutate plan =>
    simp only [applyOp, hMutate] at hr
    split at hr
    · cases hr
    · cases hr
      refine ⟨⟨[], by simp⟩, by simp, ?_⟩
      exact ⟨hp.1, by simp, by simp⟩

/-- run a sequence of operators, recording every input population (what the solver's history and callbacks hold) -/
def runOps : List Op → Heap → HPop → List HPop → Except OpErr (Heap × HPop × List HPop)
  | [], h, p, hist => .ok (h, p, hist ++ [p])
  | op :: rest, h, p, hist =>
    match applyOp op h p with
    | .error e => .error e
    | .ok r => runOps rest r.heap r.out (hist ++ [p])

theorem extends_trans {a b c : Heap} (h1 : Extends a b) (h2 : Extends b c) : Extends a c := by
  obtain ⟨e1, rfl⟩ := h1; obtain ⟨e2, rfl⟩ := h2; exact ⟨e2 ++ e1, by simp⟩

theorem withIn_mono {p : HPop} {n m : Nat} (h : p.WithIn n) (hnm : n ≤ m) : p.WithIn m :=
  ⟨fun r hr => Nat.lt_of_lt_of_le (h.1 r hr) hnm, fun r hr => Nat.lt_of_lt_of_le (h.2.1 r hr) hnm,
   fun r hr => Nat.lt_of_lt_of_le (h.2.2 r hr) hnm⟩

/-- **History is stable**: for every sequence of operators, every population that was ever passed to an operator (or
returned at the end) dereferences, in the final heap, to exactly the value it had when it was recorded. -/
theorem history_stable : ∀ (ops : List Op) (h : Heap) (p : HPop) (hist : List HPop) (snap : List Pop)
    (hF : Heap) (pF : HPop) (histF : List HPop),
    p.WithIn h.length → (∀ q ∈ hist, q.WithIn h.length) → snap = hist.map (deref h) →
    runOps ops h p hist = .ok (hF, pF, histF) →
    Extends hF h ∧ ∃ later, histF = hist ++ later ∧ (hist.map (deref hF) = snap) ∧
      (∀ q ∈ histF, q.WithIn hF.length)
  | [], h, p, hist, snap, hF, pF, histF, hp, hh, hs, hr => by
      simp only [runOps, Except.ok.injEq, Prod.mk.injEq] at hr
      obtain ⟨rfl, rfl, rfl⟩ := hr
      refine ⟨⟨[], by simp⟩, [p], rfl, hs.symm, ?_⟩
      intro q hq
      rcases List.mem_append.mp hq with hq | hq
      · exact hh q hq
      · simp only [List.mem_singleton] at hq; subst hq; exact hp
  | op :: rest, h, p, hist, snap, hF, pF, histF, hp, hh, hs, hr => by
      simp only [runOps] at hr
      cases ha : applyOp op h p with
      | error e => rw [ha] at hr; cases hr
      | ok r =>
        rw [ha] at hr
        obtain ⟨hext, _, hout⟩ := operators_write_only_fresh op h p hp r ha
        have hlen : h.length ≤ r.heap.length := by obtain ⟨e, he⟩ := hext; rw [he]; simp
        have hh' : ∀ q ∈ hist ++ [p], q.WithIn r.heap.length := by
          intro q hq
          rcases List.mem_append.mp hq with hq | hq
          · exact withIn_mono (hh q hq) hlen
          · simp only [List.mem_singleton] at hq; subst hq; exact withIn_mono hp hlen
        obtain ⟨g1, later, g2, g3, g4⟩ := history_stable rest r.heap r.out (hist ++ [p])
          ((hist ++ [p]).map (deref r.heap)) hF pF histF hout hh' rfl hr
        refine ⟨extends_trans g1 hext, [p] ++ later, by rw [g2]; simp, ?_, g4⟩
        -- values of the old history: unchanged by this step, and by the rest
        have e1 : hist.map (deref r.heap) = hist.map (deref h) := by
          apply List.map_congr_left; intro q hq; exact deref_extends hext q (hh q hq)
        have e2 : hist.map (deref hF) = hist.map (deref r.heap) := by
          have := congrArg (List.take hist.length) g3
          simpa [List.map_append, List.take_append] using this
        rw [e2, e1, hs]

/-- the lifted operators compute what the functional model (C10) computes -/
theorem lifted_refines (op : Op) (h : Heap) (p : HPop) (r : HResult) (hr : applyOp op h p = .ok r) :
    match op with
    | .speciate thr ch => ∃ q rest, speciate thr ch (deref h p) = .ok (q, rest) ∧ deref r.heap r.out = q
    | .select a b m e => ∃ q, (select a b m e (deref h p)).1 = .ok q ∧ (deref r.heap r.out).inds = q.inds ∧
        (deref r.heap r.out).reps = (deref h p).reps
    | .mutate plan => ∃ q, (mutate plan (deref h p)).1 = .ok q ∧ (deref r.heap r.out).inds = q.inds ∧
        (deref r.heap r.out).reps = (deref h p).reps := by
  cases op with
  | speciate thr ch =>
    simp only [applyOp, hSpeciate] at hr
    cases hs : speciate thr ch (deref h p) with
    | error e => rw [hs] at hr; cases hr
    | ok v =>
      obtain ⟨q, rest⟩ := v
      rw [hs] at hr
      cases hr
      refine ⟨q, rest, hs, ?_⟩
      -- the three result cells hold q's containers (speciate always returns `some` containers)
      unfold speciate at hs
      split at hs
      · cases hs
      · simp only [Except.ok.injEq, Prod.mk.injEq] at hs
        obtain ⟨rfl, _⟩ := hs
        simp [deref, derefList, derefMembers, derefMembership, optCell, List.getElem?_append_right]
  | select a b m e =>
    simp only [applyOp, hSelect] at hr
    cases hs : (select a b m e (deref h p)).1 with
    | error e => rw [hs] at hr; cases hr
    | ok q => rw [hs] at hr; cases hr; exact ⟨q, hs, rfl, rfl⟩
  | mutate plan =>
    simp only [applyOp, hMutate] at hr
    cases hs : (mutate plan (deref h p)).1 with
    | error e => rw [hs] at hr; cases hr
    | ok q => rw [hs] at hr; cases hr; exact ⟨q, hs, rfl, rfl⟩

/-! ## Legacy (pre-repair) speciation: finding F7 / the kind of change this property excludes -/

namespace Legacy

/-- pre-repair: `species_representatives = population.species_representatives` — the working list is the input's own
cell, and founding a new species appends to it -/
def hSpeciate (thr : Int) (choices : List Nat) (h : Heap) (p : HPop) : Except OpErr HResult :=
  match speciate thr choices (deref h p) with
  | .error e => .error e
  | .ok (q, _) =>
    let n := h.length
    let worked : List Indiv := (assign thr (deref h p).inds.zipIdx (reps0Of (deref h p)) (initDict (reps0Of (deref h p)))).1
    let (h0, ws) : Heap × List Nat := match p.reps with
      | some r => (h.set r (.indList worked), [r])       -- the append hits the input's cell
      | none => (h, [])
    let h' := h0 ++ [optCell q.reps .indList, optCell q.members .members, optCell q.membership .membership]
    .ok { heap := h', out := { inds := q.inds, reps := some n, members := some (n + 1), membership := some (n + 2) },
          writes := ws ++ [n, n + 1, n + 2] }

def a1 : Indiv := ⟨1, [⟨1, [.rot 0]⟩], [1, 2, 3]⟩
def a2 : Indiv := ⟨1, [⟨1, [.rot 0]⟩, ⟨1, [.id 0]⟩, ⟨1, [.rot 0]⟩], [1, 2, 3, 4, 5, 6]⟩
/-- heap with one recorded population whose representatives are `[a1]` -/
def h0 : Heap := [.indList [a1]]
def p0 : HPop := ⟨[a1, a2], some 0, none, none⟩

/-- a later speciation (threshold 1: `a2` founds a new species) changes what the recorded population shows -/
example : (Legacy.hSpeciate 1 [0, 1] h0 p0).toOption.map (fun r => (deref r.heap p0).reps) = some (some [a1, a2]) := by
  decide +kernel
/-- the repaired operator leaves it alone -/
example : (QVerif.Evqe.hSpeciate 1 [0, 1] h0 p0).toOption.map (fun r => (deref r.heap p0).reps) = some (some [a1]) := by
  decide +kernel

end Legacy

end QVerif.Evqe
