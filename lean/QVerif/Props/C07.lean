import QVerif.Lemmas.RunnerInv
import QVerif.Model.Install

/-!
# C07 — the wrapped primitive is never used concurrently

Batching wrappers: `Runner.f_exclusive` (a corollary of the inductive control invariant `CInv` of the runner
model, `Lemmas/RunnerInv.lean`): in every reachable state — any number of threads and calls, any interleaving,
any failing batches — at most one thread is between the start of `f(batch)` and the return of its `.result()`
(location `b3`), and that thread owns both locks.

Plain mutex wrappers (`MutexSampler.run`, `MutexEstimator.run` = `with lock: return inner.run(...)`): a
three-location lock model, proved here.
-/

namespace MutexModel

/-- location of a thread calling `MutexSampler.run`: outside, inside `inner.run` (lock held) -/
inductive Loc | out | inside
  deriving DecidableEq, Repr

structure St where
  lock : Option Nat := none
  th : List Loc := []

/-- `with self._lock:` acquire (enabled iff free) then `inner.run(...)`; leaving the block releases -/
def step (s : St) (t : Nat) : Option St :=
  if t ≥ s.th.length then none else
  match s.th.getD t .out with
  | .out => if s.lock = none then some { lock := some t, th := s.th.set t .inside } else none
  | .inside => some { lock := none, th := s.th.set t .out }

inductive Reachable (n : Nat) : St → Prop
  | init : Reachable n { th := List.replicate n .out }
  | next {s s' : St} (t : Nat) : Reachable n s → step s t = some s' → Reachable n s'

def MInv (s : St) : Prop := ∀ t, t < s.th.length → (s.th.getD t .out = .inside ↔ s.lock = some t)

theorem minv_step {s s' : St} {t : Nat} (h : MInv s) (hs : step s t = some s') : MInv s' := by
  unfold step at hs
  split at hs
  · cases hs
  · rename_i hlt
    have hlt : t < s.th.length := by omega
    split at hs
    · rename_i hout
      split at hs
      · rename_i hfree
        cases hs
        intro u hu
        simp only [List.length_set] at hu
        by_cases hut : u = t
        · subst hut; simp [List.getD_eq_getElem?_getD, hu]
        · have := h u hu
          simp only [List.getD_eq_getElem?_getD, List.getElem?_set, hfree] at this ⊢
          have hne : ¬ t = u := fun e => hut e.symm
          simp only [hne, ↓reduceIte, Option.some.injEq]
          constructor
          · intro hi; exact absurd (this.mp hi) (by simp)
          · intro e; exact e.elim
      · cases hs
    · rename_i hin
      cases hs
      intro u hu
      simp only [List.length_set] at hu
      have ht := (h t hlt).mp hin
      by_cases hut : u = t
      · subst hut; simp [List.getD_eq_getElem?_getD, hu]
      · have := h u hu
        simp only [List.getD_eq_getElem?_getD, List.getElem?_set] at this ⊢
        have hne : ¬ t = u := fun e => hut e.symm
        simp only [hne, ↓reduceIte, reduceCtorEq, iff_false]
        intro hi
        have := this.mp hi
        rw [ht] at this
        exact hut (Option.some.inj this).symm

theorem minv_reachable {n : Nat} {s : St} (hr : Reachable n s) : MInv s := by
  induction hr with
  | init =>
    intro t ht
    simp only [List.length_replicate] at ht
    simp [List.getD_eq_getElem?_getD, List.getElem?_replicate, ht]
  | next t _ hs ih => exact minv_step ih hs

/-- **C07 (plain mutex wrappers)**: two threads inside `inner.run` are the same thread. -/
theorem mutex_run_exclusive {n : Nat} {s : St} (hr : Reachable n s) (a b : Nat)
    (ha : a < s.th.length) (hb : b < s.th.length)
    (hia : s.th.getD a .out = .inside) (hib : s.th.getD b .out = .inside) : a = b := by
  have h := minv_reachable hr
  have h1 := (h a ha).mp hia
  have h2 := (h b hb).mp hib
  rw [h1] at h2
  exact Option.some.inj h2

end MutexModel

namespace Runner

/-- **C07 (batching wrappers)** -/
theorem C07_f_exclusive (th0 : List TS) (h0 : ∀ x ∈ th0, x.loc = .idle) {s : St} (hr : Reachable th0 s)
    (a b : Nat) (ha : (s.get a).loc = .b3) (hb : (s.get b).loc = .b3) : a = b ∧ s.E = some a ∧ s.V = some a :=
  f_exclusive th0 h0 hr a b ha hb

/-- non-vacuity: a concrete reachable state with a thread inside `f` (two threads, one call each) -/
def exProg : List TS := [{ todo := [[1]] }, { todo := [[2, 3]] }]

/-- thread 0 enters alone, arrives, becomes executor and calls `f` -/
def exTrace : List Act := (List.replicate 9 (Act.step 0))

example : ((runActs { th := exProg } exTrace).map (fun s => ((s.get 0).loc, s.E, s.V))) = some (.b3, some 0, some 0) := by
  decide

end Runner

/-! ## The solver's constructor: every solver built on a shared configured primitive evaluates through the SAME guard -/

namespace QVerif.Install

theorem mem_viewsFrom_suffix : ∀ (cfgs : List Cfg) (k : Nat) (chain v : List W), v ∈ viewsFrom cfgs k chain →
    ∀ w ∈ chain, w ∈ v
  | [], _, _, _, h, _, _ => by cases h
  | c :: cs, k, chain, v, h, w, hw => by
      simp only [viewsFrom, List.mem_cons] at h
      have hin : w ∈ install c k chain := by
        unfold install
        cases guardOf c k <;> simp [hw]
      rcases h with rfl | h
      · exact hin
      · exact mem_viewsFrom_suffix cs (k + 1) (install c k chain) v h w hin

/-- **One guard for all solvers.**  If the first solver constructed on a configured primitive asks for mutual exclusion (thread
pool: batching runner; dask client: lock), the guard object it installs lies on the evaluation path of EVERY solver
constructed on that configured primitive afterwards, whatever their own configuration: all of them are serialised by that one
runner / lock (`C07_f_exclusive`, `mutex_run_exclusive`), and every path ends in a transpiling wrapper on the outside. -/
theorem shared_guard (c : Cfg) (cs : List Cfg) (g : W) (hg : guardOf c 0 = some g) :
    ∀ v ∈ views (c :: cs), g ∈ v ∧ v.head? = some .transpiling := by
  intro v hv
  have hgi : g ∈ install c 0 [] := by unfold install; rw [hg]; simp
  constructor
  · simp only [views, viewsFrom, List.mem_cons] at hv
    rcases hv with rfl | hv
    · exact hgi
    · exact mem_viewsFrom_suffix cs 1 (install c 0 []) v hv g hgi
  · have : ∀ (cfgs : List Cfg) (k : Nat) (chain v : List W), v ∈ viewsFrom cfgs k chain → v.head? = some .transpiling := by
      intro cfgs
      induction cfgs with
      | nil => intro k chain v h; cases h
      | cons c' cs' ih =>
        intro k chain v h
        simp only [viewsFrom, List.mem_cons] at h
        rcases h with rfl | h
        · simp [install]
        · exact ih _ _ v h
    exact this _ _ _ v hv

-- two solvers with a thread pool on one configured estimator: T(B1(T(B0(raw)))) — both evaluate through runner 0
example : views [⟨true, .threadPool⟩, ⟨true, .threadPool⟩] =
    [[.transpiling, .batching 0], [.transpiling, .batching 1, .transpiling, .batching 0]] := by decide

end QVerif.Install
