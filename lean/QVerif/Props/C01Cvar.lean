import QVerif.Props.C01
import QVerif.Props.C14

/-!
# C01 ∘ C14 — the objective of a measured distribution of feasible schedules

The evaluators hand the aggregation (C14) a distribution over measured bitstrings, each valued with the Hamiltonian's
eigenvalue (C01).  If every sampled bitstring decodes to a feasible schedule, the exact CVaR of that distribution — for every
tail fraction — lies in `[0, W]`, the band C01 reserves for feasible schedules; so a sampled objective above `W` witnesses an
infeasible sample.
-/

namespace QVerif.Encoder

open QVerif.Cvar

/-- measured bitstrings with their probabilities, valued with the Hamiltonian's eigenvalue -/
def energyDist (pen : Penalties) (inst : EInst) (vars : List (List Var)) (limit : Nat) (ms : List (Bits × Rat)) : Dist :=
  ms.map (fun m => (m.2, energyOf pen inst vars limit m.1))

theorem plainExpectation_le (M : Rat) : ∀ l : Dist, NonnegProbs l → (∀ x ∈ l, x.2 ≤ M) → plainExpectation l ≤ M * mass l
  | [], _, _ => by simp [plainExpectation, mass, Rat.mul_zero]
  | (p, v) :: t, hn, hM => by
      have ih := plainExpectation_le M t (fun x hx => hn x (List.mem_cons_of_mem _ hx)) (fun x hx => hM x (List.mem_cons_of_mem _ hx))
      have hp : 0 ≤ p := hn (p, v) (by simp)
      have hv : v ≤ M := hM (p, v) (by simp)
      have := Rat.mul_le_mul_of_nonneg_left hv hp
      simp only [plainExpectation, mass]
      grind

/-- **feasible samples give an objective in `[0, W]`** -/
theorem cvar_of_feasible_samples (pen : Penalties) (hr : Regime pen) (inst : EInst) (limit : Nat) (vars : List (List Var))
    (h : prepare inst limit = .ok vars) (ms : List (Bits × Rat)) (alpha : Rat) (h0 : 0 < alpha) (h1 : alpha ≤ 1)
    (hprob : ∀ m ∈ ms, 0 ≤ m.2) (hmass : mass (energyDist pen inst vars limit ms) = 1)
    (hfeas : ∀ m ∈ ms, m.1.length = nQubits vars ∧
      (∀ x ∈ (opVars inst vars).flatten, (decodeVar x.var m.1).isSome = true) ∧
      nPrecViolated (opVars inst vars) m.1 = 0 ∧ nOvlViolated (opVars inst vars) m.1 = 0) :
    0 ≤ cvarExact (energyDist pen inst vars limit ms) alpha ∧ cvarExact (energyDist pen inst vars limit ms) alpha ≤ pen.opt := by
  have hn : NonnegProbs (energyDist pen inst vars limit ms) := by
    intro x hx
    simp only [energyDist, List.mem_map] at hx
    obtain ⟨m, hm, rfl⟩ := hx
    exact hprob m hm
  have hvals : ∀ x ∈ energyDist pen inst vars limit ms, 0 ≤ x.2 ∧ x.2 ≤ pen.opt := by
    intro x hx
    simp only [energyDist, List.mem_map] at hx
    obtain ⟨m, hm, rfl⟩ := hx
    obtain ⟨hl, ha, hp, ho⟩ := hfeas m hm
    exact energy_feasible pen hr inst limit vars h m.1 hl ha hp ho
  constructor
  · exact cvar_ge_min _ alpha 0 hn h0 (by rw [hmass]; exact h1) (fun x hx => (hvals x hx).1)
  · have h2 := cvar_le_expectation _ alpha hn hmass h0 h1
    have h3 := plainExpectation_le pen.opt _ hn (fun x hx => (hvals x hx).2)
    rw [hmass] at h3
    grind

end QVerif.Encoder
