import QVerif.Lemmas.Solver

/-!
# C05 — the solver result is consistent with its own evaluation history

The *script* (estimates, callback events, criterion answers) is arbitrary, so the theorems hold for every
configuration and every way the evolution can unfold.  "In every recorded evaluation the value at index `i` belongs to
individual `i` and the best entry is their minimum" is `selection_spec` (C10); "re-evaluating the best individual
reproduces the eigenvalue" follows from C04 for an evaluator that is a function of the bound circuit.
-/

namespace QVerif.Solver

/-- the running best is the FIRST entry of the history attaining the minimum value: the history splits into entries
strictly above the best value, the best entry, and entries not below it -/
theorem best_is_first_min : ∀ (hist : List (Nat × Rat)) (acc : Option (Nat × Rat)) (b : Nat) (v : Rat),
    hist.foldl upd acc = some (b, v) →
    (acc = some (b, v) ∧ ∀ e ∈ hist, v ≤ e.2) ∨
    (∃ pre post, hist = pre ++ (b, v) :: post ∧ (∀ e ∈ pre, v < e.2) ∧ (∀ e ∈ post, v ≤ e.2) ∧
      ∀ a, acc = some a → v < a.2)
  | [], acc, b, v, h => by
      simp only [List.foldl_nil] at h
      exact Or.inl ⟨h, by simp⟩
  | e :: t, acc, b, v, h => by
      simp only [List.foldl_cons] at h
      rcases best_is_first_min t (upd acc e) b v h with ⟨hu, ht⟩ | ⟨pre, post, hsplit, hpre, hpost, hacc⟩
      · cases acc with
        | none =>
          simp only [upd, Option.some.injEq] at hu
          subst hu
          exact Or.inr ⟨[], t, rfl, by simp, ht, by simp⟩
        | some a =>
          obtain ⟨b0, v0⟩ := a
          simp only [upd] at hu
          by_cases hlt : e.2 < v0
          · simp only [hlt, ↓reduceIte, Option.some.injEq] at hu
            subst hu
            refine Or.inr ⟨[], t, rfl, by simp, ht, ?_⟩
            intro a ha; simp only [Option.some.injEq] at ha; subst ha; exact hlt
          · simp only [hlt, ↓reduceIte, Option.some.injEq, Prod.mk.injEq] at hu
            obtain ⟨rfl, rfl⟩ := hu
            refine Or.inl ⟨rfl, ?_⟩
            intro x hx
            rcases List.mem_cons.mp hx with rfl | hx
            · grind
            · exact ht x hx
      · right
        refine ⟨e :: pre, post, by rw [hsplit]; rfl, ?_, hpost, ?_⟩
        · intro x hx
          rcases List.mem_cons.mp hx with rfl | hx
          · cases acc with
            | none => exact hacc x (by simp [upd])
            | some a =>
              obtain ⟨b0, v0⟩ := a
              by_cases hlt : x.2 < v0
              · exact hacc x (by simp [upd, hlt])
              · have := hacc (b0, v0) (by simp [upd, hlt]); simp only at this; grind
          · exact hpre x hx
        · intro a ha
          subst ha
          obtain ⟨b0, v0⟩ := a
          by_cases hlt : e.2 < v0
          · have := hacc e (by simp [upd, hlt]); simp only; grind
          · exact hacc (b0, v0) (by simp [upd, hlt])

/-- **The result is consistent with the history** -/
theorem result_consistent (cfg : Cfg) (script : List Step) (r : Result) (started : List St)
    (h : solve cfg script = (.ok r, started)) :
    r.history ≠ [] ∧ r.generations = r.history.length ∧
    (∃ pre post, r.history = pre ++ (r.bestIndividual, r.eigenvalue) :: post ∧
      (∀ e ∈ pre, r.eigenvalue < e.2) ∧ (∀ e ∈ post, r.eigenvalue ≤ e.2)) ∧
    r.measured = r.bestIndividual ∧
    r.circuitEvaluations.length ≤ r.generations + 1 ∧
    r.circuitEvaluations.sum = ((script.take started.length).map (fun st => countsOf st.events)).sum := by
  unfold solve at h
  cases hrun : runLoop cfg {} script with
  | mk sF r2 =>
    obtain ⟨st, ex⟩ := r2
    rw [hrun] at h
    simp only at h
    obtain ⟨hinv, _, _, _, _, hsum, _, _, _⟩ := runLoop_spec cfg script {} sF st ex sinv_init hrun
    split at h
    · cases h
    · cases hb : sF.best with
      | none => rw [hb] at h; cases h
      | some p =>
        obtain ⟨b, v⟩ := p
        rw [hb] at h
        simp only at h
        split at h
        · cases h
        · rename_i hne
          simp only [Prod.mk.injEq, Outcome.ok.injEq] at h
          obtain ⟨rfl, rfl⟩ := h
          have hbest := hinv.best
          rw [hb] at hbest
          refine ⟨?_, hinv.gen, ?_, rfl, hinv.len, ?_⟩
          · intro hnil; apply hne; simp only at hnil; simp [hnil]
          · rcases best_is_first_min sF.hist none b v hbest.symm with ⟨h3, _⟩ | ⟨pre, post, h1, h2, h3, _⟩
            · cases h3
            · exact ⟨pre, post, h1, h2, h3⟩
          · simpa using hsum

/-! ### one ledger entry per evaluated generation (plus at most one trailing entry) -/

/-- every result event is preceded by a count event since the previous result event (`pending` = a count has
been seen since then) — what selection guarantees -/
def WellCounted : Bool → List Ev → Prop
  | _, [] => True
  | _, .count _ :: t => WellCounted true t
  | p, .result _ _ _ :: t => p = true ∧ WellCounted false t

def pendingAfter : Bool → List Ev → Bool
  | p, [] => p
  | _, .count _ :: t => pendingAfter true t
  | _, .result _ _ _ :: t => pendingAfter false t

theorem ledger_length_events (cfg : Cfg) : ∀ (evs : List Ev) (s : St) (p : Bool), SInv s →
    s.ledger.length = s.nGen + (if p then 1 else 0) → WellCounted p evs →
    (evs.foldl (onEvent cfg) s).ledger.length = (evs.foldl (onEvent cfg) s).nGen + (if pendingAfter p evs then 1 else 0)
  | [], s, p, _, hl, _ => by simp only [List.foldl_nil, pendingAfter]; exact hl
  | .count n :: t, s, p, hs, hl, hw => by
      simp only [List.foldl_cons, pendingAfter]
      apply ledger_length_events cfg t _ true (sinv_event cfg s (.count n) hs) _ hw
      simp only [onEvent, onCount]
      cases p with
      | true =>
        simp only [↓reduceIte] at hl
        have : ¬ (s.ledger.length < s.nGen + 1) := by omega
        simp only [this, ↓reduceIte, List.length_set]; omega
      | false =>
        simp only [Bool.false_eq_true, ↓reduceIte, Nat.add_zero] at hl
        have : s.ledger.length < s.nGen + 1 := by omega
        simp only [this, ↓reduceIte, List.length_append, List.length_cons, List.length_nil]; omega
  | .result b v c :: t, s, p, hs, hl, hw => by
      obtain ⟨hp, hw'⟩ := hw
      subst hp
      simp only [List.foldl_cons, pendingAfter]
      apply ledger_length_events cfg t _ false (sinv_event cfg s (.result b v c) hs) _ hw'
      simp only [onEvent, onResult]
      simp only [↓reduceIte] at hl
      simp [hl]

end QVerif.Solver
