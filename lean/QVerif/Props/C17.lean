import QVerif.Model.Seeds

/-!
# C17 — seeded runs are reproducible: the outcome of a mutation-operator application does not depend on the schedule

`schedule_independent`: for EVERY interleaving of the submitting loop with worker actions (any number of workers, any
order of task execution, tasks running while the loop is still submitting) the generator state after the application
and the new individuals are those of the sequential reference.  `shared_generator_depends_on_schedule`: the variant in
which tasks draw their seed from the operator's generator themselves (the seeded change for C17) does not have this
property — two schedules with one worker give different results (kernel-checked).
-/

namespace QVerif.Seeds

variable {S U Ind Res : Type}

/-! ### the sequential reference -/

theorem subAt_succ_none (c : Cfg S U Ind Res) (s0 : S) (k : Nat) (h : c.inds[k]? = none) : subAt c s0 (k + 1) = subAt c s0 k := by
  simp [subAt, h]

theorem subAt_idx_lt (c : Cfg S U Ind Res) (s0 : S) : ∀ k, ∀ t ∈ (subAt c s0 k).2, t.idx < k
  | 0 => by simp [subAt]
  | k + 1 => by
      intro t ht
      have ih := subAt_idx_lt c s0 k
      simp only [subAt] at ht
      cases hx : c.inds[k]? with
      | none => rw [hx] at ht; have := ih t ht; omega
      | some x =>
        rw [hx] at ht
        simp only at ht
        split at ht
        · simp only [List.mem_append, List.mem_singleton] at ht
          rcases ht with ht | rfl
          · have := ih t ht; omega
          · simp
        · have := ih t ht; omega

theorem subAt_mono (c : Cfg S U Ind Res) (s0 : S) (k : Nat) : ∀ t ∈ (subAt c s0 k).2, t ∈ (subAt c s0 (k + 1)).2 := by
  intro t ht
  simp only [subAt]
  cases hx : c.inds[k]? with
  | none => exact ht
  | some x =>
    simp only
    split
    · simp [ht]
    · exact ht

theorem subAt_unique (c : Cfg S U Ind Res) (s0 : S) : ∀ k, ∀ t ∈ (subAt c s0 k).2, ∀ t' ∈ (subAt c s0 k).2, t.idx = t'.idx → t = t'
  | 0 => by simp [subAt]
  | k + 1 => by
      intro t ht t' ht' hi
      have ih := subAt_unique c s0 k
      have hlt := subAt_idx_lt c s0 k
      simp only [subAt] at ht ht'
      cases hx : c.inds[k]? with
      | none => rw [hx] at ht ht'; exact ih t ht t' ht' hi
      | some x =>
        rw [hx] at ht ht'
        simp only at ht ht'
        split at ht
        · rename_i hm
          simp only [hm, ↓reduceIte, List.mem_append, List.mem_singleton] at ht ht'
          rcases ht with ht | rfl <;> rcases ht' with ht' | rfl
          · exact ih t ht t' ht' hi
          · have := hlt t ht; simp only at hi; omega
          · have := hlt t' ht'; simp only at hi; omega
          · rfl
        · rename_i hm
          simp only [hm] at ht'
          exact ih t ht t' ht' hi

/-! ### the invariant of the transition system -/

structure Inv (c : Cfg S U Ind Res) (s0 : S) (st : St S Ind Res) : Prop where
  le : st.next ≤ c.inds.length
  rng : st.rng = (subAt c s0 st.next).1
  pending : ∀ t ∈ st.pending, t ∈ (subAt c s0 st.next).2
  done : ∀ e ∈ st.done, ∃ t ∈ (subAt c s0 st.next).2, e = (t.idx, c.task t.ind t.seed)
  all : ∀ t ∈ (subAt c s0 st.next).2, t ∈ st.pending ∨ (t.idx, c.task t.ind t.seed) ∈ st.done

theorem inv_init (c : Cfg S U Ind Res) (s0 : S) : Inv c s0 (init c s0) :=
  ⟨Nat.zero_le _, rfl, by simp [init], by simp [init], by simp [init, subAt]⟩

theorem inv_step (c : Cfg S U Ind Res) (s0 : S) (st : St S Ind Res) (h : Inv c s0 st) (a : Act) : Inv c s0 (step c st a) := by
  cases a with
  | submit =>
    simp only [step, submitStep]
    cases hx : c.inds[st.next]? with
    | none => exact h
    | some x =>
      have hlt : st.next < c.inds.length := by
        rcases List.getElem?_eq_some_iff.mp hx with ⟨hl, _⟩; exact hl
      simp only
      rw [h.rng]
      by_cases hm : c.mutate (c.R.rand (subAt c s0 st.next).1).1 = true
      · have hsub : subAt c s0 (st.next + 1) =
            ((c.R.seed (c.R.rand (subAt c s0 st.next).1).2).2,
             (subAt c s0 st.next).2 ++ [⟨st.next, x, (c.R.seed (c.R.rand (subAt c s0 st.next).1).2).1⟩]) := by
          simp [subAt, hx, hm]
        simp only [hm, ↓reduceIte]
        refine ⟨by simp only; omega, by simp only; rw [hsub], ?_, ?_, ?_⟩
        · intro t ht
          simp only [List.mem_append, List.mem_singleton] at ht
          simp only [hsub, List.mem_append, List.mem_singleton]
          rcases ht with ht | rfl
          · exact Or.inl (h.pending t ht)
          · exact Or.inr rfl
        · intro e he
          obtain ⟨t, ht, rfl⟩ := h.done e he
          exact ⟨t, by simp [hsub, ht], rfl⟩
        · intro t ht
          simp only [hsub, List.mem_append, List.mem_singleton] at ht
          rcases ht with ht | rfl
          · rcases h.all t ht with hp | hd
            · exact Or.inl (by simp [hp])
            · exact Or.inr hd
          · exact Or.inl (by simp)
      · have hsub : subAt c s0 (st.next + 1) = ((c.R.rand (subAt c s0 st.next).1).2, (subAt c s0 st.next).2) := by
          simp [subAt, hx, hm]
        simp only [hm, Bool.false_eq_true, ↓reduceIte]
        refine ⟨by simp only; omega, by simp only; rw [hsub], ?_, ?_, ?_⟩
        · intro t ht; simp only [hsub]; exact h.pending t ht
        · intro e he; simp only [hsub]; exact h.done e he
        · intro t ht; simp only [hsub] at ht; exact h.all t ht
  | run k =>
    simp only [step]
    cases hp : st.pending[k]? with
    | none => exact h
    | some t =>
      have htm : t ∈ st.pending := List.mem_of_getElem? hp
      simp only
      refine ⟨h.le, h.rng, ?_, ?_, ?_⟩
      · intro t' ht'
        exact h.pending t' (List.mem_of_mem_eraseIdx ht')
      · intro e he
        simp only [List.mem_append, List.mem_singleton] at he
        rcases he with he | rfl
        · exact h.done e he
        · exact ⟨t, h.pending t htm, rfl⟩
      · intro t' ht'
        rcases h.all t' ht' with hp' | hd
        · by_cases heq : t' = t
          · subst heq; exact Or.inr (by simp)
          · left
            -- t' is still pending: it is a different task (indices of submitted tasks are pairwise different)
            rcases List.getElem?_eq_some_iff.mp hp with ⟨hk, hkt⟩
            rcases List.mem_iff_getElem.mp hp' with ⟨j, hj, hjt⟩
            have hjk : j ≠ k := by
              intro hjk; subst hjk; exact heq (hjt.symm.trans hkt)
            exact List.mem_eraseIdx_iff_getElem.mpr ⟨j, hj, hjk, hjt⟩
        · exact Or.inr (by simp [hd])

theorem inv_exec (c : Cfg S U Ind Res) (s0 : S) (acts : List Act) : Inv c s0 (exec c s0 acts) := by
  unfold exec
  suffices h : ∀ st, Inv c s0 st → Inv c s0 (acts.foldl (step c) st) from h _ (inv_init c s0)
  induction acts with
  | nil => intro st h; exact h
  | cons a t ih => intro st h; exact ih _ (inv_step c s0 st h a)

/-! ### look-ups in lists that agree as sets and are functional -/

theorem lookup_eq_some_of_mem {β} : ∀ (L : List (Nat × β)) (i : Nat) (r : β),
    (∀ e ∈ L, ∀ e' ∈ L, e.1 = e'.1 → e = e') → (i, r) ∈ L → L.lookup i = some r
  | [], _, _, _, h => by simp at h
  | (k, v) :: L, i, r, hu, h => by
      simp only [List.lookup_cons]
      by_cases hik : i = k
      · subst hik
        have := hu (i, r) h (i, v) (by simp) rfl
        simp only [Prod.mk.injEq, true_and] at this
        simp [this]
      · have hne : (i == k) = false := by simpa using hik
        simp only [hne]
        have hm : (i, r) ∈ L := by
          rcases List.mem_cons.mp h with h | h
          · simp only [Prod.mk.injEq] at h; exact absurd h.1 hik
          · exact h
        exact lookup_eq_some_of_mem L i r (fun e he e' he' => hu e (by simp [he]) e' (by simp [he'])) hm

theorem lookup_eq_none_of_not_mem {β} : ∀ (L : List (Nat × β)) (i : Nat), (∀ e ∈ L, e.1 ≠ i) → L.lookup i = none
  | [], _, _ => rfl
  | (k, v) :: L, i, h => by
      simp only [List.lookup_cons]
      have hne : (i == k) = false := by
        have := h (k, v) (by simp); simp only [ne_eq] at this; simpa using fun hh => this hh.symm
      simp only [hne]
      exact lookup_eq_none_of_not_mem L i (fun e he => h e (by simp [he]))

theorem lookup_congr {β} (L L' : List (Nat × β)) (h1 : ∀ e ∈ L, e ∈ L') (h2 : ∀ e ∈ L', e ∈ L)
    (hu : ∀ e ∈ L', ∀ e' ∈ L', e.1 = e'.1 → e = e') (i : Nat) : L.lookup i = L'.lookup i := by
  have hu' : ∀ e ∈ L, ∀ e' ∈ L, e.1 = e'.1 → e = e' := fun e he e' he' => hu e (h1 e he) e' (h1 e' he')
  by_cases hex : ∃ r, (i, r) ∈ L
  · obtain ⟨r, hr⟩ := hex
    rw [lookup_eq_some_of_mem L i r hu' hr, lookup_eq_some_of_mem L' i r hu (h1 _ hr)]
  · have hn : ∀ e ∈ L, e.1 ≠ i := by
      intro e he hi
      exact hex ⟨e.2, by rw [← hi]; exact he⟩
    have hn' : ∀ e ∈ L', e.1 ≠ i := fun e he => hn e (h2 e he)
    rw [lookup_eq_none_of_not_mem L i hn, lookup_eq_none_of_not_mem L' i hn']

/-! ### the theorem -/

/-- **Schedule independence.**  Whatever the interleaving of the submitting loop and the workers, once the
application is over the generator is in the state, and the individuals are the ones, of the sequential reference. -/
theorem schedule_independent (c : Cfg S U Ind Res) (inject : Ind → Res) (s0 : S) (acts : List Act)
    (hc : Complete c (exec c s0 acts)) :
    ((exec c s0 acts).rng, gather inject c.inds (exec c s0 acts)) = reference c inject s0 := by
  have h := inv_exec c s0 acts
  obtain ⟨hn, hp⟩ := hc
  unfold reference
  cases hs : subAt c s0 c.inds.length with
  | mk s ts =>
    simp only
    have hrng : (exec c s0 acts).rng = s := by rw [h.rng, hn, hs]
    rw [hrng]
    congr 1
    unfold gather
    apply List.map_congr_left
    intro xi _
    obtain ⟨x, i⟩ := xi
    simp only
    have hts : (subAt c s0 (exec c s0 acts).next).2 = ts := by rw [hn, hs]
    rw [lookup_congr (exec c s0 acts).done (ts.map (fun t => (t.idx, c.task t.ind t.seed))) ?_ ?_ ?_ i]
    · intro e he
      obtain ⟨t, ht, rfl⟩ := h.done e he
      rw [hts] at ht
      exact List.mem_map.mpr ⟨t, ht, rfl⟩
    · intro e he
      obtain ⟨t, ht, rfl⟩ := List.mem_map.mp he
      rcases h.all t (by rw [hts]; exact ht) with hpd | hd
      · rw [hp] at hpd; simp at hpd
      · exact hd
    · intro e he e' he' hi
      obtain ⟨t, ht, rfl⟩ := List.mem_map.mp he
      obtain ⟨t', ht', rfl⟩ := List.mem_map.mp he'
      have := subAt_unique c s0 c.inds.length t (by rw [hs]; exact ht) t' (by rw [hs]; exact ht') hi
      rw [this]

/-- two complete schedules give the same outcome -/
theorem schedules_agree (c : Cfg S U Ind Res) (inject : Ind → Res) (s0 : S) (a b : List Act)
    (ha : Complete c (exec c s0 a)) (hb : Complete c (exec c s0 b)) :
    ((exec c s0 a).rng, gather inject c.inds (exec c s0 a)) = ((exec c s0 b).rng, gather inject c.inds (exec c s0 b)) := by
  rw [schedule_independent c inject s0 a ha, schedule_independent c inject s0 b hb]

/-! ### whole runs -/

theorem applyWith_eq_ref {S U Ind} (ops : List (Op S U Ind)) (st : RunSt S Ind) (k : Nat) (acts : List Act)
    (hc : AppComplete ops st k acts) : applyWith ops st k acts = applyRef ops st k := by
  unfold applyWith applyRef
  unfold AppComplete at hc
  cases ho : ops[k]? with
  | none => simp
  | some o =>
    cases hg : st.gens[k]? with
    | none => simp
    | some g =>
      simp only [ho, hg] at hc ⊢
      have := schedule_independent (o.cfg st.pop) id g acts hc
      have h1 := congrArg Prod.fst this
      have h2 := congrArg Prod.snd this
      simp only at h1 h2
      have hinds : (o.cfg st.pop).inds = st.pop := rfl
      rw [hinds] at h2
      rw [h1, h2]

/-- **Whole-run schedule independence.**  A run is a sequence of operator applications, each under an arbitrary
interleaving of its submitting loop and any number of workers; if every application ran to completion, the final
population and the final state of EVERY operator's generator are those of the sequential reference run — they depend on
the initial generator states (the seeds drawn in the constructor) and the initial population only, not on any schedule. -/
theorem run_schedule_independent {S U Ind} (ops : List (Op S U Ind)) :
    ∀ (seq : List (Nat × List Act)) (st : RunSt S Ind), RunComplete ops st seq →
      runWith ops st seq = runRef ops st (seq.map (·.1))
  | [], _, _ => rfl
  | (k, acts) :: rest, st, h => by
      simp only [runWith, List.map_cons, runRef]
      rw [← applyWith_eq_ref ops st k acts h.1]
      exact run_schedule_independent ops rest _ h.2

/-- two runs applying the same operators in the same order agree, whatever their schedules -/
theorem runs_agree {S U Ind} (ops : List (Op S U Ind)) (a b : List (Nat × List Act)) (st : RunSt S Ind)
    (hab : a.map (·.1) = b.map (·.1)) (ha : RunComplete ops st a) (hb : RunComplete ops st b) :
    runWith ops st a = runWith ops st b := by
  rw [run_schedule_independent ops a st ha, run_schedule_independent ops b st hb, hab]

/-- seeds drawn one after the other from one generator are a function of its initial state (the solver's constructor) -/
theorem drawSeeds_length (R : Rng S U) : ∀ k s, (drawSeeds R k s).1.length = k
  | 0, _ => rfl
  | k + 1, s => by simp [drawSeeds, drawSeeds_length R k]

/-! ## Non-vacuity and the shared-generator variant -/

/-- a counter as generator: every draw returns the state and increments it -/
def counter : Rng Nat Nat := { rand := fun s => (s, s + 1), seed := fun s => (s, s + 1) }

def exCfg : Cfg Nat Nat Nat Nat := { R := counter, mutate := fun _ => true, inds := [100, 200], task := fun x sd => x + sd }

-- worker runs each task as soon as it is submitted / only after the loop has finished: same outcome
example : Complete exCfg (exec exCfg 0 [.submit, .run 0, .submit, .run 0]) := ⟨by decide, by decide⟩
example : Complete exCfg (exec exCfg 0 [.submit, .submit, .run 1, .run 0]) := ⟨by decide, by decide⟩
example : gather id exCfg.inds (exec exCfg 0 [.submit, .run 0, .submit, .run 0]) = [101, 203] := by decide
example : gather id exCfg.inds (exec exCfg 0 [.submit, .submit, .run 1, .run 0]) = [101, 203] := by decide

-- a run of two operators (a mutating one and one that never mutates), three applications, two different schedules
def exOps : List (Op Nat Nat Nat) :=
  [{ R := counter, mutate := fun _ => true, task := fun x sd => x + sd }, { R := counter, mutate := fun _ => false, task := fun x _ => x }]
def exRunA : List (Nat × List Act) := [(0, [.submit, .run 0, .submit, .run 0]), (1, [.submit, .submit]), (0, [.submit, .submit, .run 1, .run 0])]
def exRunB : List (Nat × List Act) := [(0, [.submit, .submit, .run 0, .run 0]), (1, [.submit, .submit]), (0, [.submit, .run 0, .submit, .run 0])]
example : RunComplete exOps ⟨[0, 50], [100, 200]⟩ exRunA := by
  refine ⟨⟨by decide, by decide⟩, ⟨by decide, by decide⟩, ⟨by decide, by decide⟩, trivial⟩
example : (runWith exOps ⟨[0, 50], [100, 200]⟩ exRunA).pop = [106, 210] ∧ (runWith exOps ⟨[0, 50], [100, 200]⟩ exRunB).pop = [106, 210] ∧
    (runWith exOps ⟨[0, 50], [100, 200]⟩ exRunA).gens = [8, 52] := by decide

/-- with the seed drawn inside the task from the operator's generator, one worker and two schedules give different
individuals -/
theorem shared_generator_depends_on_schedule :
    gather id exCfg.inds (Shared.exec exCfg 0 [.submit, .run 0, .submit, .run 0]) ≠
    gather id exCfg.inds (Shared.exec exCfg 0 [.submit, .submit, .run 0, .run 0]) := by decide

end QVerif.Seeds
