import QVerif.Lemmas.Criteria

/-!
# C13 — convergence criteria decide by the magnitude of the documented change

For every criterion: the documented change measure between consecutive evaluations, and
`answer_iff`: the criterion answers *terminate* at step `k` **iff** at least `allowed + 1` measures exist
and each of the last `allowed + 1` of them is below the threshold (`WindowBelow`).
Measures are magnitudes (`rabs`); relative measures divide by the magnitude of the reference value and are
`+∞` (never below a threshold) when the reference is zero.  The model functions are total (never raise).
-/

namespace QVerif.Criteria

/-! ## the documented measures -/

/-- |Δ best| -/
def mBest (p : Rat) (e : Eval) : ERat := some (rabs (p - e.best))
/-- |Δ best| / |previous best| -/
def mBestRel (p : Rat) (e : Eval) : ERat := relChange (rabs (p - e.best)) p
/-- max(median Hausdorff distance, |Δ best|) -/
def mPop (l e : Eval) : ERat := some (popMeasure l e)
/-- the same, relative to |median of the previous generation| -/
def mPopRel (l e : Eval) : ERat := popRelMeasure l e

/-- the measures are magnitudes: never negative, `+∞` only for a zero reference -/
theorem rabs_nonneg (x : Rat) : 0 ≤ rabs x := by unfold rabs; split <;> grind

theorem relChange_eq (c r : Rat) : relChange c r = if r = 0 then none else some (c / rabs r) := rfl

/-! ## answer ⇔ documented window condition -/

theorem bestChange_answer_iff (allowed : Nat) (thr : Rat) (evals : List Eval) (k : Nat)
    (hk : k < (runCrit (bestChangeCheck allowed thr) {} evals).length) :
    (runCrit (bestChangeCheck allowed thr) {} evals)[k] = true ↔
      WindowBelow (measures (·.best) mBest (evals.take (k + 1))) allowed thr := by
  have hstep : StepLike (bestChangeCheck allowed thr) (·.best) mBest BestState.prev BestState.hist allowed thr [] := by
    intro s e hpre
    unfold bestChangeCheck
    cases hp : s.prev with
    | none => simp [hpre hp, decide_]
    | some p => simp [mBest]
  have := run_generic (bestChangeCheck allowed thr) (·.best) mBest BestState.prev BestState.hist allowed thr []
    hstep [] evals {} rfl rfl k hk
  rw [this]
  simpa using decide_iff_plain _ allowed thr

theorem bestRelChange_answer_iff (allowed : Nat) (thr : Rat) (evals : List Eval) (k : Nat)
    (hk : k < (runCrit (bestRelChangeCheck allowed thr) {} evals).length) :
    (runCrit (bestRelChangeCheck allowed thr) {} evals)[k] = true ↔
      WindowBelow (measures (·.best) mBestRel (evals.take (k + 1))) allowed thr := by
  have hstep : StepLike (bestRelChangeCheck allowed thr) (·.best) mBestRel BestState.prev BestState.hist allowed thr [] := by
    intro s e hpre
    unfold bestRelChangeCheck
    cases hp : s.prev with
    | none => simp [hpre hp, decide_]
    | some p => simp [mBestRel]
  have := run_generic (bestRelChangeCheck allowed thr) (·.best) mBestRel BestState.prev BestState.hist allowed thr []
    hstep [] evals {} rfl rfl k hk
  rw [this]
  simpa using decide_iff_plain _ allowed thr

theorem popChange_answer_iff (allowed : Nat) (thr : Rat) (evals : List Eval) (k : Nat)
    (hk : k < (runCrit (popChangeCheck allowed thr) (popInit allowed) evals).length) :
    (runCrit (popChangeCheck allowed thr) (popInit allowed) evals)[k] = true ↔
      WindowBelow (measures id mPop (evals.take (k + 1))) allowed thr := by
  have hstep : StepLike (popChangeCheck allowed thr) id mPop PopState.last PopState.hist allowed thr
      (List.replicate (allowed + 1) none) := by
    intro s e _
    unfold popChangeCheck
    cases hp : s.last <;> simp [mPop]
  have := run_generic (popChangeCheck allowed thr) id mPop PopState.last PopState.hist allowed thr
    (List.replicate (allowed + 1) none) hstep [] evals (popInit allowed) rfl (by simp [popInit, measures]) k hk
  rw [this]
  simpa using decide_iff_prefilled _ allowed thr

theorem popRelChange_answer_iff (allowed : Nat) (thr : Rat) (evals : List Eval) (k : Nat)
    (hk : k < (runCrit (popRelChangeCheck allowed thr) (popInit allowed) evals).length) :
    (runCrit (popRelChangeCheck allowed thr) (popInit allowed) evals)[k] = true ↔
      WindowBelow (measures id mPopRel (evals.take (k + 1))) allowed thr := by
  have hstep : StepLike (popRelChangeCheck allowed thr) id mPopRel PopState.last PopState.hist allowed thr
      (List.replicate (allowed + 1) none) := by
    intro s e _
    unfold popRelChangeCheck
    cases hp : s.last <;> simp [mPopRel]
  have := run_generic (popRelChangeCheck allowed thr) id mPopRel PopState.last PopState.hist allowed thr
    (List.replicate (allowed + 1) none) hstep [] evals (popInit allowed) rfl (by simp [popInit, measures]) k hk
  rw [this]
  simpa using decide_iff_prefilled _ allowed thr

/-- plain threshold criterion: terminate iff the generation's best value is below the threshold -/
theorem threshold_answer_iff (thr : Rat) (e : Eval) : thresholdCheck thr e = true ↔ e.best < thr := by
  simp [thresholdCheck]

/-- the window condition never holds for a negative or zero threshold (measures are magnitudes) — so a
criterion configured with such a threshold never terminates, in particular not at the first check -/
theorem windowBelow_nonpos_threshold (ms : List ERat) (allowed : Nat) (thr : Rat) (hthr : thr ≤ 0)
    (hms : ∀ x ∈ ms, ∀ v, x = some v → 0 ≤ v) : ¬ WindowBelow ms allowed thr := by
  rintro ⟨hlen, hall⟩
  have hne : ms.drop (ms.length - (allowed + 1)) ≠ [] := by
    intro h
    have := congrArg List.length h
    simp only [List.length_drop, List.length_nil] at this
    omega
  obtain ⟨x, hx⟩ := List.exists_mem_of_ne_nil _ hne
  have h1 := hall x hx
  have h2 := hms x (List.mem_of_mem_drop hx)
  cases x with
  | none => simp at h1
  | some v =>
    have := h2 v rfl
    simp only [ERat.lt_some, decide_eq_true_eq] at h1
    grind

/-! ## `reset_state`: the answers afterwards depend only on the new history

`reset_state` re-establishes exactly the constructor's state, so the run after a reset *is* the run of a fresh
criterion (the theorems above then apply to the new history alone). -/

def bestReset (_ : BestState) : BestState := { prev := none, hist := [] }
def popReset (allowed : Nat) (_ : PopState) : PopState :=
  { last := none, hist := List.replicate (allowed + 1) none }

theorem best_reset_forgets (allowed : Nat) (thr : Rat) (s : BestState) (evals : List Eval) :
    runCrit (bestChangeCheck allowed thr) (bestReset s) evals = runCrit (bestChangeCheck allowed thr) {} evals ∧
    runCrit (bestRelChangeCheck allowed thr) (bestReset s) evals = runCrit (bestRelChangeCheck allowed thr) {} evals :=
  ⟨rfl, rfl⟩

theorem pop_reset_forgets (allowed : Nat) (thr : Rat) (s : PopState) (evals : List Eval) :
    runCrit (popChangeCheck allowed thr) (popReset allowed s) evals =
      runCrit (popChangeCheck allowed thr) (popInit allowed) evals ∧
    runCrit (popRelChangeCheck allowed thr) (popReset allowed s) evals =
      runCrit (popRelChangeCheck allowed thr) (popInit allowed) evals :=
  ⟨rfl, rfl⟩

/-! ## SPSA termination checker -/

/-- **implicit reset**: a callback whose `nfev` does not exceed the previous one (the first callback of a new
optimiser run — also when it is *equal*, as for consecutive `maxiter = 1` runs), or any callback after the
checker has answered *terminate* by convergence, is treated exactly as by a fresh checker: same answer, same
resulting state. -/
theorem spsa_new_run_forgets (allowed : Nat) (thr : Rat) (maxfev : Option Nat) (s : SpsaState) (c : SpsaCall)
    (hnew : s.done = true ∨ c.nfev ≤ s.nfev) :
    spsaCheck allowed thr maxfev s c = spsaCheck allowed thr maxfev {} c := by
  have h1 : spsaEnter s c = {} := by
    unfold spsaEnter
    have : (s.done || decide (c.nfev ≤ s.nfev)) = true := by
      rcases hnew with h | h <;> simp [h]
    simp only [this, ↓reduceIte]
    rfl
  have h2 : spsaEnter {} c = {} := by
    unfold spsaEnter
    split <;> rfl
  unfold spsaCheck
  rw [h1, h2]

/-- the whole remaining stream is answered as by a fresh checker -/
theorem spsa_new_run_forgets_stream (allowed : Nat) (thr : Rat) (maxfev : Option Nat) (s : SpsaState) (c : SpsaCall)
    (rest : List SpsaCall) (hnew : s.done = true ∨ c.nfev ≤ s.nfev) :
    runSpsa allowed thr maxfev s (c :: rest) = runSpsa allowed thr maxfev {} (c :: rest) := by
  simp only [runSpsa]
  rw [spsa_new_run_forgets allowed thr maxfev s c hnew]

/-- relative change between accepted function values, by the magnitude of the previous value -/
def spsaMeasure (p v : Rat) : ERat := if p = 0 then none else some (rabs (v - p) / rabs p)

def valueMeasures : List Rat → List ERat
  | a :: b :: t => spsaMeasure a b :: valueMeasures (b :: t)
  | _ => []

theorem valueMeasures_snoc (p : List Rat) (v : Rat) :
    valueMeasures (p ++ [v]) = valueMeasures p ++
      (match p.getLast? with | none => [] | some l => [spsaMeasure l v]) := by
  induction p with
  | nil => simp [valueMeasures]
  | cons a t ih =>
    cases t with
    | nil => simp [valueMeasures]
    | cons b t' =>
      have : (a :: b :: t') ++ [v] = a :: (b :: (t' ++ [v])) := rfl
      rw [this]
      simp only [valueMeasures]
      have ih' : valueMeasures (b :: (t' ++ [v])) = valueMeasures (b :: t') ++
          (match (b :: t').getLast? with | none => [] | some l => [spsaMeasure l v]) := ih
      rw [ih']
      simp [List.getLast?_cons_cons]

/-- **SPSA answer within one run.** In a state reached inside a run (not `done`, strictly larger `nfev`,
change history = measures of the accepted values so far), the answer to the next callback is *terminate* iff the
evaluation budget is exhausted, or the step is accepted and the documented window condition holds for the
accepted values including the new one. -/
theorem spsa_answer_iff (allowed : Nat) (thr : Rat) (maxfev : Option Nat) (s : SpsaState) (c : SpsaCall)
    (hrun : s.done = false ∧ s.nfev < c.nfev) (hinv : s.changes = valueMeasures s.values) :
    ((spsaCheck allowed thr maxfev s c).2 = true ↔
      ((∃ m, maxfev = some m ∧ m ≤ c.nfev) ∨
       ((∀ m, maxfev = some m → c.nfev < m) ∧ c.accepted = true ∧
         WindowBelow (valueMeasures (s.values ++ [c.value])) allowed thr))) ∧
    ((spsaCheck allowed thr maxfev s c).1.changes = valueMeasures (spsaCheck allowed thr maxfev s c).1.values) := by
  obtain ⟨hd, hn⟩ := hrun
  have h1 : spsaEnter s c = s := by
    unfold spsaEnter
    have : (s.done || decide (c.nfev ≤ s.nfev)) = false := by simp [hd]; omega
    simp [this]
  unfold spsaCheck
  rw [h1]
  unfold spsaBody
  simp only
  cases hmf : maxfev with
  | some m =>
    by_cases hm : m ≤ c.nfev
    · simp [hm, hinv]
    · simp only [hm, decide_false, Bool.false_eq_true, ↓reduceIte]
      have hlt : c.nfev < m := by omega
      cases hacc : c.accepted with
      | false => simp [hinv]; omega
      | true =>
        simp only [Bool.not_true, Bool.false_eq_true, ↓reduceIte]
        rw [valueMeasures_snoc]
        cases hl : s.values.getLast? with
        | none =>
          have hnil : s.values = [] := by
            cases hv : s.values with
            | nil => rfl
            | cons a t => rw [hv] at hl; simp [List.getLast?_eq_none_iff] at hl
          simp [hnil, hinv, valueMeasures, WindowBelow]
          omega
        | some p =>
          simp only
          have hm' : (if p = 0 then (none : ERat) else some (rabs (c.value - p) / rabs p)) = spsaMeasure p c.value := rfl
          rw [hm', hinv]
          have hw := decide_iff_plain (valueMeasures s.values ++ [spsaMeasure p c.value]) allowed thr
          unfold decide_ at hw
          split
          · rename_i hlen
            simp only [hlen, ↓reduceIte, Bool.false_eq_true, false_iff] at hw
            simp only [Bool.false_eq_true, Option.some.injEq, exists_eq_left', false_iff, not_or, not_and]
            refine ⟨⟨by omega, fun _ _ => hw⟩, ?_⟩
            rw [valueMeasures_snoc, hl]
          · rename_i hlen
            simp only [hlen, ↓reduceIte] at hw
            split
            · rename_i hlt'
              simp only [true_iff, Option.some.injEq, exists_eq_left']
              refine ⟨Or.inr ⟨fun m' hm' => by omega, trivial, hw.mp hlt'⟩, ?_⟩
              rw [valueMeasures_snoc, hl]
            · rename_i hlt'
              simp only [Bool.false_eq_true, Option.some.injEq, exists_eq_left', false_iff, not_or, not_and]
              refine ⟨⟨by omega, fun _ _ h => hlt' (hw.mpr h)⟩, ?_⟩
              rw [valueMeasures_snoc, hl]
  | none =>
    simp only [Bool.false_eq_true, ↓reduceIte]
    cases hacc : c.accepted with
    | false => simp [hinv]
    | true =>
      simp only [Bool.not_true, Bool.false_eq_true, ↓reduceIte]
      rw [valueMeasures_snoc]
      cases hl : s.values.getLast? with
      | none =>
        have hnil : s.values = [] := by
          cases hv : s.values with
          | nil => rfl
          | cons a t => rw [hv] at hl; simp [List.getLast?_eq_none_iff] at hl
        simp [hnil, hinv, valueMeasures, WindowBelow]
      | some p =>
        simp only
        have hm' : (if p = 0 then (none : ERat) else some (rabs (c.value - p) / rabs p)) = spsaMeasure p c.value := rfl
        rw [hm', hinv]
        have hw := decide_iff_plain (valueMeasures s.values ++ [spsaMeasure p c.value]) allowed thr
        unfold decide_ at hw
        split
        · rename_i hlen
          simp only [hlen, ↓reduceIte, Bool.false_eq_true, false_iff] at hw
          simp only [Bool.false_eq_true, reduceCtorEq, false_and, exists_false, false_or, false_iff, not_and]
          refine ⟨fun _ _ => hw, ?_⟩
          rw [valueMeasures_snoc, hl]
        · rename_i hlen
          simp only [hlen, ↓reduceIte] at hw
          split
          · rename_i hlt'
            simp only [true_iff, reduceCtorEq, false_and, exists_false, false_or]
            refine ⟨⟨fun _ hf => hf.elim, trivial, hw.mp hlt'⟩, ?_⟩
            rw [valueMeasures_snoc, hl]
          · rename_i hlt'
            simp only [Bool.false_eq_true, reduceCtorEq, false_and, exists_false, false_or, false_iff, not_and]
            refine ⟨fun _ _ h => hlt' (hw.mpr h), ?_⟩
            rw [valueMeasures_snoc, hl]

/-! ## Non-vacuity and the repaired findings as regression examples -/

/-- negative values: [-10,-8] → [-5,-1] is a large relative change (F8 answered terminate) -/
example : runCrit (popRelChangeCheck 0 (1/10)) (popInit 0)
    [⟨[-10, -8], -10⟩, ⟨[-5, -1], -5⟩] = [false, false] := by decide +kernel
/-- a genuinely small change does terminate -/
example : runCrit (popRelChangeCheck 0 (1/10)) (popInit 0)
    [⟨[-10, -8], -10⟩, ⟨[-10, -8], -10⟩] = [false, true] := by decide +kernel
/-- negative threshold: never terminates at the first check (F10) -/
example : runCrit (popChangeCheck 0 (-1)) (popInit 0) [⟨[1, 2], 1⟩, ⟨[1, 2], 1⟩] = [false, false] := by decide +kernel
/-- zero reference value: no exception, counts as infinitely large (F8) -/
example : runCrit (bestRelChangeCheck 0 (1/2)) {} [⟨[0], 0⟩, ⟨[0], 0⟩, ⟨[1], 1⟩] = [false, false, false] := by decide +kernel
/-- SPSA: three maxiter=1 runs, each reporting nfev = 2 (F9): no cross-run change is seen -/
example : runSpsa 0 (1/10) none {} [⟨2, 5, true⟩, ⟨2, 5, true⟩, ⟨2, 5, true⟩] = [false, false, false] := by decide +kernel
/-- SPSA: negative values (F8) -/
example : runSpsa 0 (1/10) none {} [⟨2, -10, true⟩, ⟨4, -5, true⟩] = [false, false] := by decide +kernel
example : runSpsa 0 (1/10) none {} [⟨2, -10, true⟩, ⟨4, -10, true⟩] = [false, true] := by decide +kernel

end QVerif.Criteria
