import QVerif.Lemmas.Jssp

/-!
# C19 — schedule verdicts match the JSSP definition; only well-formed data accepted

Property theorems only.  Model: `QVerif/Model/Jssp.lean`; helper lemmas: `QVerif/Lemmas/Jssp.lean`.
-/

namespace QVerif.Jssp

/-! ## Declarative well-formedness (the documented rules) -/

def WFOperation (o : Operation) : Prop := o.name ≠ "" ∧ o.jobName ≠ "" ∧ 0 < o.dur

def WFJob (j : Job) : Prop :=
  j.name ≠ "" ∧ j.ops ≠ [] ∧ (j.ops.map Operation.ident).Nodup ∧ (∀ o ∈ j.ops, o.jobName = j.name) ∧
    (j.ops.map Operation.machine).Nodup

def WFInstanceShallow (i : Instance) : Prop :=
  i.name ≠ "" ∧ i.machines.Nodup ∧ (i.jobs.map Job.name).Nodup ∧ ∀ j ∈ i.jobs, ∀ o ∈ j.ops, o.machine ∈ i.machines

/-- the full (deep) rule set: everything reachable from an instance is well-formed -/
def WFInstance (i : Instance) : Prop :=
  (∀ m ∈ i.machines, m ≠ "") ∧
  (∀ j ∈ i.jobs, (∀ o ∈ j.ops, o.machine ≠ "" ∧ WFOperation o) ∧ WFJob j) ∧
  WFInstanceShallow i

/-- a schedule matches its instance (what the result constructor demands) -/
def Matches (i : Instance) (s : Schedule) : Prop :=
  (∀ j, j ∈ i.jobs ↔ j ∈ s.map Prod.fst) ∧ ∀ j ∈ i.jobs, (s.get j).map SchedOp.op = j.ops

/-! ## Constructors accept exactly well-formed data -/

theorem checkMachine_ok_iff (m : Machine) : checkMachine m = .ok () ↔ m ≠ "" := by
  unfold checkMachine; split <;> simp_all

theorem checkOperation_ok_iff (o : Operation) : checkOperation o = .ok () ↔ WFOperation o := by
  unfold checkOperation WFOperation
  split
  · simp_all
  · split
    · simp_all
    · split
      · rename_i h; simp only [reduceCtorEq, false_iff]; intro h'; omega
      · rename_i h1 h2 h3; simp only [true_iff]; exact ⟨h1, h2, by omega⟩

theorem checkJob_ok_iff (j : Job) : checkJob j = .ok () ↔ WFJob j := by
  unfold checkJob WFJob
  split
  · simp_all
  · split
    · rename_i h1 h2
      simp only [reduceCtorEq, false_iff]
      intro h; exact h.2.1 (List.eq_nil_of_length_eq_zero h2)
    · split
      · rename_i h1 h2 h3
        simp only [reduceCtorEq, false_iff]
        intro h
        have := (card_eq_length_iff (j.ops.map Operation.ident)).mpr h.2.2.1
        simp only [List.length_map] at this
        exact h3 this
      · rename_i h1 h2 h3
        rw [jobLoop_ok_iff]
        have hn : (j.ops.map Operation.ident).Nodup := by
          apply (card_eq_length_iff _).mp
          simp only [List.length_map]
          exact Classical.not_not.mp h3
        have hne : j.ops ≠ [] := by
          intro h; apply h2; simp [h]
        constructor
        · rintro ⟨ha, _, hc⟩; exact ⟨h1, hne, hn, ha, hc⟩
        · rintro ⟨_, _, _, hd, he⟩; exact ⟨hd, by simp, he⟩

theorem checkInstance_ok_iff (i : Instance) : checkInstance i = .ok () ↔ WFInstanceShallow i := by
  unfold checkInstance WFInstanceShallow
  split
  · simp_all
  · rename_i h1
    split
    · rename_i h2
      simp only [reduceCtorEq, false_iff]
      intro h; exact h2 ((card_eq_length_iff _).mpr h.2.1)
    · rename_i h2
      have hm : i.machines.Nodup := (card_eq_length_iff _).mp (Classical.not_not.mp h2)
      split
      · rename_i h3
        simp only [reduceCtorEq, false_iff]
        intro h
        have := (card_eq_length_iff _).mpr h.2.2.1
        simp only [List.length_map] at this
        exact h3 this
      · rename_i h3
        have hj : (i.jobs.map Job.name).Nodup := by
          apply (card_eq_length_iff _).mp
          simp only [List.length_map]
          exact Classical.not_not.mp h3
        split
        · rename_i h4
          simp only [true_iff]
          refine ⟨h1, hm, hj, ?_⟩
          intro j hj' o ho
          simp only [Job.consistentWith, List.all_eq_true, decide_eq_true_eq] at h4
          exact h4 j hj' o ho
        · rename_i h4
          simp only [reduceCtorEq, false_iff]
          intro h; apply h4
          simp only [Job.consistentWith, List.all_eq_true, decide_eq_true_eq]
          exact h.2.2.2

theorem firstErr_ok_iff (l : List (Except Err Unit)) : firstErr l = .ok () ↔ ∀ x ∈ l, x = .ok () := by
  induction l with
  | nil => simp [firstErr]
  | cons a t ih =>
    cases a with
    | error e => simp [firstErr]
    | ok u => simp [firstErr, ih]

/-- **accepted ⇔ well-formed**: building an instance bottom-up from raw data succeeds exactly for
well-formed data (non-empty names, positive durations, unique operation identifiers, no machine twice
in a job, machines unique and declared, job names unique). -/
theorem accepted_iff_wellformed (i : Instance) : buildInstance i = .ok () ↔ WFInstance i := by
  unfold buildInstance WFInstance
  rw [firstErr_ok_iff]
  simp only [List.mem_append, List.mem_map, List.mem_flatMap, jobChecks, List.mem_cons, List.not_mem_nil,
    or_false, List.mem_singleton]
  constructor
  · intro h
    refine ⟨fun m hm => (checkMachine_ok_iff m).mp (h _ (Or.inl (Or.inl ⟨m, hm, rfl⟩))), ?_,
      (checkInstance_ok_iff i).mp (h _ (Or.inr rfl))⟩
    intro j hj
    refine ⟨fun o ho => ⟨(checkMachine_ok_iff _).mp (h _ (Or.inl (Or.inr ⟨j, hj, Or.inl ⟨o, ho, Or.inl rfl⟩⟩))),
      (checkOperation_ok_iff o).mp (h _ (Or.inl (Or.inr ⟨j, hj, Or.inl ⟨o, ho, Or.inr rfl⟩⟩)))⟩,
      (checkJob_ok_iff j).mp (h _ (Or.inl (Or.inr ⟨j, hj, Or.inr rfl⟩)))⟩
  · rintro ⟨hm, hj, hi⟩ x hx
    rcases hx with (⟨m, hm', rfl⟩ | ⟨j, hj', (⟨o, ho, (rfl | rfl)⟩ | rfl)⟩) | rfl
    · exact (checkMachine_ok_iff m).mpr (hm m hm')
    · exact (checkMachine_ok_iff _).mpr ((hj j hj').1 o ho).1
    · exact (checkOperation_ok_iff o).mpr ((hj j hj').1 o ho).2
    · exact (checkJob_ok_iff j).mpr (hj j hj').2
    · exact (checkInstance_ok_iff i).mpr hi

theorem sameJobSet_iff (i : Instance) (s : Schedule) :
    sameJobSet i s = true ↔ ∀ j, j ∈ i.jobs ↔ j ∈ s.map Prod.fst := by
  simp only [sameJobSet, Bool.and_eq_true, List.all_eq_true, decide_eq_true_eq]
  constructor
  · rintro ⟨h1, h2⟩ j; exact ⟨h1 j, h2 j⟩
  · intro h; exact ⟨fun j => (h j).mp, fun j => (h j).mpr⟩

theorem sameOps_iff (i : Instance) (s : Schedule) :
    sameOps i s = true ↔ ∀ j ∈ i.jobs, (s.get j).map SchedOp.op = j.ops := by
  simp only [sameOps, List.all_eq_true, decide_eq_true_eq]
  constructor
  · intro h j hj; exact (h j hj).symm
  · intro h j hj; exact (h j hj).symm

/-- the result constructor accepts exactly the schedules that match the instance -/
theorem checkResult_ok_iff (i : Instance) (s : Schedule) : checkResult i s = .ok () ↔ Matches i s := by
  unfold checkResult Matches
  rw [← sameJobSet_iff, ← sameOps_iff]
  cases sameJobSet i s <;> cases sameOps i s <;> simp

/-! ## The verdict -/

/-- The JSSP definition of a feasible schedule, stated on the per-job rows, independently of the code's
sorting: everything is scheduled; in each job every operation starts no earlier than the end of its
predecessor; no two operations on one machine overlap in time. -/
def Feasible (rows : List (List SchedOp)) : Prop :=
  (∀ r ∈ rows, ∀ s ∈ r, s.start.isSome = true) ∧
  (∀ r ∈ rows, Consec (toSlots r)) ∧
  ((rows.map toSlots).flatten.Pairwise (fun a b => a.machine = b.machine → disj a b))

theorem mem_toSlots {r : List SchedOp} {o : Slot} (h : o ∈ toSlots r) :
    ∃ s ∈ r, o.machine = s.op.machine ∧ o.dur = s.op.dur := by
  simp only [toSlots, List.mem_filterMap] at h
  obtain ⟨s, hs, ho⟩ := h
  cases hst : s.start with
  | none => simp [hst] at ho
  | some t => simp only [hst, Option.map_some, Option.some.injEq] at ho; subst ho; exact ⟨s, hs, rfl, rfl⟩

/-- **Verdict ⇔ definition** on rows: for operations with positive durations on declared machines, for
every assignment of start times (or "unscheduled"). -/
theorem isValidRows_iff_feasible (machines : List Machine) (rows : List (List SchedOp))
    (hwf : ∀ r ∈ rows, ∀ s ∈ r, 0 < s.op.dur ∧ s.op.machine ∈ machines) :
    isValidRows machines rows = true ↔ Feasible rows := by
  unfold isValidRows Feasible
  have hflat : ∀ o ∈ (rows.map toSlots).flatten, 0 < o.dur ∧ o.machine ∈ machines := by
    intro o ho
    simp only [List.mem_flatten, List.mem_map] at ho
    obtain ⟨l, ⟨r, hr, rfl⟩, hol⟩ := ho
    obtain ⟨s, hs, hm, hd⟩ := mem_toSlots hol
    rw [hm, hd]; exact hwf r hr s hs
  by_cases h1 : allScheduled rows = true
  · have h1' : ∀ r ∈ rows, ∀ s ∈ r, s.start.isSome = true := by
      simpa [allScheduled, List.all_eq_true] using h1
    simp only [h1, Bool.not_true, Bool.false_eq_true, ↓reduceIte]
    by_cases h2 : ((rows.map toSlots).all chainOk) = true
    · have h2' : ∀ r ∈ rows, Consec (toSlots r) := by
        intro r hr
        apply (chainOk_iff_consec _).mp
        simp only [List.all_eq_true, List.mem_map, forall_exists_index, and_imp,
          forall_apply_eq_imp_iff₂] at h2
        exact h2 r hr
      simp only [h2, Bool.not_true, Bool.false_eq_true, ↓reduceIte, List.all_eq_true]
      rw [← per_machine_iff machines _ (fun o ho => (hflat o ho).2)]
      constructor
      · intro h; refine ⟨h1', h2', ?_⟩
        intro m hm
        exact (sorted_check_iff _ (fun o ho => (hflat o (List.mem_filter.mp ho).1).1)).mp (h m hm)
      · rintro ⟨_, _, h⟩ m hm
        exact (sorted_check_iff _ (fun o ho => (hflat o (List.mem_filter.mp ho).1).1)).mpr (h m hm)
    · simp only [h2, Bool.not_false, ↓reduceIte, Bool.false_eq_true, false_iff]
      rintro ⟨_, hc, _⟩; apply h2
      simp only [List.all_eq_true, List.mem_map, forall_exists_index, and_imp, forall_apply_eq_imp_iff₂]
      exact fun r hr => (chainOk_iff_consec _).mpr (hc r hr)
  · simp only [h1, Bool.not_false, ↓reduceIte, Bool.false_eq_true, false_iff]
    rintro ⟨ha, _, _⟩; apply h1
    simpa [allScheduled, List.all_eq_true] using ha

/-- rows of an accepted result carry the instance's operations -/
theorem rows_wf {i : Instance} {s : Schedule} (hi : WFInstance i) (hs : Matches i s) :
    ∀ r ∈ rowsOf i s, ∀ x ∈ r, 0 < x.op.dur ∧ x.op.machine ∈ i.machines := by
  intro r hr x hx
  simp only [rowsOf, List.mem_map] at hr
  obtain ⟨j, hj, rfl⟩ := hr
  have hops := hs.2 j hj
  have hxo : x.op ∈ j.ops := by rw [← hops]; exact List.mem_map_of_mem hx
  exact ⟨((hi.2.1 j hj).1 x.op hxo).2.2.2, hi.2.2.2.2.2 j hj x.op hxo⟩

/-- **C19 main theorem.** For every accepted instance and every accepted result (every assignment of
start times or "unscheduled" to its operations), `is_valid` is `True` exactly when the schedule is
feasible in the sense of the JSSP definition. -/
theorem isValid_iff_feasible (i : Instance) (s : Schedule)
    (hi : buildInstance i = .ok ()) (hs : checkResult i s = .ok ()) :
    isValid i s = true ↔ Feasible (rowsOf i s) :=
  isValidRows_iff_feasible _ _ (rows_wf ((accepted_iff_wellformed i).mp hi) ((checkResult_ok_iff i s).mp hs))

/-! ## Makespan -/

theorem maxList_ge (l : List Int) (d : Int) : ∀ x ∈ l, x ≤ maxList l d := by
  cases l with
  | nil => intro x hx; cases hx
  | cons a t =>
    simp only [maxList]
    have : ∀ (t : List Int) (a : Int), a ≤ t.foldl max a ∧ ∀ x ∈ t, x ≤ t.foldl max a := by
      intro t
      induction t with
      | nil => intro a; simp
      | cons b t ih =>
        intro a
        simp only [List.foldl_cons, List.mem_cons, forall_eq_or_imp]
        have := ih (max a b)
        refine ⟨by omega, by omega, this.2⟩
    intro x hx
    rcases List.mem_cons.mp hx with rfl | hx
    · exact (this t x).1
    · exact (this t a).2 x hx

theorem maxList_mem (l : List Int) (d : Int) (h : l ≠ []) : maxList l d ∈ l := by
  cases l with
  | nil => exact absurd rfl h
  | cons a t =>
    simp only [maxList]
    have : ∀ (t : List Int) (a : Int), t.foldl max a = a ∨ t.foldl max a ∈ t := by
      intro t
      induction t with
      | nil => intro a; simp
      | cons b t ih =>
        intro a
        simp only [List.foldl_cons, List.mem_cons]
        rcases ih (max a b) with h | h
        · rw [h]; rcases Int.le_total a b with hab | hab
          · right; left; omega
          · left; omega
        · right; right; exact h
    rcases this t a with h | h
    · rw [h]; simp
    · exact List.mem_cons_of_mem _ h

/-- in a precedence-respecting row with positive durations, every end time is ≤ the last one's -/
theorem consec_last_max {l : List Slot} (hpos : ∀ o ∈ l, 0 < o.dur) (hc : Consec l) :
    ∀ o ∈ l, ∀ e, rowEnd l = some e → o.fin ≤ e := by
  induction l with
  | nil => intro o ho; cases ho
  | cons a t ih =>
    intro o ho e he
    cases t with
    | nil =>
      simp only [List.mem_singleton] at ho
      subst ho
      simp only [rowEnd, List.getLast?_singleton, Option.map_some, Option.some.injEq] at he
      omega
    | cons b t' =>
      have hct : Consec (b :: t') := by
        intro i hi
        have := hc (i + 1) (by simp at hi ⊢; omega)
        simpa using this
      have he' : rowEnd (b :: t') = some e := by
        simpa [rowEnd, List.getLast?_cons_cons] using he
      have hb := ih (fun o ho => hpos o (List.mem_cons_of_mem _ ho)) hct b (by simp) e he'
      rcases List.mem_cons.mp ho with rfl | ho
      · have h0 := hc 0 (by simp)
        simp only [List.getElem_cons_zero, Nat.zero_add, List.getElem_cons_succ] at h0
        have := hpos b (by simp)
        simp only [Slot.fin] at *
        omega
      · exact ih (fun o ho => hpos o (List.mem_cons_of_mem _ ho)) hct o ho e he'

/-- **Makespan**: `None` when invalid; when valid it is the latest end time over *all* operations
(an upper bound that is attained whenever there is an operation at all, and `0` for an instance without
jobs). -/
theorem makespan_spec (machines : List Machine) (rows : List (List SchedOp))
    (hwf : ∀ r ∈ rows, ∀ s ∈ r, 0 < s.op.dur ∧ s.op.machine ∈ machines) :
    (isValidRows machines rows = false → makespanRows machines rows = none) ∧
    (isValidRows machines rows = true → ∃ M, makespanRows machines rows = some M ∧
      (∀ o ∈ (rows.map toSlots).flatten, o.fin ≤ M) ∧
      (((rows.map toSlots).flatten ≠ []) → ∃ o ∈ (rows.map toSlots).flatten, o.fin = M) ∧
      ((rows.map toSlots).flatten = [] → M = 0)) := by
  constructor
  · intro h; simp [makespanRows, h]
  · intro hv
    have hf := (isValidRows_iff_feasible machines rows hwf).mp hv
    refine ⟨maxList ((rows.map toSlots).filterMap rowEnd) 0, by simp [makespanRows, hv], ?_, ?_, ?_⟩
    · intro o ho
      simp only [List.mem_flatten, List.mem_map] at ho
      obtain ⟨l, ⟨r, hr, rfl⟩, hol⟩ := ho
      have hne : toSlots r ≠ [] := List.ne_nil_of_mem hol
      have hpos : ∀ o ∈ toSlots r, 0 < o.dur := by
        intro o ho
        obtain ⟨s, hs, _, hd⟩ := mem_toSlots ho
        rw [hd]; exact (hwf r hr s hs).1
      obtain ⟨e, he⟩ : ∃ e, rowEnd (toSlots r) = some e := by
        simp only [rowEnd, Option.map_eq_some_iff]
        exact ⟨_, _, List.getLast?_eq_some_getLast hne, rfl⟩
      have h1 := consec_last_max hpos (hf.2.1 r hr) o hol e he
      have h2 : e ≤ maxList (List.filterMap rowEnd (List.map toSlots rows)) 0 := by
        apply maxList_ge
        simp only [List.mem_filterMap, List.mem_map]
        exact ⟨_, ⟨r, hr, rfl⟩, he⟩
      omega
    · intro hne
      have hne' : List.filterMap rowEnd (List.map toSlots rows) ≠ [] := by
        obtain ⟨o, ho⟩ := List.exists_mem_of_ne_nil _ hne
        simp only [List.mem_flatten, List.mem_map] at ho
        obtain ⟨l, ⟨r, hr, rfl⟩, hol⟩ := ho
        have hne : toSlots r ≠ [] := List.ne_nil_of_mem hol
        apply List.ne_nil_of_mem (a := (toSlots r).getLast hne |>.fin)
        simp only [List.mem_filterMap, List.mem_map]
        refine ⟨_, ⟨r, hr, rfl⟩, ?_⟩
        simp [rowEnd, List.getLast?_eq_some_getLast hne]
      have := maxList_mem _ 0 hne'
      simp only [List.mem_filterMap, List.mem_map] at this
      obtain ⟨l, ⟨r, hr, rfl⟩, he⟩ := this
      simp only [rowEnd, Option.map_eq_some_iff] at he
      obtain ⟨o, ho, hfin⟩ := he
      refine ⟨o, ?_, hfin⟩
      simp only [List.mem_flatten, List.mem_map]
      exact ⟨_, ⟨r, hr, rfl⟩, List.mem_of_getLast? ho⟩
    · intro hnil
      have : List.filterMap rowEnd (List.map toSlots rows) = [] := by
        apply List.eq_nil_iff_forall_not_mem.mpr
        intro e he
        simp only [List.mem_filterMap, List.mem_map] at he
        obtain ⟨l, ⟨r, hr, rfl⟩, he⟩ := he
        simp only [rowEnd, Option.map_eq_some_iff] at he
        obtain ⟨o, ho, _⟩ := he
        have : o ∈ (rows.map toSlots).flatten := by
          simp only [List.mem_flatten, List.mem_map]
          exact ⟨_, ⟨r, hr, rfl⟩, List.mem_of_getLast? ho⟩
        rw [hnil] at this; cases this
      simp [this, maxList]

/-- the valid-schedule accessor raises exactly when the result is invalid -/
theorem validSchedule_raises_iff (i : Instance) (s : Schedule) :
    (validSchedule i s = .error .invalidResult ↔ isValid i s = false) ∧
    (validSchedule i s = .ok s ↔ isValid i s = true) := by
  unfold validSchedule; cases isValid i s <;> simp

/-! ## Non-vacuity: the test-suite's 2-job / 2-machine instance -/

def exInstance : Instance :=
  { name := "i", machines := ["m1", "m2"],
    jobs := [ { name := "j1", ops := [⟨"o1", "j1", "m1", 1⟩, ⟨"o2", "j1", "m2", 1⟩] },
              { name := "j2", ops := [⟨"o1", "j2", "m2", 1⟩, ⟨"o2", "j2", "m1", 2⟩] } ] }

def exSchedule (a b c d : Option Int) : Schedule :=
  [ (exInstance.jobs[0]!, [⟨⟨"o1", "j1", "m1", 1⟩, a⟩, ⟨⟨"o2", "j1", "m2", 1⟩, b⟩]),
    (exInstance.jobs[1]!, [⟨⟨"o1", "j2", "m2", 1⟩, c⟩, ⟨⟨"o2", "j2", "m1", 2⟩, d⟩]) ]

-- (evaluated by `#guard`: the kernel does not reduce `String` equality, so these are run, not `decide`d)
#guard (buildInstance exInstance).isOk
#guard (checkResult exInstance (exSchedule (some 0) (some 1) (some 0) (some 1))).isOk
#guard isValid exInstance (exSchedule (some 0) (some 1) (some 0) (some 1)) = true
#guard makespan exInstance (exSchedule (some 0) (some 1) (some 0) (some 1)) = some 3
-- equal start times on one machine: overlap
#guard isValid exInstance (exSchedule (some 1) (some 2) (some 0) (some 1)) = false
-- unscheduled
#guard isValid exInstance (exSchedule (some 0) none (some 0) (some 1)) = false
#guard (match buildInstance { exInstance with machines := ["m1", "m1"] } with
  | .error .instDupMachines => true | _ => false)

end QVerif.Jssp
