import QVerif.Lemmas.Encoder
import QVerif.Lemmas.EncoderSupp

/-!
# C15 — the JSSP encoding is total, complete and injective
-/

namespace QVerif.Encoder

/-- **a limit is accepted iff no job is longer than it**; the only error is the documented one -/
theorem prepare_ok_iff (inst : EInst) (limit : Nat) :
    ((∃ vars, prepare inst limit = .ok vars) ↔ ∀ j ∈ inst, jobTotal j ≤ limit) ∧
    (∀ e, prepare inst limit = .error e → e = .limitTooShort) := by
  unfold prepare
  constructor
  · constructor
    · rintro ⟨vars, h⟩; exact (prepareFrom_spec limit inst 0 vars h).1
    · intro h
      cases hp : prepareFrom limit inst 0 with
      | ok vars => exact ⟨vars, rfl⟩
      | error e =>
        obtain ⟨_, j, hj, hlt⟩ := prepareFrom_error limit inst 0 e hp
        have := h j hj; omega
  · intro e h; exact (prepareFrom_error limit inst 0 e h).1

/-- **qubit count**: every operation of a job needs `limit − (total duration of the job)` qubits -/
theorem nqubits_formula (inst : EInst) (limit : Nat) (vars : List (List Var)) (h : prepare inst limit = .ok vars) :
    nQubits vars = (inst.map (fun j => j.length * (limit - jobTotal j))).sum :=
  (prepareFrom_spec limit inst 0 vars h).2.2.1

/-- **a Hamiltonian exists exactly when the limit is long enough and at least one qubit is needed** -/
theorem hamiltonian_ok (pen : Penalties) (inst : EInst) (limit : Nat) (bits : Bits) :
    (∃ e, energy pen inst limit bits = .ok e) ↔
      ∃ vars, prepare inst limit = .ok vars ∧ 1 ≤ nQubits vars := by
  unfold energy
  cases hp : prepare inst limit with
  | error e => simp
  | ok vars =>
    simp only [Except.ok.injEq, exists_eq_left']
    by_cases h0 : nQubits vars = 0
    · simp [h0]
    · simp only [h0, ↓reduceIte, Except.ok.injEq, exists_eq', true_iff]; omega

/-- **the Hamiltonian is an operator on exactly the reported qubits**: whenever the limit is long enough and at least one
qubit is needed, the operator the encoder builds (the sum of products of `I`/`Z` strings of `Model/EncoderPoly.lean`) exists,
every `Z` in every one of its terms acts on a qubit below `n_qubits`, and on every basis state its value is the eigenvalue
`energy` that the theorems of C01/C02 are about -/
theorem hamiltonian_on_n_qubits (pen : Penalties) (inst : EInst) (limit : Nat) (vars : List (List Var))
    (h : prepare inst limit = .ok vars) (h1 : 1 ≤ nQubits vars) :
    ∃ H, energyPoly pen inst limit = .ok H ∧ Supp H (nQubits vars) ∧
      ∀ bits, energy pen inst limit bits = .ok (evalPoly bits H) := by
  refine ⟨energyPolyOf pen inst vars limit, ?_, energyPolyOf_supp pen inst limit vars h, ?_⟩
  · unfold energyPoly
    rw [h]
    simp only
    rw [if_neg (by omega)]
  · intro bits
    unfold energy
    rw [h]
    simp only
    rw [if_neg (by omega), eval_energyPolyOf]

/-- **decoding is total**: every bitstring yields one entry per operation (scheduled or not) -/
theorem translate_total (vars : List (List Var)) (bits : Bits) :
    (translate vars bits).length = vars.length ∧
    ∀ i (h1 : i < (translate vars bits).length) (h2 : i < vars.length), ((translate vars bits)[i]).length = (vars[i]).length := by
  unfold translate
  refine ⟨by simp, fun i h1 h2 => by simp⟩

/-- a decoded value lies in the variable's value range -/
theorem decodeVar_range (v : Var) (bits : Bits) (s : Nat) (h : decodeVar v bits = some s) :
    v.lo ≤ s ∧ s ≤ v.lo + v.nq := by
  unfold decodeVar at h
  simp only [Option.map_eq_some_iff] at h
  obtain ⟨k, hk, rfl⟩ := h
  have := (decodeWindow_some _ _ hk).1
  have hl : (window v bits).length ≤ v.nq := by unfold window; simp [List.length_take]; omega
  omega

theorem sum_split (l : List Nat) (i : Nat) (hi : i < l.length) :
    (l.take i).sum + l[i] + (l.drop (i + 1)).sum = l.sum := by
  have h1 : l = l.take i ++ l[i] :: l.drop (i + 1) := by
    rw [List.getElem_cons_drop_succ_eq_drop hi, List.take_append_drop]
  conv => rhs; rw [h1]
  simp only [List.sum_append, List.sum_cons]
  omega

/-- **decoded start times respect the bounds**: operation `k` of job `i` never starts before the summed duration
of its predecessors (so never before 0) and always leaves room for itself and its successors before the limit -/
theorem decoded_within_bounds (inst : EInst) (limit : Nat) (vars : List (List Var)) (h : prepare inst limit = .ok vars)
    (bits : Bits) (i : Nat) (hi : i < inst.length) (hi' : i < vars.length) (k : Nat) (hk : k < (vars[i]).length)
    (hk' : k < (inst[i]).length) (s : Nat) (hs : decodeVar ((vars[i])[k]) bits = some s) :
    (((inst[i]).take k).map EOp.dur).sum ≤ s ∧
    s + ((inst[i])[k]).dur + (((inst[i]).drop (k + 1)).map EOp.dur).sum ≤ limit := by
  obtain ⟨hle, _, _, _, hrow⟩ := prepareFrom_spec limit inst 0 vars h
  obtain ⟨q', hq'⟩ := hrow i hi hi'
  have hjl := hle (inst[i]) (List.getElem_mem hi)
  have hspec := jobVars_spec limit (jobTotal inst[i]) hjl inst[i] q' 0
  have hv : (vars[i])[k] ∈ jobVars limit (jobTotal inst[i]) inst[i] q' 0 := by
    rw [← hq']; exact List.getElem_mem hk
  have hn := hspec.2.2.2 _ hv
  have hlo : ((vars[i])[k]).lo = 0 + (((inst[i]).take k).map EOp.dur).sum := by
    have := jobVars_lo limit (jobTotal inst[i]) inst[i] q' 0 k (by rw [← hq']; exact hk)
    simp only [← hq'] at this
    exact this
  obtain ⟨h1, h2⟩ := decodeVar_range _ bits s hs
  have hsplit := sum_split ((inst[i]).map EOp.dur) k (by simpa using hk')
  simp only [List.getElem_map, ← List.map_take, ← List.map_drop] at hsplit
  unfold jobTotal at hn hjl
  simp only [Var.nq] at h2
  constructor <;> omega

/-- **decoding is injective on fully scheduled results**: two bitstrings of the right length that decode every
variable, to the same values, are the same bitstring -/
theorem decode_injective (inst : EInst) (limit : Nat) (vars : List (List Var)) (h : prepare inst limit = .ok vars)
    (b1 b2 : Bits) (h1 : b1.length = nQubits vars) (h2 : b2.length = nQubits vars)
    (hd : ∀ v ∈ vars.flatten, (decodeVar v b1).isSome = true ∧ decodeVar v b1 = decodeVar v b2) : b1 = b2 := by
  obtain ⟨_, ht, _, _, _⟩ := prepareFrom_spec limit inst 0 vars h
  apply bits_eq_of_windows vars.flatten b1 b2 ht h1 h2
  intro v hv
  obtain ⟨hsome, heq⟩ := hd v hv
  unfold decodeVar at hsome heq
  cases hw1 : decodeWindow (window v b1) with
  | none => simp [hw1] at hsome
  | some k1 =>
    cases hw2 : decodeWindow (window v b2) with
    | none => simp [hw1, hw2] at heq
    | some k2 =>
      simp only [hw1, hw2, Option.map_some, Option.some.injEq] at heq
      have hk : k1 = k2 := by omega
      subst hk
      have e1 := (decodeWindow_some _ _ hw1).2
      have e2 := (decodeWindow_some _ _ hw2).2
      have hlen : (window v b1).length = (window v b2).length := by
        unfold window; simp only [List.length_take, List.length_drop, h1, h2]
      rw [e1, e2, hlen]

/-- **decoding is complete (variables)**: any choice of one value per variable is the decoding of some bitstring
of the right length -/
theorem nQubits_eq_totalNq (vars : List (List Var)) : nQubits vars = totalNq vars.flatten := rfl

theorem decode_complete_vars (inst : EInst) (limit : Nat) (vars : List (List Var)) (h : prepare inst limit = .ok vars)
    (choice : List Nat) (hlen : choice.length = vars.flatten.length)
    (hc : ∀ i (h1 : i < choice.length) (h2 : i < vars.flatten.length), choice[i] ≤ (vars.flatten[i]).nq) :
    ∃ bits : Bits, bits.length = nQubits vars ∧
      ∀ i (h1 : i < choice.length) (h2 : i < vars.flatten.length),
        decodeVar (vars.flatten[i]) bits = some ((vars.flatten[i]).lo + choice[i]) := by
  obtain ⟨_, ht, _, _, _⟩ := prepareFrom_spec limit inst 0 vars h
  rw [nQubits_eq_totalNq]
  generalize hvs : vars.flatten = vs at *
  let pieces : List Bits := (vs.zip choice).map (fun (v, k) => wallWindow v.nq k)
  have hpl : pieces.length = vs.length := by simp [pieces, hlen]
  have hpi : ∀ i (h1 : i < vs.length) (h2 : i < pieces.length), pieces[i] = wallWindow (vs[i]).nq (choice[i]'(by omega)) := by
    intro i h1 h2; simp [pieces]
  have hwl : ∀ (n k : Nat), k ≤ n → (wallWindow n k).length = n := by
    intro n k hk; unfold wallWindow; simp; omega
  have hplen : ∀ i (h1 : i < vs.length) (h2 : i < pieces.length), (pieces[i]).length = (vs[i]).nq := by
    intro i h1 h2
    rw [hpi i h1 h2]
    exact hwl _ _ (hc i (by omega) h1)
  refine ⟨pieces.flatten, ?_, ?_⟩
  · have : ∀ (vs : List Var) (ps : List Bits), vs.length = ps.length →
        (∀ i (h1 : i < vs.length) (h2 : i < ps.length), (ps[i]).length = (vs[i]).nq) → ps.flatten.length = totalNq vs := by
      intro vs
      induction vs with
      | nil => intro ps hl _; cases ps <;> simp_all [totalNq]
      | cons v t ih =>
        intro ps hl hlens
        cases ps with
        | nil => simp at hl
        | cons p ps =>
          simp only [List.flatten_cons, List.length_append, totalNq, List.map_cons, List.sum_cons]
          have h0 : p.length = v.nq := hlens 0 (by simp) (by simp)
          rw [h0]
          congr 1
          exact ih ps (by simpa using hl) (fun i a b => hlens (i + 1) (by simp; omega) (by simp; omega))
    exact this vs pieces hpl.symm hplen
  · intro i h1 h2
    have hw := window_of_pieces vs pieces 0 [] ht rfl hpl.symm hplen i h2 (by omega)
    simp only [List.nil_append] at hw
    unfold decodeVar
    rw [hw, hpi i h2 (by omega), decodeWindow_wall _ _ (hc i h1 h2)]
    simp [Nat.add_comm]

/-- **every feasible schedule within the limit is representable**: if the start times of a job respect the
precedence order (each operation starts no earlier than the end of its predecessor, the first not before 0) and
the last operation ends by the limit, every start time lies in the value range of its variable, i.e. between
the summed duration of its predecessors and `limit −` (own duration + summed duration of its successors) -/
theorem feasible_in_window : ∀ (durs starts : List Nat) (head limit : Nat), durs.length = starts.length →
    (∀ s ∈ starts.head?, head ≤ s) →
    (∀ i (h1 : i + 1 < starts.length) (h2 : i < durs.length), starts[i] + durs[i] ≤ starts[i + 1]) →
    (∀ (h : starts ≠ []) (h' : durs ≠ []), starts.getLast h + durs.getLast h' ≤ limit) →
    ∀ i (h1 : i < starts.length) (h2 : i < durs.length),
      head + (durs.take i).sum ≤ starts[i] ∧ starts[i] + durs[i] + (durs.drop (i + 1)).sum ≤ limit
  | [], [], _, _, _, _, _, _, i, h1, _ => by simp at h1
  | [], _ :: _, _, _, hl, _, _, _, _, _, _ => by simp at hl
  | _ :: _, [], _, _, hl, _, _, _, _, _, _ => by simp at hl
  | d :: ds, s :: ss, head, limit, hl, hh, hp, hlast, i, h1, h2 => by
      have hs : head ≤ s := hh s (by simp)
      cases ss with
      | nil =>
        cases ds with
        | cons _ _ => simp at hl
        | nil =>
          have : i = 0 := by simp at h1; omega
          subst this
          have := hlast (by simp) (by simp)
          simp at this ⊢
          omega
      | cons s2 ss' =>
        cases ds with
        | nil => simp at hl
        | cons d2 ds' =>
          have h01 : s + d ≤ s2 := hp 0 (by simp) (by simp)
          have ih := feasible_in_window (d2 :: ds') (s2 :: ss') (head + d) limit (by simpa using hl)
            (by intro x hx; simp at hx; subst hx; omega)
            (fun j a b => hp (j + 1) (by simp at a ⊢; omega) (by simp at b ⊢; omega))
            (fun a b => by simpa using hlast (by simp) (by simp))
          cases i with
          | zero =>
            have := ih 0 (by simp) (by simp)
            simp only [List.take_zero, List.sum_nil, Nat.add_zero, List.getElem_cons_zero, Nat.zero_add,
              List.drop_succ_cons, List.drop_zero, List.sum_cons] at this ⊢
            omega
          | succ j =>
            have := ih j (by simpa using h1) (by simpa using h2)
            simp only [List.take_succ_cons, List.sum_cons, List.getElem_cons_succ, List.drop_succ_cons] at this ⊢
            omega

/-! ## Non-vacuity: the suite's 2-job / 2-machine instance at limit 4 (8 qubits) -/

def exInst : EInst := [[⟨0, 1⟩, ⟨1, 1⟩], [⟨1, 1⟩, ⟨0, 2⟩]]

example : (prepare exInst 4).toOption.map nQubits = some 6 := by decide +kernel
example : (prepare exInst 2).toOption = none := by decide +kernel
-- the bitstring 10 00 | 0 1: j1 starts 1 and 1, j2 starts 0 and 2
example : (prepare exInst 4).toOption.map (fun vs => translate vs [true, false, false, false, false, true]) =
    some [[some 1, some 1], [some 0, some 2]] := by decide +kernel
-- a variable window 0 1 has two domain walls: unscheduled
example : (prepare exInst 4).toOption.map (fun vs => translate vs [false, true, false, false, false, false]) =
    some [[none, some 1], [some 0, some 1]] := by decide +kernel

-- the operator of the example: exists, is supported on the 6 qubits, and evaluates to the eigenvalue function
example : (match energyPoly ⟨300, 100, 100, 100, 0⟩ exInst 4 with
    | .ok H => decide (H.all (fun t => t.2.all (· < 6))) &&
               decide (some (evalPoly [true, false, false, false, false, true] H) =
                       (energy ⟨300, 100, 100, 100, 0⟩ exInst 4 [true, false, false, false, false, true]).toOption)
    | .error _ => false) = true := by decide +kernel

end QVerif.Encoder
