import QVerif.Lemmas.RunnerLive

/-!
# C08 — batching wrapper: every call completes under every schedule

`can_always_complete`: no reachable state of the runner is doomed.  From every reachable state (any number of
threads and calls, any interleaving so far — including pre-emption between any two synchronisation operations and
early or late expiry of the timed waits —, any pattern of failing batches) there is a finite continuation after
which every call has returned or raised and every thread is idle with nothing left to do.  Proof: `progress`
(every non-quiescent state satisfying the invariants has an enabled step that decreases the lexicographic measure
`(callsLeft, Σ rank)`), `Lemmas/RunnerLive.lean`.

What the theorem does not say: that a *particular* scheduler completes.  For a fixed configuration the state space
is finite, so absence of doomed states plus a (strongly) fair scheduler gives "every call returns"; fairness of the
OS scheduler is an assumption (see DESIGN.md).
-/

namespace Runner

theorem C08_can_always_complete (th0 : List TS) (h0 : ∀ x ∈ th0, x.loc = .idle) {s : St} (hr : Reachable th0 s) :
    ∃ s', Run s s' ∧ Quiescent s' :=
  can_always_complete th0 h0 hr

/-- a state is never stuck: if some call is unfinished, some action is enabled (no deadlock) -/
theorem C08_no_deadlock (th0 : List TS) (h0 : ∀ x ∈ th0, x.loc = .idle) {s : St} (hr : Reachable th0 s)
    (hnq : ¬ Quiescent s) : ∃ a s', step s a = some s' := by
  obtain ⟨hc, hd⟩ := dinv_reachable th0 h0 hr
  obtain ⟨s1, hs, _⟩ := progress hc hd hnq
  obtain ⟨a, ha⟩ := step_complete s s1 hs
  exact ⟨a, s1, ha⟩

end Runner
