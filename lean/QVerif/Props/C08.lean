import QVerif.Lemmas.RunnerLive
import QVerif.Lemmas.RunnerRetry
import QVerif.Lemmas.RunnerFair

/-!
# C08 — batching wrapper: every call completes under every schedule

`can_always_complete`: no reachable state of the runner is doomed.  From every reachable state (any number of
threads and calls, any interleaving so far — including pre-emption between any two synchronisation operations and
early or late expiry of the timed waits —, any pattern of failing batches) there is a finite continuation after
which every call has returned or raised and every thread is idle with nothing left to do.  Proof: `progress`
(every non-quiescent state satisfying the invariants has an enabled step that decreases the lexicographic measure
`(callsLeft, Σ rank)`), `Lemmas/RunnerLive.lean`.

What the theorem does not say: that a *particular* scheduler completes.  For a fixed configuration the state space
is finite, so absence of doomed states plus a (strongly) fair scheduler gives "every call returns"; fairness of the
OS scheduler is an assumption (see DESIGN.md).
-/

namespace Runner

theorem C08_can_always_complete (th0 : List TS) (h0 : ∀ x ∈ th0, x.loc = .idle) {s : St} (hr : Reachable th0 s) :
    ∃ s', Run s s' ∧ Quiescent s' :=
  can_always_complete th0 h0 hr

/-- a state is never stuck: if some call is unfinished, some action is enabled (no deadlock) -/
theorem C08_no_deadlock (th0 : List TS) (h0 : ∀ x ∈ th0, x.loc = .idle) {s : St} (hr : Reachable th0 s)
    (hnq : ¬ Quiescent s) : ∃ a s', step s a = some s' := by
  obtain ⟨hc, hd⟩ := dinv_reachable th0 h0 hr
  obtain ⟨s1, hs, _⟩ := progress hc hd hnq
  obtain ⟨a, ha⟩ := step_complete s s1 hs
  exact ⟨a, s1, ha⟩

/-- **Under ANY scheduler an execution can be long only by spinning in the two timed retry loops.**  Every step of the
runner either strictly decreases the lexicographic measure `(callsLeft, Σ rank2)` or is an iteration step of the entry
retry loop (`a0 a1 a7 a8 a9`: try-lock failed → release → timed wait → try again) or of the executor's drain loop
(`g0 g1 g2 g3`: timed wait → re-notify → check again) that does not increase it; no fairness, strategy or invariant is
assumed. -/
theorem C08_step_decreases_or_retries {s s' : St} (a : Act) (h : step s a = some s') :
    muLt2 s' s ∨ RetryStep s s' :=
  nu_of_step (step_sound s s' a h)

/-- **Bounded work.**  Every finite execution from `s` — any schedule, any timeouts, any failing batches — contains at most
`weight s` steps that are not retry-loop iterations.  Hence a call can fail to return only if some thread iterates a timed
retry loop forever; `C08_can_always_complete` shows that this is never forced, and each iteration waits for a notification
or a timeout of 0.5 s (what remains for "every call returns" is that the scheduler does not starve the threads the
retrying ones wait for — DESIGN.md, C08). -/
theorem C08_bounded_work {s s' : St} (h : Run s s') : ∃ k, Path s s' k ∧ k + weight s' ≤ weight s := by
  obtain ⟨k, hk⟩ := path_of_run h
  exact ⟨k, hk, path_bound hk⟩

/-- a maximal execution: every position takes a step, or is stuck (no step possible) and stutters -/
def MaximalExec (σ : Nat → St) : Prop :=
  ∀ i, Step (σ i) (σ (i + 1)) ∨ ((∀ s', ¬ Step (σ i) s') ∧ σ (i + 1) = σ i)

/-- **Every call returns under every strongly fair schedule.**  Take any maximal execution of the runner from a reachable
state — any number of threads and calls, any interleaving, timed waits firing early or late, any pattern of failing
batches — that is strongly fair (a thread whose next synchronisation operation is enabled infinitely often performs it
infinitely often; `f` returning is one of these operations).  Then the execution reaches a quiescent state: every call has
returned or raised, both locks are free, and the wrapper accepts new batches.  No infinite fair execution exists
(`no_infinite_fair_execution`), and a stuck state is quiescent (`progress`). -/
theorem C08_every_fair_execution_completes (th0 : List TS) (h0 : ∀ x ∈ th0, x.loc = .idle) (σ : Nat → St)
    (hr : Reachable th0 (σ 0)) (hmax : MaximalExec σ) (hf : StrongFair σ) : ∃ i, Quiescent (σ i) := by
  have hreach : ∀ i, Reachable th0 (σ i) := by
    intro i
    induction i with
    | zero => exact hr
    | succ i ih =>
      rcases hmax i with h | h
      · obtain ⟨a, ha⟩ := step_complete _ _ h
        exact .next a ih ha
      · rw [h.2]; exact ih
  by_cases hstuck : ∃ i, ∀ s', ¬ Step (σ i) s'
  · obtain ⟨i, hi⟩ := hstuck
    refine ⟨i, ?_⟩
    apply Classical.byContradiction
    intro hnq
    obtain ⟨hc, hd⟩ := dinv_reachable th0 h0 (hreach i)
    obtain ⟨s1, hs, _⟩ := progress hc hd hnq
    exact hi s1 hs
  · exfalso
    have hex : IsExec σ := by
      intro i
      rcases hmax i with h | h
      · exact h
      · exact absurd ⟨i, h.1⟩ hstuck
    exact no_infinite_fair_execution th0 h0 σ hr hex hf

/-! ### the hypotheses are satisfiable: executions that finish are fair -/

/-- a maximal execution that gets stuck somewhere (then stutters) is strongly fair: nothing is enabled from there on -/
theorem fair_of_stuck (σ : Nat → St) (hmax : MaximalExec σ) (i : Nat) (hi : ∀ s', ¬ Step (σ i) s') : StrongFair σ := by
  have hconst : ∀ k, σ (i + k) = σ i := by
    intro k
    induction k with
    | zero => rfl
    | succ k ih =>
      rcases hmax (i + k) with h | h
      · rw [ih] at h; exact absurd h (hi _)
      · rw [show i + (k + 1) = i + k + 1 from rfl, h.2, ih]
  intro t hinf
  obtain ⟨j, hj, s', hs, _⟩ := hinf i
  have := hconst (j - i)
  rw [show i + (j - i) = j by omega] at this
  rw [this] at hs
  exact absurd hs (hi s')

-- one caller, one call with two pubs: the complete run (20 steps) followed by stuttering is a maximal, strongly fair execution
def ex8Start : St := { th := [{ todo := [[1, 2]] }] }
def ex8Acts : List Act :=
  [.step 0, .step 0, .step 0, .step 0, .step 0, .step 0, .step 0, .step 0, .step 0, .fret 0 false] ++ List.replicate 10 (.step 0)

example : (match runActs ex8Start ex8Acts with
    | some s => decide ((s.get 0).loc = .idle ∧ (s.get 0).outs = [(.ok [1, 2], 0)] ∧ s.E = none ∧ s.V = none)
    | none => false) = true := by decide +kernel

end Runner
