import QVerif.Lemmas.RunnerLive
import QVerif.Lemmas.RunnerRetry

/-!
# C08 — batching wrapper: every call completes under every schedule

`can_always_complete`: no reachable state of the runner is doomed.  From every reachable state (any number of
threads and calls, any interleaving so far — including pre-emption between any two synchronisation operations and
early or late expiry of the timed waits —, any pattern of failing batches) there is a finite continuation after
which every call has returned or raised and every thread is idle with nothing left to do.  Proof: `progress`
(every non-quiescent state satisfying the invariants has an enabled step that decreases the lexicographic measure
`(callsLeft, Σ rank)`), `Lemmas/RunnerLive.lean`.

What the theorem does not say: that a *particular* scheduler completes.  For a fixed configuration the state space
is finite, so absence of doomed states plus a (strongly) fair scheduler gives "every call returns"; fairness of the
OS scheduler is an assumption (see DESIGN.md).
-/

namespace Runner

theorem C08_can_always_complete (th0 : List TS) (h0 : ∀ x ∈ th0, x.loc = .idle) {s : St} (hr : Reachable th0 s) :
    ∃ s', Run s s' ∧ Quiescent s' :=
  can_always_complete th0 h0 hr

/-- a state is never stuck: if some call is unfinished, some action is enabled (no deadlock) -/
theorem C08_no_deadlock (th0 : List TS) (h0 : ∀ x ∈ th0, x.loc = .idle) {s : St} (hr : Reachable th0 s)
    (hnq : ¬ Quiescent s) : ∃ a s', step s a = some s' := by
  obtain ⟨hc, hd⟩ := dinv_reachable th0 h0 hr
  obtain ⟨s1, hs, _⟩ := progress hc hd hnq
  obtain ⟨a, ha⟩ := step_complete s s1 hs
  exact ⟨a, s1, ha⟩

/-- **Under ANY scheduler an execution can be long only by spinning in the two timed retry loops.**  Every step of the
runner either strictly decreases the lexicographic measure `(callsLeft, Σ rank2)` or is an iteration step of the entry
retry loop (`a0 a1 a7 a8 a9`: try-lock failed → release → timed wait → try again) or of the executor's drain loop
(`g0 g1 g2 g3`: timed wait → re-notify → check again) that does not increase it; no fairness, strategy or invariant is
assumed. -/
theorem C08_step_decreases_or_retries {s s' : St} (a : Act) (h : step s a = some s') :
    muLt2 s' s ∨ RetryStep s s' :=
  nu_of_step (step_sound s s' a h)

/-- **Bounded work.**  Every finite execution from `s` — any schedule, any timeouts, any failing batches — contains at most
`weight s` steps that are not retry-loop iterations.  Hence a call can fail to return only if some thread iterates a timed
retry loop forever; `C08_can_always_complete` shows that this is never forced, and each iteration waits for a notification
or a timeout of 0.5 s (what remains for "every call returns" is that the scheduler does not starve the threads the
retrying ones wait for — DESIGN.md, C08). -/
theorem C08_bounded_work {s s' : St} (h : Run s s') : ∃ k, Path s s' k ∧ k + weight s' ≤ weight s := by
  obtain ⟨k, hk⟩ := path_of_run h
  exact ⟨k, hk, path_bound hk⟩

end Runner
