import QVerif.Lemmas.Solver

/-!
# C12 — termination limits are honoured

All statements quantify over every script (every sequence of estimates, callback events and criterion answers).
`started[i]` is the loop state in which the `i`-th operator application was started; `script[i]` is that application.
-/

namespace QVerif.Solver

/-- **No operator is started once a limit is reached or the criterion has answered *terminate*.**  Whenever an
operator is started: the termination flag is not set (so nothing is applied after the criterion said terminate); the
evaluations reported so far are below the budget, and so are the reported evaluations plus the operator's own
estimate when it has one; fewer generations than the maximum have been evaluated. -/
theorem no_start_after_limit (cfg : Cfg) (script : List Step) (o : Outcome) (started : List St)
    (h : solve cfg script = (o, started)) (i : Nat) (h1 : i < started.length) (h2 : i < script.length) :
    (started[i]).terminate = false ∧
    (∀ m, cfg.maxEvals = some m → total started[i] < m ∧ ∀ e, (script[i]).est = some e → total started[i] + (e : Int) < m) ∧
    (∀ g, cfg.maxGen = some g → (started[i]).nGen < g) := by
  unfold solve at h
  cases hrun : runLoop cfg {} script with
  | mk sF r2 =>
    obtain ⟨st, ex⟩ := r2
    rw [hrun] at h
    have hst : started = st := by
      simp only at h
      split at h
      · exact (Prod.mk.inj h).2.symm
      · split at h
        · exact (Prod.mk.inj h).2.symm
        · split at h
          · exact (Prod.mk.inj h).2.symm
          · exact (Prod.mk.inj h).2.symm
    subst hst
    obtain ⟨_, _, g3, _⟩ := runLoop_spec cfg script {} sF started ex sinv_init hrun
    obtain ⟨t1, t2, _⟩ := g3 i h1 h2
    refine ⟨t1, ?_, ?_⟩
    · intro m hm
      unfold limitReached at t2
      simp only [hm, Bool.or_eq_false_iff, decide_eq_false_iff_not] at t2
      refine ⟨by omega, ?_⟩
      intro e he
      have := t2.1.2
      simp only [he, decide_eq_false_iff_not] at this
      omega
    · intro g hg
      unfold limitReached at t2
      simp only [hg, Bool.or_eq_false_iff, decide_eq_false_iff_not] at t2
      omega

/-- consecutive started states: the next one is the previous one after the previous operator's events — so once a
result event made the criterion answer *terminate* (which sets the flag), there is no next application -/
theorem started_chain (cfg : Cfg) (script : List Step) (o : Outcome) (started : List St)
    (h : solve cfg script = (o, started)) (i : Nat) (h1 : i + 1 < started.length) (h2 : i < script.length) :
    started[i + 1] = (script[i]).events.foldl (onEvent cfg) (started[i]'(by omega)) ∧
    ((script[i]).events.foldl (onEvent cfg) (started[i]'(by omega))).terminate = false := by
  unfold solve at h
  cases hrun : runLoop cfg {} script with
  | mk sF r2 =>
    obtain ⟨st, ex⟩ := r2
    rw [hrun] at h
    have hst : started = st := by
      simp only at h
      split at h
      · exact (Prod.mk.inj h).2.symm
      · split at h
        · exact (Prod.mk.inj h).2.symm
        · split at h
          · exact (Prod.mk.inj h).2.symm
          · exact (Prod.mk.inj h).2.symm
    subst hst
    obtain ⟨_, hlen, g3, g4, _⟩ := runLoop_spec cfg script {} sF started ex sinv_init hrun
    have e := g4 i h1 h2
    refine ⟨e, ?_⟩
    rw [← e]
    exact (g3 (i + 1) h1 (by omega)).1

/-- final state of the loop in terms of the last started application -/
theorem final_nGen_le (cfg : Cfg) (script : List Step) (sF : St) (started : List St) (ex : Bool)
    (hrun : runLoop cfg {} script = (sF, started, ex)) (g : Nat) (hg : cfg.maxGen = some g)
    (hone : ∀ st ∈ script, resultsOf st.events ≤ 1) : sF.nGen ≤ g := by
  obtain ⟨_, hlen, g3, _, _, _, _, g8, g9⟩ := runLoop_spec cfg script {} sF started ex sinv_init hrun
  by_cases h0 : started = []
  · rcases g9 h0 with h | h <;> rw [h] <;> simp
  · have hk : started.length - 1 < script.length := by
      have : 0 < started.length := List.length_pos_iff.mpr h0
      omega
    have hk' : started.length - 1 < started.length := by
      have : 0 < started.length := List.length_pos_iff.mpr h0
      omega
    obtain ⟨_, t2, t3⟩ := g3 (started.length - 1) hk' hk
    have hlast : started.getLast h0 = started[started.length - 1] := by
      rw [List.getLast_eq_getElem]
    have hn : (started[started.length - 1]).nGen < g := by
      unfold limitReached at t2
      simp only [hg, Bool.or_eq_false_iff, decide_eq_false_iff_not] at t2
      omega
    have hev := (events_sum cfg (script[started.length - 1]).events (started[started.length - 1]) t3).2
    have h1 := hone (script[started.length - 1]) (List.getElem_mem hk)
    rcases g8 h0 hk with h | h
    · rw [h, hlast, hev]; omega
    · rw [h, hlast]; simp only; rw [hev]; omega

/-- **never more generations than the maximum** (operators report at most one evaluation result per application, as
all EVQE operators do) -/
theorem gens_le_max (cfg : Cfg) (script : List Step) (r : Result) (started : List St) (g : Nat)
    (h : solve cfg script = (.ok r, started)) (hg : cfg.maxGen = some g)
    (hone : ∀ st ∈ script, resultsOf st.events ≤ 1) : r.generations ≤ g := by
  unfold solve at h
  cases hrun : runLoop cfg {} script with
  | mk sF r2 =>
    obtain ⟨st, ex⟩ := r2
    rw [hrun] at h
    have := final_nGen_le cfg script sF st ex hrun g hg hone
    simp only at h
    split at h
    · cases h
    · split at h
      · cases h
      · split at h
        · cases h
        · simp only [Prod.mk.injEq, Outcome.ok.injEq] at h
          obtain ⟨rfl, _⟩ := h
          exact this

/-- the termination flag can only be raised by a limit check or by the criterion -/
theorem events_keep_flag (cfg : Cfg) (hc : cfg.hasCriterion = false) : ∀ (evs : List Ev) (s : St),
    (evs.foldl (onEvent cfg) s).terminate = s.terminate
  | [], _ => rfl
  | e :: t, s => by
      simp only [List.foldl_cons]
      rw [events_keep_flag cfg hc t]
      cases e with
      | count n => simp only [onEvent, onCount]; split <;> rfl
      | result b v c => simp [onEvent, onResult, hc]

/-- **exactly the maximum when it is the only limit**: no budget, no criterion, the loop ends (the script suffices)
— then exactly `max_generations` generations have been evaluated -/
theorem exactly_max_when_only_limit (cfg : Cfg) (script : List Step) (r : Result) (started : List St) (g : Nat)
    (h : solve cfg script = (.ok r, started)) (hg : cfg.maxGen = some g) (he : cfg.maxEvals = none)
    (hc : cfg.hasCriterion = false) (hone : ∀ st ∈ script, resultsOf st.events ≤ 1) : r.generations = g := by
  have hle := gens_le_max cfg script r started g h hg hone
  -- the flag was raised by the generation check: nGen ≥ g at that moment
  unfold solve at h
  cases hrun : runLoop cfg {} script with
  | mk sF r2 =>
    obtain ⟨st, ex⟩ := r2
    rw [hrun] at h
    simp only at h
    split at h
    · cases h
    · rename_i hex
      have hex' : ex = false := by simpa using hex
      split at h
      · cases h
      · split at h
        · cases h
        · simp only [Prod.mk.injEq, Outcome.ok.injEq] at h
          obtain ⟨rfl, rfl⟩ := h
          simp only at hle ⊢
          -- follow the loop: a state with the flag unset and nGen < g always starts the next operator
          have key : ∀ (script : List Step) (s sF : St) (st : List St),
              runLoop cfg s script = (sF, st, false) → s.terminate = false → g ≤ sF.nGen := by
            intro script
            induction script with
            | nil =>
              intro s sF st hr hts
              simp only [runLoop, hts, Bool.false_eq_true, ↓reduceIte] at hr
              split at hr
              · rename_i hl
                simp only [Prod.mk.injEq] at hr
                obtain ⟨rfl, _, _⟩ := hr
                unfold limitReached at hl
                simp only [he, hg, Bool.false_or, decide_eq_true_eq] at hl
                exact hl
              · simp at hr
            | cons step rest ih =>
              intro s sF st hr hts
              simp only [runLoop, hts, Bool.false_eq_true, ↓reduceIte] at hr
              split at hr
              · rename_i hl
                simp only [Prod.mk.injEq] at hr
                obtain ⟨rfl, _, _⟩ := hr
                unfold limitReached at hl
                simp only [he, hg, Bool.false_or, decide_eq_true_eq] at hl
                exact hl
              · cases hrec : runLoop cfg (step.events.foldl (onEvent cfg) s) rest with
                | mk sF' r3 =>
                  obtain ⟨st', ex'⟩ := r3
                  rw [hrec] at hr
                  simp only [Prod.mk.injEq] at hr
                  obtain ⟨rfl, _, rfl⟩ := hr
                  exact ih _ _ _ hrec (by rw [events_keep_flag cfg hc]; exact hts)
          have := key script {} sF st (by rw [hrun, hex']) rfl
          omega

/-- **a run that stops before any population was evaluated raises instead of returning a result** -/
theorem raises_if_nothing_evaluated (cfg : Cfg) (script : List Step) (r : Result) (started : List St)
    (h : solve cfg script = (.ok r, started)) : r.history ≠ [] ∧ 1 ≤ r.generations := by
  unfold solve at h
  cases hrun : runLoop cfg {} script with
  | mk sF r2 =>
    obtain ⟨st, ex⟩ := r2
    rw [hrun] at h
    obtain ⟨hinv, _⟩ := runLoop_spec cfg script {} sF st ex sinv_init hrun
    simp only at h
    split at h
    · cases h
    · split at h
      · cases h
      · split at h
        · cases h
        · rename_i hne
          simp only [Prod.mk.injEq, Outcome.ok.injEq] at h
          obtain ⟨rfl, _⟩ := h
          have hne' : sF.hist ≠ [] := by intro hnil; apply hne; simp [hnil]
          refine ⟨hne', ?_⟩
          simp only
          rw [hinv.gen]
          exact List.length_pos_iff.mpr hne'

/-- **The limits are honoured in runs with failing operators too.**  If the application of `script[k]` raises after having
reported evaluations and results (which may be the very application that reaches a limit), every operator that was started —
including the failing one — was started below every limit and before the criterion answered *terminate*; in particular
nothing is started after the failure. -/
theorem no_start_after_limit_with_faults (cfg : Cfg) (script : List Step) (faultAt : Option Nat) (o : OutcomeF)
    (started : List St) (h : solveF cfg script faultAt = (o, started)) (i : Nat) (h1 : i < started.length)
    (h2 : i < script.length) :
    (started[i]).terminate = false ∧
    (∀ m, cfg.maxEvals = some m → total started[i] < m ∧ ∀ e, (script[i]).est = some e → total started[i] + (e : Int) < m) ∧
    (∀ g, cfg.maxGen = some g → (started[i]).nGen < g) := by
  unfold solveF at h
  cases faultAt with
  | none =>
    simp only [Prod.mk.injEq] at h
    obtain ⟨_, rfl⟩ := h
    exact no_start_after_limit cfg script (solve cfg script).1 _ rfl i h1 h2
  | some k =>
    simp only at h
    split at h
    · rename_i hc
      simp only [Prod.mk.injEq] at h
      obtain ⟨_, rfl⟩ := h
      have hi : i < (script.take (k + 1)).length := by
        rw [List.length_take]; omega
      have := no_start_after_limit cfg (script.take (k + 1)) (solve cfg (script.take (k + 1))).1 _ rfl i h1 hi
      simp only [List.getElem_take] at this
      exact this
    · simp only [Prod.mk.injEq] at h
      obtain ⟨_, rfl⟩ := h
      exact no_start_after_limit cfg script (solve cfg script).1 _ rfl i h1 h2

/-- a failing operator ends the run: when `script[k]` raises, exactly the applications `0..k` were started -/
theorem fault_stops_run (cfg : Cfg) (script : List Step) (k : Nat) (started : List St)
    (h : solveF cfg script (some k) = (.operatorRaised, started)) : started.length = k + 1 ∧ k < script.length := by
  unfold solveF at h
  simp only at h
  split at h
  · rename_i hc
    simp only [Prod.mk.injEq] at h
    obtain ⟨_, rfl⟩ := h
    exact ⟨hc.2, hc.1⟩
  · simp only [Prod.mk.injEq] at h
    exact absurd h.1 (by intro hh; cases hh)

/-! ## Non-vacuity -/

def exScript : List Step :=
  [⟨some 0, []⟩, ⟨some 4, [.count 4, .result 7 (-1) false]⟩, ⟨none, [.count 9]⟩,
   ⟨some 0, []⟩, ⟨some 4, [.count 4, .result 3 (-2) false]⟩, ⟨none, [.count 5]⟩, ⟨some 0, []⟩, ⟨some 4, []⟩]

-- two generations allowed: two evaluations; the work between them is booked on the generation being prepared
example : (match (solve ⟨some 2, none, false⟩ exScript).1 with
    | .ok r => decide ((r.generations, r.circuitEvaluations, r.bestIndividual) = (2, [4, 13], 3))
    | _ => false) = true := by decide +kernel
-- a budget of 10 evaluations: the second selection (estimate 4, 13 reported) is not started
example : (match (solve ⟨none, some 10, false⟩ exScript).1 with
    | .ok r => decide ((r.generations, r.circuitEvaluations) = (1, [4, 9]))
    | _ => false) = true := by decide +kernel
-- nothing evaluated: raises
example : (match (solve ⟨some 0, none, false⟩ exScript).1 with | .raisedNothingEvaluated => true | _ => false) = true := by
  decide +kernel

-- the second selection (index 4) raises after reporting: the run ends there, 5 applications were started
example : (match solveF ⟨some 2, none, false⟩ exScript (some 4) with
    | (.operatorRaised, st) => decide (st.length = 5) | _ => false) = true := by decide +kernel
-- with a budget of 10 the loop stops before index 4: the fault plays no role
example : (match solveF ⟨none, some 10, false⟩ exScript (some 4) with
    | (.normal (.ok r), _) => decide (r.generations = 1) | _ => false) = true := by decide +kernel

end QVerif.Solver
