import QVerif.Lemmas.DomainWall

/-! Energy of fully decoded basis states (C01/C02): every pair term is the indicator of "this pair violates its
constraint", every viability term vanishes, the optimisation terms are explicit. -/

namespace QVerif.Encoder

/-! ### list-sum plumbing -/

theorem sum_map_flatMap {α β} (l : List α) (g : α → List β) (F : β → Rat) :
    ((l.flatMap g).map F).sum = (l.map (fun x => ((g x).map F).sum)).sum := by
  induction l with
  | nil => rfl
  | cons a t ih => simp only [List.flatMap_cons, List.map_append, List.sum_append, List.map_cons, List.sum_cons, ih]

theorem sum_map_filterMap_ite {α β} (l : List α) (c : α → Prop) [DecidablePred c] (p : α → β) (F : β → Rat) :
    ((l.filterMap (fun y => if c y then some (p y) else none)).map F).sum =
      (l.map (fun y => if c y then F (p y) else 0)).sum := by
  induction l with
  | nil => rfl
  | cons a t ih =>
    simp only [List.filterMap_cons, List.map_cons, List.sum_cons]
    by_cases h : c a
    · simp only [h, ↓reduceIte, List.map_cons, List.sum_cons, ih]
    · simp only [h, ↓reduceIte, ih]; grind

theorem sum_values (v : Var) (f : Nat → Rat) : ((values v).map f).sum = sumTo (fun i => f (i + v.lo)) v.nvals := by
  unfold values
  rw [List.map_map, sum_range_eq_sumTo]
  rfl

theorem sumTo_indicator (h : Nat → Rat) (n k : Nat) (hk : k < n) :
    sumTo (fun i => if i = k then h i else 0) n = h k := by
  induction n with
  | zero => omega
  | succ m ih =>
    simp only [sumTo]
    by_cases hm : k = m
    · subst hm
      have : sumTo (fun i => if i = k then h i else 0) k = 0 := by
        have := sumTo_congr (f := fun i => if i = k then h i else 0) (g := fun _ => 0) k (fun j hj => by
          have : j ≠ k := by omega
          simp [this])
        rw [this]
        clear this ih
        induction k with
        | zero => rfl
        | succ j ih2 => simp only [sumTo]; rw [ih2 (by omega)]; grind
      rw [this]; simp only [↓reduceIte]; grind
    · rw [ih (by omega)]
      have : m ≠ k := fun e => hm e.symm
      simp only [this, ↓reduceIte]; grind

theorem sumTo_zero (n : Nat) : sumTo (fun _ => 0) n = 0 := by
  induction n with
  | zero => rfl
  | succ m ih => simp only [sumTo, ih]; grind

theorem sumTo_mul_left (c : Rat) (f : Nat → Rat) (n : Nat) : sumTo (fun i => c * f i) n = c * sumTo f n := by
  induction n with
  | zero => simp [sumTo]
  | succ m ih => simp only [sumTo, ih]; grind

/-! ### a decoded variable -/

/-- the variable is decoded on `bits`: its window has full length and is `k` ones followed by zeros -/
structure DecodedAt (v : Var) (bits : Bits) (k : Nat) : Prop where
  hk : k ≤ v.nq
  hlen : (window v bits).length = v.nq
  hw : window v bits = wallWindow v.nq k
  hn : v.nvals = v.nq + 1

theorem DecodedAt.decode {v : Var} {bits : Bits} {k : Nat} (h : DecodedAt v bits k) : decodeVar v bits = some (v.lo + k) := by
  unfold decodeVar
  rw [h.hw, decodeWindow_wall _ _ h.hk]
  simp [Nat.add_comm]

/-- contracting any weights with the value terms of a decoded variable picks the weight of the decoded value -/
theorem sum_values_decoded {v : Var} {bits : Bits} {k : Nat} (h : DecodedAt v bits k) (g : Nat → Rat) :
    ((values v).map (fun s => g s * valueTerm v bits (s - v.lo))).sum = g (v.lo + k) := by
  rw [sum_values]
  have : sumTo (fun i => g (i + v.lo) * valueTerm v bits (i + v.lo - v.lo)) v.nvals =
      sumTo (fun i => if i = k then g (i + v.lo) else 0) v.nvals := by
    apply sumTo_congr
    intro i hi
    have e : i + v.lo - v.lo = i := by omega
    rw [e, valueTerm_decoded v bits k h.hk h.hlen h.hw i (by have := h.hn; omega)]
    split <;> grind
  rw [this, sumTo_indicator _ _ _ (by have := h.hn; have := h.hk; omega)]
  rw [Nat.add_comm]

/-- a double sum over value pairs satisfying `c` of the product of value terms = indicator of `c` at the decoded pair -/
theorem pair_sum_decoded {a b : Var} {bits : Bits} {ka kb : Nat} (ha : DecodedAt a bits ka) (hb : DecodedAt b bits kb)
    (c : Nat → Nat → Prop) [∀ x y, Decidable (c x y)] :
    (((values a).flatMap (fun s1 => (values b).filterMap (fun s2 => if c s1 s2 then some (s1, s2) else none))).map
      (fun (p : Nat × Nat) => valueTerm a bits (p.1 - a.lo) * valueTerm b bits (p.2 - b.lo))).sum =
      if c (a.lo + ka) (b.lo + kb) then 1 else 0 := by
  rw [sum_map_flatMap]
  have inner : ∀ s1, (((values b).filterMap (fun s2 => if c s1 s2 then some (s1, s2) else none)).map
      (fun (p : Nat × Nat) => valueTerm a bits (p.1 - a.lo) * valueTerm b bits (p.2 - b.lo))).sum =
      (if c s1 (b.lo + kb) then 1 else 0) * valueTerm a bits (s1 - a.lo) := by
    intro s1
    rw [sum_map_filterMap_ite (values b) (fun s2 => c s1 s2) (fun s2 => (s1, s2))]
    have := sum_values_decoded hb (fun s2 => if c s1 s2 then valueTerm a bits (s1 - a.lo) else 0)
    have e : ((values b).map (fun y => if c s1 y then valueTerm a bits ((s1, y).1 - a.lo) * valueTerm b bits ((s1, y).2 - b.lo) else 0)) =
        ((values b).map (fun s => (if c s1 s then valueTerm a bits (s1 - a.lo) else 0) * valueTerm b bits (s - b.lo))) := by
      apply List.map_congr_left
      intro y _
      split <;> grind
    rw [e, this]
    split <;> grind
  have : (values a).map (fun x => (((values b).filterMap (fun s2 => if c x s2 then some (x, s2) else none)).map
      (fun (p : Nat × Nat) => valueTerm a bits (p.1 - a.lo) * valueTerm b bits (p.2 - b.lo))).sum) =
      (values a).map (fun s1 => (if c s1 (b.lo + kb) then (1 : Rat) else 0) * valueTerm a bits (s1 - a.lo)) :=
    List.map_congr_left (fun s1 _ => inner s1)
  rw [this, sum_values_decoded ha (fun s1 => if c s1 (b.lo + kb) then (1 : Rat) else 0)]

end QVerif.Encoder
