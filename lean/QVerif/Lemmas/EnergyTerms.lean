import QVerif.Lemmas.EnergyDecoded

/-! Structure of the operation/variable pairs and of the pair terms built from a prepared encoding (C01/C02). -/

namespace QVerif.Encoder

/-- what every operation/variable pair of a prepared encoding satisfies: the variable is one of the prepared
variables, has `limit − total + 1 ≥ 1` values, and its latest start leaves room for the operation itself -/
structure OpVarOk (limit : Nat) (vars : List (List Var)) (x : OpVar) : Prop where
  mem : x.var ∈ vars.flatten
  nvals : x.var.nvals = x.var.nq + 1
  fits : x.var.lo + x.var.nq + x.op.dur ≤ limit

theorem jobVars_fits (limit total : Nat) (hle : total ≤ limit) : ∀ (ops : List EOp) (q head : Nat),
    head + (ops.map EOp.dur).sum ≤ total →
    ∀ p ∈ ops.zip (jobVars limit total ops q head), p.2.lo + p.2.nq + p.1.dur ≤ limit ∧ p.2.nvals = p.2.nq + 1
  | [], _, _, _, p, hp => by simp [jobVars] at hp
  | o :: rest, q, head, hsum, p, hp => by
      simp only [jobVars, List.zip_cons_cons, List.mem_cons] at hp
      simp only [List.map_cons, List.sum_cons] at hsum
      rcases hp with rfl | hp
      · simp only [Var.nq]
        constructor <;> omega
      · exact jobVars_fits limit total hle rest _ _ (by omega) p hp

theorem opVars_ok (inst : EInst) (limit : Nat) (vars : List (List Var)) (h : prepare inst limit = .ok vars) :
    ∀ x ∈ (opVars inst vars).flatten, OpVarOk limit vars x := by
  obtain ⟨hle, _, _, hlen, hrow⟩ := prepareFrom_spec limit inst 0 vars h
  intro x hx
  simp only [opVars, List.mem_flatten, List.mem_map] at hx
  obtain ⟨row, ⟨⟨⟨j, vs⟩, ji⟩, hjv, rfl⟩, hxr⟩ := hx
  simp only [List.mem_map] at hxr
  obtain ⟨⟨⟨o, v⟩, oi⟩, hov, rfl⟩ := hxr
  have hjv' : (j, vs) ∈ inst.zip vars := by
    have := List.mem_zipIdx hjv
    simpa using (List.mem_zipIdx_iff_getElem?.mp hjv |> fun h => List.mem_of_getElem? h)
  have hov' : (o, v) ∈ j.zip vs := by
    simpa using (List.mem_zipIdx_iff_getElem?.mp hov |> fun h => List.mem_of_getElem? h)
  obtain ⟨i, hi, hget⟩ := List.getElem_of_mem hjv'
  have hi1 : i < inst.length := by simp at hi; omega
  have hi2 : i < vars.length := by simp at hi; omega
  have hj : j = inst[i] := by
    have := congrArg Prod.fst hget; simp at this; exact this.symm
  have hvs : vs = vars[i] := by
    have := congrArg Prod.snd hget; simp at this; exact this.symm
  obtain ⟨q', hq'⟩ := hrow i hi1 hi2
  have hjl : jobTotal j ≤ limit := hle j (by rw [hj]; exact List.getElem_mem hi1)
  have hvs' : vs = jobVars limit (jobTotal j) j q' 0 := by rw [hvs, hq', hj]
  have := jobVars_fits limit (jobTotal j) hjl j q' 0 (by unfold jobTotal; omega) (o, v) (by rw [← hvs']; exact hov')
  refine ⟨?_, this.2, this.1⟩
  simp only [List.mem_flatten]
  exact ⟨vs, (List.of_mem_zip hjv').2, (List.of_mem_zip hov').2⟩

/-- windows of tiled variables have full length when the bitstring is long enough -/
theorem window_length_of_tiled (bits : Bits) : ∀ (vs : List Var) (q : Nat), Tiled q vs → q + totalNq vs ≤ bits.length →
    ∀ v ∈ vs, (window v bits).length = v.nq
  | [], _, _, _, v, hv => by cases hv
  | w :: t, q, ⟨h1, h2⟩, hlen, v, hv => by
      simp only [totalNq, List.map_cons, List.sum_cons] at hlen
      rcases List.mem_cons.mp hv with rfl | hv
      · unfold window; simp only [List.length_take, List.length_drop]; omega
      · exact window_length_of_tiled bits t _ h2 (by simp only [totalNq]; omega) v hv

/-- every prepared variable that decodes is `DecodedAt` its decoded index -/
theorem decodedAt_of_decode (inst : EInst) (limit : Nat) (vars : List (List Var)) (h : prepare inst limit = .ok vars)
    (bits : Bits) (hlen : bits.length = nQubits vars) (x : OpVar) (hx : OpVarOk limit vars x) (s : Nat)
    (hs : decodeVar x.var bits = some s) : ∃ k, s = x.var.lo + k ∧ DecodedAt x.var bits k := by
  obtain ⟨_, ht, _, _, _⟩ := prepareFrom_spec limit inst 0 vars h
  have hwl := window_length_of_tiled bits vars.flatten 0 ht (by rw [hlen]; simp [nQubits, totalNq]) x.var hx.mem
  unfold decodeVar at hs
  simp only [Option.map_eq_some_iff] at hs
  obtain ⟨k, hk, rfl⟩ := hs
  obtain ⟨h1, h2⟩ := decodeWindow_some _ _ hk
  rw [hwl] at h1 h2
  exact ⟨k, by omega, ⟨h1, hwl, h2, hx.nvals⟩⟩

theorem mem_combos {α} : ∀ (l : List α) (a b : α), (a, b) ∈ combos l → a ∈ l ∧ b ∈ l
  | [], _, _, h => by simp [combos] at h
  | x :: t, a, b, h => by
      simp only [combos, List.mem_append, List.mem_map] at h
      rcases h with ⟨y, hy, he⟩ | h
      · cases he; exact ⟨by simp, List.mem_cons_of_mem _ hy⟩
      · have := mem_combos t a b h
        exact ⟨List.mem_cons_of_mem _ this.1, List.mem_cons_of_mem _ this.2⟩

theorem precTerms_spec (ovs : List (List OpVar)) : ∀ t ∈ precTerms ovs,
    t.a ∈ ovs.flatten ∧ t.b ∈ ovs.flatten ∧ t.pairs = precPairs t.a t.b := by
  intro t ht
  simp only [precTerms, List.mem_flatMap, List.mem_map] at ht
  obtain ⟨row, hrow, ⟨a, b⟩, hab, rfl⟩ := ht
  have := List.of_mem_zip hab
  refine ⟨?_, ?_, rfl⟩
  · exact List.mem_flatten.mpr ⟨row, hrow, this.1⟩
  · exact List.mem_flatten.mpr ⟨row, hrow, List.mem_of_mem_tail this.2⟩

theorem ovlTerms_spec (ovs : List (List OpVar)) : ∀ t ∈ ovlTerms ovs,
    t.a ∈ ovs.flatten ∧ t.b ∈ ovs.flatten ∧ t.pairs = ovlPairs t.a t.b := by
  intro t ht
  simp only [ovlTerms, List.mem_flatMap, List.mem_map] at ht
  obtain ⟨m, _, ⟨a, b⟩, hab, rfl⟩ := ht
  have := mem_combos _ a b hab
  exact ⟨(List.mem_filter.mp this.1).1, (List.mem_filter.mp this.2).1, rfl⟩

end QVerif.Encoder
