import QVerif.Lemmas.OptTerms
import QVerif.Lemmas.DoubleCount

/-! Lower bound of the energy on arbitrary (possibly undecodable) basis states (C01): the pair penalties can
never outweigh the viability penalties weighted by `max constraint count + 1`. -/

namespace QVerif.Encoder
open QVerif.DoubleCount

abbrev Slot := (Nat × Nat) × Nat

/-! ### keys of the operation/variable pairs are unique -/

theorem zipIdx_pairwise_snd {α} : ∀ (l : List α) (k : Nat), (l.zipIdx k).Pairwise (fun a b => a.2 < b.2)
  | [], _ => List.Pairwise.nil
  | x :: t, k => by
      simp only [List.zipIdx_cons]
      refine List.Pairwise.cons ?_ (zipIdx_pairwise_snd t (k + 1))
      intro b hb
      have := List.le_snd_of_mem_zipIdx hb
      simp only; omega

theorem opVars_keys_pairwise (inst : EInst) (vars : List (List Var)) :
    (opVars inst vars).flatten.Pairwise (fun x y => x.key ≠ y.key) := by
  unfold opVars
  rw [List.pairwise_flatten]
  constructor
  · intro row hrow
    simp only [List.mem_map] at hrow
    obtain ⟨⟨⟨j, vs⟩, ji⟩, _, rfl⟩ := hrow
    rw [List.pairwise_map]
    exact (zipIdx_pairwise_snd (j.zip vs) 0).imp (by
      intro a b hab; simp only [ne_eq, Prod.mk.injEq, not_and]; intro _; omega)
  · rw [List.pairwise_map]
    exact (zipIdx_pairwise_snd (inst.zip vars) 0).imp (by
      intro a b hab x hx y hy
      simp only [List.mem_map] at hx hy
      obtain ⟨_, _, rfl⟩ := hx
      obtain ⟨_, _, rfl⟩ := hy
      simp only [ne_eq, Prod.mk.injEq, not_and]
      intro h; omega)

/-! ### unit terms and constraint counts -/

def unitsOf (terms : List PairTerm) : List (Slot × Slot) :=
  terms.flatMap (fun t => t.pairs.map (fun p => ((t.a.key, p.1), (t.b.key, p.2))))

theorem filter_units_fst (t : PairTerm) (key : Nat × Nat) (s : Nat) :
    ((t.pairs.map (fun p => (((t.a.key, p.1), (t.b.key, p.2)) : Slot × Slot))).filter (fun u => decide (u.1 = (key, s)))).length =
      if t.a.key = key then (t.pairs.filter (fun p => p.1 = s)).length else 0 := by
  induction t.pairs with
  | nil => simp
  | cons p ps ih =>
    simp only [List.map_cons, List.filter_cons, Prod.mk.injEq]
    by_cases hk : t.a.key = key <;> by_cases hs : p.1 = s <;> simp [hk, hs] at ih ⊢ <;> omega

theorem filter_units_snd (t : PairTerm) (key : Nat × Nat) (s : Nat) :
    ((t.pairs.map (fun p => (((t.a.key, p.1), (t.b.key, p.2)) : Slot × Slot))).filter (fun u => decide (u.2 = (key, s)))).length =
      if t.b.key = key then (t.pairs.filter (fun p => p.2 = s)).length else 0 := by
  induction t.pairs with
  | nil => simp
  | cons p ps ih =>
    simp only [List.map_cons, List.filter_cons, Prod.mk.injEq]
    by_cases hk : t.b.key = key <;> by_cases hs : p.2 = s <;> simp [hk, hs] at ih ⊢ <;> omega

/-- the code's `_operation_constraint_counts[(op, start)]` is the number of unit terms touching that slot -/
theorem constraintCount_eq_cnt (terms : List PairTerm) (key : Nat × Nat) (s : Nat) :
    constraintCount terms key s = cnt (unitsOf terms) (key, s) := by
  unfold constraintCount cnt unitsOf
  induction terms with
  | nil => simp
  | cons t T ih =>
    simp only [List.map_cons, List.sum_cons, List.flatMap_cons, List.filter_append, List.length_append]
    rw [ih, filter_units_fst, filter_units_snd]
    omega

theorem unitsOf_append (a b : List PairTerm) : unitsOf (a ++ b) = unitsOf a ++ unitsOf b := by
  simp [unitsOf]

theorem foldl_max_ge (l : List Nat) (init : Nat) : init ≤ l.foldl max init ∧ ∀ x ∈ l, x ≤ l.foldl max init := by
  induction l generalizing init with
  | nil => simp
  | cons a t ih =>
    simp only [List.foldl_cons, List.mem_cons, forall_eq_or_imp]
    have := ih (max init a)
    refine ⟨by omega, by omega, this.2⟩

theorem constraintCount_le_maxCount (terms : List PairTerm) (x : OpVar) (s : Nat) (hs : s ∈ values x.var) :
    constraintCount terms x.key s ≤ maxCount terms x := by
  unfold maxCount
  exact (foldl_max_ge _ 0).2 _ (List.mem_map_of_mem hs)

/-! ### value terms on arbitrary states -/

theorem valueTerm_cases (v : Var) (bits : Bits) (idx : Nat) :
    valueTerm v bits idx = 1 ∨ valueTerm v bits idx = -1 ∨ valueTerm v bits idx = 0 := by
  by_cases h : v.nq = 0
  · left; simp [valueTerm, h]
  · rw [valueTerm_pos v bits idx h]
    rcases vtRaw_cases v bits idx with h1 | h1 | h1
    · left; exact h1.1
    · right; left; exact h1.1
    · right; right; exact h1.1

/-- the value `s` of `x` has a negative value term on `bits` -/
def negV (x : OpVar) (bits : Bits) (s : Nat) : Bool := decide (valueTerm x.var bits (s - x.var.lo) = -1)

/-- the slots with negative value terms -/
def negSlots (flat : List OpVar) (bits : Bits) : List Slot :=
  flat.flatMap (fun x => ((values x.var).filter (negV x bits)).map (fun s => (x.key, s)))

theorem values_nodup (v : Var) : (values v).Nodup := by
  unfold values
  have := List.nodup_range (n := v.nvals)
  unfold List.Nodup at *
  rw [List.pairwise_map]
  exact this.imp (by intro a b h; omega)

theorem negSlots_nodup (flat : List OpVar) (bits : Bits) (hk : flat.Pairwise (fun x y => x.key ≠ y.key)) :
    (negSlots flat bits).Nodup := by
  unfold negSlots List.Nodup
  rw [List.pairwise_flatMap]
  constructor
  · intro x _
    rw [List.pairwise_map]
    have := (values_nodup x.var)
    unfold List.Nodup at this
    exact (this.filter _).imp (by intro a b h; simp only [ne_eq, Prod.mk.injEq, not_and]; intro _; exact h)
  · exact hk.imp (by
      intro x y hxy a ha b hb
      simp only [List.mem_map] at ha hb
      obtain ⟨_, _, rfl⟩ := ha
      obtain ⟨_, _, rfl⟩ := hb
      simp only [ne_eq, Prod.mk.injEq, not_and]
      intro h; exact absurd h hxy)

theorem mem_negSlots {flat : List OpVar} {bits : Bits} {x : OpVar} {s : Nat} (hx : x ∈ flat) (hs : s ∈ values x.var)
    (hn : valueTerm x.var bits (s - x.var.lo) = -1) : ((x.key, s) : Slot) ∈ negSlots flat bits := by
  unfold negSlots
  simp only [List.mem_flatMap, List.mem_map, List.mem_filter]
  exact ⟨x, hx, s, ⟨hs, by simp [negV, hn]⟩, rfl⟩

/-! ### pairs lie in the value ranges -/

theorem precPairs_mem (a b : OpVar) (p : Nat × Nat) (h : p ∈ precPairs a b) : p.1 ∈ values a.var ∧ p.2 ∈ values b.var := by
  unfold precPairs at h
  split at h
  · cases h
  · simp only [List.mem_flatMap, List.mem_filterMap] at h
    obtain ⟨s1, h1, s2, h2, he⟩ := h
    split at he
    · cases he; exact ⟨h1, h2⟩
    · cases he

theorem ovlPairs_mem (a b : OpVar) (p : Nat × Nat) (h : p ∈ ovlPairs a b) : p.1 ∈ values a.var ∧ p.2 ∈ values b.var := by
  unfold ovlPairs at h
  split at h
  · cases h
  · split at h
    · cases h
    · simp only [List.mem_flatMap, List.mem_filterMap] at h
      obtain ⟨s1, h1, s2, h2, he⟩ := h
      split at he
      · cases he; exact ⟨h1, h2⟩
      · cases he

/-- a term whose ends are operation/variable pairs of the encoding and whose pairs lie in the value ranges -/
structure TermOk (flat : List OpVar) (t : PairTerm) : Prop where
  ha : t.a ∈ flat
  hb : t.b ∈ flat
  hp : ∀ p ∈ t.pairs, p.1 ∈ values t.a.var ∧ p.2 ∈ values t.b.var

theorem head_bound (va vb : Rat) (ia ib : Nat) (hva : va = 1 ∨ va = -1 ∨ va = 0) (hvb : vb = 1 ∨ vb = -1 ∨ vb = 0)
    (ha : va = -1 → ia = 1) (hb : vb = -1 → ib = 1) : -(((ia + ib : Nat)) : Rat) ≤ va * vb := by
  have n1 : (0 : Rat) ≤ ((ia : Nat) : Rat) := Rat.natCast_nonneg
  have n2 : (0 : Rat) ≤ ((ib : Nat) : Rat) := Rat.natCast_nonneg
  have one : ((1 : Nat) : Rat) = 1 := rfl
  rw [Rat.natCast_add]
  rcases hva with h1 | h1 | h1 <;> rcases hvb with h2 | h2 | h2
  · subst h1 h2; grind
  · subst h1 h2; have := hb rfl; subst this; rw [one]; grind
  · subst h1 h2; grind
  · subst h1 h2; have := ha rfl; subst this; rw [one]; grind
  · subst h1 h2; grind
  · subst h1 h2; grind
  · subst h1 h2; grind
  · subst h1 h2; grind
  · subst h1 h2; grind

/-- **a pair term is bounded below by minus its incidences in the negative slots** -/
theorem pairTermValue_ge (flat : List OpVar) (bits : Bits) (t : PairTerm) (ht : TermOk flat t) :
    -(((sumN (incid (negSlots flat bits)) (unitsOf [t]) : Nat)) : Rat) ≤ pairTermValue t bits := by
  unfold pairTermValue unitsOf
  simp only [List.flatMap_cons, List.flatMap_nil, List.append_nil]
  have key : ∀ (ps : List (Nat × Nat)), (∀ p ∈ ps, p.1 ∈ values t.a.var ∧ p.2 ∈ values t.b.var) →
      -(((sumN (incid (negSlots flat bits)) (ps.map (fun p => (((t.a.key, p.1), (t.b.key, p.2)) : Slot × Slot))) : Nat)) : Rat) ≤
      (ps.map (fun (p : Nat × Nat) => valueTerm t.a.var bits (p.1 - t.a.var.lo) * valueTerm t.b.var bits (p.2 - t.b.var.lo))).sum := by
    intro ps
    induction ps with
    | nil => intro _; simp [sumN]
    | cons p ps ih =>
      intro hps
      have hrest := ih (fun q hq => hps q (List.mem_cons_of_mem _ hq))
      have hp := hps p (by simp)
      simp only [List.map_cons, sumN, List.sum_cons, Rat.natCast_add]
      -- the head unit
      have hhead : -(((incid (negSlots flat bits) ((t.a.key, p.1), (t.b.key, p.2)) : Nat)) : Rat) ≤
          valueTerm t.a.var bits (p.1 - t.a.var.lo) * valueTerm t.b.var bits (p.2 - t.b.var.lo) := by
        unfold incid
        apply head_bound _ _ _ _ (valueTerm_cases _ _ _) (valueTerm_cases _ _ _)
        · intro ha
          have m1 := mem_negSlots (bits := bits) ht.ha hp.1 ha
          simp only [ind, m1, decide_true, ↓reduceIte]
        · intro hb
          have m2 := mem_negSlots (bits := bits) ht.hb hp.2 hb
          simp only [ind, m2, decide_true, ↓reduceIte]
      grind
  exact key t.pairs ht.hp

end QVerif.Encoder

namespace QVerif.Encoder
open QVerif.DoubleCount

theorem unitsOf_cons (t : PairTerm) (T : List PairTerm) : unitsOf (t :: T) = unitsOf [t] ++ unitsOf T := by
  simp [unitsOf]

/-- a list of pair terms is bounded below by minus its incidences in the negative slots -/
theorem terms_sum_ge (flat : List OpVar) (bits : Bits) : ∀ (terms : List PairTerm), (∀ t ∈ terms, TermOk flat t) →
    -(((sumN (incid (negSlots flat bits)) (unitsOf terms) : Nat)) : Rat) ≤ (terms.map (fun t => pairTermValue t bits)).sum
  | [], _ => by simp [unitsOf, sumN]
  | t :: T, h => by
      have h1 := pairTermValue_ge flat bits t (h t (by simp))
      have h2 := terms_sum_ge flat bits T (fun t' ht' => h t' (List.mem_cons_of_mem _ ht'))
      rw [unitsOf_cons, sumN_append, Rat.natCast_add]
      simp only [List.map_cons, List.sum_cons]
      grind

/-- number of values of `x` with a negative value term -/
def negLen (x : OpVar) (bits : Bits) : Nat := ((values x.var).filter (negV x bits)).length

theorem sumN_flatMap {α β : Type} (f : β → Nat) (g : α → List β) : ∀ (l : List α),
    sumN f (l.flatMap g) = sumN (fun x => sumN f (g x)) l
  | [] => rfl
  | a :: t => by simp only [List.flatMap_cons, sumN_append, sumN, sumN_flatMap f g t]

theorem sumN_const_le {β : Type} (f : β → Nat) (c : Nat) : ∀ (l : List β), (∀ b ∈ l, f b ≤ c) → sumN f l ≤ l.length * c
  | [], _ => by simp [sumN]
  | a :: t, h => by
      have := sumN_const_le f c t (fun b hb => h b (List.mem_cons_of_mem _ hb))
      have := h a (by simp)
      simp only [sumN, List.length_cons, Nat.add_mul]; omega

/-- **incidence bound**: the incidences of all terms in the negative slots are at most
`Σ_x (number of negative values of x) × (max constraint count of x)` -/
theorem incidences_bound (flat : List OpVar) (bits : Bits) (all : List PairTerm)
    (hk : flat.Pairwise (fun x y => x.key ≠ y.key)) :
    sumN (incid (negSlots flat bits)) (unitsOf all) ≤ sumN (fun x => negLen x bits * maxCount all x) flat := by
  rw [incidences_eq (unitsOf all) (negSlots flat bits) (negSlots_nodup flat bits hk)]
  unfold negSlots
  rw [sumN_flatMap]
  apply sumN_le
  intro x _
  have := sumN_const_le (cnt (unitsOf all)) (maxCount all x)
    (((values x.var).filter (negV x bits)).map (fun s => ((x.key, s) : Slot))) (by
      intro b hb
      simp only [List.mem_map, List.mem_filter] at hb
      obtain ⟨s, ⟨hs, _⟩, rfl⟩ := hb
      rw [← constraintCount_eq_cnt]
      exact constraintCount_le_maxCount all x s hs)
  simpa [negLen] using this

/-! ### viability = 2 × number of negative values -/

theorem filter_range_length (p : Nat → Bool) (lo : Nat) : ∀ n,
    (((List.range n).map (· + lo)).filter (fun s => p (s - lo))).length = ((List.range n).filter p).length := by
  intro n
  rw [List.filter_map, List.length_map]
  congr 1
  apply List.filter_congr
  intro i _
  simp

theorem negCountTo_eq_filter (v : Var) (bits : Bits) : ∀ n,
    negCountTo v bits n = ((List.range n).filter (fun i => decide (vtRaw v bits i = -1))).length
  | 0 => rfl
  | n + 1 => by
      rw [List.range_succ, List.filter_append, List.length_append, ← negCountTo_eq_filter v bits n]
      simp only [negCountTo, List.filter_cons, List.filter_nil]
      split <;> simp_all

theorem viability_eq_negLen (x : OpVar) (bits : Bits) (hn : x.var.nvals = x.var.nq + 1) :
    viability x.var bits = 2 * (negLen x bits : Rat) := by
  by_cases h0 : x.var.nq = 0
  · rw [viability_zero_of_nq_zero _ _ h0]
    have : negLen x bits = 0 := by
      unfold negLen
      rw [List.length_eq_zero_iff, List.filter_eq_nil_iff]
      intro s _
      simp only [negV, valueTerm, h0, ↓reduceIte, decide_eq_true_eq]
      decide +kernel
    rw [this]; simp
  · rw [viability_eq _ _ h0]
    congr 2
    unfold negCount negLen values
    rw [negCountTo_eq_filter, ← hn]
    have := filter_range_length (fun i => decide (vtRaw x.var bits i = -1)) x.var.lo x.var.nvals
    rw [← this]
    congr 1
    apply List.filter_congr
    intro s _
    simp only [negV, valueTerm_pos _ _ _ h0]

/-! ### the optimisation terms are non-negative on every basis state -/

theorem row_weighted_nonneg (x : OpVar) (bits : Bits) (hn : x.var.nvals = x.var.nq + 1) (w : Nat → Rat)
    (hw0 : 0 ≤ w 0) (hmono : ∀ k, k < x.var.nq → w k ≤ w (k + 1)) :
    0 ≤ sumTo (fun i => w i * valueTerm x.var bits i) x.var.nvals := by
  by_cases h0 : x.var.nq = 0
  · rw [hn, h0]
    simp only [sumTo, valueTerm, h0, ↓reduceIte]
    grind
  · rw [hn]
    have : sumTo (fun i => w i * valueTerm x.var bits i) (x.var.nq + 1) = sumTo (fun i => w i * vtRaw x.var bits i) (x.var.nq + 1) :=
      sumTo_congr _ (fun i _ => by rw [valueTerm_pos _ _ _ h0])
    rw [this]
    have := abel_bound x.var bits w hmono
    grind

theorem sum_nonneg_of_forall {α} (l : List α) (f : α → Rat) (h : ∀ a ∈ l, 0 ≤ f a) : 0 ≤ (l.map f).sum := by
  induction l with
  | nil => simp
  | cons a t ih =>
    simp only [List.map_cons, List.sum_cons]
    have := h a (by simp)
    have := ih (fun b hb => h b (List.mem_cons_of_mem _ hb))
    grind

theorem makespanTerm_nonneg (ovs : List (List OpVar)) (limit : Nat) (bits : Bits)
    (hn : ∀ x ∈ ovs.flatten, x.var.nvals = x.var.nq + 1) : 0 ≤ makespanTerm ovs limit bits := by
  unfold makespanTerm
  simp only
  apply sum_nonneg_of_forall
  intro row hrow
  cases hl : row.getLast? with
  | none => exact Rat.le_refl
  | some x =>
    simp only
    have hx : x ∈ ovs.flatten := List.mem_flatten.mpr ⟨row, hrow, List.mem_of_getLast? hl⟩
    rw [sum_values]
    have hM : (0 : Rat) ≤ 1 / ((ovs.length * (ovs.length + 1) ^ limit : Nat) : Rat) := by
      rw [Rat.div_def, Rat.one_mul]
      by_cases hz : (ovs.length * (ovs.length + 1) ^ limit : Nat) = 0
      · rw [hz]; decide +kernel
      · have := Rat.inv_pos.mpr (Rat.natCast_pos.mpr (Nat.pos_of_ne_zero hz)); grind
    have e : sumTo (fun i => 1 / ((ovs.length * (ovs.length + 1) ^ limit : Nat) : Rat) *
          (((ovs.length + 1) ^ (i + x.var.lo + x.op.dur) : Nat) : Rat) * valueTerm x.var bits (i + x.var.lo - x.var.lo)) x.var.nvals =
        sumTo (fun i => (1 / ((ovs.length * (ovs.length + 1) ^ limit : Nat) : Rat) *
          (((ovs.length + 1) ^ (i + x.var.lo + x.op.dur) : Nat) : Rat)) * valueTerm x.var bits i) x.var.nvals :=
      sumTo_congr _ (fun i _ => by rw [Nat.add_sub_cancel])
    rw [e]
    apply row_weighted_nonneg x bits (hn x hx)
    · exact Rat.mul_nonneg hM Rat.natCast_nonneg
    · intro k _
      apply Rat.mul_le_mul_of_nonneg_left _ hM
      apply Rat.natCast_le_natCast.mpr
      apply Nat.pow_le_pow_right (by omega)
      omega

theorem earlyStartTerm_nonneg (ovs : List (List OpVar)) (bits : Bits)
    (hn : ∀ x ∈ ovs.flatten, x.var.nvals = x.var.nq + 1) : 0 ≤ earlyStartTerm ovs bits := by
  unfold earlyStartTerm
  simp only
  have hz : (0 : Rat) ≤ 1 / (((ovs.flatten.map (fun x => x.var.nvals - 1)).sum : Nat) : Rat) := by
    rw [Rat.div_def, Rat.one_mul]
    by_cases h0 : ((ovs.flatten.map (fun x => x.var.nvals - 1)).sum : Nat) = 0
    · rw [h0]; decide +kernel
    · have := Rat.inv_pos.mpr (Rat.natCast_pos.mpr (Nat.pos_of_ne_zero h0)); grind
  revert hz
  generalize (((ovs.flatten.map (fun x => x.var.nvals - 1)).sum : Nat) : Rat) = z
  intro hz
  apply sum_nonneg_of_forall
  intro x hx
  rw [sum_range_eq_sumTo]
  · have e : sumTo (fun (i : Nat) => if i = 0 then (0 : Rat) else 1 / z * ((i : Nat) : Rat) * valueTerm x.var bits i) x.var.nvals =
        sumTo (fun i => (if i = 0 then (0 : Rat) else 1 / z * ((i : Nat) : Rat)) * valueTerm x.var bits i) x.var.nvals :=
      sumTo_congr _ (fun i _ => by split <;> grind)
    rw [e]
    apply row_weighted_nonneg x bits (hn x hx)
    · simp
    · intro k _
      have h1 : (0 : Rat) ≤ ((k : Nat) : Rat) := Rat.natCast_nonneg
      have h2 : ((k : Nat) : Rat) ≤ ((k + 1 : Nat) : Rat) := Rat.natCast_le_natCast.mpr (by omega)
      have h3 := Rat.mul_le_mul_of_nonneg_left h2 hz
      have h4 := Rat.mul_nonneg hz h1
      have hk1 : k + 1 ≠ 0 := by omega
      simp only [hk1, ↓reduceIte]
      split
      · rename_i hk0; subst hk0; exact Rat.mul_nonneg hz Rat.natCast_nonneg
      · exact h3

end QVerif.Encoder
