import QVerif.Model.Solver

/-! Invariants of the solver loop (C05, C12). -/

namespace QVerif.Solver

/-- `result_callback`'s update of the running best, as a fold over the history -/
def upd (acc : Option (Nat × Rat)) (e : Nat × Rat) : Option (Nat × Rat) :=
  match acc with
  | none => some e
  | some (b0, v0) => if e.2 < v0 then some e else some (b0, v0)

def countsOf (evs : List Ev) : Nat := (evs.map (fun e => match e with | .count n => n | _ => 0)).sum
def resultsOf (evs : List Ev) : Nat := (evs.filter (fun e => match e with | .result _ _ _ => true | _ => false)).length

/-- data invariant of the loop state -/
structure SInv (s : St) : Prop where
  gen : s.nGen = s.hist.length
  best : s.best = s.hist.foldl upd none
  len : s.ledger.length ≤ s.nGen + 1

theorem sinv_init : SInv {} := ⟨rfl, rfl, by simp⟩

theorem onCount_sum (s : St) (n : Nat) (h : s.ledger.length ≤ s.nGen + 1) :
    (onCount s n).ledger.sum = s.ledger.sum + n ∧ (onCount s n).ledger.length ≤ s.nGen + 1 ∧
    (onCount s n).nGen = s.nGen ∧ (onCount s n).hist = s.hist ∧ (onCount s n).best = s.best ∧
    (onCount s n).terminate = s.terminate := by
  unfold onCount
  split
  · simp; omega
  · rename_i hlt
    have hlen : s.ledger.length = s.nGen + 1 := by omega
    have hi : s.nGen < s.ledger.length := by omega
    refine ⟨?_, by simp; omega, rfl, rfl, rfl, rfl⟩
    simp only
    -- replacing entry i by (entry i + n) adds n to the sum
    have : ∀ (l : List Nat) (i : Nat), i < l.length → (l.set i (l.getD i 0 + n)).sum = l.sum + n := by
      intro l
      induction l with
      | nil => intro i hi; simp at hi
      | cons a t ih =>
        intro i hi
        cases i with
        | zero => simp; omega
        | succ j =>
          simp only [List.set_cons_succ, List.sum_cons, List.getD_cons_succ]
          rw [ih j (by simpa using hi)]; omega
    exact this s.ledger s.nGen hi

theorem sinv_event (cfg : Cfg) (s : St) (e : Ev) (h : SInv s) : SInv (onEvent cfg s e) := by
  cases e with
  | count n =>
    obtain ⟨_, h2, h3, h4, h5, _⟩ := onCount_sum s n h.len
    simp only [onEvent]
    exact ⟨by rw [h3, h4]; exact h.gen, by rw [h5, h4]; exact h.best, by rw [h3]; exact h2⟩
  | result b v c =>
    simp only [onEvent, onResult]
    refine ⟨by simp [h.gen], ?_, by simp; have := h.len; omega⟩
    simp only [List.foldl_append, List.foldl_cons, List.foldl_nil, ← h.best]
    unfold upd
    cases s.best with
    | none => rfl
    | some p => obtain ⟨b0, v0⟩ := p; rfl

theorem sinv_events (cfg : Cfg) : ∀ (evs : List Ev) (s : St), SInv s → SInv (evs.foldl (onEvent cfg) s)
  | [], s, h => h
  | e :: t, s, h => sinv_events cfg t _ (sinv_event cfg s e h)

theorem events_sum (cfg : Cfg) : ∀ (evs : List Ev) (s : St), SInv s →
    (evs.foldl (onEvent cfg) s).ledger.sum = s.ledger.sum + countsOf evs ∧
    (evs.foldl (onEvent cfg) s).nGen = s.nGen + resultsOf evs
  | [], s, _ => by simp [countsOf, resultsOf]
  | e :: t, s, h => by
      have ih := events_sum cfg t (onEvent cfg s e) (sinv_event cfg s e h)
      simp only [List.foldl_cons]
      rw [ih.1, ih.2]
      cases e with
      | count n =>
        obtain ⟨h1, _, h3, _⟩ := onCount_sum s n h.len
        simp only [onEvent, countsOf, resultsOf, List.map_cons, List.sum_cons, List.filter_cons] at *
        rw [h1, h3]; simp; omega
      | result b v c =>
        simp only [onEvent, onResult, countsOf, resultsOf, List.map_cons, List.sum_cons, List.filter_cons]
        simp; omega

/-- chain of started states: each one is the state after applying the previous step; none has `terminate` set and
none has reached a limit -/
theorem runLoop_spec (cfg : Cfg) : ∀ (script : List Step) (s sF : St) (started : List St) (ex : Bool),
    SInv s → runLoop cfg s script = (sF, started, ex) →
    SInv sF ∧ started.length ≤ script.length ∧
    (∀ i (h1 : i < started.length) (h2 : i < script.length),
        (started[i]).terminate = false ∧ limitReached cfg started[i] (script[i]).est = false ∧ SInv started[i]) ∧
    (∀ i (h1 : i + 1 < started.length) (h2 : i < script.length),
        started[i + 1] = (script[i]).events.foldl (onEvent cfg) (started[i]'(by omega))) ∧
    (started.head? = none ∨ started.head? = some s) ∧
    (sF.ledger.sum = s.ledger.sum + ((script.take started.length).map (fun st => countsOf st.events)).sum) ∧
    (ex = false → sF.terminate = true) ∧
    (∀ (h0 : started ≠ []) (hk : started.length - 1 < script.length),
        sF = (script[started.length - 1]).events.foldl (onEvent cfg) (started.getLast h0) ∨
        sF = { (script[started.length - 1]).events.foldl (onEvent cfg) (started.getLast h0) with terminate := true }) ∧
    (started = [] → sF = s ∨ sF = { s with terminate := true })
  | [], s, sF, started, ex, hs, hr => by
      simp only [runLoop] at hr
      split at hr
      · rename_i ht
        simp only [Prod.mk.injEq] at hr
        obtain ⟨rfl, rfl, rfl⟩ := hr
        simp [hs, ht]
      · split at hr
        · simp only [Prod.mk.injEq] at hr
          obtain ⟨rfl, rfl, rfl⟩ := hr
          refine ⟨⟨hs.gen, hs.best, hs.len⟩, by simp, by simp, by simp, by simp, by simp, by simp, by simp, by simp⟩
        · simp only [Prod.mk.injEq] at hr
          obtain ⟨rfl, rfl, rfl⟩ := hr
          simp [hs]
  | step :: rest, s, sF, started, ex, hs, hr => by
      simp only [runLoop] at hr
      split at hr
      · rename_i ht
        simp only [Prod.mk.injEq] at hr
        obtain ⟨rfl, rfl, rfl⟩ := hr
        simp [hs, ht]
      · rename_i ht
        split at hr
        · rename_i hl
          simp only [Prod.mk.injEq] at hr
          obtain ⟨rfl, rfl, rfl⟩ := hr
          refine ⟨⟨hs.gen, hs.best, hs.len⟩, by simp, by simp, by simp, by simp, by simp, by simp, by simp, by simp⟩
        · rename_i hl
          have hs' := sinv_events cfg step.events s hs
          cases hrec : runLoop cfg (step.events.foldl (onEvent cfg) s) rest with
          | mk sF' r2 =>
            obtain ⟨started', ex'⟩ := r2
            rw [hrec] at hr
            simp only [Prod.mk.injEq] at hr
            obtain ⟨rfl, rfl, rfl⟩ := hr
            obtain ⟨g1, g2, g3, g4, g5, g6, g7, g8, g9⟩ := runLoop_spec cfg rest _ sF' started' ex' hs' hrec
            have htf : s.terminate = false := by simpa using ht
            have hlf : limitReached cfg s step.est = false := by simpa using hl
            refine ⟨g1, by simp; omega, ?_, ?_, Or.inr rfl, ?_, g7, ?_, by simp⟩
            · intro i h1 h2
              cases i with
              | zero => simp [htf, hlf, hs]
              | succ j =>
                have := g3 j (by simpa using h1) (by simpa using h2)
                simpa using this
            · intro i h1 h2
              cases i with
              | zero =>
                simp only [List.length_cons] at h1
                simp only [List.getElem_cons_succ, List.getElem_cons_zero]
                rcases g5 with h | h
                · have : started' = [] := by cases started' <;> simp_all
                  simp [this] at h1
                · cases started' with
                  | nil => simp at h1
                  | cons a t => simp at h; simp [h]
              | succ j =>
                have := g4 j (by simpa using h1) (by simpa using h2)
                simpa using this
            · rw [g6, (events_sum cfg step.events s hs).1]
              simp only [List.length_cons, List.take_succ_cons, List.map_cons, List.sum_cons]
              omega
            · intro h0 hk
              cases started' with
              | nil =>
                simp only [List.length_cons, List.length_nil, Nat.zero_add, Nat.sub_self, List.getElem_cons_zero,
                  List.getLast_singleton]
                exact g9 rfl
              | cons a t =>
                have := g8 (by simp) (by simpa using hk)
                simpa using this

end QVerif.Solver
