import QVerif.Model.Genome

/-! Helper lemmas for C04: parameter names are layer-major, hence sorting all slots = concatenating the
per-layer sorted slots. -/

namespace QVerif.Genome

theorem padDigits_length (w n : Nat) : (padDigits w n).length = w := by
  induction w generalizing n with
  | zero => rfl
  | succ k ih => simp [padDigits, ih]

/-- fixed-width decimal renderings order like the numbers -/
theorem padDigits_lt {w a b : Nat} (hb : b < 10 ^ w) (hab : a < b) : padDigits w a < padDigits w b := by
  induction w generalizing a b with
  | zero => simp at hb; omega
  | succ k ih =>
    simp only [padDigits]
    have hpos : 0 < 10 ^ k := Nat.pow_pos (by omega)
    by_cases hq : a / 10 ^ k < b / 10 ^ k
    · exact List.Lex.rel (by omega)
    · have hle : a / 10 ^ k ≤ b / 10 ^ k := Nat.div_le_div_right (Nat.le_of_lt hab)
      have heq : a / 10 ^ k = b / 10 ^ k := by omega
      rw [heq]
      apply List.Lex.cons
      apply ih (Nat.mod_lt _ hpos)
      have ha := Nat.div_add_mod a (10 ^ k)
      have hb' := Nat.div_add_mod b (10 ^ k)
      rw [heq] at ha
      omega

/-- a lexicographic difference between equally long middles decides the order whatever follows -/
theorem lt_append_of_lt_same_length {x y : List Nat} (hl : x.length = y.length) (h : x < y) (r1 r2 : List Nat) :
    x ++ r1 < y ++ r2 := by
  induction h with
  | nil => simp at hl
  | rel hr => exact List.Lex.rel hr
  | cons _ ih2 =>
    simp only [List.cons_append]
    exact List.Lex.cons (ih2 (by simpa using hl))

/-- **layer-major**: for layer ids below 10⁹ a smaller layer id gives a smaller name, whatever qubit and kind -/
theorem name_layer_major (s t : Slot) (h : s.layer < t.layer) (ht : t.layer < 10 ^ 9) : s.name < t.name := by
  unfold Slot.name
  simp only [List.append_assoc]
  apply List.append_left_lt
  exact lt_append_of_lt_same_length (by rw [padDigits_length, padDigits_length]) (padDigits_lt ht h) _ _

theorem mem_layerSlots_layer {i : Nat} {l : Layer} {s : Slot} (h : s ∈ layerSlots i l) : s.layer = i := by
  simp only [layerSlots, List.mem_flatMap] at h
  obtain ⟨g, _, hs⟩ := h
  split at hs
  · simp only [List.mem_cons, List.not_mem_nil, or_false] at hs
    rcases hs with rfl | rfl | rfl <;> rfl
  · cases hs

theorem sortSlots_perm (l : List Slot) : (sortSlots l).Perm l := List.mergeSort_perm l _

theorem sortSlots_pairwise (l : List Slot) : (sortSlots l).Pairwise (fun a b => a.name ≤ b.name) := by
  have h := List.pairwise_mergeSort (le := fun (s t : Slot) => decide (s.name ≤ t.name))
    (by intro a b c; simp only [decide_eq_true_eq]; exact List.le_trans)
    (by intro a b; simp only [Bool.or_eq_true, decide_eq_true_eq]; exact List.le_total _ _) l
  exact h.imp (by intro a b; simp)

theorem mem_sortSlots {l : List Slot} {s : Slot} : s ∈ sortSlots l ↔ s ∈ l := (sortSlots_perm l).mem_iff

theorem length_sortSlots (l : List Slot) : (sortSlots l).length = l.length := (sortSlots_perm l).length_eq

theorem flatMap_perm_pieces {α β} (f g : α → List β) : ∀ (l : List α), (∀ a ∈ l, (f a).Perm (g a)) →
    (l.flatMap f).Perm (l.flatMap g)
  | [], _ => by simp
  | a :: t, h => by
      simp only [List.flatMap_cons]
      exact (h a (by simp)).append (flatMap_perm_pieces f g t (fun b hb => h b (List.mem_cons_of_mem _ hb)))

/-- **sorting all = concatenating the per-layer sorts**, for any strictly increasing list of layer indices
below 10⁹, provided the names of the slots involved are pairwise different (Qiskit rejects duplicate names) -/
theorem sort_concat (L : Nat → Layer) (is : List Nat) (hinc : is.Pairwise (· < ·)) (hb : ∀ i ∈ is, i < 10 ^ 9)
    (hinj : ∀ s ∈ is.flatMap (fun i => layerSlots i (L i)), ∀ t ∈ is.flatMap (fun i => layerSlots i (L i)),
      s.name = t.name → s = t) :
    sortSlots (is.flatMap (fun i => layerSlots i (L i))) = is.flatMap (fun i => sortSlots (layerSlots i (L i))) := by
  apply List.Perm.eq_of_pairwise (le := fun a b => a.name ≤ b.name)
  · intro a b ha hbm hab hba
    apply hinj a (mem_sortSlots.mp ha) b ?_ (List.le_antisymm hab hba)
    simp only [List.mem_flatMap] at hbm ⊢
    obtain ⟨i, hi, hbi⟩ := hbm
    exact ⟨i, hi, mem_sortSlots.mp hbi⟩
  · exact sortSlots_pairwise _
  · rw [List.pairwise_flatMap]
    refine ⟨fun i _ => sortSlots_pairwise _, ?_⟩
    have : ∀ (l : List Nat), l.Pairwise (· < ·) → (∀ i ∈ l, i < 10 ^ 9) →
        l.Pairwise (fun a₁ a₂ => ∀ x ∈ sortSlots (layerSlots a₁ (L a₁)), ∀ y ∈ sortSlots (layerSlots a₂ (L a₂)), x.name ≤ y.name) := by
      intro l hl hb'
      induction hl with
      | nil => exact List.Pairwise.nil
      | cons hlt _ ih =>
        rename_i a t
        refine List.Pairwise.cons ?_ (ih (fun i hi => hb' i (List.mem_cons_of_mem _ hi)))
        intro j hj x hx y hy
        have hxl := mem_layerSlots_layer (mem_sortSlots.mp hx)
        have hyl := mem_layerSlots_layer (mem_sortSlots.mp hy)
        apply List.le_of_lt
        apply name_layer_major
        · rw [hxl, hyl]; exact hlt j hj
        · rw [hyl]; exact hb' j (List.mem_cons_of_mem _ hj)
    exact this is hinc hb
  · exact (sortSlots_perm _).trans (flatMap_perm_pieces _ _ is (fun i _ => (sortSlots_perm _).symm))

/-- zipping concatenations piecewise -/
theorem zip_flatMap {α β γ} (f : α → List β) (g : α → List γ) : ∀ (l : List α),
    (∀ a ∈ l, (f a).length = (g a).length) → (l.flatMap f).zip (l.flatMap g) = l.flatMap (fun a => (f a).zip (g a))
  | [], _ => by simp
  | a :: t, h => by
      simp only [List.flatMap_cons]
      rw [List.zip_append (h a (by simp)), zip_flatMap f g t (fun b hb => h b (List.mem_cons_of_mem _ hb))]

end QVerif.Genome
