import QVerif.Lemmas.Encoder

/-! Single-variable domain-wall lemmas (C01/C02): value terms telescope, non-decreasing weights are bounded below
by their first weight (Abel summation), viability = 2 × number of negative value terms, decoded variables have
indicator value terms. -/

namespace QVerif.Encoder

/-- `Σ_{k < n} f k` -/
def sumTo (f : Nat → Rat) : Nat → Rat
  | 0 => 0
  | n + 1 => sumTo f n + f n

theorem sum_range_eq_sumTo (f : Nat → Rat) (n : Nat) : ((List.range n).map f).sum = sumTo f n := by
  induction n with
  | zero => rfl
  | succ k ih => rw [List.range_succ, List.map_append, List.sum_append, ih]; simp only [List.map_cons, List.map_nil, List.sum_cons, List.sum_nil, sumTo]; grind

theorem sumTo_congr {f g : Nat → Rat} (n : Nat) (h : ∀ k, k < n → f k = g k) : sumTo f n = sumTo g n := by
  induction n with
  | zero => rfl
  | succ k ih => simp only [sumTo]; rw [ih (fun j hj => h j (by omega)), h k (by omega)]

theorem sumTo_nonneg {f : Nat → Rat} (n : Nat) (h : ∀ k, k < n → 0 ≤ f k) : 0 ≤ sumTo f n := by
  induction n with
  | zero => simp [sumTo]
  | succ k ih => simp only [sumTo]; have := ih (fun j hj => h j (by omega)); have := h k (by omega); grind

theorem zd_cases (v : Var) (bits : Bits) (k : Nat) : zd v bits k = 1 ∨ zd v bits k = -1 := by
  unfold zd; split
  · right; rfl
  · split
    · left; rfl
    · split
      · right; rfl
      · left; rfl

theorem zd_zero (v : Var) (bits : Bits) : zd v bits 0 = -1 := by simp [zd]
theorem zd_last (v : Var) (bits : Bits) : zd v bits (v.nq + 1) = 1 := by simp [zd]

/-- the value term without the `nq = 0` special case -/
def vtRaw (v : Var) (bits : Bits) (idx : Nat) : Rat := ((zd v bits (idx + 1) - zd v bits idx : Int) : Rat) / 2

theorem valueTerm_pos (v : Var) (bits : Bits) (idx : Nat) (h : v.nq ≠ 0) : valueTerm v bits idx = vtRaw v bits idx := by
  simp [valueTerm, vtRaw, h]

theorem vtRaw_cases (v : Var) (bits : Bits) (idx : Nat) :
    (vtRaw v bits idx = 1 ∧ zd v bits idx = -1 ∧ zd v bits (idx + 1) = 1) ∨
    (vtRaw v bits idx = -1 ∧ zd v bits idx = 1 ∧ zd v bits (idx + 1) = -1) ∨
    (vtRaw v bits idx = 0 ∧ zd v bits idx = zd v bits (idx + 1)) := by
  unfold vtRaw
  rcases zd_cases v bits idx with h1 | h1 <;> rcases zd_cases v bits (idx + 1) with h2 | h2 <;> simp only [h1, h2]
  · right; right; exact ⟨by grind, trivial⟩
  · right; left; exact ⟨by grind, trivial, trivial⟩
  · left; exact ⟨by grind, trivial, trivial⟩
  · right; right; exact ⟨by grind, trivial⟩

/-- **Abel summation**: weights that never decrease, contracted with the value terms of one variable, are at
least the first weight (on every basis state, decodable or not) -/
theorem abel_bound (v : Var) (bits : Bits) (w : Nat → Rat) (hw : ∀ k, k < v.nq → w k ≤ w (k + 1)) :
    w 0 ≤ sumTo (fun k => w k * vtRaw v bits k) (v.nq + 1) := by
  have key : ∀ m, m ≤ v.nq →
      2 * w 0 - w m + w m * ((zd v bits (m + 1) : Int) : Rat) ≤ 2 * sumTo (fun k => w k * vtRaw v bits k) (m + 1) := by
    intro m
    induction m with
    | zero =>
      intro _
      simp only [sumTo, vtRaw, zd_zero]
      rcases zd_cases v bits 1 with h | h <;> simp only [h] <;> grind
    | succ j ih =>
      intro hj
      have := ih (by omega)
      have hwj := hw j (by omega)
      simp only [sumTo] at this ⊢
      simp only [vtRaw] at this ⊢
      rcases zd_cases v bits (j + 1) with h1 | h1 <;> rcases zd_cases v bits (j + 1 + 1) with h2 | h2 <;>
        simp only [h1, h2] at this ⊢ <;> grind
  have := key v.nq (Nat.le_refl _)
  rw [zd_last] at this
  grind

/-- the value terms of a variable sum to one (telescoping) -/
theorem vtRaw_sum_one (v : Var) (bits : Bits) : sumTo (vtRaw v bits) (v.nq + 1) = 1 := by
  have key : ∀ m, m ≤ v.nq → 2 * sumTo (vtRaw v bits) (m + 1) = ((zd v bits (m + 1) : Int) : Rat) + 1 := by
    intro m
    induction m with
    | zero => intro _; simp only [sumTo, vtRaw, zd_zero]; rcases zd_cases v bits 1 with h | h <;> simp only [h] <;> grind
    | succ j ih =>
      intro hj
      have := ih (by omega)
      simp only [sumTo, vtRaw] at this ⊢
      rcases zd_cases v bits (j + 1) with h1 | h1 <;> rcases zd_cases v bits (j + 1 + 1) with h2 | h2 <;>
        simp only [h1, h2] at this ⊢ <;> grind
  have := key v.nq (Nat.le_refl _)
  rw [zd_last] at this
  grind

/-- number of negative value terms (reverse domain walls) among the first `n` indices -/
def negCountTo (v : Var) (bits : Bits) : Nat → Nat
  | 0 => 0
  | n + 1 => negCountTo v bits n + (if vtRaw v bits n = -1 then 1 else 0)

def negCount (v : Var) (bits : Bits) : Nat := negCountTo v bits (v.nq + 1)

/-- **viability = 2 × reverse walls** -/
theorem viability_eq (v : Var) (bits : Bits) (h : v.nq ≠ 0) : viability v bits = 2 * (negCount v bits : Rat) := by
  unfold viability
  simp only [h, ↓reduceIte]
  rw [sum_range_eq_sumTo]
  have key : ∀ m, m ≤ v.nq →
      sumTo (fun k => ((1 - zd v bits k * zd v bits (k + 1) : Int) : Rat) / 2) (m + 1) =
        2 * (negCountTo v bits (m + 1) : Rat) + (1 + ((zd v bits (m + 1) : Int) : Rat)) / 2 := by
    intro m
    induction m with
    | zero =>
      intro _
      simp only [sumTo, negCountTo, vtRaw, zd_zero]
      rcases zd_cases v bits 1 with h1 | h1 <;> simp only [h1]
      · have : ¬ ((((1 : Int) - (-1) : Int) : Rat) / 2 = -1) := by grind
        simp only [this, ↓reduceIte]; grind
      · have : ¬ ((((-1 : Int) - (-1) : Int) : Rat) / 2 = -1) := by grind
        simp only [this, ↓reduceIte]; grind
    | succ j ih =>
      intro hj
      have := ih (by omega)
      rw [show sumTo (fun k => ((1 - zd v bits k * zd v bits (k + 1) : Int) : Rat) / 2) (j + 1 + 1) =
            sumTo (fun k => ((1 - zd v bits k * zd v bits (k + 1) : Int) : Rat) / 2) (j + 1) +
              ((1 - zd v bits (j + 1) * zd v bits (j + 1 + 1) : Int) : Rat) / 2 from rfl,
          show negCountTo v bits (j + 1 + 1) = negCountTo v bits (j + 1) + (if vtRaw v bits (j + 1) = -1 then 1 else 0) from rfl,
          this]
      unfold vtRaw
      rcases zd_cases v bits (j + 1) with h1 | h1 <;> rcases zd_cases v bits (j + 1 + 1) with h2 | h2 <;>
        simp only [h1, h2]
      · have : ¬ ((((1 : Int) - 1 : Int) : Rat) / 2 = -1) := by grind
        simp only [this, ↓reduceIte]; grind
      · have : ((((-1 : Int) - 1 : Int) : Rat) / 2 = -1) := by grind
        simp only [this, ↓reduceIte]; grind
      · have : ¬ ((((1 : Int) - (-1) : Int) : Rat) / 2 = -1) := by grind
        simp only [this, ↓reduceIte]; grind
      · have : ¬ ((((-1 : Int) - (-1) : Int) : Rat) / 2 = -1) := by grind
        simp only [this, ↓reduceIte]; grind
  rw [key v.nq (Nat.le_refl _), zd_last]
  unfold negCount
  grind

theorem viability_zero_of_nq_zero (v : Var) (bits : Bits) (h : v.nq = 0) : viability v bits = 0 := by
  simp [viability, h]

theorem viability_nonneg (v : Var) (bits : Bits) : 0 ≤ viability v bits := by
  by_cases h : v.nq = 0
  · rw [viability_zero_of_nq_zero v bits h]; exact Rat.le_refl
  · rw [viability_eq v bits h]
    have : (0 : Rat) ≤ (negCount v bits : Rat) := by exact_mod_cast Nat.zero_le _
    grind

/-! ### decoded variables -/

/-- bits of the variable's window as the model's `zd` sees them -/
theorem zd_of_window (v : Var) (bits : Bits) (k : Nat) (h1 : 1 ≤ k) (h2 : k ≤ v.nq) :
    zd v bits k = if bits.getD (v.qstart + k - 1) false then -1 else 1 := by
  unfold zd
  have : k ≠ 0 := by omega
  have : k ≠ v.nq + 1 := by omega
  simp [*]

theorem window_getD (v : Var) (bits : Bits) (i : Nat) (hi : i < v.nq) :
    (window v bits).getD i false = bits.getD (v.qstart + i) false := by
  unfold window
  simp only [List.getD_eq_getElem?_getD, List.getElem?_take, hi, ↓reduceIte, List.getElem?_drop]

theorem wallWindow_getD (n k i : Nat) (hk : k ≤ n) : (wallWindow n k).getD i false = decide (i < k) := by
  unfold wallWindow
  simp only [List.getD_eq_getElem?_getD, List.getElem?_append, List.length_replicate, List.getElem?_replicate]
  by_cases h : i < k
  · simp [h]
  · simp only [h, ↓reduceIte, decide_false]
    split <;> simp

/-- a variable whose window is `k` ones followed by zeros: `zd` is −1 up to `k` and +1 afterwards -/
theorem zd_decoded (v : Var) (bits : Bits) (k : Nat) (hk : k ≤ v.nq) (hlen : (window v bits).length = v.nq)
    (hw : window v bits = wallWindow v.nq k) (j : Nat) (hj : j ≤ v.nq + 1) :
    zd v bits j = if j ≤ k then -1 else 1 := by
  by_cases h0 : j = 0
  · subst h0; simp [zd]
  · by_cases hl : j = v.nq + 1
    · subst hl; rw [zd_last]; have : ¬ (v.nq + 1 ≤ k) := by omega
      simp [this]
    · rw [zd_of_window v bits j (by omega) (by omega)]
      have e : bits.getD (v.qstart + j - 1) false = (window v bits).getD (j - 1) false := by
        rw [window_getD v bits (j - 1) (by omega)]
        congr 1; omega
      rw [e, hw, wallWindow_getD _ _ _ hk]
      by_cases hjk : j ≤ k
      · have : j - 1 < k := by omega
        simp [this, hjk]
      · have : ¬ (j - 1 < k) := by omega
        simp [this, hjk]

/-- **decoded variable: the value terms are indicators** of the decoded index and the variable is viable -/
theorem valueTerm_decoded (v : Var) (bits : Bits) (k : Nat) (hk : k ≤ v.nq) (hlen : (window v bits).length = v.nq)
    (hw : window v bits = wallWindow v.nq k) (idx : Nat) (hidx : idx ≤ v.nq) :
    valueTerm v bits idx = if idx = k then 1 else 0 := by
  by_cases h0 : v.nq = 0
  · have : idx = 0 := by omega
    have : k = 0 := by omega
    simp [valueTerm, h0, *]
  · rw [valueTerm_pos v bits idx h0]
    unfold vtRaw
    rw [zd_decoded v bits k hk hlen hw (idx + 1) (by omega), zd_decoded v bits k hk hlen hw idx (by omega)]
    by_cases h1 : idx = k
    · subst h1; have : ¬ (idx + 1 ≤ idx) := by omega
      simp only [this, ↓reduceIte, Nat.le_refl]; grind
    · by_cases h2 : idx < k
      · have a1 : idx + 1 ≤ k := by omega
        have a2 : idx ≤ k := by omega
        simp only [a1, a2, h1, ↓reduceIte]; grind
      · have a1 : ¬ (idx + 1 ≤ k) := by omega
        have a2 : ¬ (idx ≤ k) := by omega
        simp only [a1, a2, h1, ↓reduceIte]; grind

theorem negCount_decoded (v : Var) (bits : Bits) (k : Nat) (hk : k ≤ v.nq) (hlen : (window v bits).length = v.nq)
    (hw : window v bits = wallWindow v.nq k) : negCount v bits = 0 := by
  unfold negCount
  have : ∀ m, m ≤ v.nq + 1 → negCountTo v bits m = 0 := by
    intro m
    induction m with
    | zero => intro _; rfl
    | succ j ih =>
      intro hj
      simp only [negCountTo, ih (by omega), Nat.zero_add]
      have hv : vtRaw v bits j ≠ -1 := by
        unfold vtRaw
        rw [zd_decoded v bits k hk hlen hw (j + 1) (by omega), zd_decoded v bits k hk hlen hw j (by omega)]
        by_cases h1 : j + 1 ≤ k
        · have h2 : j ≤ k := by omega
          simp only [h1, h2, ↓reduceIte]; grind
        · by_cases h2 : j ≤ k
          · simp only [h1, h2, ↓reduceIte]; grind
          · simp only [h1, h2, ↓reduceIte]; grind
      simp [hv]
  exact this _ (Nat.le_refl _)

theorem viability_decoded (v : Var) (bits : Bits) (k : Nat) (hk : k ≤ v.nq) (hlen : (window v bits).length = v.nq)
    (hw : window v bits = wallWindow v.nq k) : viability v bits = 0 := by
  by_cases h0 : v.nq = 0
  · exact viability_zero_of_nq_zero v bits h0
  · rw [viability_eq v bits h0, negCount_decoded v bits k hk hlen hw]; simp

end QVerif.Encoder
