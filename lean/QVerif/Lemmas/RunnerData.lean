import QVerif.Lemmas.RunnerInv
open Runner
namespace Runner

/-- the pubs of a call sit in `batch` at `[idx, idx + n)` -/
def sliceOk (batch pubs : List Nat) (idx : Nat) : Prop := (batch.drop idx).take pubs.length = pubs

theorem sliceOk_append {b p : List Nat} {i : Nat} (q : List Nat) (h : sliceOk b p i) : sliceOk (b ++ q) p i := by
  unfold sliceOk at *
  by_cases hi : i ≤ b.length
  · rw [List.drop_append_of_le_length hi]
    have hl : p.length ≤ (b.drop i).length := by
      have := congrArg List.length h
      simp only [List.length_take, List.length_drop] at this ⊢
      omega
    rw [List.take_append_of_le_length hl, h]
  · have : b.drop i = [] := List.drop_eq_nil_of_le (by omega)
    rw [this] at h
    simp at h
    subst h
    simp

theorem sliceOk_end (b p : List Nat) : sliceOk (b ++ p) p b.length := by
  unfold sliceOk
  simp

def Loc.inBatch : Loc → Bool
  | .a2 | .a3 | .a4 | .b0 | .b1 | .b2 | .b3 | .b4 | .c0 | .c1 | .c2 | .d0 | .d1 | .d2 | .g0 | .g1 | .g2 | .g3 | .g4 => true
  | _ => false
def Loc.hasRes : Loc → Bool
  | .d1 | .d2 | .r | .g0 | .g1 | .g2 | .g3 | .g4 | .g5 | .g6 | .g7 => true
  | _ => false
/-- threads whose pubs are laid out in the current `batch` -/
def TS.inBatch (x : TS) : Bool := x.loc.inBatch
/-- threads that hold a gathered outcome -/
def TS.hasRes (x : TS) : Bool := x.loc.hasRes
@[simp] theorem inBatch_mk (l p i e r t o) : TS.inBatch ⟨l, p, i, e, r, t, o⟩ = l.inBatch := rfl
@[simp] theorem hasRes_mk (l p i e r t o) : TS.hasRes ⟨l, p, i, e, r, t, o⟩ = l.hasRes := rfl
theorem inBatch_of_loc {x : TS} {l : Loc} (h : x.loc = l) : x.inBatch = l.inBatch := by simp [TS.inBatch, h]
theorem hasRes_of_loc {x : TS} {l : Loc} (h : x.loc = l) : x.hasRes = l.hasRes := by simp [TS.hasRes, h]

/-- data invariant (on top of `CInv`) -/
structure DInv (s : St) : Prop where
  blenEq : s.blen = s.batch.length
  layout : ∀ t, (s.get t).inBatch = true → sliceOk s.batch (s.get t).pubs (s.get t).idx
  logged : s.outcomeSet = true → (s.batch, gather s) ∈ s.flog
  gathered : ∀ t, (s.get t).hasRes = true →
      ∃ b o, (b, o) ∈ s.flog ∧ (s.get t).loc_res = some o ∧ sliceOk b (s.get t).pubs (s.get t).idx
  emptyLate : ∀ t, (s.get t).loc = .g5 ∨ (s.get t).loc = .g6 → s.batch = []
  emptyOpen : (∀ t, (s.get t).inExec = false) → s.tc = 0 → s.batch = []

theorem dinv_init (th : List TS) (h : ∀ x ∈ th, x.loc = .idle) : DInv { th := th } := by
  have hg : ∀ t, (St.get { th := th } t).loc = .idle := by
    intro t
    simp only [St.get, List.getD_eq_getElem?_getD]
    cases ht : th[t]? with
    | none => simp
    | some x => simpa using h x (List.mem_of_getElem? ht)
  constructor
  · rfl
  · intro t ht; rw [inBatch_of_loc (hg t)] at ht; simp [Loc.inBatch] at ht
  · intro ho; simp [St.outcomeSet] at ho
  · intro t ht; rw [hasRes_of_loc (hg t)] at ht; simp [Loc.hasRes] at ht
  · intro t ht; simp [hg t] at ht
  · intro _ _; rfl


theorem no_exec_of_a1 {s : St} (h : CInv s) (t : Nat) (hloc : (s.get t).loc = .a1) (hV : s.V = none) :
    ∀ a, (s.get a).inExec = false := by
  intro a
  cases ha : (s.get a).inExec with
  | false => rfl
  | true =>
    exfalso
    rcases inExec_holds ha with h1 | h1
    · have := (h.lockV a).mpr h1; simp_all
    · have hEa := (h.lockE a).mpr h1
      have hEt := (h.lockE t).mpr (by rw [holdsE_of_loc hloc]; rfl)
      have : a = t := by simp_all
      subst this
      rw [inExec_of_loc hloc] at ha
      simp [Loc.execOnly, Loc.gath] at ha

section dpres
variable {s s' : St}

theorem dpres_blen (hd : DInv s) (hs : Step s s') : s'.blen = s'.batch.length := by
  have h0 := hd.blenEq
  cases hs <;> simp_all [St.at, St.set]

theorem dpres_layout (hc : CInv s) (hd : DInv s) (hs : Step s s') :
    ∀ u, (s'.get u).inBatch = true → sliceOk s'.batch (s'.get u).pubs (s'.get u).idx := by
  intro u
  have hl := hd.layout u
  have hb := hd.blenEq
  have hmu := member_pos hc u
  have hVu := hc.lockV u
  cases hs
  all_goals (
    rename_i t hlt hloc hg
    have hlt' := hd.layout t
    have hib := @inBatch_of_loc (s.get t) _ hloc
    have hlate := hc.lateTc t
    have h1 := hc.oneExec u t
    have hie := @inExec_of_loc (s.get t) _ hloc
    simp only [St.at, St.set, St.get, getD_set _ _ _ _ hlt] at *
    by_cases hu : u = t
    · subst hu
      simp only [if_true, inBatch_mk]
      rw [hib] at hlt'
      first
        | (intro hh; simp [Loc.inBatch] at hh; done)
        | (intro _; exact hlt' rfl)
        | (intro _; rw [hb]; exact sliceOk_end _ _)
    · simp only [hu, if_false]
      first
        | exact hl
        | (intro hh; exact sliceOk_append _ (hl hh))
        | (intro hh
           exfalso
           have hcases : (s.th.getD u {}).loc.member = true ∨ (s.th.getD u {}).holdsV = true ∨ (s.th.getD u {}).inExec = true := by
             simp only [TS.inBatch] at hh
             simp only [TS.holdsV, TS.inExec]
             generalize (s.th.getD u {}).loc = l at hh ⊢
             cases l <;> simp_all [Loc.inBatch, Loc.member, Loc.vHold, Loc.execOnly]
           rcases hcases with h2 | h2 | h2
           · have := hmu h2; simp_all
           · have := hVu.mpr h2; simp_all
           · rw [hie] at h1; exact hu (h1 h2 rfl)))

theorem dpres_logged (hc : CInv s) (hd : DInv s) (hs : Step s s') :
    s'.outcomeSet = true → (s'.batch, gather s') ∈ s'.flog := by
  have hl := hd.logged
  have hou := hc.outcome
  cases hs
  case a1ok t hlt hloc hg =>
    intro ho
    exfalso
    have hno := no_exec_of_a1 hc t hloc hg
    have : s.outcomeSet = true := by simpa [St.outcomeSet, St.set] using ho
    obtain ⟨w, hw⟩ := hou.mp this
    have := hno w
    rw [inOut_inExec hw] at this
    cases this
  all_goals (
    rename_i t hlt hloc hg
    simp only [St.at, St.set, St.outcomeSet, gather] at *
    first
      | exact hl
      | (intro hh; simp at hh; done)
      | (intro _; simp; done))

theorem dpres_gathered (hc : CInv s) (hd : DInv s) (hs : Step s s') :
    ∀ u, (s'.get u).hasRes = true →
      ∃ b o, (b, o) ∈ s'.flog ∧ (s'.get u).loc_res = some o ∧ sliceOk b (s'.get u).pubs (s'.get u).idx := by
  intro u
  have hg' := hd.gathered u
  cases hs
  all_goals (
    rename_i t hlt hloc hg
    have hgt := hd.gathered t
    have hlay := hd.layout t
    have hlog := hd.logged
    have hgo := hc.gathOutcome t
    have hhr := @hasRes_of_loc (s.get t) _ hloc
    have hib := @inBatch_of_loc (s.get t) _ hloc
    simp only [St.at, St.set, St.get, getD_set _ _ _ _ hlt] at *
    by_cases hu : u = t
    · subst hu
      simp only [if_true, hasRes_mk]
      rw [hhr] at hgt
      first
        | (intro hh; simp [Loc.hasRes] at hh; done)
        | (intro _; exact hgt rfl)
        | (intro _
           obtain ⟨b, o, hm, hr, hsl⟩ := hgt rfl
           exact ⟨b, o, List.mem_append_left _ hm, hr, hsl⟩)
        | (intro _
           rw [hib] at hlay
           exact ⟨s.batch, gather s, hlog (hgo (by rw [hloc]; rfl)), rfl, hlay rfl⟩)
    · simp only [hu, if_false]
      first
        | exact hg'
        | (intro hh
           obtain ⟨b, o, hm, hr, hsl⟩ := hg' hh
           exact ⟨b, o, List.mem_append_left _ hm, hr, hsl⟩))

theorem dpres_emptyLate (hc : CInv s) (hd : DInv s) (hs : Step s s') :
    ∀ u, (s'.get u).loc = .g5 ∨ (s'.get u).loc = .g6 → s'.batch = [] := by
  intro u
  have he := hd.emptyLate u
  cases hs
  case a1ok t hlt hloc hg =>
    have hno := no_exec_of_a1 hc t hloc hg u
    simp only [St.at, St.set, St.get, getD_set _ _ _ _ hlt] at *
    by_cases hu : u = t
    · subst hu; simp
    · simp only [hu, if_false]
      intro hh
      have := late_inExec (Or.inr hh)
      simp_all
  all_goals (
    rename_i t hlt hloc hg
    have het := hd.emptyLate t
    simp only [St.at, St.set, St.get, getD_set _ _ _ _ hlt] at *
    by_cases hu : u = t
    · subst hu
      simp_all
    · simp only [hu, if_false]
      first
        | exact he
        | (intro _; trivial)
        | (intro _; rfl))

theorem dpres_emptyOpen (hc : CInv s) (hd : DInv s) (hs : Step s s') :
    (∀ u, (s'.get u).inExec = false) → s'.tc = 0 → s'.batch = [] := by
  have heo := hd.emptyOpen
  cases hs
  all_goals (
    rename_i t hlt hloc hg
    have hel := hd.emptyLate t
    have hgt := hc.gathOutcome t
    have hie := @inExec_of_loc (s.get t) _ hloc
    have hxt := hc.execFlag t
    have hmp := member_pos hc t
    intro hopen'
    simp only [St.at, St.set] at hopen'
    obtain ⟨hnew, hcase⟩ := open_cases hc t _ hlt hopen'
    rw [hie] at hcase
    simp only [inExec_mk] at hnew
    simp only [St.get] at *
    simp only [St.at, St.set, St.outcomeSet, hloc, Loc.execOnly, Loc.gath, Loc.member] at *
    rcases hcase with ⟨hold, ho, hg0, har⟩ | hx
    · have hopen : ∀ u, (s.th.getD u {}).inExec = false := by
        intro u
        by_cases hu : u = t
        · rw [hu, hie]; simpa using hold
        · have := hopen' u
          rw [getD_set _ _ _ _ hlt] at this
          simpa [hu] using this
      have hb := heo hopen
      first
        | exact hb
        | (intro htc; simp_all; done)
        | (intro htc; exfalso; omega)
        | (intro htc; simp_all; omega)
    · first
        | (simp_all; done)
        | (intro _; exact hel (by simp)))

theorem dinv_step (hc : CInv s) (hd : DInv s) (hs : Step s s') : DInv s' where
  blenEq := dpres_blen hd hs
  layout := dpres_layout hc hd hs
  logged := dpres_logged hc hd hs
  gathered := dpres_gathered hc hd hs
  emptyLate := dpres_emptyLate hc hd hs
  emptyOpen := dpres_emptyOpen hc hd hs

end dpres

theorem dinv_reachable (th0 : List TS) (h0 : ∀ x ∈ th0, x.loc = .idle) {s : St} (hr : Reachable th0 s) :
    CInv s ∧ DInv s := by
  induction hr with
  | init => exact ⟨cinv_init th0 h0, dinv_init th0 h0⟩
  | next a _ hstep ih => exact ⟨cinv_step ih.1 (step_sound _ _ a hstep), dinv_step ih.1 ih.2 (step_sound _ _ a hstep)⟩

/-- C06 / C09: a call that is about to return (location `R`) holds exactly the outcome of one logged call of `f`,
    and the batch handed to `f` in that call contains this call's pubs, in order, at `[idx, idx + n)`.
    So the slice `[idx, idx+n)` of a returned result list is the result for the caller's own pubs, and a caller
    receives an exception iff the `f` call that processed its pubs raised it. -/
theorem returned_is_own (th0 : List TS) (h0 : ∀ x ∈ th0, x.loc = .idle) {s : St} (hr : Reachable th0 s)
    (t : Nat) (ht : (s.get t).loc = .r) :
    ∃ b o, (b, o) ∈ s.flog ∧ (s.get t).loc_res = some o ∧ sliceOk b (s.get t).pubs (s.get t).idx :=
  (dinv_reachable th0 h0 hr).2.gathered t (by rw [hasRes_of_loc ht]; rfl)

/-- every logged outcome is what `f` produced for that very batch: results are positional (`ok batch` in the model,
    i.e. result `i` is the result for pub `i`) -/
theorem log_entries_positional (th0 : List TS) (h0 : ∀ x ∈ th0, x.loc = .idle) {s : St} (hr : Reachable th0 s) :
    ∀ b o, (b, o) ∈ s.flog → o = .ok b ∨ ∃ e, o = .exc e := by
  induction hr with
  | init => intro b o h; simp at h
  | next a _ hstep ih =>
    intro b o hm
    have hs := step_sound _ _ a hstep
    cases hs
    all_goals (
      simp only [St.at, St.set] at hm
      first
        | exact ih b o hm
        | (rcases List.mem_append.mp hm with h1 | h1
           · exact ih b o h1
           · simp at h1; obtain ⟨rfl, rfl⟩ := h1; simp))

/-- C09 (reset): in a quiescent reachable state all shared fields have their initial values, whatever failed before -/
theorem quiescent_reset (th0 : List TS) (h0 : ∀ x ∈ th0, x.loc = .idle) {s : St} (hr : Reachable th0 s)
    (hq : ∀ t, (s.get t).loc = .idle) :
    s.E = none ∧ s.V = none ∧ s.icw = [] ∧ s.ecw = [] ∧ s.tc = 0 ∧ s.ec = 0 ∧ s.g = 0 ∧ s.blen = 0 ∧ s.batch = [] ∧
    s.result = none ∧ s.exn = none := by
  obtain ⟨hc, hd⟩ := dinv_reachable th0 h0 hr
  have hopen : ∀ t, (s.get t).inExec = false := by
    intro t; rw [inExec_of_loc (hq t)]; simp [Loc.execOnly, Loc.gath]
  obtain ⟨ho, hg0, har⟩ := hc.openPh hopen
  have htc : s.tc = 0 := by
    rw [hc.tcCount, List.countP_eq_zero]
    intro x hx
    obtain ⟨i, hi, rfl⟩ := List.getElem_of_mem hx
    have := hq i
    rw [get_eq_getElem s i hi] at this
    simp [TS.isMember, this, Loc.member]
  have hE : s.E = none := by
    cases hE : s.E with
    | none => rfl
    | some u => have := (hc.lockE u).mp hE; rw [holdsE_of_loc (hq u)] at this; simp [Loc.eHold, Loc.gath] at this
  have hV : s.V = none := by
    cases hV : s.V with
    | none => rfl
    | some u => have := (hc.lockV u).mp hV; rw [holdsV_of_loc (hq u)] at this; simp [Loc.vHold] at this
  have hi : s.icw = [] := by
    cases hi : s.icw with
    | nil => rfl
    | cons u _ => have := hc.icwLoc u (by simp [hi]); simp [hq u] at this
  have he : s.ecw = [] := by
    cases he : s.ecw with
    | nil => rfl
    | cons u _ => have := hc.ecwLoc u (by simp [he]); simp [hq u] at this
  have hb := hd.emptyOpen hopen htc
  have hbl := hd.blenEq
  simp only [St.outcomeSet, Bool.or_eq_false_iff, Option.isSome_eq_false_iff, Option.isNone_iff_eq_none] at ho
  refine ⟨hE, hV, hi, he, htc, ?_, hg0, ?_, hb, ho.1, ho.2⟩
  · omega
  · rw [hbl, hb]; rfl

end Runner
