import QVerif.Lemmas.RunnerProg
import QVerif.Lemmas.RunnerLive
open Runner
namespace Runner

/-! ### A measure that no step increases: only the two timed retry loops can make an execution long

`RunnerProg.rank` decreases along a completion *strategy*.  Here the locations of the entry retry loop
(`a0 a1 a7 a8 a9`: try-lock failed → release → timed wait → try again) and of the executor's drain loop
(`g0 g1 g2 g3`: timed wait → re-notify → check again) get one rank each, so that EVERY step — under any scheduler —
either strictly decreases `(callsLeft, phi2)` or is an iteration step of one of those two loops that leaves it unchanged
or lower. -/

def Loc.retry : Loc → Bool
  | .a0 | .a1 | .a7 | .a8 | .a9 | .g0 | .g1 | .g2 | .g3 => true
  | _ => false

def rank2 (s : St) (u : Nat) : Nat :=
  match (s.get u).loc with
  | .idle => if (s.get u).todo.isEmpty then 0 else 60
  | .a0 => 58 | .a1 => 58 | .a7 => 58 | .a8 => 58 | .a9 => 58
  | .a2 => 57 | .a3 => 56 | .a4 => 55 | .b0 => 54 | .b1 => 53
  | .b2 => 52 | .b3 => 51 | .b4 => 50
  | .c0 => 52 | .c1 => 51
  | .c2 => if u ∈ s.icw then 50 else 41
  | .d0 => 40 | .d1 => 39 | .d2 => 38
  | .g0 => 36 | .g1 => 36 | .g2 => 36 | .g3 => 36
  | .g4 => 20 | .g5 => 19 | .g6 => 18 | .g7 => 17
  | .r => 1

def phi2 (s : St) : Nat := sumUpTo (rank2 s) s.th.length

def muLt2 (s' s : St) : Prop := callsLeft s' < callsLeft s ∨ (callsLeft s' = callsLeft s ∧ phi2 s' < phi2 s)

/-- an iteration step of one of the two timed retry loops: the measure does not go up -/
def RetryStep (s s' : St) : Prop :=
  callsLeft s' = callsLeft s ∧ phi2 s' ≤ phi2 s ∧ ∃ t, (s.get t).loc.retry = true ∧ (s'.get t).loc.retry = true

theorem rank2_other_le (s s' : St) (u : Nat) (hget : s'.get u = s.get u)
    (hi : (s.get u).loc = .c2 → u ∈ s'.icw → u ∈ s.icw) : rank2 s' u ≤ rank2 s u := by
  unfold rank2
  rw [hget]
  cases hl : (s.get u).loc <;> simp only [hl] at * <;> grind

theorem nu_lt (s s' : St) (t : Nat) (hlt : t < s.th.length) (hlen : s'.th.length = s.th.length)
    (hoth : ∀ u, u ≠ t → s'.get u = s.get u) (hcall : callW (s'.get t) = callW (s.get t))
    (hown : rank2 s' t < rank2 s t)
    (hi : ∀ u, u ≠ t → (s.get u).loc = .c2 → u ∈ s'.icw → u ∈ s.icw) : muLt2 s' s := by
  right
  refine ⟨(callsLeft_update s s' t hlt hlen hoth).1 hcall, ?_⟩
  unfold phi2
  rw [hlen]
  apply sumUpTo_lt hlt hown
  intro u _ hu
  exact rank2_other_le s s' u (hoth u hu) (hi u hu)

theorem nu_le (s s' : St) (t : Nat) (hlt : t < s.th.length) (hlen : s'.th.length = s.th.length)
    (hoth : ∀ u, u ≠ t → s'.get u = s.get u) (hcall : callW (s'.get t) = callW (s.get t))
    (hown : rank2 s' t ≤ rank2 s t) (hr1 : (s.get t).loc.retry = true) (hr2 : (s'.get t).loc.retry = true)
    (hi : ∀ u, u ≠ t → (s.get u).loc = .c2 → u ∈ s'.icw → u ∈ s.icw) : RetryStep s s' := by
  refine ⟨(callsLeft_update s s' t hlt hlen hoth).1 hcall, ?_, t, hr1, hr2⟩
  unfold phi2
  rw [hlen]
  apply sumUpTo_le
  intro u _
  by_cases hu : u = t
  · subst hu; exact hown
  · exact rank2_other_le s s' u (hoth u hu) (hi u hu)

/-- the eleven retry-loop steps of thread `t`, with the state they lead to -/
inductive RetryShape (s : St) (t : Nat) : St → Prop
  | a0 (hloc : (s.get t).loc = .a0) (hg : s.E = none) : RetryShape s t ({ s with E := some t }.at t .a1)
  | a1fail (hloc : (s.get t).loc = .a1) (hg : s.V ≠ none) : RetryShape s t (s.at t .a7)
  | a7 (hloc : (s.get t).loc = .a7) (hg : True) : RetryShape s t ({ s with E := none }.at t .a8)
  | a8 (hloc : (s.get t).loc = .a8) (hg : True) : RetryShape s t ({ s with ecw := s.ecw ++ [t] }.at t .a9)
  | a9 (hloc : (s.get t).loc = .a9) (hg : t ∉ s.ecw) : RetryShape s t (s.at t .a0)
  | a9timeout (hloc : (s.get t).loc = .a9) (hg : t ∈ s.ecw) : RetryShape s t ({ s with ecw := s.ecw.erase t }.at t .a0)
  | g0wait (hloc : (s.get t).loc = .g0) (hg : s.tc > 0) : RetryShape s t (s.at t .g1)
  | g1 (hloc : (s.get t).loc = .g1) (hg : True) : RetryShape s t ({ s with icw := s.icw ++ [t] }.at t .g2)
  | g2 (hloc : (s.get t).loc = .g2) (hg : t ∉ s.icw) : RetryShape s t (s.at t .g3)
  | g2timeout (hloc : (s.get t).loc = .g2) (hg : t ∈ s.icw) : RetryShape s t ({ s with icw := s.icw.erase t }.at t .g3)
  | g3 (hloc : (s.get t).loc = .g3) (hg : True) : RetryShape s t ({ s with icw := s.icw.tail }.at t .g0)

/-- **Every step strictly decreases the measure or is a retry-loop step** (of a thread `t`, in one of eleven shapes).  No
fairness, no strategy, no invariant needed. -/
theorem nu_of_step_shape {s s' : St} (hs : Step s s') :
    muLt2 s' s ∨ (RetryStep s s' ∧ ∃ t, t < s.th.length ∧ RetryShape s t s') := by
  cases hs
  case ret t hlt hloc hg =>
    have hloc' : (s.th.getD t {}).loc = _ := hloc
    left; left
    refine (callsLeft_update s _ t hlt (by simp [St.set])
      (fun u hu => by simp only [St.set, St.get, getD_set _ _ _ _ hlt, hu, if_false])).2 ?_
    simp only [St.set, St.get, getD_set _ _ _ _ hlt, if_true, callW, hloc']
    simp
  case start t hlt hloc hg =>
    have hloc' : (s.th.getD t {}).loc = _ := hloc
    have hg' : (s.th.getD t {}).todo ≠ [] := hg
    left
    refine nu_lt s _ t hlt (by simp [St.set])
      (fun u hu => by simp only [St.set, St.get, getD_set _ _ _ _ hlt, hu, if_false]) ?_ ?_ ?_
    · simp only [St.set, St.get, getD_set _ _ _ _ hlt, if_true, callW, hloc']
      cases htd : (s.th.getD t {}).todo with
      | nil => exact absurd htd hg'
      | cons a l => simp
    · unfold rank2
      simp only [St.set, St.get, getD_set _ _ _ _ hlt, if_true, hloc']
      have : (s.th.getD t {}).todo.isEmpty = false := by
        cases htd : (s.th.getD t {}).todo with
        | nil => exact absurd htd hg'
        | cons a l => rfl
      simp only [this, Bool.false_eq_true, if_false]; decide
    · intro u hu h1 h2; exact h2
  -- the retry-loop steps
  case a0 t hlt hloc hg =>
    have hloc' : (s.th.getD t {}).loc = _ := hloc
    right
    refine ⟨?_, t, hlt, RetryShape.a0 hloc hg⟩
    refine nu_le s _ t hlt (by simp [St.at, St.set])
      (fun u hu => by simp only [St.at, St.set, St.get, getD_set _ _ _ _ hlt, hu, if_false]) ?_ ?_ ?_ ?_ ?_
    · simp only [St.at, St.set, St.get, getD_set _ _ _ _ hlt, if_true, callW, hloc']; simp
    · unfold rank2; simp only [St.at, St.set, St.get, getD_set _ _ _ _ hlt, if_true, hloc']; simp
    · rw [hloc]; rfl
    · simp only [St.at, St.set, St.get, getD_set _ _ _ _ hlt, if_true]; rfl
    · intro u hu h1 h2; exact h2
  case a1fail t hlt hloc hg =>
    have hloc' : (s.th.getD t {}).loc = _ := hloc
    right
    refine ⟨?_, t, hlt, RetryShape.a1fail hloc hg⟩
    refine nu_le s _ t hlt (by simp [St.at, St.set])
      (fun u hu => by simp only [St.at, St.set, St.get, getD_set _ _ _ _ hlt, hu, if_false]) ?_ ?_ ?_ ?_ ?_
    · simp only [St.at, St.set, St.get, getD_set _ _ _ _ hlt, if_true, callW, hloc']; simp
    · unfold rank2; simp only [St.at, St.set, St.get, getD_set _ _ _ _ hlt, if_true, hloc']; simp
    · rw [hloc]; rfl
    · simp only [St.at, St.set, St.get, getD_set _ _ _ _ hlt, if_true]; rfl
    · intro u hu h1 h2; exact h2
  case a7 t hlt hloc hg =>
    have hloc' : (s.th.getD t {}).loc = _ := hloc
    right
    refine ⟨?_, t, hlt, RetryShape.a7 hloc hg⟩
    refine nu_le s _ t hlt (by simp [St.at, St.set])
      (fun u hu => by simp only [St.at, St.set, St.get, getD_set _ _ _ _ hlt, hu, if_false]) ?_ ?_ ?_ ?_ ?_
    · simp only [St.at, St.set, St.get, getD_set _ _ _ _ hlt, if_true, callW, hloc']; simp
    · unfold rank2; simp only [St.at, St.set, St.get, getD_set _ _ _ _ hlt, if_true, hloc']; simp
    · rw [hloc]; rfl
    · simp only [St.at, St.set, St.get, getD_set _ _ _ _ hlt, if_true]; rfl
    · intro u hu h1 h2; exact h2
  case a8 t hlt hloc hg =>
    have hloc' : (s.th.getD t {}).loc = _ := hloc
    right
    refine ⟨?_, t, hlt, RetryShape.a8 hloc hg⟩
    refine nu_le s _ t hlt (by simp [St.at, St.set])
      (fun u hu => by simp only [St.at, St.set, St.get, getD_set _ _ _ _ hlt, hu, if_false]) ?_ ?_ ?_ ?_ ?_
    · simp only [St.at, St.set, St.get, getD_set _ _ _ _ hlt, if_true, callW, hloc']; simp
    · unfold rank2; simp only [St.at, St.set, St.get, getD_set _ _ _ _ hlt, if_true, hloc']; simp
    · rw [hloc]; rfl
    · simp only [St.at, St.set, St.get, getD_set _ _ _ _ hlt, if_true]; rfl
    · intro u hu h1 h2; exact h2
  case a9 t hlt hloc hg =>
    have hloc' : (s.th.getD t {}).loc = _ := hloc
    right
    refine ⟨?_, t, hlt, RetryShape.a9 hloc hg⟩
    refine nu_le s _ t hlt (by simp [St.at, St.set])
      (fun u hu => by simp only [St.at, St.set, St.get, getD_set _ _ _ _ hlt, hu, if_false]) ?_ ?_ ?_ ?_ ?_
    · simp only [St.at, St.set, St.get, getD_set _ _ _ _ hlt, if_true, callW, hloc']; simp
    · unfold rank2; simp only [St.at, St.set, St.get, getD_set _ _ _ _ hlt, if_true, hloc']; simp
    · rw [hloc]; rfl
    · simp only [St.at, St.set, St.get, getD_set _ _ _ _ hlt, if_true]; rfl
    · intro u hu h1 h2; exact h2
  case a9timeout t hlt hloc hg =>
    have hloc' : (s.th.getD t {}).loc = _ := hloc
    right
    refine ⟨?_, t, hlt, RetryShape.a9timeout hloc hg⟩
    refine nu_le s _ t hlt (by simp [St.at, St.set])
      (fun u hu => by simp only [St.at, St.set, St.get, getD_set _ _ _ _ hlt, hu, if_false]) ?_ ?_ ?_ ?_ ?_
    · simp only [St.at, St.set, St.get, getD_set _ _ _ _ hlt, if_true, callW, hloc']; simp
    · unfold rank2; simp only [St.at, St.set, St.get, getD_set _ _ _ _ hlt, if_true, hloc']; simp
    · rw [hloc]; rfl
    · simp only [St.at, St.set, St.get, getD_set _ _ _ _ hlt, if_true]; rfl
    · intro u hu h1 h2; exact h2
  case g0wait t hlt hloc hg =>
    have hloc' : (s.th.getD t {}).loc = _ := hloc
    right
    refine ⟨?_, t, hlt, RetryShape.g0wait hloc hg⟩
    refine nu_le s _ t hlt (by simp [St.at, St.set])
      (fun u hu => by simp only [St.at, St.set, St.get, getD_set _ _ _ _ hlt, hu, if_false]) ?_ ?_ ?_ ?_ ?_
    · simp only [St.at, St.set, St.get, getD_set _ _ _ _ hlt, if_true, callW, hloc']; simp
    · unfold rank2; simp only [St.at, St.set, St.get, getD_set _ _ _ _ hlt, if_true, hloc']; simp
    · rw [hloc]; rfl
    · simp only [St.at, St.set, St.get, getD_set _ _ _ _ hlt, if_true]; rfl
    · intro u hu h1 h2; exact h2
  case g1 t hlt hloc hg =>
    have hloc' : (s.th.getD t {}).loc = _ := hloc
    right
    refine ⟨?_, t, hlt, RetryShape.g1 hloc hg⟩
    refine nu_le s _ t hlt (by simp [St.at, St.set])
      (fun u hu => by simp only [St.at, St.set, St.get, getD_set _ _ _ _ hlt, hu, if_false]) ?_ ?_ ?_ ?_ ?_
    · simp only [St.at, St.set, St.get, getD_set _ _ _ _ hlt, if_true, callW, hloc']; simp
    · unfold rank2; simp only [St.at, St.set, St.get, getD_set _ _ _ _ hlt, if_true, hloc']; simp
    · rw [hloc]; rfl
    · simp only [St.at, St.set, St.get, getD_set _ _ _ _ hlt, if_true]; rfl
    · intro u hu h1 h2
      simp only [St.at, St.set] at h2
      rcases List.mem_append.mp h2 with h3 | h3
      · exact h3
      · simp at h3; exact absurd h3 hu
  case g2 t hlt hloc hg =>
    have hloc' : (s.th.getD t {}).loc = _ := hloc
    right
    refine ⟨?_, t, hlt, RetryShape.g2 hloc hg⟩
    refine nu_le s _ t hlt (by simp [St.at, St.set])
      (fun u hu => by simp only [St.at, St.set, St.get, getD_set _ _ _ _ hlt, hu, if_false]) ?_ ?_ ?_ ?_ ?_
    · simp only [St.at, St.set, St.get, getD_set _ _ _ _ hlt, if_true, callW, hloc']; simp
    · unfold rank2; simp only [St.at, St.set, St.get, getD_set _ _ _ _ hlt, if_true, hloc']; simp
    · rw [hloc]; rfl
    · simp only [St.at, St.set, St.get, getD_set _ _ _ _ hlt, if_true]; rfl
    · intro u hu h1 h2; exact h2
  case g2timeout t hlt hloc hg =>
    have hloc' : (s.th.getD t {}).loc = _ := hloc
    right
    refine ⟨?_, t, hlt, RetryShape.g2timeout hloc hg⟩
    refine nu_le s _ t hlt (by simp [St.at, St.set])
      (fun u hu => by simp only [St.at, St.set, St.get, getD_set _ _ _ _ hlt, hu, if_false]) ?_ ?_ ?_ ?_ ?_
    · simp only [St.at, St.set, St.get, getD_set _ _ _ _ hlt, if_true, callW, hloc']; simp
    · unfold rank2; simp only [St.at, St.set, St.get, getD_set _ _ _ _ hlt, if_true, hloc']; simp
    · rw [hloc]; rfl
    · simp only [St.at, St.set, St.get, getD_set _ _ _ _ hlt, if_true]; rfl
    · intro u hu h1 h2; simp only [St.at, St.set] at h2; exact List.mem_of_mem_erase h2
  case g3 t hlt hloc hg =>
    have hloc' : (s.th.getD t {}).loc = _ := hloc
    right
    refine ⟨?_, t, hlt, RetryShape.g3 hloc hg⟩
    refine nu_le s _ t hlt (by simp [St.at, St.set])
      (fun u hu => by simp only [St.at, St.set, St.get, getD_set _ _ _ _ hlt, hu, if_false]) ?_ ?_ ?_ ?_ ?_
    · simp only [St.at, St.set, St.get, getD_set _ _ _ _ hlt, if_true, callW, hloc']; simp
    · unfold rank2; simp only [St.at, St.set, St.get, getD_set _ _ _ _ hlt, if_true, hloc']; simp
    · rw [hloc]; rfl
    · simp only [St.at, St.set, St.get, getD_set _ _ _ _ hlt, if_true]; rfl
    · intro u hu h1 h2; simp only [St.at, St.set] at h2; exact List.mem_of_mem_tail h2
  -- every other step strictly decreases the measure
  all_goals (
    rename_i t hlt hloc hg
    have hloc' : (s.th.getD t {}).loc = _ := hloc
    left
    refine nu_lt s _ t hlt (by simp [St.at, St.set])
      (fun u hu => by simp only [St.at, St.set, St.get, getD_set _ _ _ _ hlt, hu, if_false]) ?_ ?_ ?_
    · simp only [St.at, St.set, St.get, getD_set _ _ _ _ hlt, if_true, callW, hloc']
      simp
    · unfold rank2
      simp only [St.at, St.set, St.get, getD_set _ _ _ _ hlt, if_true, hloc']
      first
        | (simp; done)
        | grind
        | (simp; grind)
    · intro u hu h1
      simp only [St.at, St.set]
      first
        | (intro h2; exact h2)
        | (intro h2; exact List.mem_of_mem_tail h2)
        | (intro h2; simp at h2; done)
        | (intro h2; exact List.mem_of_mem_erase h2)
        | (intro h2; rcases List.mem_append.mp h2 with h3 | h3
           · exact h3
           · simp at h3; exact absurd h3 hu))

theorem nu_of_step {s s' : St} (hs : Step s s') : muLt2 s' s ∨ RetryStep s s' := by
  rcases nu_of_step_shape hs with h | h
  · exact Or.inl h
  · exact Or.inr h.1

/-! ### counting: an execution contains boundedly many steps that are not retry-loop iterations -/

theorem step_len {s s' : St} (hs : Step s s') : s'.th.length = s.th.length := by
  cases hs <;> simp [St.at, St.set]

theorem rank2_le (s : St) (u : Nat) : rank2 s u ≤ 60 := by
  unfold rank2
  cases (s.get u).loc <;> simp only <;> (try split) <;> omega

theorem sumUpTo_bound (f : Nat → Nat) (c : Nat) (h : ∀ u, f u ≤ c) : ∀ n, sumUpTo f n ≤ c * n
  | 0 => by simp [sumUpTo]
  | n + 1 => by
      have := sumUpTo_bound f c h n
      have := h n
      simp only [sumUpTo, Nat.mul_succ]
      omega

theorem phi2_le (s : St) : phi2 s ≤ 60 * s.th.length := sumUpTo_bound _ 60 (rank2_le s) _

/-- the measure as one number: each unfinished call weighs more than all ranks together -/
def weight (s : St) : Nat := callsLeft s * (60 * s.th.length + 1) + phi2 s

theorem weight_lt {s s' : St} (hs : Step s s') (h : muLt2 s' s) : weight s' < weight s := by
  unfold weight
  rw [step_len hs]
  rcases h with h | ⟨h1, h2⟩
  · have hb := phi2_le s'
    rw [step_len hs] at hb
    have : (callsLeft s' + 1) * (60 * s.th.length + 1) ≤ callsLeft s * (60 * s.th.length + 1) :=
      Nat.mul_le_mul_right _ h
    rw [Nat.add_mul] at this
    omega
  · rw [h1]; omega

theorem weight_le {s s' : St} (hs : Step s s') (h : RetryStep s s') : weight s' ≤ weight s := by
  unfold weight
  rw [step_len hs, h.1]
  have := h.2.1
  omega

/-- an execution with `k` steps that are not retry-loop iterations -/
inductive Path : St → St → Nat → Prop
  | refl (s : St) : Path s s 0
  | work {s s1 s' : St} {k : Nat} : Step s s1 → muLt2 s1 s → Path s1 s' k → Path s s' (k + 1)
  | retry {s s1 s' : St} {k : Nat} : Step s s1 → RetryStep s s1 → Path s1 s' k → Path s s' k

/-- every finite execution of the transition function is such a path -/
theorem path_of_run {s s' : St} (h : Run s s') : ∃ k, Path s s' k := by
  induction h with
  | refl s => exact ⟨0, .refl s⟩
  | cons a ha _ ih =>
    obtain ⟨k, hk⟩ := ih
    have hs := step_sound _ _ a ha
    rcases nu_of_step hs with h | h
    · exact ⟨k + 1, .work hs h hk⟩
    · exact ⟨k, .retry hs h hk⟩

/-- **the number of non-retry steps of ANY execution is bounded by the weight of its first state** -/
theorem path_bound {s s' : St} {k : Nat} (h : Path s s' k) : k + weight s' ≤ weight s := by
  induction h with
  | refl s => simp
  | work hs hlt _ ih => have := weight_lt hs hlt; omega
  | retry hs hr _ ih => have := weight_le hs hr; omega

end Runner
