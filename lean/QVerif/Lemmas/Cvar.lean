import QVerif.Model.Cvar

/-! Helper lemmas for C14: the greedy fill of a value-sorted distribution is the cheapest feasible fill. -/

namespace QVerif.Cvar

def mass : Dist → Rat
  | [] => 0
  | (p, _) :: t => p + mass t

/-- value of an explicit fill -/
def fillVal : Dist → List Rat → Rat
  | (_, v) :: t, q :: qs => q * v + fillVal t qs
  | _, _ => 0

def qsum : List Rat → Rat
  | [] => 0
  | q :: qs => q + qsum qs

/-- `qs` is a feasible fill of `l`: `0 ≤ qᵢ ≤ pᵢ` position-wise -/
def Feas : Dist → List Rat → Prop
  | [], [] => True
  | (p, _) :: t, q :: qs => 0 ≤ q ∧ q ≤ p ∧ Feas t qs
  | _, _ => False

def AllGe (m : Rat) : Dist → Prop
  | [] => True
  | (p, v) :: t => 0 ≤ p ∧ m ≤ v ∧ AllGe m t

def Sorted : Dist → Prop
  | [] => True
  | (p, v) :: t => 0 ≤ p ∧ AllGe v t ∧ Sorted t

def NonnegProbs (l : Dist) : Prop := ∀ x ∈ l, 0 ≤ x.1

theorem allGe_mono {m m' : Rat} (h : m' ≤ m) : ∀ l, AllGe m l → AllGe m' l
  | [], _ => trivial
  | (p, v) :: t, ⟨hp, hv, ht⟩ => ⟨hp, by grind, allGe_mono h t ht⟩

/-- extra mass `d` costs at least `m` per unit when all values are ≥ m -/
theorem greedy_more (m : Rat) : ∀ (l : Dist) (a d : Rat), AllGe m l → 0 ≤ a → 0 ≤ d → a + d ≤ mass l →
    greedy l a + d * m ≤ greedy l (a + d)
  | [], a, d, _, ha, hd, hm => by
      simp only [mass] at hm
      have : d = 0 := by grind
      subst this; simp [greedy]; grind
  | (p, v) :: t, a, d, ⟨hp, hv, ht⟩, ha, hd, hm => by
      simp only [greedy, mass] at *
      by_cases h1 : a + d ≤ p
      · have e1 : min a p = a := by grind
        have e2 : min (a + d) p = a + d := by grind
        rw [e1, e2]
        have : greedy t (a - a) = greedy t (a + d - (a + d)) := by congr 1; grind
        rw [this]
        have : d * m ≤ d * v := by exact Rat.mul_le_mul_of_nonneg_left hv hd
        grind
      · by_cases h2 : a ≤ p
        · have e1 : min a p = a := by grind
          have e2 : min (a + d) p = p := by grind
          rw [e1, e2]
          have hsp := greedy_more m t 0 (a + d - p) ht (by grind) (by grind) (by grind)
          have z : greedy t (a - a) = greedy t 0 := by congr 1; grind
          have z2 : greedy t (0 + (a + d - p)) = greedy t (a + d - p) := by congr 1; grind
          rw [z]; rw [z2] at hsp
          have : (p - a) * m ≤ (p - a) * v := Rat.mul_le_mul_of_nonneg_left hv (by grind)
          grind
        · have e1 : min a p = p := by grind
          have e2 : min (a + d) p = p := by grind
          rw [e1, e2]
          have hsp := greedy_more m t (a - p) d ht (by grind) hd (by grind)
          have z2 : greedy t (a - p + d) = greedy t (a + d - p) := by congr 1; grind
          rw [z2] at hsp
          grind

theorem feas_bounds : ∀ (l : Dist) (qs : List Rat), Feas l qs → 0 ≤ qsum qs ∧ qsum qs ≤ mass l
  | [], [], _ => by simp [qsum, mass]
  | [], _ :: _, h => by simp [Feas] at h
  | _ :: _, [], h => by simp [Feas] at h
  | (p, v) :: t, q :: qs, ⟨h0, h1, ht⟩ => by
      have := feas_bounds t qs ht
      simp only [qsum, mass]; grind

/-- the greedy fill of a list sorted by value is no more expensive than any feasible fill of the same mass -/
theorem greedy_le_fill : ∀ (l : Dist) (qs : List Rat), Sorted l → Feas l qs →
    greedy l (qsum qs) ≤ fillVal l qs
  | [], [], _, _ => by simp [greedy, fillVal]
  | [], _ :: _, _, h => by simp [Feas] at h
  | _ :: _, [], _, h => by simp [Feas] at h
  | (p, v) :: t, q :: qs, ⟨hp, hge, hs⟩, ⟨h0, h1, ht⟩ => by
      have ih := greedy_le_fill t qs hs ht
      have hb := feas_bounds t qs ht
      simp only [greedy, fillVal, qsum]
      have hg0 : q ≤ min (q + qsum qs) p := by grind
      have hg1 : min (q + qsum qs) p ≤ q + qsum qs := by grind
      have hm := greedy_more v t (q + qsum qs - min (q + qsum qs) p) (min (q + qsum qs) p - q) hge (by grind) (by grind) (by grind)
      have z : greedy t (q + qsum qs - min (q + qsum qs) p + (min (q + qsum qs) p - q)) = greedy t (qsum qs) := by congr 1; grind
      rw [z] at hm
      grind

/-! ### the greedy fill as an explicit witness -/

def greedyFill : Dist → Rat → List Rat
  | [], _ => []
  | (p, _) :: t, a => min a p :: greedyFill t (a - min a p)

theorem greedyFill_feas : ∀ (l : Dist) (a : Rat), NonnegProbs l → 0 ≤ a → Feas l (greedyFill l a)
  | [], _, _, _ => trivial
  | (p, v) :: t, a, hn, ha => by
      have hp : 0 ≤ p := hn (p, v) (by simp)
      refine ⟨by grind, by grind, greedyFill_feas t _ (fun x hx => hn x (List.mem_cons_of_mem _ hx)) (by grind)⟩

theorem mass_nonneg : ∀ (l : Dist), NonnegProbs l → 0 ≤ mass l
  | [], _ => by simp [mass]
  | (p, v) :: t, hn => by
      have hp : 0 ≤ p := hn (p, v) (by simp)
      have := mass_nonneg t (fun x hx => hn x (List.mem_cons_of_mem _ hx))
      simp only [mass]; grind

theorem greedyFill_sum : ∀ (l : Dist) (a : Rat), NonnegProbs l → 0 ≤ a → a ≤ mass l → qsum (greedyFill l a) = a
  | [], a, _, ha, hm => by simp only [mass] at hm; simp only [greedyFill, qsum]; grind
  | (p, v) :: t, a, hn, ha, hm => by
      have hp : 0 ≤ p := hn (p, v) (by simp)
      have hmt := mass_nonneg t (fun x hx => hn x (List.mem_cons_of_mem _ hx))
      simp only [mass] at hm
      simp only [greedyFill, qsum]
      rw [greedyFill_sum t _ (fun x hx => hn x (List.mem_cons_of_mem _ hx)) (by grind) (by grind)]
      grind

theorem greedyFill_val : ∀ (l : Dist) (a : Rat), fillVal l (greedyFill l a) = greedy l a
  | [], _ => rfl
  | (p, v) :: t, a => by simp only [greedyFill, fillVal, greedy]; rw [greedyFill_val t]

/-! ### fills are insensitive to the order of the distribution -/

/-- `x` is the value of some feasible fill of `l` with total mass `a` -/
def IsFillValue (l : Dist) (a x : Rat) : Prop := ∃ qs, Feas l qs ∧ qsum qs = a ∧ fillVal l qs = x

theorem isFillValue_perm {l l' : Dist} (hp : l.Perm l') : ∀ a x, IsFillValue l a x → IsFillValue l' a x := by
  induction hp with
  | nil => intro a x h; exact h
  | cons y _ ih =>
    rintro a x ⟨qs, hf, hs, hv⟩
    obtain ⟨p, v⟩ := y
    cases qs with
    | nil => simp [Feas] at hf
    | cons q qs =>
      obtain ⟨h0, h1, ht⟩ := hf
      obtain ⟨qs', hf', hs', hv'⟩ := ih (qsum qs) (fillVal _ qs) ⟨qs, ht, rfl, rfl⟩
      refine ⟨q :: qs', ⟨h0, h1, hf'⟩, ?_, ?_⟩
      · simp only [qsum] at hs ⊢; rw [hs']; exact hs
      · simp only [fillVal] at hv ⊢; rw [hv']; exact hv
  | swap y z t =>
    rintro a x ⟨qs, hf, hs, hv⟩
    obtain ⟨p1, v1⟩ := y
    obtain ⟨p2, v2⟩ := z
    match qs, hf with
    | q2 :: q1 :: qs, ⟨h20, h21, h10, h11, ht⟩ =>
      refine ⟨q1 :: q2 :: qs, ⟨h10, h11, h20, h21, ht⟩, ?_, ?_⟩
      · simp only [qsum] at hs ⊢; grind
      · simp only [fillVal] at hv ⊢; grind
  | trans _ _ ih1 ih2 => intro a x h; exact ih2 a x (ih1 a x h)

theorem mass_perm {l l' : Dist} (hp : l.Perm l') : mass l = mass l' := by
  induction hp with
  | nil => rfl
  | cons y _ ih => obtain ⟨p, v⟩ := y; simp only [mass]; rw [ih]
  | swap y z t => obtain ⟨p1, v1⟩ := y; obtain ⟨p2, v2⟩ := z; simp only [mass]; grind
  | trans _ _ ih1 ih2 => rw [ih1, ih2]

theorem plainExpectation_perm {l l' : Dist} (hp : l.Perm l') : plainExpectation l = plainExpectation l' := by
  induction hp with
  | nil => rfl
  | cons y _ ih => obtain ⟨p, v⟩ := y; simp only [plainExpectation]; rw [ih]
  | swap y z t => obtain ⟨p1, v1⟩ := y; obtain ⟨p2, v2⟩ := z; simp only [plainExpectation]; grind
  | trans _ _ ih1 ih2 => rw [ih1, ih2]

/-! ### sorting -/

theorem sortByValue_perm (l : Dist) : (sortByValue l).Perm l := List.mergeSort_perm l _

theorem sortByValue_pairwise (l : Dist) : (sortByValue l).Pairwise (fun a b => a.2 ≤ b.2) := by
  have h := List.pairwise_mergeSort (le := fun (a b : Rat × Rat) => decide (a.2 ≤ b.2))
    (by intro a b c; simp only [decide_eq_true_eq]; grind)
    (by intro a b; simp only [Bool.or_eq_true, decide_eq_true_eq]; grind) l
  exact h.imp (by intro a b; simp)

theorem sorted_of_pairwise : ∀ (l : Dist), NonnegProbs l → l.Pairwise (fun a b => a.2 ≤ b.2) → Sorted l
  | [], _, _ => trivial
  | (p, v) :: t, hn, hp => by
      have hp' := List.pairwise_cons.mp hp
      have hnt : NonnegProbs t := fun x hx => hn x (List.mem_cons_of_mem _ hx)
      refine ⟨hn (p, v) (by simp), ?_, sorted_of_pairwise t hnt hp'.2⟩
      have : ∀ (t : Dist), NonnegProbs t → (∀ b ∈ t, v ≤ b.2) → AllGe v t := by
        intro t
        induction t with
        | nil => intro _ _; trivial
        | cons b t ih =>
          intro hn hb
          obtain ⟨pb, vb⟩ := b
          exact ⟨hn (pb, vb) (by simp), hb (pb, vb) (by simp),
            ih (fun x hx => hn x (List.mem_cons_of_mem _ hx)) (fun b hb' => hb b (List.mem_cons_of_mem _ hb'))⟩
      exact this t hnt hp'.1

theorem nonneg_perm {l l' : Dist} (hp : l.Perm l') (h : NonnegProbs l) : NonnegProbs l' :=
  fun x hx => h x (hp.mem_iff.mpr hx)

theorem sortByValue_sorted (l : Dist) (hn : NonnegProbs l) : Sorted (sortByValue l) :=
  sorted_of_pairwise _ (nonneg_perm (sortByValue_perm l).symm hn) (sortByValue_pairwise l)

/-- sorting an already value-sorted list changes nothing (the operator path sorts twice) -/
theorem sortByValue_idem (l : Dist) : sortByValue (sortByValue l) = sortByValue l := by
  apply List.mergeSort_of_pairwise
  exact (sortByValue_pairwise l).imp (by intro a b h; simpa using h)

/-! ### taking the whole mass gives the plain expectation -/

theorem greedy_full : ∀ (l : Dist) (a : Rat), NonnegProbs l → mass l ≤ a → greedy l a = plainExpectation l
  | [], _, _, _ => rfl
  | (p, v) :: t, a, hn, hm => by
      have hp : 0 ≤ p := hn (p, v) (by simp)
      have hnt : NonnegProbs t := fun x hx => hn x (List.mem_cons_of_mem _ hx)
      have hmt : 0 ≤ mass t := mass_nonneg t hnt
      simp only [mass] at hm
      simp only [greedy, plainExpectation]
      have e : min a p = p := by grind
      rw [e, greedy_full t (a - p) hnt (by grind)]

/-! ### lower bound -/

theorem fillVal_ge (m : Rat) : ∀ (l : Dist) (qs : List Rat), (∀ x ∈ l, m ≤ x.2) → Feas l qs → qsum qs * m ≤ fillVal l qs
  | [], [], _, _ => by simp [qsum, fillVal]
  | [], _ :: _, _, h => by simp [Feas] at h
  | _ :: _, [], _, h => by simp [Feas] at h
  | (p, v) :: t, q :: qs, hm, ⟨h0, _, ht⟩ => by
      have ih := fillVal_ge m t qs (fun x hx => hm x (List.mem_cons_of_mem _ hx)) ht
      have hv : m ≤ v := hm (p, v) (by simp)
      have : q * m ≤ q * v := Rat.mul_le_mul_of_nonneg_left hv h0
      simp only [qsum, fillVal]; grind

/-! ### scaling a fill -/

theorem feas_scale (c : Rat) (hc0 : 0 ≤ c) (hc1 : c ≤ 1) : ∀ (l : Dist) (qs : List Rat), Feas l qs → Feas l (qs.map (c * ·))
  | [], [], _ => trivial
  | [], _ :: _, h => by simp [Feas] at h
  | _ :: _, [], h => by simp [Feas] at h
  | (p, v) :: t, q :: qs, ⟨h0, h1, ht⟩ => by
      refine ⟨Rat.mul_nonneg hc0 h0, ?_, feas_scale c hc0 hc1 t qs ht⟩
      have : c * q ≤ 1 * q := Rat.mul_le_mul_of_nonneg_right hc1 h0
      grind

theorem qsum_scale (c : Rat) : ∀ qs : List Rat, qsum (qs.map (c * ·)) = c * qsum qs
  | [] => by simp [qsum]
  | q :: qs => by simp only [List.map_cons, qsum]; rw [qsum_scale c qs]; grind

theorem fillVal_scale (c : Rat) : ∀ (l : Dist) (qs : List Rat), fillVal l (qs.map (c * ·)) = c * fillVal l qs
  | [], _ => by simp [fillVal]
  | _ :: _, [] => by simp [fillVal]
  | (p, v) :: t, q :: qs => by simp only [List.map_cons, fillVal]; rw [fillVal_scale c t qs]; grind

end QVerif.Cvar
