import QVerif.Model.Codec

/-! Helper lemmas for the codec round trips (C18). -/

namespace QVerif.Codec

theorem mapE_map {β} (f : V → Except Err β) (g : β → V) (h : ∀ b, f (g b) = .ok b) :
    ∀ l : List β, mapE f (l.map g) = .ok l
  | [] => rfl
  | b :: t => by
      have ih := mapE_map f g h t
      simp [mapE, h, ih]

theorem mapE_map' {α β γ} (f : α → Except Err β) (g : γ → α) (k : γ → β) (l : List γ)
    (h : ∀ c ∈ l, f (g c) = .ok (k c)) : mapE f (l.map g) = .ok (l.map k) := by
  induction l with
  | nil => rfl
  | cons c t ih =>
    have h1 := h c (by simp)
    have h2 := ih (fun c hc => h c (by simp [hc]))
    simp [mapE, h1, h2]

theorem decList_map {α} (hook : Hook) (f : α → J) (g : α → V) (l : List α)
    (h : ∀ a ∈ l, dec hook (f a) = .ok (g a)) : decList hook (l.map f) = .ok (l.map g) := by
  induction l with
  | nil => simp [decList]
  | cons a t ih =>
    have h1 := h a (by simp)
    have h2 := ih (fun a ha => h a (by simp [ha]))
    simp [decList, h1, h2]

/-! ### `dict(pairs)` of pairwise different keys is the list of pairs -/

theorem pyDictFrom_distinct {α β} (keq : α → α → Bool) : ∀ (l acc : List (α × β)),
    DistinctKeys keq (acc ++ l) → pyDictFrom keq acc l = acc ++ l
  | [], acc, _ => by simp [pyDictFrom]
  | p :: t, acc, h => by
      have hnot : acc.any (fun q => keq q.1 p.1) = false := by
        rw [List.any_eq_false]
        intro q hq
        have := (List.pairwise_append.mp h).2.2 q hq p (by simp)
        simp [this]
      have : pyDictFrom keq acc (p :: t) = pyDictFrom keq (acc ++ [p]) t := by
        simp [pyDictFrom, dictInsert, hnot]
      rw [this, pyDictFrom_distinct keq t (acc ++ [p]) (by simpa using h)]
      simp

theorem pyDict_distinct {α β} (keq : α → α → Bool) (l : List (α × β)) (h : DistinctKeys keq l) :
    pyDict keq l = l := by
  have := pyDictFrom_distinct keq l [] (by simpa using h)
  simpa [pyDict] using this

end QVerif.Codec
